package rules

import (
	"fmt"
	"strings"
	"testing"

	"golang.org/x/tools/go/ssa"
	"mocverif/internal/an"
	"mocverif/internal/core"
)

func TestDbg(t *testing.T) {
	P, err := core.Load("/repo")
	if err != nil {
		t.Fatal(err)
	}
	dec := P.Method(P.Root, "ReqFilter", "UnmarshalJSON")
	var target *ssa.BasicBlock
	an.Instrs(dec, func(in ssa.Instruction) {
		if mu, ok := in.(*ssa.MapUpdate); ok && strings.HasSuffix(an.PathOf(mu.Map), ".Tags") {
			target = mu.Block()
		}
	})
	paths, ok := an.PathsTo(dec, target, 4096)
	fmt.Println(len(paths), ok, target.Index)
	for i, p := range paths {
		if i > 3 {
			break
		}
		var s []string
		for _, b := range p {
			s = append(s, fmt.Sprint(b.Index))
		}
		fmt.Println(strings.Join(s, " "))
		for _, c := range p.Conds() {
			fmt.Println("   ", an.PathOf(c.V), c.True)
		}
	}
}
