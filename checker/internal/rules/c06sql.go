package rules

import (
	"go/token"
	"go/types"
	"strings"

	"golang.org/x/tools/go/ssa"

	"mocverif/internal/an"
	"mocverif/internal/core"
)

func init() {
	reg(&core.RuleInfo{Name: "SQL-LIM0", Props: []string{"C06"}, Engine: "INT", Floor: 1, Confirmed: 1,
		Doc: "goqu Limit(x) is never reached with x == 0 (Limit(0) clears the limit)", Run: runSQLLim0})
	reg(&core.RuleInfo{Name: "SQL-ALIAS", Props: []string{"C06"}, Engine: "PROV", Floor: 2, Confirmed: 2,
		Doc: "computed table aliases are injective under ASCII case folding", Run: runSQLAlias})
}

func sqliteFuncs(c *core.Ctx) []*ssa.Function {
	var out []*ssa.Function
	for _, fn := range c.P.ModFuncs {
		if strings.HasSuffix(c.P.PkgOf(fn), "/handler/sqlite") {
			out = append(out, fn)
		}
	}
	return out
}

func runSQLLim0(c *core.Ctx) {
	P := c.P
	n := 0
	for _, fn := range sqliteFuncs(c) {
		c.CountFuncs(1)
		for _, ci := range calls(fn) {
			call, ok := ci.(*ssa.Call)
			if !ok || !strings.HasSuffix(an.CalleeName(&call.Call), "goqu/v9.SelectDataset).Limit") {
				continue
			}
			n++
			c.CountSites(1)
			x := call.Call.Args[1]
			fr := an.Frame{
				IsSubject: func(v ssa.Value) bool { return v == x || an.PathOf(v) == an.PathOf(x) },
				Term:      func(v ssa.Value) (int64, bool) { return an.ConstInt(v) },
				Domain:    an.Range(0, an.PosInf),
			}
			set, np, ok := fr.ReachSet(fn, call.Block(), nil, nil)
			c.CountPaths(np)
			construct := "call:(*SelectDataset).Limit"
			if !ok {
				c.Unknown(nil, fname(c, fn), construct, P.Pos(call.Pos()), "path enumeration gave up")
				continue
			}
			// the limit applied is min(configured maximum, the filter's own limit)
			xp := an.PathOf(x)
			if len(fn.Params) == 3 {
				lim, mx := "p:"+fn.Params[1].Name(), "p:"+fn.Params[2].Name()
				okMin := strings.Contains(xp, "min("+lim+","+mx+")") || strings.Contains(xp, "min("+mx+","+lim+")") || handMin(fn, x, lim, mx)
				c.Check(okMin && strings.Contains(xp, mx), nil, fname(c, fn), construct+"/value", P.Pos(call.Pos()), "limit ← "+xp, "the limit clause is "+xp+", want min(the filter's limit, the configured maximum) (and the maximum alone when the filter has none)")
			}
			c.Check(!set.Contains(0), nil, fname(c, fn), construct, P.Pos(call.Pos()),
				"argument ∈ "+set.String()+" at the call: 0 excluded",
				"argument ∈ "+set.String()+" at the call: goqu's Limit(0) clears the limit, so a filter with \"limit\":0 returns every matching row")
		}
	}
	if n == 0 {
		c.Unknown(nil, "-", "call:(*SelectDataset).Limit", "-", "no call of goqu Limit in the sqlite package: the limit clause could not be located")
	}
}

// handMin: x is a hand-written minimum `l := mx; if lim != nil && uint(*lim) < l { l = uint(*lim) }` —
// a phi of the maximum and the filter's limit, where the limit's edge is taken only when the
// limit is (strictly or not) below the maximum.
func handMin(fn *ssa.Function, x ssa.Value, lim, mx string) bool {
	ph, ok := an.Unwrap(x).(*ssa.Phi)
	if !ok || len(ph.Edges) < 2 {
		return false
	}
	nMx, nLim := 0, 0
	for i, e := range ph.Edges {
		p := an.PathOf(e)
		switch {
		case p == mx:
			nMx++
		case strings.Contains(p, lim):
			nLim++
			// this edge is taken only when the limit is below (or at) the maximum
			pred := ph.Block().Preds[i]
			gs := an.Guards(fn, pred)
			if iff, isIf := an.LastInstr(pred).(*ssa.If); isIf && len(pred.Succs) == 2 && pred.Succs[0] != pred.Succs[1] {
				gs = append(gs, an.NormCond(an.Cond{V: iff.Cond, True: pred.Succs[0] == ph.Block(), At: pred}))
			}
			below := false
			for _, g := range gs {
				b, isB := g.V.(*ssa.BinOp)
				if !isB {
					continue
				}
				xs, ys := an.PathOf(b.X), an.PathOf(b.Y)
				op := b.Op
				if !g.True {
					op = map[token.Token]token.Token{token.LSS: token.GEQ, token.LEQ: token.GTR, token.GTR: token.LEQ, token.GEQ: token.LSS}[op]
				}
				if xs == p && ys == mx && (op == token.LSS || op == token.LEQ) {
					below = true
				}
				if xs == mx && ys == p && (op == token.GTR || op == token.GEQ) {
					below = true
				}
			}
			if !below {
				return false
			}
		default:
			return false
		}
	}
	return nMx > 0 && nLim > 0
}

// aliasClass classifies the provenance of a computed alias.
func aliasInjective(v ssa.Value) (ok bool, why string) {
	v = an.Unwrap(v)
	switch x := v.(type) {
	case *ssa.Const:
		return true, "constant"
	case *ssa.Call:
		if strings.HasPrefix(an.CalleeName(&x.Call), "fmt.Sprintf") {
			elems, ok := an.VariadicElems(x.Call.Args[1])
			if !ok {
				return false, "Sprintf arguments not resolved"
			}
			for _, e := range elems {
				if isCounter(an.Unwrap(e)) {
					return true, "built from a loop index/counter"
				}
			}
			for _, e := range elems {
				if bt, ok := an.Unwrap(e).Type().Underlying().(*types.Basic); ok && bt.Info()&types.IsString != 0 {
					return false, "built from a string value (" + an.PathOf(e) + "): distinct values that differ only in case give one SQLite identifier"
				}
			}
			return false, "no loop index among the Sprintf arguments"
		}
	case *ssa.BinOp:
		if x.Op == token.ADD {
			for _, side := range []ssa.Value{x.X, x.Y} {
				if _, isConst := side.(*ssa.Const); isConst {
					continue
				}
				if bt, ok := side.Type().Underlying().(*types.Basic); ok && bt.Info()&types.IsString != 0 {
					return false, "constant + string value (" + an.PathOf(side) + "): keys that differ only in case (#e and #E) give one SQLite identifier"
				}
			}
		}
	}
	return false, "alias provenance not recognised: " + an.PathOf(v)
}

// aliasLabel names a computed alias by its constant part.
func aliasLabel(v ssa.Value) string {
	v = an.Unwrap(v)
	switch x := v.(type) {
	case *ssa.Call:
		if len(x.Call.Args) > 0 {
			if s, ok := an.ConstStr(x.Call.Args[0]); ok {
				return s
			}
		}
	case *ssa.BinOp:
		for _, side := range []ssa.Value{x.X, x.Y} {
			if s, ok := an.ConstStr(side); ok {
				return s + "+…"
			}
		}
	}
	return "computed"
}

// isCounter: an integer that is distinct on every iteration of its loop: the
// key of a range over a slice, or a phi advanced by +const in the loop.
func isCounter(v ssa.Value) bool {
	bt, ok := v.Type().Underlying().(*types.Basic)
	if !ok || bt.Info()&types.IsInteger == 0 {
		return false
	}
	switch x := v.(type) {
	case *ssa.BinOp:
		// rangeindex: i = phi(-1, i) + 1
		if x.Op == token.ADD {
			for _, side := range []ssa.Value{x.X, x.Y} {
				if ph, ok := side.(*ssa.Phi); ok {
					for _, e := range ph.Edges {
						if e == ssa.Value(x) {
							return true
						}
					}
				}
			}
		}
	case *ssa.Phi:
		for _, e := range x.Edges {
			if b, ok := e.(*ssa.BinOp); ok && b.Op == token.ADD {
				_, c1 := an.ConstInt(b.Y)
				_, c2 := an.ConstInt(b.X)
				if (b.X == ssa.Value(x) && c1) || (b.Y == ssa.Value(x) && c2) {
					return true
				}
			}
		}
	case *ssa.Extract:
		if nx, ok := x.Tuple.(*ssa.Next); ok && x.Index == 1 {
			_ = nx
			return true
		}
	}
	return false
}

func runSQLAlias(c *core.Ctx) {
	P := c.P
	n := 0
	for _, fn := range sqliteFuncs(c) {
		for _, ci := range calls(fn) {
			call, ok := ci.(*ssa.Call)
			if !ok {
				continue
			}
			name := an.CalleeName(&call.Call)
			if !strings.HasSuffix(name, "IdentifierExpression.As") && !strings.HasSuffix(name, ".As") {
				continue
			}
			if !strings.Contains(name, "goqu") {
				continue
			}
			arg := call.Call.Args[len(call.Call.Args)-1]
			if _, isConst := an.Unwrap(arg).(*ssa.Const); isConst {
				continue // fixed alias: one per sub-select
			}
			if !an.InLoop(call.Block()) {
				continue
			}
			n++
			c.CountSites(1)
			ok2, why := aliasInjective(arg)
			construct := "alias(" + aliasLabel(arg) + ")"
			c.Check(ok2, nil, fname(c, fn), construct, P.Pos(call.Pos()), "looped alias is injective: "+why, "looped alias is not injective as SQLite compares identifiers (ASCII case-insensitively): "+why)
		}
	}
}
