package core

import (
	_ "embed"
	"encoding/json"
	"fmt"
	"go/token"
	"go/types"
	"sort"
	"strings"

	"golang.org/x/tools/go/ssa"

	"mocverif/internal/an"
)

// Canonical names. The rules name unexported things of the repository — a
// struct field (`recv.evs`), a helper (`EventCache.add`), a private type
// (`mergeHandlerSessionReqState`) — by the names they have on the tree the
// rules were written against. A maintainer may rename any of them without
// changing behaviour. So before the rules run, every unexported type, field,
// function, method and package-level variable of the CURRENT tree is matched
// against a frozen baseline of that tree's declarations (names_baseline.json:
// names, types, signatures, a name-free body fingerprint — no source text, no
// positions) and given its baseline name:
//
//   - same name in the same place            → itself;
//   - a type that is new while a baseline type is missing, with the same
//     structure (kind, field types, method signatures)      → the missing type;
//   - a field that is new while a baseline field of that struct is missing,
//     with the same (canonical) type; ties by declaration order → that field;
//   - a function/method that is new while a baseline one with the same
//     receiver and signature is missing; ties by body fingerprint → that one.
//
// Anything unmatched keeps its own name (rules then report an unresolved
// anchor, as before). The baseline only TRANSLATES names; no verdict depends
// on a declaration being equal to its baseline form.

//go:embed names_baseline.json
var namesBaselineJSON []byte

type baseField struct {
	Name string `json:"name"`
	Type string `json:"type"`
}

type baseType struct {
	Pkg     string      `json:"pkg"`
	Name    string      `json:"name"`
	Kind    string      `json:"kind"`
	Under   string      `json:"under,omitempty"`
	Fields  []baseField `json:"fields,omitempty"`
	Methods []string    `json:"methods,omitempty"` // "name sig", sorted
}

type baseFunc struct {
	Pkg  string   `json:"pkg"`
	Recv string   `json:"recv,omitempty"`
	Name string   `json:"name"`
	Sig  string   `json:"sig"`
	FP   []string `json:"fp,omitempty"`
}

type baseVar struct {
	Pkg  string `json:"pkg"`
	Name string `json:"name"`
	Type string `json:"type"`
}

type namesBaseline struct {
	Types []baseType `json:"types"`
	Funcs []baseFunc `json:"funcs"`
	Vars  []baseVar  `json:"vars"`
}

// Canon holds the translation for one loaded program.
type Canon struct {
	typeName  map[*types.TypeName]string
	fieldName map[*types.Var]string
	funcName  map[*types.Func]string
	varName   map[types.Object]string
	// reverse indexes for lookups by canonical name
	typeByName map[string]*types.TypeName // pkg + "." + name
	funcByName map[string]*types.Func     // pkg + "." + recv + "." + name
	Renamed    []string                   // human-readable log of non-identity matches
	// inBase: the function corresponds to a baseline declaration (same name, or matched)
	inBase map[*types.Func]bool
	// typeInBase: the named type corresponds to a baseline declaration
	typeInBase map[*types.TypeName]bool
	// baseFieldNames: the field names the baseline declaration of a struct type had
	baseFieldNames map[*types.TypeName]map[string]bool
}

func exported(name string) bool { return name != "" && name[0] >= 'A' && name[0] <= 'Z' }

// typeStr renders t with module-private named types replaced through name().
func typeStr(t types.Type, name func(*types.TypeName) string) string {
	return types.TypeString(t, nil) // placeholder, replaced below
}

func (c *Canon) tstr(t types.Type) string {
	s := types.TypeString(t, func(p *types.Package) string { return p.Path() })
	// rewrite module-private type names to canonical ones
	for tn, cn := range c.typeName {
		if tn.Name() == cn || tn.Pkg() == nil {
			continue
		}
		s = strings.ReplaceAll(s, tn.Pkg().Path()+"."+tn.Name(), tn.Pkg().Path()+"."+cn)
	}
	return s
}

// shape: the type string with every module-private (unexported) named type blanked.
func shape(t types.Type) string {
	s := types.TypeString(t, func(p *types.Package) string { return p.Path() })
	var b strings.Builder
	i := 0
	for i < len(s) {
		j := strings.Index(s[i:], ModulePath)
		if j < 0 {
			b.WriteString(s[i:])
			break
		}
		b.WriteString(s[i : i+j])
		k := i + j + len(ModulePath)
		// consume "/sub/pkg" and ".Name"
		for k < len(s) && (s[k] == '/' || s[k] == '_' || s[k] == '-' || (s[k] >= 'a' && s[k] <= 'z') || (s[k] >= '0' && s[k] <= '9')) {
			k++
		}
		if k < len(s) && s[k] == '.' {
			m := k + 1
			for m < len(s) && (s[m] == '_' || (s[m] >= 'a' && s[m] <= 'z') || (s[m] >= 'A' && s[m] <= 'Z') || (s[m] >= '0' && s[m] <= '9')) {
				m++
			}
			name := s[k+1 : m]
			if exported(name) {
				b.WriteString(s[i+j : m])
			} else {
				b.WriteString("?")
			}
			i = m
			continue
		}
		b.WriteString(s[i+j : k])
		i = k
	}
	return b.String()
}

func sigOf(f *types.Func) string {
	sig := f.Type().(*types.Signature)
	return shape(types.NewSignatureType(nil, nil, nil, sig.Params(), sig.Results(), sig.Variadic()))
}

func recvNameOf(f *types.Func) *types.TypeName {
	sig := f.Type().(*types.Signature)
	if sig.Recv() == nil {
		return nil
	}
	t := sig.Recv().Type()
	if p, ok := t.(*types.Pointer); ok {
		t = p.Elem()
	}
	if n, ok := t.(*types.Named); ok {
		return n.Obj()
	}
	return nil
}

// fingerprint: a name-free sketch of a function body: the external things it
// calls, its constants, and how many blocks / stores / map updates it has.
func fingerprint(fn *ssa.Function) []string {
	if fn == nil || len(fn.Blocks) == 0 {
		return nil
	}
	var out []string
	stores, updates := 0, 0
	an.Instrs(fn, func(in ssa.Instruction) {
		switch x := in.(type) {
		case ssa.CallInstruction:
			com := x.Common()
			if com.IsInvoke() {
				out = append(out, "invoke."+com.Method.Name())
				return
			}
			if b, ok := com.Value.(*ssa.Builtin); ok {
				out = append(out, "builtin."+b.Name())
				return
			}
			if sc := an.StaticCallee(com); sc != nil {
				o := sc
				if oo := sc.Origin(); oo != nil {
					o = oo
				}
				if obj := o.Object(); obj != nil && obj.Pkg() != nil {
					if !strings.HasPrefix(obj.Pkg().Path(), ModulePath) || obj.Exported() {
						out = append(out, "call."+obj.Pkg().Path()+"."+obj.Name())
					}
				}
			}
		case *ssa.Store:
			stores++
		case *ssa.MapUpdate:
			updates++
		}
		for _, op := range in.Operands(nil) {
			if op == nil || *op == nil {
				continue
			}
			if k, ok := (*op).(*ssa.Const); ok && k.Value != nil {
				s := k.Value.ExactString()
				if len(s) > 40 {
					s = s[:40]
				}
				out = append(out, "const."+s)
			}
		}
	})
	out = append(out, fmt.Sprintf("blocks.%d", len(fn.Blocks)), fmt.Sprintf("stores.%d", stores), fmt.Sprintf("updates.%d", updates))
	sort.Strings(out)
	return out
}

func similarity(a, b []string) float64 {
	if len(a) == 0 && len(b) == 0 {
		return 1
	}
	cnt := map[string]int{}
	for _, x := range a {
		cnt[x]++
	}
	common := 0
	for _, x := range b {
		if cnt[x] > 0 {
			cnt[x]--
			common++
		}
	}
	total := len(a) + len(b) - common
	if total == 0 {
		return 1
	}
	return float64(common) / float64(total)
}

// moduleDecls lists the declarations of the module's packages.
func (p *Program) moduleDecls() (tns []*types.TypeName, fns []*types.Func, vars []types.Object) {
	for _, pk := range p.Initial {
		sc := pk.Types.Scope()
		for _, n := range sc.Names() {
			switch o := sc.Lookup(n).(type) {
			case *types.TypeName:
				if o.IsAlias() {
					continue
				}
				tns = append(tns, o)
				if named, ok := o.Type().(*types.Named); ok {
					for i := 0; i < named.NumMethods(); i++ {
						fns = append(fns, named.Method(i))
					}
				}
			case *types.Func:
				fns = append(fns, o)
			case *types.Var:
				vars = append(vars, o)
			case *types.Const:
				vars = append(vars, o)
			}
		}
	}
	return
}

func typeKind(t types.Type) string {
	switch t.Underlying().(type) {
	case *types.Struct:
		return "struct"
	case *types.Interface:
		return "interface"
	case *types.Map:
		return "map"
	case *types.Slice:
		return "slice"
	case *types.Signature:
		return "func"
	}
	return "other"
}

func methodSigs(named *types.Named) []string {
	var ms []string
	for i := 0; i < named.NumMethods(); i++ {
		m := named.Method(i)
		n := m.Name()
		if !exported(n) {
			n = "?"
		}
		ms = append(ms, n+" "+sigOf(m))
	}
	sort.Strings(ms)
	return ms
}

// DumpNames writes the baseline for the loaded tree (run once on the tree the
// rules are written against: mocverif -dump-names FILE).
func (p *Program) DumpNames() ([]byte, error) {
	var nb namesBaseline
	tns, fns, vars := p.moduleDecls()
	id := &Canon{typeName: map[*types.TypeName]string{}}
	for _, tn := range tns {
		bt := baseType{Pkg: tn.Pkg().Path(), Name: tn.Name(), Kind: typeKind(tn.Type())}
		if st, ok := tn.Type().Underlying().(*types.Struct); ok {
			for i := 0; i < st.NumFields(); i++ {
				bt.Fields = append(bt.Fields, baseField{Name: st.Field(i).Name(), Type: id.tstr(st.Field(i).Type())})
			}
		} else {
			bt.Under = shape(tn.Type().Underlying())
		}
		if named, ok := tn.Type().(*types.Named); ok {
			bt.Methods = methodSigs(named)
		}
		nb.Types = append(nb.Types, bt)
	}
	for _, f := range fns {
		bf := baseFunc{Pkg: f.Pkg().Path(), Name: f.Name(), Sig: sigOf(f)}
		if r := recvNameOf(f); r != nil {
			bf.Recv = r.Name()
		}
		bf.FP = fingerprint(p.SSA.FuncValue(f))
		nb.Funcs = append(nb.Funcs, bf)
	}
	for _, v := range vars {
		nb.Vars = append(nb.Vars, baseVar{Pkg: v.Pkg().Path(), Name: v.Name(), Type: id.tstr(v.Type())})
	}
	return json.MarshalIndent(nb, "", " ")
}

// buildCanon matches the current tree against the baseline.
func (p *Program) buildCanon() (*Canon, error) {
	var nb namesBaseline
	if err := json.Unmarshal(namesBaselineJSON, &nb); err != nil {
		return nil, fmt.Errorf("names baseline: %w", err)
	}
	c := &Canon{typeName: map[*types.TypeName]string{}, fieldName: map[*types.Var]string{}, funcName: map[*types.Func]string{}, varName: map[types.Object]string{},
		typeByName: map[string]*types.TypeName{}, funcByName: map[string]*types.Func{}}
	tns, fns, vars := p.moduleDecls()
	// ---- types
	baseTypes := map[string]*baseType{}
	for i := range nb.Types {
		bt := &nb.Types[i]
		baseTypes[bt.Pkg+"."+bt.Name] = bt
	}
	curTypes := map[string]*types.TypeName{}
	for _, tn := range tns {
		curTypes[tn.Pkg().Path()+"."+tn.Name()] = tn
	}
	for _, tn := range tns {
		c.typeName[tn] = tn.Name()
	}
	structShape := func(tn *types.TypeName) string {
		st, ok := tn.Type().Underlying().(*types.Struct)
		if !ok {
			return typeKind(tn.Type()) + ":" + shape(tn.Type().Underlying())
		}
		var fs []string
		for i := 0; i < st.NumFields(); i++ {
			fs = append(fs, shape(st.Field(i).Type()))
		}
		sort.Strings(fs)
		return "struct:" + strings.Join(fs, ";")
	}
	baseShape := func(bt *baseType) string {
		if bt.Kind != "struct" {
			return bt.Kind + ":" + bt.Under
		}
		var fs []string
		for _, f := range bt.Fields {
			fs = append(fs, blankPrivate(f.Type))
		}
		sort.Strings(fs)
		return "struct:" + strings.Join(fs, ";")
	}
	var newTypes []*types.TypeName
	for _, tn := range tns {
		if _, known := baseTypes[tn.Pkg().Path()+"."+tn.Name()]; !known && !exported(tn.Name()) {
			newTypes = append(newTypes, tn)
		}
	}
	var missingTypes []*baseType
	for k, bt := range baseTypes {
		if _, have := curTypes[k]; !have && !exported(bt.Name) {
			missingTypes = append(missingTypes, bt)
		}
	}
	sort.Slice(missingTypes, func(i, j int) bool { return missingTypes[i].Name < missingTypes[j].Name })
	usedBase := map[*baseType]bool{}
	for _, tn := range newTypes {
		named, _ := tn.Type().(*types.Named)
		var cands []*baseType
		for _, bt := range missingTypes {
			if usedBase[bt] || bt.Pkg != tn.Pkg().Path() || bt.Kind != typeKind(tn.Type()) {
				continue
			}
			if baseShape(bt) != structShape(tn) {
				continue
			}
			if named != nil && strings.Join(methodSigs(named), "|") != strings.Join(bt.Methods, "|") {
				continue
			}
			cands = append(cands, bt)
		}
		if len(cands) == 1 {
			usedBase[cands[0]] = true
			c.typeName[tn] = cands[0].Name
			c.Renamed = append(c.Renamed, fmt.Sprintf("type %s.%s is baseline %s", tn.Pkg().Name(), tn.Name(), cands[0].Name))
		}
	}
	c.typeInBase = map[*types.TypeName]bool{}
	for _, tn := range tns {
		c.typeByName[tn.Pkg().Path()+"."+c.typeName[tn]] = tn
		c.typeInBase[tn] = baseTypes[tn.Pkg().Path()+"."+c.typeName[tn]] != nil
	}
	// ---- fields
	for _, tn := range tns {
		st, ok := tn.Type().Underlying().(*types.Struct)
		if !ok {
			continue
		}
		bt := baseTypes[tn.Pkg().Path()+"."+c.typeName[tn]]
		for i := 0; i < st.NumFields(); i++ {
			c.fieldName[st.Field(i)] = st.Field(i).Name()
		}
		if bt == nil {
			continue
		}
		if c.baseFieldNames == nil {
			c.baseFieldNames = map[*types.TypeName]map[string]bool{}
		}
		c.baseFieldNames[tn] = map[string]bool{}
		for _, bf := range bt.Fields {
			c.baseFieldNames[tn][bf.Name] = true
		}
		have := map[string]bool{}
		for i := 0; i < st.NumFields(); i++ {
			have[st.Field(i).Name()] = true
		}
		// a field is API only when both it and its struct type are exported
		apiField := func(name string) bool { return exported(name) && exported(tn.Name()) }
		var missing []baseField
		for _, bf := range bt.Fields {
			if !have[bf.Name] && !apiField(bf.Name) {
				missing = append(missing, bf)
			}
		}
		baseHas := map[string]bool{}
		for _, bf := range bt.Fields {
			baseHas[bf.Name] = true
		}
		used := map[int]bool{}
		for i := 0; i < st.NumFields(); i++ {
			f := st.Field(i)
			if baseHas[f.Name()] || apiField(f.Name()) {
				continue
			}
			ft := c.tstr(f.Type())
			for j, bf := range missing {
				if !used[j] && bf.Type == ft {
					used[j] = true
					c.fieldName[f] = bf.Name
					c.Renamed = append(c.Renamed, fmt.Sprintf("field %s.%s is baseline %s", tn.Name(), f.Name(), bf.Name))
					break
				}
			}
		}
		// renamed AND retyped with a named type the baseline does not have (`ReqID string` became
		// `ConnID routerConnID`): compared with such types replaced by what they stand for
		for i := 0; i < st.NumFields(); i++ {
			f := st.Field(i)
			if baseHas[f.Name()] || apiField(f.Name()) || c.fieldName[f] != f.Name() {
				continue
			}
			ft := c.expandNewTypes(f.Type(), 0)
			for j, bf := range missing {
				if !used[j] && bf.Type == ft {
					used[j] = true
					c.fieldName[f] = bf.Name
					c.Renamed = append(c.Renamed, fmt.Sprintf("field %s.%s (%s) is baseline %s", tn.Name(), f.Name(), c.tstr(f.Type()), bf.Name))
					break
				}
			}
		}
	}
	// ---- functions and methods
	type fkey struct{ pkg, recv, name string }
	baseFuncs := map[fkey]*baseFunc{}
	for i := range nb.Funcs {
		bf := &nb.Funcs[i]
		baseFuncs[fkey{bf.Pkg, bf.Recv, bf.Name}] = bf
	}
	keyOf := func(f *types.Func) fkey {
		k := fkey{pkg: f.Pkg().Path(), name: f.Name()}
		if r := recvNameOf(f); r != nil {
			k.recv = c.typeName[r]
		}
		return k
	}
	cur := map[fkey]bool{}
	for _, f := range fns {
		c.funcName[f] = f.Name()
		cur[keyOf(f)] = true
	}
	usedF := map[*baseFunc]bool{}
	c.inBase = map[*types.Func]bool{}
	for _, f := range fns {
		k := keyOf(f)
		if _, known := baseFuncs[k]; known {
			c.inBase[f] = true
		}
		// API names are never translated: exported functions, and exported methods of
		// exported types. A capitalised method of an unexported type is not API.
		if _, known := baseFuncs[k]; known || (exported(f.Name()) && (k.recv == "" || exported(k.recv))) {
			continue
		}
		var cands []*baseFunc
		for bk, bf := range baseFuncs {
			if usedF[bf] || cur[bk] || (exported(bf.Name) && (bk.recv == "" || exported(bk.recv))) || bk.pkg != k.pkg || bk.recv != k.recv {
				continue
			}
			if bf.Sig == sigOf(f) {
				cands = append(cands, bf)
			}
		}
		var pick *baseFunc
		if len(cands) == 1 {
			pick = cands[0]
		} else if len(cands) > 1 {
			fp := fingerprint(p.SSA.FuncValue(f))
			best, second := -1.0, -1.0
			for _, bf := range cands {
				s := similarity(fp, bf.FP)
				if s > best {
					best, second, pick = s, best, bf
				} else if s > second {
					second = s
				}
			}
			if best < 0.6 || best-second < 0.1 {
				pick = nil
			}
		}
		if pick != nil {
			usedF[pick] = true
			c.inBase[f] = true
			c.funcName[f] = pick.Name
			c.Renamed = append(c.Renamed, fmt.Sprintf("func %s is baseline %s", f.FullName(), pick.Name))
		}
	}
	for _, f := range fns {
		k := keyOf(f)
		c.funcByName[k.pkg+"."+k.recv+"."+c.funcName[f]] = f
	}
	// ---- package-level variables and constants
	baseVars := map[string]*baseVar{}
	for i := range nb.Vars {
		baseVars[nb.Vars[i].Pkg+"."+nb.Vars[i].Name] = &nb.Vars[i]
	}
	curVars := map[string]bool{}
	for _, v := range vars {
		c.varName[v] = v.Name()
		curVars[v.Pkg().Path()+"."+v.Name()] = true
	}
	usedV := map[*baseVar]bool{}
	for _, v := range vars {
		if _, known := baseVars[v.Pkg().Path()+"."+v.Name()]; known || exported(v.Name()) {
			continue
		}
		vt := c.tstr(v.Type())
		var cands []*baseVar
		for k, bv := range baseVars {
			if !usedV[bv] && !curVars[k] && bv.Pkg == v.Pkg().Path() && bv.Type == vt && !exported(bv.Name) {
				cands = append(cands, bv)
			}
		}
		if len(cands) == 1 {
			usedV[cands[0]] = true
			c.varName[v] = cands[0].Name
			c.Renamed = append(c.Renamed, fmt.Sprintf("var %s is baseline %s", v.Name(), cands[0].Name))
		}
	}
	sort.Strings(c.Renamed)
	return c, nil
}

// blankPrivate: a baseline type string with module-private type names blanked
// (the same normalisation shape() applies to a types.Type).
func blankPrivate(s string) string {
	var b strings.Builder
	i := 0
	for i < len(s) {
		j := strings.Index(s[i:], ModulePath)
		if j < 0 {
			b.WriteString(s[i:])
			break
		}
		b.WriteString(s[i : i+j])
		k := i + j + len(ModulePath)
		for k < len(s) && (s[k] == '/' || s[k] == '_' || s[k] == '-' || (s[k] >= 'a' && s[k] <= 'z') || (s[k] >= '0' && s[k] <= '9')) {
			k++
		}
		if k < len(s) && s[k] == '.' {
			m := k + 1
			for m < len(s) && (s[m] == '_' || (s[m] >= 'a' && s[m] <= 'z') || (s[m] >= 'A' && s[m] <= 'Z') || (s[m] >= '0' && s[m] <= '9')) {
				m++
			}
			if exported(s[k+1 : m]) {
				b.WriteString(s[i+j : m])
			} else {
				b.WriteString("?")
			}
			i = m
			continue
		}
		b.WriteString(s[i+j : k])
		i = k
	}
	return b.String()
}

// installCanon wires the translation into the engines' name hooks.
func (p *Program) installCanon() {
	c := p.Canon
	an.FieldNameHook = func(st *types.Struct, i int) string {
		if n, ok := c.fieldName[st.Field(i)]; ok {
			return n
		}
		return st.Field(i).Name()
	}
	an.TypeNameHook = func(tn *types.TypeName) string {
		if n, ok := c.typeName[tn]; ok {
			return n
		}
		return tn.Name()
	}
	an.FuncNameHook = func(f *types.Func) string {
		if n, ok := c.funcName[f]; ok {
			return n
		}
		return f.Name()
	}
	an.NewDeclHook = func(f *types.Func) bool {
		_, declared := c.funcName[f]
		return declared && !c.inBase[f]
	}
	an.GlobalNameHook = func(o types.Object) string {
		if n, ok := c.varName[o]; ok {
			return n
		}
		return o.Name()
	}
	p.installOwner()
}

// installOwner: a named type that a later edit introduced to hold what used to be a bare
// field (`deleted map[K]V` became `deleted tombstones`, with the methods that only touched the
// map moved onto it) is, inside its own methods, the field it lives in: the receiver of such
// a method is rendered `recv.<field>` (an.RecvOwnerHook), so that what the method reads and
// writes is named as it was when the code stood in the owner's method. Conditions: the type
// is unexported and not in the baseline; exactly one struct field of the module has that type
// (or a pointer to it); no function parameter other than the receivers of its own methods,
// no result and no package variable has it.
func (p *Program) installOwner() {
	c := p.Canon
	if c == nil || c.typeInBase == nil {
		return
	}
	type owner struct {
		field string
		n     int
		// group: the new type is a struct that merely groups fields of its owner (`store eventCacheStore`
		// holding what used to be evs / evsCreatedAt / evsIndex): its field is transparent in access
		// paths — `c.store.evs` reads `recv.evs`, and inside the group's own methods the receiver is
		// the owner — unless a field name of the group clashes with another field of the owner
		group    bool
		fieldVar *types.Var
	}
	owners := map[*types.TypeName]*owner{}
	typeNameOf := func(t types.Type) *types.TypeName {
		if pt, ok := t.(*types.Pointer); ok {
			t = pt.Elem()
		}
		n, ok := t.(*types.Named)
		if !ok {
			return nil
		}
		if o := n.Origin(); o != nil {
			n = o
		}
		return n.Obj()
	}
	isNew := func(tn *types.TypeName) bool {
		inBase, known := c.typeInBase[tn]
		return known && !inBase && !exported(tn.Name())
	}
	for tn := range c.typeInBase {
		st, ok := tn.Type().Underlying().(*types.Struct)
		if !ok {
			continue
		}
		for i := 0; i < st.NumFields(); i++ {
			ft := typeNameOf(st.Field(i).Type())
			if ft == nil || !isNew(ft) {
				continue
			}
			o := owners[ft]
			if o == nil {
				o = &owner{}
				owners[ft] = o
			}
			o.n++
			o.field = an.FieldNameHook(st, i)
			o.fieldVar = st.Field(i)
			// (a field the baseline already had — the matcher's `f` getting a named type — is not a new grouping)
			if gst, isStruct := ft.Type().Underlying().(*types.Struct); isStruct && !c.baseFieldNames[tn][an.FieldNameHook(st, i)] {
				o.group = true
				for j := 0; j < gst.NumFields(); j++ {
					for k := 0; k < st.NumFields(); k++ {
						if k != i && an.FieldNameHook(st, k) == an.FieldNameHook(gst, j) {
							o.group = false
						}
					}
				}
			}
		}
	}
	// no other way for a value of the type to travel
	for _, fn := range p.ModFuncs {
		sig := fn.Signature
		recvT := (*types.TypeName)(nil)
		if sig.Recv() != nil {
			recvT = typeNameOf(sig.Recv().Type())
		}
		for i := 0; i < sig.Params().Len(); i++ {
			if t := typeNameOf(sig.Params().At(i).Type()); t != nil && owners[t] != nil && t != recvT {
				owners[t].n += 100
			}
		}
		for i := 0; i < sig.Results().Len(); i++ {
			if t := typeNameOf(sig.Results().At(i).Type()); t != nil && owners[t] != nil {
				// a constructor returning the value that is stored into the field is fine
				if fn.Signature.Recv() != nil || !strings.HasPrefix(strings.ToLower(fn.Name()), "new") {
					owners[t].n += 100
				}
			}
		}
	}
	for _, pkg := range []*ssa.Package{p.Root, p.Sqlite, p.Prom} {
		if pkg == nil {
			continue
		}
		for _, m := range pkg.Members {
			if g, ok := m.(*ssa.Global); ok {
				if t := typeNameOf(g.Type().(*types.Pointer).Elem()); t != nil && owners[t] != nil {
					owners[t].n += 100
				}
			}
		}
	}
	p.installWriteOnce()
	p.installDefaultFuncs()
	an.RecvOwnerHook = func(fn *ssa.Function) string {
		if fn.Signature.Recv() == nil {
			return ""
		}
		t := typeNameOf(fn.Signature.Recv().Type())
		if t == nil {
			return ""
		}
		if o := owners[t]; o != nil && o.n == 1 {
			if o.group {
				return "recv"
			}
			return "recv." + o.field
		}
		return ""
	}
	groupVar := map[*types.Var]bool{}
	for _, o := range owners {
		if o.n == 1 && o.group && o.fieldVar != nil {
			groupVar[o.fieldVar] = true
		}
	}
	// methods of grouping types called from exactly one place: parameters read as the arguments
	sites := map[*ssa.Function][]*ssa.CallCommon{}
	isGroupMethod := func(fn *ssa.Function) bool {
		if fn == nil || fn.Signature.Recv() == nil {
			return false
		}
		t := typeNameOf(fn.Signature.Recv().Type())
		o := owners[t]
		return t != nil && o != nil && o.n == 1 && o.group
	}
	for _, fn := range p.ModFuncs {
		for _, b := range fn.Blocks {
			for _, in := range b.Instrs {
				if ci, ok := in.(ssa.CallInstruction); ok {
					if sc := ci.Common().StaticCallee(); isGroupMethod(sc) {
						sites[sc] = append(sites[sc], ci.Common())
					}
				}
			}
		}
	}
	an.ParamBindHook = func(x *ssa.Parameter) ssa.Value {
		fn := x.Parent()
		if !isGroupMethod(fn) || len(sites[fn]) != 1 {
			return nil
		}
		for i, q := range fn.Params {
			if q == x && i < len(sites[fn][0].Args) {
				return sites[fn][0].Args[i]
			}
		}
		return nil
	}
	an.GroupFieldHook = func(t types.Type, i int) bool {
		if pt, ok := t.Underlying().(*types.Pointer); ok {
			t = pt.Elem()
		}
		st, ok := t.Underlying().(*types.Struct)
		return ok && i < st.NumFields() && groupVar[st.Field(i)]
	}
}

// installWriteOnce: which struct fields of the module are assigned only while the object is
// being built — in the function that allocates it, or in the function that has just received
// it from a module constructor (once, outside loops) — and never have their address handed
// on. For those, reading the field of an object whose construction is in view yields what the
// construction put there (an.FieldWriteOnceHook).
// installDefaultFuncs: for every function-typed struct field of the module, the one module
// function stored into it by module code (an.DefaultFieldFuncHook).
// unexportedRecv: fn is a method of an unexported named type (callable only from the module's own code).
func unexportedRecv(fn *ssa.Function) bool {
	r := fn.Signature.Recv()
	if r == nil {
		return false
	}
	t := r.Type()
	if pt, ok := t.(*types.Pointer); ok {
		t = pt.Elem()
	}
	n, ok := t.(*types.Named)
	return ok && !n.Obj().Exported()
}

func (p *Program) installDefaultFuncs() {
	type info struct {
		fns     map[*ssa.Function]bool
		unknown bool
	}
	byField := map[*types.Var]*info{}
	fieldVar := func(fa *ssa.FieldAddr) *types.Var {
		t := fa.X.Type()
		if pt, ok := t.Underlying().(*types.Pointer); ok {
			t = pt.Elem()
		}
		st, ok := t.Underlying().(*types.Struct)
		if !ok || fa.Field >= st.NumFields() {
			return nil
		}
		return st.Field(fa.Field)
	}
	var classify func(v ssa.Value, inf *info, depth int)
	classify = func(v ssa.Value, inf *info, depth int) {
		if depth > 6 || v == nil {
			inf.unknown = true
			return
		}
		switch x := v.(type) {
		case *ssa.Function:
			inf.fns[x] = true
		case *ssa.MakeClosure:
			if f, ok := x.Fn.(*ssa.Function); ok && len(x.Bindings) == 0 {
				inf.fns[f] = true
			} else {
				inf.unknown = true
			}
		case *ssa.ChangeType:
			classify(x.X, inf, depth+1)
		case *ssa.Const:
			// nil: "not set", replaced by a default elsewhere
		case *ssa.Parameter, *ssa.FreeVar:
			// handed in from outside: the injection point
		case *ssa.Phi:
			for _, e := range x.Edges {
				classify(e, inf, depth+1)
			}
		case *ssa.UnOp:
			if x.Op != token.MUL {
				inf.unknown = true
				return
			}
			// a field of an option record / a captured variable: came in from outside, or is another
			// injectable field whose own default counts
			if fa, ok := x.X.(*ssa.FieldAddr); ok {
				if fv := fieldVar(fa); fv != nil {
					if _, isFn := fv.Type().Underlying().(*types.Signature); isFn {
						if other := byField[fv]; other != nil {
							for f := range other.fns {
								inf.fns[f] = true
							}
						}
						return
					}
				}
			}
			if a := an.ResolveAlloc(x.X); a != nil {
				for _, st := range an.StoresTo(a) {
					classify(st.Val, inf, depth+1)
				}
				return
			}
			inf.unknown = true
		default:
			inf.unknown = true
		}
	}
	for round := 0; round < 2; round++ {
		for _, fn := range p.ModFuncs {
			an.Instrs(fn, func(in ssa.Instruction) {
				st, ok := in.(*ssa.Store)
				if !ok {
					return
				}
				fa, ok := st.Addr.(*ssa.FieldAddr)
				if !ok {
					return
				}
				fv := fieldVar(fa)
				if fv == nil {
					return
				}
				if _, isFn := fv.Type().Underlying().(*types.Signature); !isFn {
					return
				}
				inf := byField[fv]
				if inf == nil {
					inf = &info{fns: map[*ssa.Function]bool{}}
					byField[fv] = inf
				}
				classify(st.Val, inf, 0)
			})
		}
	}
	// function-typed parameters of unexported functions: the one function all call sites pass
	paramSites := map[*ssa.Function][]*ssa.CallCommon{}
	for _, fn := range p.ModFuncs {
		for _, b := range fn.Blocks {
			for _, in := range b.Instrs {
				if ci, ok := in.(ssa.CallInstruction); ok {
					if sc := ci.Common().StaticCallee(); sc != nil && p.InModule(sc) && sc.Object() != nil && (!sc.Object().Exported() || unexportedRecv(sc)) {
						paramSites[sc] = append(paramSites[sc], ci.Common())
					}
				}
			}
		}
	}
	an.FuncParamDefaultHook = func(x *ssa.Parameter) *ssa.Function {
		fn := x.Parent()
		if _, isFn := x.Type().Underlying().(*types.Signature); !isFn || fn == nil {
			return nil
		}
		sites := paramSites[fn]
		if len(sites) == 0 {
			return nil
		}
		idx := -1
		for i, q := range fn.Params {
			if q == x {
				idx = i
			}
		}
		var res *ssa.Function
		for _, site := range sites {
			if idx < 0 || idx >= len(site.Args) {
				return nil
			}
			inf := &info{fns: map[*ssa.Function]bool{}}
			classify(site.Args[idx], inf, 0)
			if inf.unknown || len(inf.fns) != 1 {
				return nil
			}
			for f := range inf.fns {
				if res != nil && res != f {
					return nil
				}
				res = f
			}
		}
		return res
	}
	// interfaces of the module with exactly one implementing type in the module (function adapter
	// types aside): an invoke through such an interface runs, with the default wiring, that type's method
	type implKey struct {
		iface *types.Named
		name  string
	}
	implMemo := map[implKey]*ssa.Function{}
	an.SoleImplHook = func(t types.Type, name string) *ssa.Function {
		named, ok := t.(*types.Named)
		if !ok || named.Obj().Pkg() == nil {
			return nil
		}
		iface, ok := named.Underlying().(*types.Interface)
		if !ok || iface.NumMethods() == 0 {
			return nil
		}
		k := implKey{named, name}
		if f, done := implMemo[k]; done {
			return f
		}
		implMemo[k] = nil
		inMod := false
		var impls []types.Type
		for _, pkg := range []*ssa.Package{p.Root, p.Sqlite, p.Prom} {
			if pkg == nil {
				continue
			}
			if pkg.Pkg == named.Obj().Pkg() {
				inMod = true
			}
			for _, m := range pkg.Members {
				tm, isT := m.(*ssa.Type)
				if !isT {
					continue
				}
				nt, isN := tm.Type().(*types.Named)
				if !isN || nt.TypeParams().Len() > 0 {
					continue
				}
				if _, isI := nt.Underlying().(*types.Interface); isI {
					continue
				}
				if _, isSig := nt.Underlying().(*types.Signature); isSig {
					continue // an adapter `type XFunc func(...)`: runs what it was given
				}
				switch {
				case types.Implements(nt, iface):
					impls = append(impls, nt)
				case types.Implements(types.NewPointer(nt), iface):
					impls = append(impls, types.NewPointer(nt))
				}
			}
		}
		if !inMod || len(impls) != 1 {
			return nil
		}
		sel := p.SSA.MethodSets.MethodSet(impls[0]).Lookup(named.Obj().Pkg(), name)
		if sel == nil {
			return nil
		}
		f := p.SSA.MethodValue(sel)
		implMemo[k] = f
		return f
	}
	an.MethodOfHook = func(t types.Type, pkg *types.Package, name string) *ssa.Function {
		sel := p.SSA.MethodSets.MethodSet(t).Lookup(pkg, name)
		if sel == nil {
			return nil
		}
		return p.SSA.MethodValue(sel)
	}
	an.DefaultFieldFuncHook = func(t types.Type, i int) *ssa.Function {
		if pt, ok := t.Underlying().(*types.Pointer); ok {
			t = pt.Elem()
		}
		st, ok := t.Underlying().(*types.Struct)
		if !ok || i >= st.NumFields() {
			return nil
		}
		inf := byField[st.Field(i)]
		if inf == nil || inf.unknown || len(inf.fns) != 1 {
			return nil
		}
		for f := range inf.fns {
			if p.InModule(f) || f.Pkg != nil {
				return f
			}
		}
		return nil
	}
}

func (p *Program) installWriteOnce() {
	dirty := map[*types.Var]bool{}
	nStores := map[*types.Var]int{}
	oneStore := map[*types.Var]*ssa.Store{}
	fieldVar := func(fa *ssa.FieldAddr) *types.Var {
		t := fa.X.Type()
		if pt, ok := t.Underlying().(*types.Pointer); ok {
			t = pt.Elem()
		}
		st, ok := t.Underlying().(*types.Struct)
		if !ok || fa.Field >= st.NumFields() {
			return nil
		}
		return st.Field(fa.Field)
	}
	for _, fn := range p.ModFuncs {
		an.Instrs(fn, func(in ssa.Instruction) {
			fa, ok := in.(*ssa.FieldAddr)
			if !ok || fa.Referrers() == nil {
				return
			}
			fv := fieldVar(fa)
			if fv == nil {
				return
			}
			for _, r := range *fa.Referrers() {
				switch x := r.(type) {
				case *ssa.Store:
					if x.Addr != ssa.Value(fa) {
						dirty[fv] = true // the field's address is stored somewhere
						nStores[fv] += 2
						continue
					}
					nStores[fv]++
					oneStore[fv] = x
					building := false
					switch b := fa.X.(type) {
					case *ssa.Alloc:
						building = true
					case *ssa.Call:
						if g := an.StaticCallee(&b.Call); g != nil && p.InModule(g) && an.LoopHeaderOf(x.Block()) == nil {
							building = true
						}
					}
					if !building {
						dirty[fv] = true
					}
				case *ssa.UnOp, *ssa.DebugRef, *ssa.FieldAddr, *ssa.IndexAddr:
					// loads and deeper addresses: a deeper store shows up at its own FieldAddr; an
					// element store into an array/slice field does not change the field's value
				default:
					dirty[fv] = true // address handed to a call, stored, sent …
					nStores[fv] += 2
				}
			}
		})
	}
	// package-level structs of constants (`var kindsAll = kindRange{0, 65536}`): fields the package
	// initialiser sets to an integer constant and nothing else ever assigns
	type gf struct {
		g *ssa.Global
		i int
	}
	gconst := map[gf]int64{}
	gdirty := map[gf]bool{}
	scan := append([]*ssa.Function(nil), p.ModFuncs...)
	for _, pkg := range []*ssa.Package{p.Root, p.Sqlite, p.Prom} {
		if pkg == nil {
			continue
		}
		if ini := pkg.Func("init"); ini != nil {
			listed := false
			for _, f := range scan {
				if f == ini {
					listed = true
				}
			}
			if !listed {
				scan = append(scan, ini)
			}
		}
	}
	for _, fn := range scan {
		an.Instrs(fn, func(in ssa.Instruction) {
			switch x := in.(type) {
			case *ssa.Store:
				// a whole-struct assignment to a global, or one through a pointer we cannot follow
				if g, ok := x.Addr.(*ssa.Global); ok {
					if _, isStruct := g.Type().(*types.Pointer).Elem().Underlying().(*types.Struct); isStruct {
						for i := 0; i < 64; i++ {
							gdirty[gf{g, i}] = true
						}
					}
				}
				fa, ok := x.Addr.(*ssa.FieldAddr)
				if !ok {
					return
				}
				g, ok := fa.X.(*ssa.Global)
				if !ok {
					return
				}
				k := gf{g, fa.Field}
				if fn.Name() == "init" && fn.Parent() == nil {
					if c, isConst := an.ConstInt(x.Val); isConst {
						if _, dup := gconst[k]; dup {
							gdirty[k] = true
						}
						gconst[k] = c
						return
					}
				}
				gdirty[k] = true
			case *ssa.FieldAddr:
				// the field's address taken for anything but a load / that store
				if g, ok := x.X.(*ssa.Global); ok && x.Referrers() != nil {
					for _, r := range *x.Referrers() {
						switch r.(type) {
						case *ssa.UnOp, *ssa.Store, *ssa.DebugRef:
						default:
							gdirty[gf{g, x.Field}] = true
						}
					}
				}
			default:
				// the global's own address handed somewhere (a pointer receiver call, a store)
				for _, op := range in.Operands(nil) {
					if op == nil || *op == nil {
						continue
					}
					if g, ok := (*op).(*ssa.Global); ok {
						if _, isLoad := in.(*ssa.UnOp); isLoad {
							continue
						}
						if _, isStruct := g.Type().(*types.Pointer).Elem().Underlying().(*types.Struct); isStruct {
							for i := 0; i < 64; i++ {
								gdirty[gf{g, i}] = true
							}
						}
					}
				}
			}
		})
	}
	an.GlobalFieldConstHook = func(g *ssa.Global, i int) (int64, bool) {
		k := gf{g, i}
		c, ok := gconst[k]
		return c, ok && !gdirty[k]
	}
	an.FieldSingleStoreHook = func(t types.Type, i int) *ssa.Store {
		if pt, ok := t.Underlying().(*types.Pointer); ok {
			t = pt.Elem()
		}
		st, ok := t.Underlying().(*types.Struct)
		if !ok || i >= st.NumFields() || nStores[st.Field(i)] != 1 {
			return nil
		}
		return oneStore[st.Field(i)]
	}
	an.FieldWriteOnceHook = func(t types.Type, i int) bool {
		if pt, ok := t.Underlying().(*types.Pointer); ok {
			t = pt.Elem()
		}
		st, ok := t.Underlying().(*types.Struct)
		if !ok || i >= st.NumFields() {
			return false
		}
		return !dirty[st.Field(i)]
	}
}

// expandNewTypes renders t like tstr, but with named types of the module that the baseline
// does not know replaced by their underlying types.
func (c *Canon) expandNewTypes(t types.Type, depth int) string {
	if depth > 6 {
		return c.tstr(t)
	}
	switch x := t.(type) {
	case *types.Named:
		if inBase, known := c.typeInBase[x.Obj()]; known && !inBase {
			return c.expandNewTypes(x.Underlying(), depth+1)
		}
	case *types.Pointer:
		return "*" + c.expandNewTypes(x.Elem(), depth+1)
	case *types.Slice:
		return "[]" + c.expandNewTypes(x.Elem(), depth+1)
	case *types.Map:
		return "map[" + c.expandNewTypes(x.Key(), depth+1) + "]" + c.expandNewTypes(x.Elem(), depth+1)
	case *types.Chan:
		if x.Dir() == types.SendRecv {
			return "chan " + c.expandNewTypes(x.Elem(), depth+1)
		}
	}
	return c.tstr(t)
}
