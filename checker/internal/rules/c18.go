package rules

import (
	"fmt"
	"go/token"
	"go/types"
	"strings"

	"golang.org/x/tools/go/ssa"

	"mocverif/internal/an"
	"mocverif/internal/core"
)

func init() {
	reg(&core.RuleInfo{Name: "SESS-STATE", Props: []string{"C18"}, Engine: "CG", Floor: 10, Confirmed: 14,
		Doc: "bases that write their own state are created per session; shared bases are write-free", Run: runSessState})
	reg(&core.RuleInfo{Name: "QUOTA-GUARD", Props: []string{"C17", "C18"}, Engine: "INT", Floor: 3, Confirmed: 4,
		Doc: "quota: insert, reject on len > N removing the same id, CLOSE frees the slot", Run: runQuotaGuard})
	reg(&core.RuleInfo{Name: "UNIQ-PATH", Props: []string{"C18"}, Engine: "CFG", Floor: 2, Confirmed: 2,
		Doc: "unique filters: Get found ⇒ reject/drop; otherwise Add the same id before forwarding", Run: runUniqPath})
}

// baseWrites: how methods of the base type mutate receiver-reachable state.
func baseWrites(P *core.Program, b *mwBase) []string {
	var out []string
	for _, fn := range P.ModFuncs {
		root := fn
		for root.Parent() != nil {
			root = root.Parent()
		}
		if recvTypeName(root) != b.name || root.Pkg != b.pkg {
			continue
		}
		an.Instrs(fn, func(in ssa.Instruction) {
			switch x := in.(type) {
			case *ssa.Store:
				if p := an.PathOf(x.Addr); strings.HasPrefix(p, "recv.") {
					out = append(out, "store "+p)
				}
			case *ssa.MapUpdate:
				if p := an.PathOf(x.Map); strings.HasPrefix(p, "recv.") {
					out = append(out, "map update "+p)
				}
			case *ssa.Call:
				n := an.CalleeName(&x.Call)
				if strings.Contains(n, "golang-lru") && len(x.Call.Args) > 0 && strings.HasPrefix(an.PathOf(x.Call.Args[0]), "recv.") {
					out = append(out, "lru."+n[strings.LastIndex(n, ".")+1:]+" on "+an.PathOf(x.Call.Args[0]))
				}
				if b, ok := x.Call.Value.(*ssa.Builtin); ok && b.Name() == "delete" && strings.HasPrefix(an.PathOf(x.Call.Args[0]), "recv.") {
					out = append(out, "map delete "+an.PathOf(x.Call.Args[0]))
				}
			}
		})
	}
	return out
}

func isServeNostrSig(fn *ssa.Function) bool {
	sig := fn.Signature
	if sig.Params().Len() != 3 || sig.Results().Len() != 1 {
		return false
	}
	_, c1 := sig.Params().At(1).Type().Underlying().(*types.Chan)
	_, c2 := sig.Params().At(2).Type().Underlying().(*types.Chan)
	return isContext(sig.Params().At(0).Type()) && c1 && c2
}

func runSessState(c *core.Ctx) {
	P := c.P
	nsm := P.Func(P.Root, "NewSimpleMiddleware")
	for _, b := range mwBases(P) {
		if b.pkg != P.Root {
			continue // the metrics base is global by design (totals over all sessions): C19 / LOCK-GUARD
		}
		c.CountFuncs(1)
		writes := baseWrites(P, b)
		// where is it wrapped?
		perSession := true
		var where []string
		for _, fn := range P.ModFuncs {
			for _, call := range callsTo(fn, nsm) {
				if typeNameOf(an.Unwrap(call.Call.Args[0]).Type()) != b.name {
					continue
				}
				// the base value itself must be created in the same per-session function
				a := an.CallOf(an.Unwrap(call.Call.Args[0]))
				inSession := isServeNostrSig(fn) && fn.Parent() != nil && a != nil && a.Parent() == fn
				where = append(where, fmt.Sprintf("%s (per session: %v)", fname(c, fn), inSession))
				if !inSession {
					perSession = false
				}
			}
		}
		c.CountSites(len(where))
		switch {
		case len(writes) == 0:
			c.OK(nil, b.name, "state", P.Pos(b.client.Pos()), "write-free: safe to share between sessions ("+strings.Join(where, "; ")+")")
		case perSession && len(where) > 0:
			c.OK(nil, b.name, "state", P.Pos(b.client.Pos()), fmt.Sprintf("writes its own state (%s) and is instantiated inside the session function: %s", clip(strings.Join(writes, ", "), 80), strings.Join(where, "; ")))
		default:
			c.Bad(nil, b.name, "state", P.Pos(b.client.Pos()), fmt.Sprintf("the base writes its own state (%s) but one instance is shared by all sessions (%s): ids seen on one connection suppress events on another", clip(strings.Join(writes, ", "), 100), strings.Join(where, "; ")))
		}
	}
	// the quota's per-session value travels in the context
	var start *ssa.Function
	for _, b := range mwBases(P) {
		if strings.Contains(b.name, "MaxSubscriptions") {
			start = b.start
		}
	}
	if start == nil {
		c.NoAnchor(nil, "MaxSubscriptions base ServeNostrStart")
		return
	}
	okCtx := false
	for _, call := range callsNamed(start, "context.WithValue") {
		v := an.Unwrap(call.Call.Args[2])
		fresh := false
		qt, _ := quotaValueType(c)
		isQuotaValue := func(t types.Type) bool {
			tn := typeNameOf(t)
			return strings.Contains(tn, "CtxValue") || qt != "" && tn == qt
		}
		if a, ok := v.(*ssa.Alloc); ok && a.Parent() == start && isQuotaValue(a.Type()) {
			fresh = true
		}
		// … or built by a constructor that returns nothing but its own allocation
		if cc, ok := v.(*ssa.Call); ok && cc.Parent() == start && isQuotaValue(cc.Type()) {
			if g := an.StaticCallee(&cc.Call); g != nil && an.InModuleFn(g) && freshResult(g, 0) {
				fresh = true
			}
		}
		if fresh {
			for _, rb := range an.ReturnBlocks(start) {
				if an.LastInstr(rb).(*ssa.Return).Results[0] == ssa.Value(call) {
					okCtx = true
				}
			}
		}
	}
	c.Check(okCtx, nil, fname(c, start), "per-session-value", P.Pos(start.Pos()), "ServeNostrStart allocates a fresh subscription set and returns a context carrying it", "the quota's subscription set is not a fresh per-session value carried by the returned context: sessions share (or lose) their quota state")
}

func runQuotaGuard(c *core.Ctx) {
	P := c.P
	var req, cls *ssa.Function
	// the per-connection quota value: the type whose fresh instance the quota's ServeNostrStart
	// puts into the context, and its set field (a map keyed by subscription id) — `…CtxValue.subs`
	// on the pinned tree, found by role so that a renamed / regrouped value is still found
	quotaType, setSuffix := quotaValueType(c)
	isQuota := func(fn *ssa.Function) bool {
		rt := recvTypeName(fn)
		return strings.Contains(strings.ToLower(rt), "maxsubscriptions") || quotaType != "" && rt == quotaType
	}
	for _, fn := range P.ModFuncs {
		if !isQuota(fn) || fn.Parent() != nil {
			continue
		}
		if len(mapUpdatesOn(fn, setSuffix)) > 0 {
			req = fn
			// (the two one-use handlers folded into the clauses of one dispatching method)
			if len(mapDeletesOn(fn, setSuffix)) > 0 && cls == nil {
				cls = fn
			}
		} else if len(mapDeletesOn(fn, setSuffix)) > 0 {
			cls = fn
		}
	}
	if req == nil || cls == nil {
		c.NoAnchor(nil, "quota REQ / CLOSE handlers (functions updating the subscription set)")
		return
	}
	c.CountFuncs(2)
	mu := mapUpdatesOn(req, setSuffix)[0]
	setPath := an.PathOf(mu.Map)
	msg := ""
	for _, p := range req.Params {
		if typeNameOf(p.Type()) == "ClientReqMsg" {
			msg = "p:" + p.Name()
		}
	}
	id := msg + ".SubscriptionID"
	// the REQ handler as the REQ clause of a dispatching method (`switch msg := msg.(type) { case
	// *ClientReqMsg: … }`): the message is the parameter behind that assertion, the clause's entry
	// block delimits what belongs to the handler
	var reqClause *ssa.BasicBlock
	if msg == "" {
		if kp := an.PathOf(mu.Key); strings.HasSuffix(kp, ".SubscriptionID") {
			base := strings.TrimSuffix(kp, ".SubscriptionID")
			if assertedType(req, mu.Block(), base) == "ClientReqMsg" && paramIdx(req, base) >= 0 {
				for _, b := range req.Blocks {
					iff, isIf := an.LastInstr(b).(*ssa.If)
					if !isIf {
						continue
					}
					ex, isEx := iff.Cond.(*ssa.Extract)
					if !isEx || ex.Index != 1 {
						continue
					}
					if ta, isTA := ex.Tuple.(*ssa.TypeAssert); isTA && typeNameOf(ta.AssertedType) == "ClientReqMsg" && an.PathOf(ta.X) == base && (b.Succs[0] == mu.Block() || b.Succs[0].Dominates(mu.Block())) {
						reqClause = b.Succs[0]
					}
				}
				if reqClause != nil {
					msg, id = base, kp
				}
			}
		}
	}
	inClause := func(b *ssa.BasicBlock) bool {
		return reqClause == nil || b == reqClause || reqClause.Dominates(b)
	}
	clausePaths := func(ps []an.Path) []an.Path {
		if reqClause == nil {
			return ps
		}
		var out []an.Path
		for _, p := range ps {
			if p.Contains(reqClause) {
				out = append(out, p)
			}
		}
		return out
	}
	reqDeletes := func() []*ssa.Call {
		var out []*ssa.Call
		for _, d := range mapDeletesOn(req, setSuffix) {
			if inClause(d.Block()) {
				out = append(out, d)
			}
		}
		return out
	}
	// the quota decision as a verdict helper of the per-connection value
	// (`if v.tryOpen(msg.SubscriptionID, m.maxSubs) { forward } else { reject }`): the set logic is read
	// in the helper — "false" is the rejecting way out, "true" the forwarding one — and the handler must
	// reject exactly on the false verdict and forward exactly on the true one
	var site *ssa.Call
	var helperRej, helperFwd *ssa.Return
	var helperFwdMore []*ssa.Return
	if msg == "" {
		var host *ssa.Function
		for _, fn := range P.ModFuncs {
			if !isQuota(fn) || fn.Parent() != nil || fn == req {
				continue
			}
			hm := ""
			for _, p := range fn.Params {
				if typeNameOf(p.Type()) == "ClientReqMsg" {
					hm = "p:" + p.Name()
				}
			}
			cs := callsTo(fn, req)
			if hm == "" && len(cs) == 1 {
				hm = clauseMsgParam(fn, cs[0], "ClientReqMsg")
			}
			if hm != "" && len(cs) == 1 {
				host, site, msg = fn, cs[0], hm
			}
		}
		// the verdict: the helper's only result, or — of several, `(ok, changed, active)` — the first bool
		// one that the host branches on
		vi := -1
		errVerdict := false
		if host != nil {
			res := req.Signature.Results()
			// … or an error, nil meaning "admitted" (`if err := v.reserve(id, N); err != nil { reject }`)
			if res.Len() == 1 && types.Identical(res.At(0).Type(), types.Universe.Lookup("error").Type()) {
				vi, errVerdict = 0, true
			}
			for i := 0; i < res.Len() && vi < 0; i++ {
				if bt, isB := res.At(i).Type().Underlying().(*types.Basic); !isB || bt.Kind() != types.Bool {
					continue
				}
				if res.Len() == 1 {
					vi = 0
					break
				}
				an.Instrs(host, func(in ssa.Instruction) {
					ifi, isIf := in.(*ssa.If)
					if !isIf || vi >= 0 {
						return
					}
					v, _ := stripNot(ifi.Cond, true)
					if ex, isEx := v.(*ssa.Extract); isEx && ex.Tuple == ssa.Value(site) && ex.Index == i {
						vi = i
					}
				})
			}
		}
		if host == nil || vi < 0 {
			c.Bad(nil, fname(c, req), "reject-set", P.Pos(req.Pos()), "the subscription set is updated outside a REQ handler and not by a verdict helper called from one")
			return
		}
		id = ""
		for i, a := range site.Call.Args {
			if an.PathOf(a) == msg+".SubscriptionID" && i < len(req.Params) {
				id = "p:" + req.Params[i].Name()
			}
		}
		unread := false
		for _, rb := range an.ReturnBlocks(req) {
			r := an.LastInstr(rb).(*ssa.Return)
			isV := func(rv ssa.Value, b bool) bool {
				if !errVerdict {
					return isConstBool(rv, b)
				}
				if b {
					return an.IsNilConst(rv)
				}
				return definitelyError(rv)
			}
			switch rv := an.ReturnValues(r)[vi]; {
			case isV(rv, false) && helperRej == nil:
				helperRej = r
			case isV(rv, true) && (helperFwd == nil || mu.Block() == rb || mu.Block().Dominates(rb)):
				// (of several accepting ways out — "already open" and "room left" — the one that enters the id
				// is the forwarding return the set logic is read at; the others must have found the id present)
				if helperFwd != nil {
					helperFwdMore = append(helperFwdMore, helperFwd)
				}
				helperFwd = r
			case isV(rv, true):
				helperFwdMore = append(helperFwdMore, r)
			default:
				unread = true
			}
		}
		if unread {
			helperRej, helperFwd = nil, nil
		}
		okHost := helperRej != nil && helperFwd != nil
		nRej, nFwd := 0, 0
		hostTakesIface := false
		for _, p := range host.Params {
			if "p:"+p.Name() == msg && typeNameOf(p.Type()) == "ClientMsg" {
				hostTakesIface = true
			}
		}
		for _, r := range classifyClientReturns(P, host, paramIdx(host, msg), 0) {
			// a dispatching method: only the returns of its REQ clause are the REQ handler's
			if hostTakesIface && assertedType(host, r.ret.Block(), msg) != "ClientReqMsg" {
				continue
			}
			verdict, guarded := false, false
			for _, g := range an.Guards(host, r.ret.Block()) {
				if g.V == ssa.Value(site) {
					verdict, guarded = g.True, true
				}
				if ex, isEx := g.V.(*ssa.Extract); isEx && ex.Tuple == ssa.Value(site) && ex.Index == vi {
					verdict, guarded = g.True, true
				}
				if bo, isBO := g.V.(*ssa.BinOp); errVerdict && isBO && (bo.Op == token.EQL || bo.Op == token.NEQ) && an.IsNilConst(bo.Y) && bo.X == ssa.Value(site) {
					verdict, guarded = (bo.Op == token.EQL) == g.True, true
				}
				// `if errors.Is(err, errFull) { reject }`: the refusal, when errFull is all the helper fails with
				if ic, isC := g.V.(*ssa.Call); errVerdict && isC && an.CalleeName(&ic.Call) == "errors.Is" && len(ic.Call.Args) == 2 && ic.Call.Args[0] == ssa.Value(site) {
					if sg := sentinelOf(P, ic.Call.Args[1]); sg != nil {
						at := newErrAtoms()
						collectErr(P, site, at, false, 0, map[ssa.Value]bool{})
						only := !at.unknown && len(at.bare)+len(at.wrapped) > 0
						for x := range at.bare {
							only = only && x == sg
						}
						for x := range at.wrapped {
							only = only && x == sg
						}
						if only {
							verdict, guarded = !g.True, true
						}
					}
				}
			}
			switch r.kind {
			case "reject":
				nRej++
				okHost = okHost && guarded && !verdict
			case "forward":
				nFwd++
				okHost = okHost && guarded && verdict
			case "nostate":
				// (the per-connection state is missing from the context: the session ends — not a quota decision)
			default:
				okHost = false
			}
		}
		c.Check(okHost && nRej == 1 && nFwd == 1 && id != "", nil, fname(c, host), "verdict", P.Pos(site.Pos()),
			"the REQ handler forwards exactly when "+req.Name()+"(id, N) answers true and rejects exactly when it answers false",
			"the REQ handler does not follow the quota helper's verdict (reject on false, forward on true, called with the REQ's subscription id)")
		if !okHost || id == "" {
			return
		}
	}
	c.Check(an.PathOf(mu.Key) == id && (isConstBool(mu.Value, true) || isEmptyStruct(mu.Value.Type())), nil, fname(c, req), "insert", P.Pos(mu.Pos()), "the REQ's subscription id is entered into the set", "the set is not keyed by the REQ's subscription id: "+an.PathOf(mu.Key))
	// reject set
	var rej, fwd *ssa.Return
	if site != nil {
		rej, fwd = helperRej, helperFwd
	} else {
		for _, r := range classifyClientReturns(P, req, paramIdx(req, msg), 0) {
			// (a return that delegates to a private helper building the triple — `return m.rejectReq(msg, …)` —
			// is classified inside the helper: the decision is where the handler returns it)
			rets := []*ssa.Return{r.ret}
			if r.ret.Parent() != req {
				rets = nil
				for _, rb := range an.ReturnBlocks(req) {
					rr := an.LastInstr(rb).(*ssa.Return)
					if ex, ok := an.ReturnValues(rr)[0].(*ssa.Extract); ok {
						if call, ok := ex.Tuple.(*ssa.Call); ok && an.StaticCallee(&call.Call) == r.ret.Parent() {
							rets = append(rets, rr)
						}
					}
				}
			}
			for _, ret := range rets {
				// a REQ that fails its own Valid() turned away at the door: not a quota decision (and not a
				// message the property speaks about)
				if r.kind == "reject" && invalidMsgGuarded(req, ret.Block(), msg) {
					continue
				}
				// (a dispatching method: only what the REQ clause reaches belongs to the REQ handler)
				if reqClause != nil && !(inClause(ret.Block()) || an.Reachable(reqClause, ret.Block(), nil, nil)) {
					continue
				}
				if reqClause != nil && r.kind == "reject" && !inClause(ret.Block()) {
					continue
				}
				switch r.kind {
				case "reject":
					rej = ret
				case "forward":
					fwd = ret
				}
			}
		}
	}
	if rej == nil || fwd == nil {
		c.Bad(nil, fname(c, req), "reject-set", P.Pos(req.Pos()), "the quota handler lacks a rejecting or a forwarding return")
		return
	}
	sym := ""
	for _, s := range symbolsFor(req, "len("+setPath+")") {
		sym = s
	}
	fr := an.SymFrame("len("+setPath+")", sym)
	rs, n, _ := fr.ReachSet(req, rej.Block(), nil, nil)
	c.CountPaths(n)
	if site != nil && strings.HasPrefix(sym, "p:") {
		// the limit is a parameter of the helper: what the handler passes for it
		for i, q := range req.Params {
			if "p:"+q.Name() == sym && i < len(site.Call.Args) {
				sym = an.PathOf(site.Call.Args[i])
				if rp := "p:" + site.Parent().Params[0].Name(); strings.HasPrefix(sym, rp+".") {
					sym = "recv." + strings.TrimPrefix(sym, rp+".")
				}
			}
		}
	}
	preCheck := false
	// the same quota as a pre-check: `if !set[id] && len(set) >= N { reject }; set[id] = true` — a new id is
	// refused when the set is already full, an id that is already open passes; nothing to take back
	{
		notMember := false
		for _, g := range an.Guards(req, rej.Block()) {
			var lk *ssa.Lookup
			want := false
			switch x := g.V.(type) {
			case *ssa.Lookup:
				lk = x
			case *ssa.Extract:
				if l2, isL := x.Tuple.(*ssa.Lookup); isL && x.Index == 1 {
					lk = l2
				}
			}
			if lk != nil && an.PathOf(lk.X) == setPath && an.PathOf(lk.Index) == id && g.True == want {
				notMember = true
			}
		}
		isMemberCond := func(cd an.Cond, want bool) bool {
			var lk *ssa.Lookup
			switch x := cd.V.(type) {
			case *ssa.Lookup:
				lk = x
			case *ssa.Extract:
				if l2, isL := x.Tuple.(*ssa.Lookup); isL && x.Index == 1 {
					lk = l2
				}
			}
			return lk != nil && an.PathOf(lk.X) == setPath && an.PathOf(lk.Index) == id && cd.True == want
		}
		// the id is entered on every forwarding path that did not find it in the set already
		insertOnlyWhenForwarded := !(mu.Block() == rej.Block() || mu.Block().Dominates(rej.Block()))
		if insertOnlyWhenForwarded && !(mu.Block() == fwd.Block() || mu.Block().Dominates(fwd.Block())) {
			fps, okp := an.PathsTo(req, fwd.Block(), 1024)
			if !okp {
				insertOnlyWhenForwarded = false
			}
			for _, fp := range clausePaths(fps) {
				if !an.Feasible(fp) || fp.Contains(mu.Block()) {
					continue
				}
				already := false
				for _, cd := range fp.Conds() {
					if isMemberCond(an.NormCond(cd), true) {
						already = true
					}
				}
				if !already {
					insertOnlyWhenForwarded = false
				}
			}
		}
		// the other accepting ways out of a verdict helper: only for an id found in the set
		for _, f2 := range helperFwdMore {
			if site == nil {
				break
			}
			fps, okp := an.PathsTo(req, f2.Block(), 1024)
			if !okp {
				insertOnlyWhenForwarded = false
			}
			for _, fp := range fps {
				if !an.Feasible(fp) || fp.Contains(mu.Block()) {
					continue
				}
				already := false
				for _, cd := range fp.Conds() {
					if isMemberCond(an.NormCond(cd), true) {
						already = true
					}
				}
				if !already {
					insertOnlyWhenForwarded = false
				}
			}
		}
		if notMember && insertOnlyWhenForwarded && len(reqDeletes()) == 0 {
			c.Check(sym != "" && strings.HasPrefix(sym, "recv.") && rs.Equal(an.Range(0, an.PosInf)), nil, fname(c, req), "reject-set", P.Pos(rej.Pos()),
				"before inserting the id: a new id is rejected iff len(set) ∈ "+rs.Format("N")+" with N = "+sym+"; an id that is already open passes",
				"a new id is rejected when len(set) ∈ "+rs.Format("N")+" (N = "+sym+"), want [N,+∞) measured before inserting it: more (or fewer) than N subscriptions can be open")
			c.OK(nil, fname(c, req), "reject-releases", P.Pos(rej.Pos()), "the id is entered only on the forwarding path: a rejected REQ leaves nothing behind")
			preCheck = true
		}
	}
	if !preCheck {
		c.Check(sym != "" && strings.HasPrefix(sym, "recv.") && rs.Equal(an.Range(1, an.PosInf)) && an.InstrDominates(mu, an.LastInstr(rej.Block())), nil, fname(c, req), "reject-set", P.Pos(rej.Pos()),
			"after inserting the id: rejected iff len(set) ∈ "+rs.Format("N")+" with N = "+sym, "rejected when len(set) ∈ "+rs.Format("N")+" (N = "+sym+"), want (N,+∞) measured after inserting the id: more (or fewer) than N subscriptions can be open")
		// the reject edge removes the same id
		okDel := false
		for _, d := range reqDeletes() {
			if an.PathOf(d.Call.Args[1]) == id && (d.Block() == rej.Block() || d.Block().Dominates(rej.Block())) && !(d.Block() == fwd.Block() || d.Block().Dominates(fwd.Block())) {
				okDel = true
			}
			// the verdict computed under the lock and acted upon after it (`over := len > N; if over { delete };
			// unlock; if over { reject }`): every rejecting path passes the removal, no forwarding path does
			if !okDel && an.PathOf(d.Call.Args[1]) == id {
				rps, ok1 := an.PathsTo(req, rej.Block(), 1024)
				fps, ok2 := an.PathsTo(req, fwd.Block(), 1024)
				good := ok1 && ok2
				nr := 0
				for _, rp := range rps {
					if an.Feasible(rp) {
						nr++
						if !rp.Contains(d.Block()) {
							good = false
						}
					}
				}
				for _, fp := range fps {
					if an.Feasible(fp) && fp.Contains(d.Block()) {
						good = false
					}
				}
				if good && nr > 0 {
					okDel = true
				}
			}
		}
		c.Check(okDel, nil, fname(c, req), "reject-releases", P.Pos(rej.Pos()), "the rejected id is removed again (and only on the rejecting path)", "a rejected REQ keeps its id in the set (or an accepted one loses it): the quota leaks slots / never fills")
	}
	// CLOSE frees the slot and is forwarded
	cm := ""
	for _, p := range cls.Params {
		if typeNameOf(p.Type()) == "ClientCloseMsg" {
			cm = "p:" + p.Name()
		}
	}
	okCls := false
	for _, d := range mapDeletesOn(cls, setSuffix) {
		kp := an.PathOf(d.Call.Args[1])
		if cm != "" && kp == cm+".SubscriptionID" {
			okCls = true
		}
		// handled in the dispatching method's own CLOSE clause
		if cm == "" && strings.HasSuffix(kp, ".SubscriptionID") && assertedType(cls, d.Block(), strings.TrimSuffix(kp, ".SubscriptionID")) == "ClientCloseMsg" {
			okCls = true
		}
	}
	if !okCls && cm == "" {
		// the removal as a method of the per-connection value (`v.release(msg.SubscriptionID)`): the
		// CLOSE handler calls it with its message's id, and the method deletes exactly its parameter
		for _, fn := range P.ModFuncs {
			if !isQuota(fn) || fn.Parent() != nil || fn == cls {
				continue
			}
			hm := ""
			for _, p := range fn.Params {
				if typeNameOf(p.Type()) == "ClientCloseMsg" {
					hm = "p:" + p.Name()
				}
			}
			for _, site := range callsTo(fn, cls) {
				if hm == "" {
					hm = clauseMsgParam(fn, site, "ClientCloseMsg")
				}
				if hm == "" {
					continue
				}
				for i, a := range site.Call.Args {
					if an.PathOf(a) != hm+".SubscriptionID" || i >= len(cls.Params) {
						continue
					}
					for _, d := range mapDeletesOn(cls, setSuffix) {
						// on every path of the method
						always := true
						for _, rb := range an.ReturnBlocks(cls) {
							if !(d.Block() == rb || d.Block().Dominates(rb)) {
								always = false
							}
						}
						if always && an.PathOf(d.Call.Args[1]) == "p:"+cls.Params[i].Name() {
							okCls = true
						}
					}
				}
			}
		}
	}
	c.Check(okCls, nil, fname(c, cls), "close-frees", P.Pos(cls.Pos()), "CLOSE removes its subscription id from the set", "CLOSE does not free the slot of its subscription id")
}

// clauseMsgParam: fn takes the message as the ClientMsg interface and the call site lies in the
// clause of its type switch that handles msgType: the parameter's path ("p:msg").
func clauseMsgParam(fn *ssa.Function, site *ssa.Call, msgType string) string {
	for _, p := range fn.Params {
		if typeNameOf(p.Type()) == "ClientMsg" && assertedType(fn, site.Block(), "p:"+p.Name()) == msgType {
			return "p:" + p.Name()
		}
	}
	return ""
}

// quotaValueType: the named type of the value MaxSubscriptions' ServeNostrStart stores in the
// context (directly allocated or built by a constructor), and ".<field>" of its map field.
func quotaValueType(c *core.Ctx) (typ, setSuffix string) {
	setSuffix = ".subs"
	var start *ssa.Function
	for _, b := range mwBases(c.P) {
		if strings.Contains(b.name, "MaxSubscriptions") {
			start = b.start
		}
	}
	if start == nil {
		return "", setSuffix
	}
	for _, call := range callsNamed(start, "context.WithValue") {
		t := an.Unwrap(call.Call.Args[2]).Type()
		if pt, ok := t.Underlying().(*types.Pointer); ok {
			t = pt.Elem()
		}
		n, ok := t.(*types.Named)
		if !ok {
			continue
		}
		st, ok := n.Underlying().(*types.Struct)
		if !ok {
			continue
		}
		for i := 0; i < st.NumFields(); i++ {
			if m, isMap := st.Field(i).Type().Underlying().(*types.Map); isMap {
				if b, isB := m.Key().Underlying().(*types.Basic); isB && b.Kind() == types.String {
					return an.TypeNameHook(n.Obj()), "." + an.FieldNameHook(st, i)
				}
			}
		}
	}
	return "", setSuffix
}

func paramIdx(fn *ssa.Function, path string) int {
	for i, p := range fn.Params {
		if "p:"+p.Name() == path {
			return i
		}
	}
	return 0
}

// seenOrAddHelper: h, called at site, answers "was this id in the window?" and
// records the id exactly when it was not: every true verdict follows a
// successful lookup of id without an Add, every false verdict a failed lookup
// followed by Add(id).
func seenOrAddHelper(h *ssa.Function, site *ssa.CallCommon, id string) bool {
	if h.Signature.Results().Len() != 1 {
		return false
	}
	var get, add *ssa.Call
	for _, ci := range calls(h) {
		call, ok := ci.(*ssa.Call)
		if !ok || len(call.Call.Args) < 2 {
			continue
		}
		n := an.CalleeName(&call.Call)
		if !strings.Contains(n, "golang-lru") || an.PathOfIn(call.Call.Args[1], site) != id {
			continue
		}
		switch n[strings.LastIndex(n, ".")+1:] {
		case "Get", "Contains", "Peek":
			get = call
		case "Add":
			add = call
		}
	}
	if get == nil || add == nil {
		return false
	}
	// the verdict may be "seen before" (true = found) or "first sight" (true = not found)
	for _, foundPol := range []bool{true, false} {
		good := true
		for _, want := range []bool{true, false} {
			ps, ok := an.ResultPaths(h, 0, want)
			if !ok || len(ps) == 0 {
				return false
			}
			wantFound := want == foundPol
			for _, p := range ps {
				hit := p.Has(func(g an.Cond) bool {
					ex, isEx := g.V.(*ssa.Extract)
					return isEx && ex.Tuple == ssa.Value(get) && ex.Index == 1 && g.True == wantFound
				})
				if !hit || p.Path.Contains(add.Block()) == wantFound {
					good = false
				}
			}
		}
		if good {
			seenHelperFoundPol[h] = foundPol
			return true
		}
	}
	return false
}

// seenHelperFoundPol: which answer of an accepted look-up-and-record helper means "was there".
var seenHelperFoundPol = map[*ssa.Function]bool{}

func runUniqPath(c *core.Ctx) {
	P := c.P
	for _, b := range mwBases(P) {
		if !strings.Contains(b.name, "UniqueFilter") {
			continue
		}
		fn := b.client
		side := "recv"
		if strings.Contains(b.name, "Send") {
			fn, side = b.server, "send"
		}
		c.CountFuncs(1)
		msg := "p:" + fn.Params[2].Name()
		id := msg + ".Event.ID"
		var get, add *ssa.Call
		var adds []*ssa.Call
		for _, ci := range calls(fn) {
			call, ok := ci.(*ssa.Call)
			if !ok {
				continue
			}
			n := an.CalleeName(&call.Call)
			if !strings.Contains(n, "golang-lru") || an.PathOf(call.Call.Args[1]) != id {
				continue
			}
			switch n[strings.LastIndex(n, ".")+1:] {
			case "Get", "Contains", "Peek":
				get = call
			case "Add":
				add = call
				adds = append(adds, call)
			}
		}
		// the pair "look the id up, record it if it was not there" may live in a private
		// helper: then the helper's verdict plays the part of the lookup's
		var helperSite *ssa.Call
		if get == nil || add == nil {
			for _, ci := range calls(fn) {
				hc, isCall := ci.(*ssa.Call)
				if !isCall {
					continue
				}
				if h := an.StaticCallee(&hc.Call); an.PrivateHelper(h) && seenOrAddHelper(h, &hc.Call, id) {
					helperSite = hc
				}
				// … or behind the module's own one-implementation interface (`m.ids.Seen(id)`)
				if h := an.InvokeDefault(&hc.Call); h != nil && seenOrAddHelper(h, &hc.Call, id) {
					helperSite = hc
				}
			}
		}
		if (get == nil || add == nil) && helperSite == nil {
			c.Bad(nil, b.name, "get-then-add", P.Pos(fn.Pos()), "the filter does not both look up and record the event id ("+id+")")
			continue
		}
		found := ""
		foundPol := true
		if helperSite != nil {
			hfn := an.StaticCallee(&helperSite.Call)
			if hfn == nil {
				hfn = an.InvokeDefault(&helperSite.Call)
			}
			foundPol = seenHelperFoundPol[hfn]
			found = an.PathOf(helperSite)
			get, add = helperSite, helperSite
			adds = nil
		} else {
			found = an.PathOf(get) + "#1"
		}
		var fwdEv, other *ssa.BasicBlock
		okShape := true
		for _, r := range classifyClientReturns(P, fn, 2, 0) {
			gs := an.Guards(fn, r.ret.Block())
			isFound, notFound := false, false
			for _, g := range gs {
				if an.PathOf(g.V) == found {
					isFound, notFound = g.True == foundPol, g.True != foundPol
				}
			}
			switch {
			case isFound:
				want := "reject"
				if side == "send" {
					want = "drop"
				}
				if r.kind != want {
					okShape = false
				}
				other = r.ret.Block()
			case notFound, r.kind == "forward":
				if r.kind != "forward" {
					okShape = false
				}
				fwdEv = r.ret.Block()
			}
		}
		// Add on the not-found edge, before the forward; never on the found edge
		addOK := helperSite != nil // (verified inside the helper)
		for _, g := range an.Guards(fn, add.Block()) {
			if an.PathOf(g.V) == found && !g.True {
				addOK = true
			}
		}
		if helperSite == nil && other != nil && (add.Block() == other || add.Block().Dominates(other)) {
			addOK = false
		}
		// no recording of the id outside the not-found edge (an Add before the lookup makes every id "found")
		for _, a2 := range adds {
			nf := false
			for _, g := range an.Guards(fn, a2.Block()) {
				if an.PathOf(g.V) == found && !g.True {
					nf = true
				}
			}
			if !nf {
				addOK = false
			}
		}
		// every event path to the forward passes the Add
		if fwdEv != nil {
			for _, p := range mustPaths(fn, fwdEv) {
				isEv := false
				for _, cd := range p.Conds() {
					if ex, ok := cd.V.(*ssa.Extract); ok && cd.True && ex.Index == 1 {
						if _, ok := ex.Tuple.(*ssa.TypeAssert); ok {
							isEv = true
						}
					}
				}
				// (an EVENT message without an event has no id to remember: `ok && msg.Event != nil`)
				for _, cd := range p.Conds() {
					if nilEventCond(cd) {
						isEv = false
					}
				}
				if isEv && !p.Contains(add.Block()) {
					addOK = false
				}
			}
		}
		// recv side: the rejection is marked as a duplicate
		dup := side == "send"
		if side == "recv" {
			for _, call := range callsNamed(fn, core.ModulePath+".NewServerOKMsg") {
				if s, ok := an.ConstStr(call.Call.Args[2]); ok && s == "duplicate: " {
					dup = true
				}
			}
		}
		c.Check(okShape && addOK && dup && other != nil, nil, b.name, "get-then-add", P.Pos(get.Pos()),
			fmt.Sprintf("%s side: Get(%s) found ⇒ %s; not found ⇒ Add(same id) then forward", side, id, map[string]string{"recv": "OK false with the duplicate: prefix", "send": "dropped"}[side]),
			fmt.Sprintf("unique-filter shape broken (returns ok: %v, Add only on the not-found edge before forwarding: %v, duplicate-marked rejection: %v): a repeated id is forwarded again, or a fresh id is rejected", okShape, addOK, dup))
	}
}

// definitelyError: v is an error value that cannot be nil — made here by fmt.Errorf / errors.New,
// a concrete error boxed here, or one of the package's error variables.
func definitelyError(v ssa.Value) bool {
	switch x := v.(type) {
	case *ssa.Call:
		n := an.CalleeName(&x.Call)
		return n == "fmt.Errorf" || n == "errors.New"
	case *ssa.MakeInterface:
		return true
	case *ssa.UnOp:
		if x.Op == token.MUL {
			_, isG := x.X.(*ssa.Global)
			return isG
		}
	}
	return false
}
