package rules

import (
	"fmt"
	"go/token"
	"go/types"
	"sort"
	"strings"

	"golang.org/x/tools/go/ssa"

	"mocverif/internal/an"
	"mocverif/internal/core"
)

func init() {
	reg(&core.RuleInfo{Name: "IDX-COUPD", Props: []string{"C03", "C04"}, Engine: "CFG", Floor: 2, Confirmed: 2,
		Doc: "map, creation-time tree and index are inserted / deleted together for the same event", Run: runIdxCoupd})
	reg(&core.RuleInfo{Name: "IDX-KEYTYPE", Props: []string{"C03"}, Engine: "TAB", Floor: 4, Confirmed: 4,
		Doc: "index key value types agree between event side and filter side per key kind", Run: runIdxKeyType})
	reg(&core.RuleInfo{Name: "IDX-SCAN", Props: []string{"C03"}, Engine: "TAB", Floor: 1, Confirmed: 1,
		Doc: "the full-scan predicate tests exactly the fields that contribute index keys", Run: runIdxScan})
	reg(&core.RuleInfo{Name: "ORD-DESC", Props: []string{"C03", "C04"}, Engine: "INT", Floor: 4, Confirmed: 5,
		Doc: "trees order newest first; iteration, trim and eviction ends agree", Run: runOrdDesc})
	reg(&core.RuleInfo{Name: "TOPK-BND", Props: []string{"C03"}, Engine: "INT", Floor: 1, Confirmed: 1,
		Doc: "the index path trims on cnt > limit from the oldest end", Run: runTopkBnd})
	reg(&core.RuleInfo{Name: "SCAN-LIMIT", Props: []string{"C03", "C16"}, Engine: "CFG", Floor: 1, Confirmed: 1,
		Doc: "the scan path consults Done before and counts with LimitMatch", Run: runScanLimit})
	reg(&core.RuleInfo{Name: "SCAN-FULL", Props: []string{"C03", "C16"}, Engine: "CFG", Floor: 1, Confirmed: 1,
		Doc: "the retained-set tree is only ever walked from its newest end: no seek can skip a matching event", Run: runScanFull})
	reg(&core.RuleInfo{Name: "IDX-INTERSECT", Props: []string{"C03"}, Engine: "CFG", Floor: 2, Confirmed: 3,
		Doc: "index keys: union within a condition, intersection across conditions, residual since/until match", Run: runIdxIntersect})
}

func treemapCall(ci ssa.CallInstruction, method string) bool {
	n := an.CalleeName(ci.Common())
	return strings.Contains(n, "igrmk/treemap/v2.TreeMap[") && strings.HasSuffix(n, ")."+method)
}

// controlEquivalent: a and b execute on exactly the same paths.
func controlEquivalent(fn *ssa.Function, a, b ssa.Instruction) bool {
	if a.Block() == b.Block() {
		return true
	}
	x, y := a, b
	if !an.InstrDominates(x, y) {
		x, y = b, a
	}
	return an.InstrDominates(x, y) && an.PostDominates(fn, y.Block(), x.Block())
}

func runIdxCoupd(c *core.Ctx) {
	P := c.P
	a := resolveCache(c)
	if a == nil {
		c.NoAnchor(nil, "EventCache insertion / removal helpers")
		return
	}
	c.CountFuncs(2)
	// ---- insert
	{
		st := cacheStmts(a.ins, false)[0]
		fn, mu := st.at, st.mu
		ev := an.PathOf(mu.Value)
		var set, idx ssa.CallInstruction
		for _, ci := range calls(fn) {
			if treemapCall(ci, "Set") && an.PathOf(ci.Common().Args[0]) == "recv.evsCreatedAt" {
				set = ci
			}
			if sc := an.StaticCallee(ci.Common()); sc != nil && recvTypeName(sc) == "eventCacheEvsIndex" && len(ci.Common().Args) == 2 && an.PathOf(ci.Common().Args[0]) == "recv.evsIndex" {
				if writesField(P, sc, ".idx") && !deletesField(P, sc, ".idx") || sc.Name() == "Add" {
					idx = ci
				}
			}
			// the index keys handed in ready-made (`c.evsIndex.Add(event, idxKeys)`, the keys derived
			// outside the critical section): they are the index's own key function applied to the
			// same event at every place they come from
			if sc := an.StaticCallee(ci.Common()); sc != nil && recvTypeName(sc) == "eventCacheEvsIndex" && len(ci.Common().Args) == 3 && an.PathOf(ci.Common().Args[0]) == "recv.evsIndex" {
				if (writesField(P, sc, ".idx") && !deletesField(P, sc, ".idx") || sc.Name() == "Add") && keysOfSameEvent(c, fn, ci.Common().Args[2], ci.Common().Args[1]) {
					idx = ci
				}
			}
		}
		var problems []string
		if set == nil {
			problems = append(problems, "no insertion into the creation-time tree")
		} else {
			if !controlEquivalent(fn, mu, set) {
				problems = append(problems, "tree insertion is not control-equivalent with the map insertion")
			}
			wantKey := "lit{CreatedAt=" + ev + ".CreatedAt,ID=" + ev + ".ID}"
			if got := an.PathOf(set.Common().Args[1]); got != wantKey {
				problems = append(problems, "tree key is "+got+", want "+wantKey)
			}
			if got := an.PathOf(set.Common().Args[2]); got != ev {
				problems = append(problems, "tree value is "+got+", want "+ev)
			}
		}
		if idx == nil {
			problems = append(problems, "no insertion into the secondary index")
		} else {
			if !controlEquivalent(fn, mu, idx) {
				problems = append(problems, "index insertion is not control-equivalent with the map insertion")
			}
			if got := an.PathOf(idx.Common().Args[1]); got != ev {
				problems = append(problems, "index insertion is for "+got+", want "+ev)
			}
		}
		c.CountSites(3)
		c.Check(len(problems) == 0, nil, fname(c, fn), "insert(evs,tree,index)", P.Pos(mu.Pos()), "map, tree and index are extended together, all for "+ev,
			"the three structures holding the retained set are not extended together: "+strings.Join(problems, "; ")+" — the indexed path and the scan path can disagree")
	}
	// ---- delete
	{
		st := cacheStmts(a.del, true)[0]
		fn, dl := st.at, st.del
		key := an.PathOf(dl.Call.Args[1])
		cand := "recv.evs[" + key + "]"
		var del, idx ssa.CallInstruction
		for _, ci := range calls(fn) {
			if treemapCall(ci, "Del") && an.PathOf(ci.Common().Args[0]) == "recv.evsCreatedAt" {
				del = ci
			}
			if sc := an.StaticCallee(ci.Common()); sc != nil && recvTypeName(sc) == "eventCacheEvsIndex" && len(ci.Common().Args) == 2 && an.PathOf(ci.Common().Args[0]) == "recv.evsIndex" {
				if deletesField(P, sc, ".idx") || sc.Name() == "Delete" {
					idx = ci
				}
			}
		}
		var problems []string
		if del == nil {
			problems = append(problems, "no removal from the creation-time tree")
		} else {
			if !controlEquivalent(fn, dl, del) {
				problems = append(problems, "tree removal is not control-equivalent with the map removal")
			}
			wantKey := "lit{CreatedAt=" + cand + ".CreatedAt,ID=" + cand + ".ID}"
			if got := an.PathOf(del.Common().Args[1]); got != wantKey {
				problems = append(problems, "tree key is "+got+", want "+wantKey)
			}
		}
		if idx == nil {
			problems = append(problems, "no removal from the secondary index")
		} else {
			if !controlEquivalent(fn, dl, idx) {
				problems = append(problems, "index removal is not control-equivalent with the map removal")
			}
			if got := an.PathOf(idx.Common().Args[1]); got != cand {
				problems = append(problems, "index removal is for "+got+", want "+cand)
			}
		}
		c.CountSites(3)
		c.Check(len(problems) == 0, nil, fname(c, fn), "delete(evs,tree,index)", P.Pos(dl.Pos()), "map, tree and index are reduced together, all for "+cand,
			"the three structures holding the retained set are not reduced together: "+strings.Join(problems, "; ")+" — a stale entry survives in one of them")
	}
}

// keysOfSameEvent: keys is the result of a method of the index that derives keys from ev — computed
// in fn, or handed to fn as a parameter that every call site of fn fills that way with the event it
// passes along.
func keysOfSameEvent(c *core.Ctx, fn *ssa.Function, keys, ev ssa.Value) bool {
	isKeyCall := func(k, e ssa.Value) bool {
		call := an.CallOf(k)
		if call == nil {
			return false
		}
		sc := an.StaticCallee(&call.Call)
		if sc == nil || recvTypeName(sc) != "eventCacheEvsIndex" || len(call.Call.Args) != 2 {
			return false
		}
		if _, isSlice := sc.Signature.Results().At(0).Type().Underlying().(*types.Slice); sc.Signature.Results().Len() != 1 || !isSlice {
			return false
		}
		return an.Unwrap(call.Call.Args[1]) == an.Unwrap(e)
	}
	if isKeyCall(keys, ev) {
		return true
	}
	kp, ok1 := an.Unwrap(keys).(*ssa.Parameter)
	ep, ok2 := an.Unwrap(ev).(*ssa.Parameter)
	if !ok1 || !ok2 || kp.Parent() != fn || ep.Parent() != fn {
		return false
	}
	ki, ei := -1, -1
	for i, p := range fn.Params {
		if p == kp {
			ki = i
		}
		if p == ep {
			ei = i
		}
	}
	sites := 0
	for _, caller := range c.P.ModFuncs {
		for _, call := range callsTo(caller, fn) {
			sites++
			if ki >= len(call.Call.Args) || ei >= len(call.Call.Args) || !isKeyCall(call.Call.Args[ki], call.Call.Args[ei]) {
				return false
			}
		}
	}
	return sites > 0
}

func writesField(P *core.Program, fn *ssa.Function, suffix string) bool {
	w := false
	an.Instrs(fn, func(in ssa.Instruction) {
		if mu, ok := in.(*ssa.MapUpdate); ok && strings.Contains(an.PathOf(mu.Map), suffix) {
			w = true
		}
	})
	return w
}

func deletesField(P *core.Program, fn *ssa.Function, suffix string) bool {
	w := false
	an.Instrs(fn, func(in ssa.Instruction) {
		if call, ok := in.(*ssa.Call); ok {
			if b, ok := call.Call.Value.(*ssa.Builtin); ok && b.Name() == "delete" && strings.Contains(an.PathOf(call.Call.Args[0]), suffix) {
				w = true
			}
		}
	})
	return w
}

func runIdxKeyType(c *core.Ctx) {
	P := c.P
	byWhat := map[int64]map[string][]string{} // What → value type → sites
	n := 0
	for _, fn := range P.ModFuncs {
		if c.P.PkgOf(fn) != core.ModulePath {
			continue
		}
		for _, lit := range an.StructLits(fn, func(n *types.Named) bool {
			return an.TypeNameHook(n.Obj()) == "eventCacheEvsIndexKey" && n.Obj().Pkg() != nil && n.Obj().Pkg().Path() == core.ModulePath
		}) {
			fs := lit.Fields
			w, ok1 := fs["What"]
			v, ok2 := fs["Value"]
			if !ok1 || !ok2 {
				continue
			}
			// the dynamic type stored in the interface: strip the boxing only
			tv := v
			if mi, ok := tv.(*ssa.MakeInterface); ok {
				tv = mi.X
			}
			if _, isTP := tv.Type().(*types.TypeParam); isTP {
				continue // the generic body; its instantiations are looked at
			}
			t := types.TypeString(tv.Type(), nil)
			var ks []int64
			if k, ok := an.ConstInt(w); ok {
				ks = append(ks, k)
			} else if par, isPar := w.(*ssa.Parameter); isPar {
				// a key-building helper: the kind is what its callers pass
				pi := -1
				for i, fp := range fn.Params {
					if fp == par {
						pi = i
					}
				}
				for _, caller := range P.ModFuncs {
					for _, ci := range calls(caller) {
						if an.StaticCallee(ci.Common()) != fn || pi < 0 {
							continue
						}
						k, ok := an.ConstInt(ci.Common().Args[pi])
						if !ok {
							c.Unknown(nil, "eventCacheEvsIndexKey", "What=?", P.Pos(ci.Pos()), "key kind passed to "+fname(c, fn)+" is not a constant")
							continue
						}
						ks = append(ks, k)
					}
				}
			} else {
				continue
			}
			for _, k := range ks {
				n++
				if byWhat[k] == nil {
					byWhat[k] = map[string][]string{}
				}
				byWhat[k][t] = append(byWhat[k][t], fname(c, fn)+"@"+P.Pos(lit.Pos))
			}
		}
	}
	c.CountSites(n)
	if n == 0 {
		c.NoAnchor(nil, "eventCacheEvsIndexKey literals")
		return
	}
	var whats []int64
	for k := range byWhat {
		whats = append(whats, k)
	}
	sort.Slice(whats, func(i, j int) bool { return whats[i] < whats[j] })
	for _, k := range whats {
		var ts []string
		var sites int
		for t, s := range byWhat[k] {
			ts = append(ts, t)
			sites += len(s)
		}
		sort.Strings(ts)
		detail := fmt.Sprintf("What=%d: %d literal(s) with Value type %v", k, sites, ts)
		if len(ts) > 1 {
			for t, s := range byWhat[k] {
				detail += fmt.Sprintf("; %s at %v", t, s)
			}
		}
		c.Check(len(ts) == 1 && sites >= 2, nil, "eventCacheEvsIndexKey", fmt.Sprintf("What=%d", k), "-", detail,
			detail+": Value is an interface, so keys built with different dynamic types never compare equal and the index silently matches nothing (or a key kind is built on one side only)")
	}
}

func runIdxScan(c *core.Ctx) {
	P := c.P
	// the index path's entry: Find of the index answers (candidates, indexed?). "Not
	// indexed" (full scan) must mean: none of the fields that contribute index keys is
	// present. The predicate may live in a private helper or be written out in Find.
	find := P.Method(P.Root, "eventCacheEvsIndex", "Find")
	if find == nil {
		c.NoAnchor(nil, "eventCacheEvsIndex.Find")
		return
	}
	c.CountFuncs(1)
	fp := "p:" + find.Params[1].Name()
	// paths of Find that answer "not indexed"
	paths, ok := an.ResultPaths(find, 1, false)
	if !ok {
		c.Unknown(nil, fname(c, find), "fields", P.Pos(find.Pos()), "too many paths")
		return
	}
	c.CountPaths(len(paths))
	tested := map[string]bool{}
	allNil := len(paths) > 0
	var note func(cd an.Cond, in *ssa.CallCommon, depth int)
	note = func(cd an.Cond, in *ssa.CallCommon, depth int) {
		cd = an.NormCond(cd)
		pathOf := func(v ssa.Value) string {
			if in != nil {
				return an.PathOfIn(v, in)
			}
			return an.PathOf(v)
		}
		if bin, isBin := cd.V.(*ssa.BinOp); isBin && (bin.Op == token.EQL || bin.Op == token.NEQ) && an.IsNilConst(bin.Y) {
			xp := pathOf(bin.X)
			if strings.HasPrefix(xp, fp+".") {
				tested[strings.TrimPrefix(xp, fp+".")] = true
				if (bin.Op == token.EQL) != cd.True {
					allNil = false // "present" on a path that answers "not indexed"
				}
			}
			return
		}
		// the predicate as a private helper: its verdict is what its own paths test
		if call, isCall := cd.V.(*ssa.Call); isCall && depth < 2 && in == nil {
			if g := an.StaticCallee(&call.Call); an.PrivateHelper(g) {
				sub, ok := an.ResultPaths(g, 0, cd.True)
				if !ok {
					return
				}
				for _, sp := range sub {
					for _, sc := range sp.Conds {
						note(sc, &call.Call, depth+1)
					}
				}
			}
		}
	}
	// the other spelling of "not indexed": the list of key groups built from the filter is empty
	// (then the index path is entered exactly when there is something to intersect)
	emptyKeyList := func(cd an.Cond) bool {
		cd = an.NormCond(cd)
		bin, isBin := cd.V.(*ssa.BinOp)
		if !isBin {
			return false
		}
		ln, isCall := bin.X.(*ssa.Call)
		if !isCall {
			return false
		}
		if b, isB := ln.Call.Value.(*ssa.Builtin); !isB || b.Name() != "len" {
			return false
		}
		src, isSrc := an.LoadedValue(an.Unwrap(ln.Call.Args[0])).(*ssa.Call)
		if !isSrc {
			return false
		}
		g := an.StaticCallee(&src.Call)
		if g == nil || !P.InModule(g) {
			return false
		}
		fromFilter := false
		for _, a := range src.Call.Args {
			if an.PathOf(a) == fp {
				fromFilter = true
			}
		}
		if !fromFilter {
			return false
		}
		fr := an.Frame{IsSubject: func(v ssa.Value) bool { return v == ssa.Value(ln) }, Term: func(v ssa.Value) (int64, bool) { return an.ConstInt(v) }}
		set, ok := fr.Atom(cd.V, cd.True)
		return ok && set.Intersect(an.Range(0, an.PosInf)).Equal(an.Range(0, 0))
	}
	allEmptyKeys := len(paths) > 0
	for _, p := range paths {
		hasEmpty := false
		for _, cd := range p.Conds {
			if emptyKeyList(cd) {
				hasEmpty = true
			}
		}
		// (a path that found the list of key groups empty falls back to the scan whatever fields it saw
		// present before — an empty Tags map, say: the scan path is the specification, so that is safe)
		before := allNil
		for _, cd := range p.Conds {
			note(cd, nil, 0)
		}
		if hasEmpty {
			allNil = before
		}
		if !hasEmpty {
			allEmptyKeys = false
		}
	}
	// fields that contribute index keys: read in Find's region outside presence tests
	keyed := map[string]bool{}
	an.Region(find, nil, func(o an.Occ) {
		if mu, isMU := o.In.(*ssa.MapUpdate); isMU {
			_ = mu
		}
		fa, isFA := o.In.(*ssa.FieldAddr)
		if !isFA || fa.Referrers() == nil {
			return
		}
		if n, st := structOf(fa); n != nil && n.Obj().Name() == "ReqFilter" && o.Path(fa.X) == fp {
			name := an.FieldNameHook(st, fa.Field)
			for _, r := range *fa.Referrers() {
				if u, isLoad := r.(*ssa.UnOp); isLoad && readAsCollection(u, 0) {
					keyed[name] = true
				}
			}
		}
	})
	delete(keyed, "Limit")
	delete(keyed, "Since")
	delete(keyed, "Until")
	if allEmptyKeys && len(tested) == 0 && setList(keyed) == "Authors,IDs,Kinds,Tags" {
		c.OK(nil, fname(c, find), "fields", P.Pos(find.Pos()), "full scan ⇔ the list of key groups built from {"+setList(keyed)+"} is empty: the index path is entered only with something to intersect")
		return
	}
	c.Check(setList(tested) == setList(keyed) && setList(tested) == "Authors,IDs,Kinds,Tags" && allNil, nil, fname(c, find), "fields", P.Pos(find.Pos()),
		"full scan ⇔ {"+setList(tested)+"} all nil = the fields that contribute index keys",
		fmt.Sprintf("the index path answers 'not indexed' after testing {%s} (only when all nil: %v) but index keys are built from {%s}: a filter can reach the index path with no key set (index out of range) or ignore a condition", setList(tested), allNil, setList(keyed)))
}

// readAsCollection: the elements (or the length) of v are read — here or in
// a module function v is handed to.
func readAsCollection(v ssa.Value, depth int) bool {
	if v.Referrers() == nil || depth > 3 {
		return false
	}
	for _, use := range *v.Referrers() {
		switch x := use.(type) {
		case *ssa.Range, *ssa.Index, *ssa.IndexAddr, *ssa.Lookup:
			return true
		case *ssa.Slice:
			if readAsCollection(x, depth+1) {
				return true
			}
		case *ssa.Call:
			if b, isB := x.Call.Value.(*ssa.Builtin); isB {
				if b.Name() == "len" {
					return true
				}
				continue
			}
			if g := an.StaticCallee(&x.Call); an.InModuleFn(g) && len(g.Params) == len(x.Call.Args) {
				for i, a := range x.Call.Args {
					if a == v && readAsCollection(g.Params[i], depth+1) {
						return true
					}
				}
			}
		}
	}
	return false
}

func runOrdDesc(c *core.Ctx) {
	P := c.P
	// comparator(s) handed to NewWithKeyCompare for trees of events
	var cmps []*ssa.Function
	sites := 0
	for _, fn := range P.ModFuncs {
		if c.P.PkgOf(fn) != core.ModulePath {
			continue
		}
		for _, ci := range calls(fn) {
			if strings.Contains(an.CalleeName(ci.Common()), "treemap/v2.NewWithKeyCompare") {
				sites++
				if f := funcValue(ci.Common().Args[0]); f != nil {
					dup := false
					for _, x := range cmps {
						if x == f {
							dup = true
						}
					}
					if !dup {
						cmps = append(cmps, f)
					}
				}
			}
		}
	}
	if len(cmps) == 0 {
		c.NoAnchor(nil, "treemap.NewWithKeyCompare call sites")
		return
	}
	c.Check(len(cmps) == 1, nil, "treemap", "one-comparator", "-", fmt.Sprintf("all %d trees of events use the same comparator %s", sites, cmps[0].Name()), fmt.Sprintf("%d different comparators order trees that are merged into each other", len(cmps)))
	cmp := cmps[0]
	c.CountFuncs(1)
	// less(a, b) must hold when a.CreatedAt > b.CreatedAt and fail when a.CreatedAt < b.CreatedAt
	fr := an.SymFrame("p:"+cmp.Params[0].Name()+".CreatedAt", "p:"+cmp.Params[1].Name()+".CreatedAt")
	t, f, n, ok := fr.FuncBoolMeaning(cmp, 0, nil, nil)
	c.CountPaths(n)
	newer, older := an.Range(1, an.PosInf), an.Range(an.NegInf, -1)
	c.Check(ok && newer.Subset(t) && newer.Intersect(f).IsEmpty() && older.Subset(f) && older.Intersect(t).IsEmpty(), nil, fname(c, cmp), "orientation", P.Pos(cmp.Pos()),
		"less(a,b) ⇔ a.CreatedAt ∈ "+t.Format("b.CreatedAt")+" (ties by id): newest first",
		"less(a,b) holds for a.CreatedAt ∈ "+t.Format("b.CreatedAt")+" and fails for "+f.Format("b.CreatedAt")+": the tree is not ordered by created_at descending, so Iterator() is not newest-first and Reverse() is not the oldest")
	// consumers: result listing and scan iterate forward
	find := P.Method(P.Root, "EventCache", "Find")
	scan := P.Method(P.Root, "EventCache", "findNeedLock")
	for _, fn := range []*ssa.Function{find, scan} {
		if fn == nil {
			if find != nil && scan == nil {
				// the scan folded into Find: the region of Find above holds both iterations
				c.Trivial(nil, fname(c, find), "iteration(scan folded into Find)", P.Pos(find.Pos()), "the locked body is part of Find: its iterations are counted there")
			}
			continue
		}
		fwd, rev := 0, 0
		an.Region(fn, nil, func(o an.Occ) {
			ci, isCI := o.In.(ssa.CallInstruction)
			if !isCI {
				return
			}
			if treemapCall(ci, "Iterator") {
				fwd++
			}
			if treemapCall(ci, "Reverse") {
				rev++
			}
		})
		c.CountSites(1)
		c.Check(fwd >= 1 && rev == 0, nil, fname(c, fn), "iteration", P.Pos(fn.Pos()), fmt.Sprintf("iterates forward (%d Iterator(), no Reverse()): newest first", fwd), fmt.Sprintf("iterates with %d Iterator() / %d Reverse(): results are not listed newest first", fwd, rev))
	}
}

func runTopkBnd(c *core.Ctx) {
	P := c.P
	find := P.Method(P.Root, "eventCacheEvsIndex", "Find")
	if find == nil {
		c.NoAnchor(nil, "eventCacheEvsIndex.Find")
		return
	}
	c.CountFuncs(1)
	var del ssa.CallInstruction
	for _, ci := range calls(find) {
		if treemapCall(ci, "Del") {
			del = ci
		}
	}
	if del == nil {
		c.Bad(nil, fname(c, find), "trim", P.Pos(find.Pos()), "the index path never trims its result: a filter's limit is ignored on this access path")
		return
	}
	victim := an.PathOf(del.Common().Args[1])
	okVictim := strings.Contains(victim, ".Reverse") && strings.Contains(victim, ".Key")
	okGuard := false
	detail := "trim not guarded by a comparison of the running count with the limit"
	for _, g := range an.Guards(find, del.Block()) {
		b, ok := g.V.(*ssa.BinOp)
		if !ok {
			continue
		}
		x, y, op := b.X, b.Y, b.Op
		if op == token.LSS || op == token.LEQ {
			x, y, op = y, x, map[token.Token]token.Token{token.LSS: token.GTR, token.LEQ: token.GEQ}[op]
		}
		if !g.True {
			continue
		}
		lim := an.PathOf(y)
		// the running count: a counter incremented per insertion, or the size of the result tree itself
		sizeOfResult := false
		if lc, isCall := an.Unwrap(x).(*ssa.Call); isCall && treemapCall(lc, "Len") && len(lc.Call.Args) > 0 && lc.Call.Args[0] == del.Common().Args[0] {
			sizeOfResult = true
		}
		if (isCounter(an.Unwrap(x)) || sizeOfResult) && strings.Contains(lim, ".Limit") {
			detail = fmt.Sprintf("trim when count %s limit (limit ← %s)", op, clip(lim, 70))
			okGuard = op == token.GTR && (strings.Contains(lim, "min(") || condMin(find, an.Unwrap(y)))
		}
	}
	c.Check(okGuard && okVictim, nil, fname(c, find), "trim", P.Pos(del.Pos()), detail+"; the removed key is Reverse().Key() (oldest)",
		detail+fmt.Sprintf("; victim ← %s: want 'count > min(candidates, *Limit)' removing the Reverse() (oldest) end — otherwise more or fewer than limit events, or not the newest, are returned", clip(victim, 60)))
}

func runScanLimit(c *core.Ctx) {
	P := c.P
	scan := P.Method(P.Root, "EventCache", "findNeedLock")
	if scan == nil {
		// the locked body folded into Find itself
		scan = P.Method(P.Root, "EventCache", "Find")
	}
	if scan == nil {
		c.NoAnchor(nil, "EventCache.findNeedLock")
		return
	}
	c.CountFuncs(1)
	// the Set into the result tree inside the loop over the retained set
	var set ssa.CallInstruction
	var setOcc an.Occ
	an.Region(scan, nil, func(o an.Occ) {
		ci, isCI := o.In.(ssa.CallInstruction)
		if !isCI || !treemapCall(ci, "Set") || !an.InLoop(ci.Block()) {
			return
		}
		// the scan path's insertion: its loop iterates the retained set (an iterator
		// of recv.evsCreatedAt is created on the way)
		h := an.LoopHeaderOf(ci.Block())
		if h == nil {
			return
		}
		loop := an.LoopBlocks(h)
		for _, pre := range h.Preds {
			if loop[pre] {
				continue
			}
			for _, in := range pre.Instrs {
				if c2, ok := in.(ssa.CallInstruction); ok && treemapCall(c2, "Iterator") && o.Path(c2.Common().Args[0]) == "recv.evsCreatedAt" {
					set, setOcc = ci, o
				}
			}
		}
	})
	if set == nil {
		c.Unknown(nil, fname(c, scan), "scan-loop", P.Pos(scan.Pos()), "scan loop over the retained set not recognised")
		return
	}
	host := set.Parent()
	var lmCall, doneCall *ssa.Call
	for _, g := range an.Guards(host, set.Block()) {
		v, pol := stripNot(g.V, g.True)
		call, ok := v.(*ssa.Call)
		if !ok {
			continue
		}
		n := an.CalleeName(&call.Call)
		if strings.HasSuffix(n, "ReqFilterEventLimitMatcher).LimitMatch") && pol {
			lmCall = call
		}
		if strings.HasSuffix(n, "ReqFilterEventLimitMatcher).Done") && !pol {
			doneCall = call
		}
		if strings.HasSuffix(n, "ReqFilterEventLimitMatcher).Match") && pol {
			c.Bad(nil, fname(c, scan), "scan-loop", P.Pos(call.Pos()), "the scan decides with Match (non-counting): the per-filter limit never becomes exhausted on the scan path")
			return
		}
	}
	good := lmCall != nil && doneCall != nil && an.InstrDominates(doneCall, lmCall)
	why := fmt.Sprintf("LimitMatch guard: %v, Done()==false guard before it: %v", lmCall != nil, doneCall != nil)
	if good {
		// matcher built from the whole filter of this iteration; matched event is the tree element
		mp := setOcc.Path(callRecv(&lmCall.Call))
		good = strings.Contains(mp, "NewReqFilterMatcher(p:"+scan.Params[1].Name()+"[*])") && setOcc.Path(callRecv(&doneCall.Call)) == mp
		why += "; matcher ← " + clip(mp, 80)
	}
	c.Check(good, nil, fname(c, scan), "scan-loop", P.Pos(set.Pos()), "an event enters the result only if Done() was false and LimitMatch (counting) accepted it, with a matcher built from the whole filter", "scan path does not respect the filter's limit: "+why)
}

// runIdxIntersect: keys of one condition are united, conditions intersected,
// since/until applied by a residual matcher.
func runIdxIntersect(c *core.Ctx) {
	P := c.P
	find := P.Method(P.Root, "eventCacheEvsIndex", "Find")
	if find == nil {
		c.NoAnchor(nil, "eventCacheEvsIndex.Find")
		return
	}
	c.CountFuncs(1)
	// (a) union: inside the per-condition loop, every event of idx[key] is added to the
	// condition's set (in Find or in a private helper it hands the keys to)
	union := false
	an.Region(find, nil, func(o an.Occ) {
		mu, ok := o.In.(*ssa.MapUpdate)
		if !ok || !(isConstBool(mu.Value, true) || isEmptyStruct(mu.Value.Type())) {
			return
		}
		if strings.HasPrefix(o.Path(mu.Key), "rangekey(recv.idx[") {
			union = true
		}
	})
	// the same through the standard library: maps.Copy(set, idx[key])
	an.Region(find, nil, func(o an.Occ) {
		if call, ok := o.In.(*ssa.Call); ok && an.CalleeName(&call.Call) == "maps.Copy" && len(call.Call.Args) == 2 {
			if strings.HasPrefix(o.Path(call.Call.Args[1]), "recv.idx[") {
				union = true
			}
		}
	})
	c.Check(union, nil, fname(c, find), "union-within-condition", P.Pos(find.Pos()), "events of every key of a condition are united into that condition's candidate set", "the candidate set of a condition is not the union over its keys")
	// (b) intersection: a candidate of the base set that is missing from another set is
	// deleted, and the "other set" runs over every position of the list but the base's
	inter := false
	var other ssa.Value   // the indexed set the membership test reads: sets[i]
	var baseSet ssa.Value // the set candidates are deleted from
	an.Region(find, nil, func(o an.Occ) {
		call, ok := o.In.(*ssa.Call)
		if !ok {
			return
		}
		b, ok := call.Call.Value.(*ssa.Builtin)
		if !ok || b.Name() != "delete" {
			return
		}
		for _, g := range an.Guards(call.Parent(), call.Block()) {
			if g.True {
				continue
			}
			// `!other[ev]` on a map[*Event]bool
			if lk, isLk := g.V.(*ssa.Lookup); isLk && !lk.CommaOk && lk.Index == call.Call.Args[1] {
				if bt, isB := lk.Type().Underlying().(*types.Basic); isB && bt.Kind() == types.Bool {
					inter, other, baseSet = true, lk.X, call.Call.Args[0]
				}
				continue
			}
			ex, isEx := g.V.(*ssa.Extract)
			if !isEx || ex.Index != 1 {
				continue
			}
			if lk, isLk := ex.Tuple.(*ssa.Lookup); isLk && lk.CommaOk {
				inter = true
				other = lk.X
				baseSet = call.Call.Args[0]
			}
		}
	})
	// the same through the standard library: maps.DeleteFunc(base, func(k, _) bool { _, found := other[k]; return !found })
	an.Region(find, nil, func(o an.Occ) {
		call, ok := o.In.(*ssa.Call)
		if !ok || an.CalleeName(&call.Call) != "maps.DeleteFunc" || len(call.Call.Args) != 2 {
			return
		}
		pred := funcValue(call.Call.Args[1])
		if pred == nil || len(pred.Params) != 2 {
			return
		}
		allMiss := true
		var set ssa.Value
		for _, rb := range an.ReturnBlocks(pred) {
			rv := an.ReturnValues(an.LastInstr(rb).(*ssa.Return))[0]
			v, pol := stripNot(rv, true)
			ex, isEx := v.(*ssa.Extract)
			if !isEx || ex.Index != 1 || pol {
				allMiss = false
				continue
			}
			lk, isLk := ex.Tuple.(*ssa.Lookup)
			if !isLk || !lk.CommaOk || lk.Index != ssa.Value(pred.Params[0]) {
				allMiss = false
				continue
			}
			set = an.LoadedValue(resolveFree(lk.X))
		}
		if allMiss && set != nil {
			inter, other = true, set
		}
	})
	loopOK, loopWhy := false, "the set tested for membership is not an element of the list of candidate sets"
	if other != nil {
		loopOK, loopWhy = coversAllButBase(other)
		if !loopOK {
			if ok, why := rangesOverTail(other, baseSet); ok {
				loopOK, loopWhy = true, why
			}
		}
	}
	c.Check(inter && loopOK, nil, fname(c, find), "intersect-across-conditions", P.Pos(find.Pos()), "a candidate absent from another condition's set is removed, for every other set of the list (intersection of all conditions): "+loopWhy, fmt.Sprintf("candidates are not intersected across all conditions (removal on miss: %v; every other set visited: %v — %s): an event matching only some of several conditions is returned", inter, loopOK, loopWhy))
	// (c) residual matcher: literal with exactly Since and Until of the filter
	resid := false
	an.Instrs(find, func(in ssa.Instruction) {
		a, ok := in.(*ssa.Alloc)
		if !ok || !isNamedRoot(a.Type(), "ReqFilter") {
			return
		}
		fs := an.StructLitFields(a)
		fp := "p:" + find.Params[1].Name()
		if len(fs) == 2 && fs["Since"] != nil && fs["Until"] != nil && an.PathOf(fs["Since"]) == fp+".Since" && an.PathOf(fs["Until"]) == fp+".Until" {
			resid = true
		}
	})
	// and its Match guards the insertion
	guarded := false
	for _, ci := range calls(find) {
		if treemapCall(ci, "Set") {
			for _, g := range an.Guards(find, ci.Block()) {
				v, pol := stripNot(g.V, g.True)
				if call, ok := v.(*ssa.Call); ok && pol && strings.HasSuffix(an.CalleeName(&call.Call), "ReqFilterEventLimitMatcher).Match") {
					guarded = true
				}
			}
		}
	}
	if !(resid && guarded) {
		// the residual test written out: `since != nil && ev.CreatedAt < *since → skip`, `until != nil &&
		// *until < ev.CreatedAt → skip` in front of the insertion
		fp := "p:" + find.Params[1].Name()
		var set ssa.CallInstruction
		for _, ci := range calls(find) {
			if treemapCall(ci, "Set") {
				set = ci
			}
		}
		okBoth := set != nil
		for _, bound := range []struct {
			field string
			want  an.Set
		}{{"Since", an.Range(0, an.PosInf)}, {"Until", an.Range(an.NegInf, 0)}} {
			if !okBoth {
				break
			}
			sym := fp + "." + bound.field
			subj := ""
			an.Instrs(find, func(in ssa.Instruction) {
				b, isB := in.(*ssa.BinOp)
				if !isB {
					return
				}
				x, y := an.PathOf(b.X), an.PathOf(b.Y)
				if y == sym && strings.HasSuffix(x, ".CreatedAt") {
					subj = x
				}
				if x == sym && strings.HasSuffix(y, ".CreatedAt") {
					subj = y
				}
			})
			if subj == "" {
				okBoth = false
				break
			}
			fr := an.SymFrame(subj, sym).AssumePresent(sym)
			fr.Domain = nil
			acc, n, okr := fr.ReachSet(find, set.Block(), nil, nil)
			c.CountPaths(n)
			if !okr || !acc.Equal(bound.want) {
				okBoth = false
			}
		}
		if okBoth {
			resid, guarded = true, true
		}
	}
	c.Check(resid && guarded, nil, fname(c, find), "residual(since,until)", P.Pos(find.Pos()), "candidates enter the result only if a matcher over exactly {Since, Until} of the filter accepts them", fmt.Sprintf("since/until are not applied on the index path (residual filter literal ok: %v, insertion guarded by its Match: %v)", resid, guarded))
}

// SCAN-FULL (closed world): the query path reads the creation-time tree only
// through Iterator() (from the newest end) and Len(). A seek (LowerBound,
// UpperBound, …) starts the walk somewhere else; whether it skips events that
// match depends on the comparator's tie-break and on the probe key, which this
// analysis cannot evaluate — so any other read is reported as unproven.
func runScanFull(c *core.Ctx) {
	P := c.P
	find := P.Method(P.Root, "EventCache", "Find")
	if find == nil {
		c.NoAnchor(nil, "EventCache.Find")
		return
	}
	fns := an.RefClosure([]*ssa.Function{find}, P.InModule)
	c.CountFuncs(len(fns))
	n := 0
	var other []string
	for _, fn := range fns {
		for _, ci := range calls(fn) {
			name := an.CalleeName(ci.Common())
			if !strings.Contains(name, "igrmk/treemap/v2.TreeMap[") || len(ci.Common().Args) == 0 || an.PathOf(ci.Common().Args[0]) != "recv.evsCreatedAt" {
				continue
			}
			n++
			m := name[strings.LastIndex(name, ".")+1:]
			if m != "Iterator" && m != "Len" {
				other = append(other, fmt.Sprintf("%s at %s", m, P.Pos(ci.Pos())))
			}
		}
	}
	c.CountSites(n)
	if n == 0 {
		c.NoAnchor(nil, "reads of the creation-time tree on the query path")
		return
	}
	c.Check(len(other) == 0, nil, fname(c, find), "tree-reads", P.Pos(find.Pos()), fmt.Sprintf("all %d reads of the creation-time tree on the query path are Iterator()/Len(): every retained event is visited newest first", n),
		"the query path also reads the creation-time tree through "+strings.Join(other, ", ")+": a walk that does not start at the newest end can skip matching events (ties at the probe key follow the comparator's id order)")
}

// coversAllButBase: v is sets[i] read inside a loop; decide from the shape of
// the loop that i visits every position 1 … len(sets)-1 (position 0 holds the
// set that is pruned). Three spellings are understood:
//   - for len(sets) > 1 { … sets[len(sets)-1] …; sets = sets[:len(sets)-1] }
//   - for i := len(sets)-1; i >= 1 (or > 0); i-- { … sets[i] … }
//   - for i := 1; i < len(sets); i++ { … sets[i] … }   (also: range sets[1:])
func coversAllButBase(v ssa.Value) (bool, string) {
	v = an.Unwrap(v)
	u, ok := v.(*ssa.UnOp)
	if !ok {
		return false, "not a load of an element"
	}
	ia, ok := u.X.(*ssa.IndexAddr)
	if !ok {
		return false, "not an element of a slice"
	}
	h := an.LoopHeaderOf(ia.Block())
	for h != nil {
		iff, isIf := an.LastInstr(h).(*ssa.If)
		if isIf {
			if ok, why := indexLoopCovers(h, iff, ia); ok {
				return true, why
			}
		}
		// enclosing loop
		var outer *ssa.BasicBlock
		for d := h.Idom(); d != nil; d = d.Idom() {
			if len(an.Latches(d)) > 0 && an.LoopBlocks(d)[h] {
				outer = d
				break
			}
		}
		h = outer
	}
	return false, "no enclosing loop walks the positions 1 … len-1"
}

// rangesOverTail: `base := sets[0]; for _, other := range sets[1:] { … }` —
// the tested set is the range element of list[1:] and the base is list[0].
func rangesOverTail(other, base ssa.Value) (bool, string) {
	u, ok := an.Unwrap(other).(*ssa.UnOp)
	if !ok {
		return false, ""
	}
	ia, ok := u.X.(*ssa.IndexAddr)
	if !ok {
		return false, ""
	}
	sl, ok := an.Unwrap(ia.X).(*ssa.Slice)
	if !ok || sl.High != nil || sl.Max != nil {
		return false, ""
	}
	if k, isK := an.ConstInt(sl.Low); !isK || k != 1 {
		return false, ""
	}
	// the index is the range induction variable of the enclosing loop over len(list[1:])
	h := an.LoopHeaderOf(ia.Block())
	covers := false
	for ; h != nil && !covers; h = an.LoopHeaderOf2(h) {
		iff, isIf := an.LastInstr(h).(*ssa.If)
		if !isIf {
			continue
		}
		cond, isB := iff.Cond.(*ssa.BinOp)
		if !isB || cond.Op != token.LSS || cond.X != ia.Index {
			continue
		}
		ln, isCall := cond.Y.(*ssa.Call)
		if !isCall {
			continue
		}
		if b, isBi := ln.Call.Value.(*ssa.Builtin); !isBi || b.Name() != "len" || an.Unwrap(ln.Call.Args[0]) != ssa.Value(sl) {
			continue
		}
		// idx = phi(-1, idx) + 1
		if inc, isInc := ia.Index.(*ssa.BinOp); isInc && inc.Op == token.ADD {
			if ph, isPhi := inc.X.(*ssa.Phi); isPhi && ph.Block() == h {
				if one, isK := an.ConstInt(inc.Y); isK && one == 1 {
					for i, pb := range h.Preds {
						if !h.Dominates(pb) {
							if first, isK := an.ConstInt(ph.Edges[i]); isK && first == -1 {
								covers = true
							}
						} else if ph.Edges[i] != ssa.Value(inc) {
							covers = false
						}
					}
				}
			}
		}
	}
	if !covers {
		return false, ""
	}
	// the base is element 0 of the same list
	bu, ok := an.Unwrap(an.LoadedValue(base)).(*ssa.UnOp)
	if !ok {
		return false, ""
	}
	bia, ok := bu.X.(*ssa.IndexAddr)
	if !ok || an.PathOf(bia.X) != an.PathOf(sl.X) {
		return false, ""
	}
	if k, isK := an.ConstInt(bia.Index); !isK || k != 0 {
		return false, ""
	}
	return true, "the base is list[0] and the other set ranges over list[1:]"
}

func indexLoopCovers(h *ssa.BasicBlock, iff *ssa.If, ia *ssa.IndexAddr) (bool, string) {
	cond, ok := iff.Cond.(*ssa.BinOp)
	if !ok {
		return false, ""
	}
	lenOf := func(x ssa.Value) bool {
		p := an.PathOf(x)
		return strings.HasPrefix(p, "len(")
	}
	idx := ia.Index
	// form 1: while len(sets) > 1, element len-1, latch re-slices to len-1
	if k, isK := an.ConstInt(cond.Y); isK && k == 1 && cond.Op == token.GTR && lenOf(cond.X) {
		if strings.Contains(an.PathOf(idx), "- const:1") {
			for _, l := range an.Latches(h) {
				for _, li := range l.Instrs {
					if sl, ok := li.(*ssa.Slice); ok && sl.High != nil && strings.Contains(an.PathOf(sl.High), "- const:1") {
						return true, "while more than one set is left the last one is applied and dropped"
					}
				}
			}
		}
		return false, ""
	}
	// forms 2/3: the index is an induction variable of this loop
	ph, ok := idx.(*ssa.Phi)
	if !ok || ph.Block() != h || len(ph.Edges) != 2 {
		// rotated loops test the incremented value: idx may be phi+step
		if b, isB := idx.(*ssa.BinOp); isB {
			if p2, isP := b.X.(*ssa.Phi); isP && p2.Block() == h {
				ph = p2
			}
		}
		if ph == nil || ph.Block() != h || len(ph.Edges) != 2 {
			return false, ""
		}
	}
	var init, next ssa.Value
	for i, pb := range h.Preds {
		if h.Dominates(pb) {
			next = ph.Edges[i]
		} else {
			init = ph.Edges[i]
		}
	}
	nb, ok := next.(*ssa.BinOp)
	if !ok || nb.X != ssa.Value(ph) {
		return false, ""
	}
	step, isK := an.ConstInt(nb.Y)
	if !isK || step != 1 {
		return false, ""
	}
	// exit test on the induction variable
	if cond.X != ssa.Value(ph) && cond.X != idx {
		return false, ""
	}
	switch {
	case nb.Op == token.SUB:
		// down from len-1 to 1
		bound, isK := an.ConstInt(cond.Y)
		from := an.PathOf(init)
		okBound := isK && ((cond.Op == token.GEQ && bound == 1) || (cond.Op == token.GTR && bound == 0))
		if okBound && strings.HasPrefix(from, "(len(") && strings.HasSuffix(from, " - const:1)") {
			return true, "index runs from len-1 down to 1"
		}
	case nb.Op == token.ADD:
		// up from 1 to len-1
		first, isK := an.ConstInt(init)
		if isK && first == 1 && cond.Op == token.LSS && lenOf(cond.Y) {
			return true, "index runs from 1 up to len-1"
		}
	}
	return false, ""
}

// condMin: v is min(candidates, *Limit) written as a conditional assignment
// (`limit := len(cands); if filter.Limit != nil && *filter.Limit < int64(limit) { limit = int(max(*filter.Limit, 0)) }`):
// a two-way phi of the candidate count and the filter's limit (possibly clamped at 0 from below),
// the limit taken on the edge guarded by `*Limit < count`.
func condMin(fn *ssa.Function, v ssa.Value) bool {
	ph, ok := v.(*ssa.Phi)
	if !ok || len(ph.Edges) < 2 {
		return false
	}
	for i, e := range ph.Edges {
		ep := an.PathOf(e)
		if !strings.Contains(ep, ".Limit") {
			continue
		}
		// every other edge (the short-circuit `Limit != nil && …` has two) carries the candidate count
		var other ssa.Value
		same := true
		for j, e2 := range ph.Edges {
			if j == i {
				continue
			}
			if other == nil {
				other = e2
			} else if e2 != other {
				same = false
			}
		}
		if !same || other == nil || strings.Contains(an.PathOf(other), ".Limit") {
			continue
		}
		// the limit itself, converted, at most clamped from below by a constant ≤ 0 … (a larger
		// floor would return more than the limit)
		if strings.Contains(ep, "max(") {
			okFloor := false
			var inner ssa.Value = e
			if cv, isCv := inner.(*ssa.Convert); isCv {
				inner = cv.X
			}
			{
				if call, isCall := inner.(*ssa.Call); isCall {
					if b, isB := call.Call.Value.(*ssa.Builtin); isB && b.Name() == "max" && len(call.Call.Args) == 2 {
						for _, a := range call.Call.Args {
							if k, isK := an.ConstInt(a); isK && k <= 0 {
								okFloor = true
							}
						}
					}
				}
			}
			if !okFloor {
				return false
			}
		}
		// … on the edge where it is smaller than the candidate count
		pred := ph.Block().Preds[i]
		for _, g := range append(an.Guards(fn, pred), an.Guards(fn, ph.Block())...) {
			b, isBin := g.V.(*ssa.BinOp)
			if !isBin || !g.True {
				continue
			}
			x, y, op := b.X, b.Y, b.Op
			if op == token.GTR {
				x, y, op = y, x, token.LSS
			}
			if op == token.LSS && strings.Contains(an.PathOf(x), ".Limit") && strings.Contains(an.PathOf(y), an.PathOf(other)) {
				return true
			}
		}
	}
	return false
}
