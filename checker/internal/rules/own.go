package rules

import (
	"fmt"
	"go/token"
	"go/types"
	"sort"
	"strings"

	"golang.org/x/tools/go/ssa"

	"mocverif/internal/an"
	"mocverif/internal/core"
)

// Ownership rules (engine OWN). They decide a structural necessary condition that every
// property shares as soon as two sessions run at once: memory that is recycled (a sync.Pool
// object, a batch buffer handed to another goroutine, a scratch parked behind an atomic
// pointer) has ONE owner at a time. Each rule enumerates every recycling construct of the
// module; the unchanged tree has none, so on it the rules report "nothing recycled" and the
// stored seeds (seeded/*-l) and the thorough tier's seeded mutants are their positive examples.
//
//	POOL-OWN     between Get and Put a pooled object is owned by the function that took it: nothing
//	             that aliases its memory is returned, stored away, sent or handed to a goroutine on a
//	             path that also gives the object back, and it is given back at most once per Get
//	ATOMIC-OWN   what atomic.Pointer.Load returns is still published: it is only read
//	             (a scratch is taken out with Swap(nil))
//	HANDOFF-OWN  a slice handed over through a channel is not refilled by the sender: the sender
//	             continues with fresh memory, with a buffer that came back through a channel, or with
//	             a ring of K buffers where K ≥ capacity of the channel + 2

var allProps = []string{"C01", "C02", "C03", "C04", "C05", "C06", "C07", "C08", "C09", "C10", "C11", "C12", "C13", "C14", "C15", "C16", "C17", "C18", "C19", "C20"}

func init() {
	reg(&core.RuleInfo{Name: "POOL-OWN", Props: allProps, Engine: "OWN", Floor: 1, Confirmed: 0,
		Doc: "a pooled object is exclusively owned between Get and Put: no alias of its memory outlives the Put, and it is put back at most once", Run: runPoolOwn})
	reg(&core.RuleInfo{Name: "ATOMIC-OWN", Props: allProps, Engine: "OWN", Floor: 1, Confirmed: 0,
		Doc: "memory read through atomic.Pointer.Load stays published and is therefore only read", Run: runAtomicOwn})
	reg(&core.RuleInfo{Name: "HANDOFF-OWN", Props: allProps, Engine: "OWN", Floor: 1, Confirmed: 0,
		Doc: "a slice handed over through a channel is not refilled by the sender (fresh memory, a returned buffer, or a ring of at least cap+2 buffers)", Run: runHandoffOwn})
}

// ---------------------------------------------------------------- subsystem attribution

// subsystemEntries: the functions a property's statement is about; an ownership obligation
// in function f belongs to every property whose entries reach f (static calls, closures,
// function values). A frozen table, confirmed against properties.jsonl.
var subsystemEntries = []struct {
	props []string
	match func(P *core.Program, fn *ssa.Function, recv, name, pkg string) bool
}{
	{[]string{"C01"}, func(P *core.Program, fn *ssa.Function, recv, name, pkg string) bool {
		return recv == "Event" && (name == "Verify" || name == "Serialize")
	}},
	{[]string{"C02"}, func(P *core.Program, fn *ssa.Function, recv, name, pkg string) bool {
		return strings.Contains(recv, "Matcher") && pkg == ""
	}},
	{[]string{"C03", "C04", "C05", "C15", "C16"}, func(P *core.Program, fn *ssa.Function, recv, name, pkg string) bool {
		return recv == "EventCache"
	}},
	{[]string{"C16"}, func(P *core.Program, fn *ssa.Function, recv, name, pkg string) bool {
		return strings.Contains(recv, "CacheHandler") || strings.Contains(recv, "SimpleHandler")
	}},
	{[]string{"C06", "C14", "C16"}, func(P *core.Program, fn *ssa.Function, recv, name, pkg string) bool {
		return strings.HasSuffix(pkg, "/handler/sqlite")
	}},
	{[]string{"C07", "C13"}, func(P *core.Program, fn *ssa.Function, recv, name, pkg string) bool {
		return recv == "RouterHandler" || strings.HasPrefix(recv, "subscriber")
	}},
	{[]string{"C08", "C09", "C13"}, func(P *core.Program, fn *ssa.Function, recv, name, pkg string) bool {
		return recv == "MergeHandler" || strings.HasPrefix(recv, "mergeHandlerSession")
	}},
	{[]string{"C10"}, func(P *core.Program, fn *ssa.Function, recv, name, pkg string) bool {
		return pkg == "" && (name == "MarshalJSON" || name == "UnmarshalJSON" || strings.HasPrefix(name, "Parse")) && !strings.HasPrefix(recv, "NIP11") && !strings.HasPrefix(recv, "Nip11")
	}},
	{[]string{"C11"}, func(P *core.Program, fn *ssa.Function, recv, name, pkg string) bool {
		return pkg == "" && (name == "UnmarshalJSON" || name == "Valid" || strings.HasPrefix(name, "Parse") || strings.HasPrefix(name, "Valid")) && !strings.HasPrefix(recv, "NIP11") && !strings.HasPrefix(recv, "Nip11")
	}},
	{[]string{"C12", "C13"}, func(P *core.Program, fn *ssa.Function, recv, name, pkg string) bool {
		return recv == "Relay"
	}},
	{[]string{"C17", "C18", "C19"}, func(P *core.Program, fn *ssa.Function, recv, name, pkg string) bool {
		return pkg == "" && (name == "NewSimpleMiddleware" || strings.HasPrefix(name, "simpleMiddleware") || strings.HasPrefix(recv, "simpleMiddleware"))
	}},
	{[]string{"C17"}, func(P *core.Program, fn *ssa.Function, recv, name, pkg string) bool {
		return pkg == "" && recv != "" && strings.HasSuffix(recv, "MiddlewareBase") && !strings.Contains(recv, "Unique") && !strings.Contains(recv, "MaxSubscriptions")
	}},
	{[]string{"C18"}, func(P *core.Program, fn *ssa.Function, recv, name, pkg string) bool {
		return pkg == "" && (strings.Contains(recv, "UniqueFilter") || strings.Contains(recv, "MaxSubscriptions") || strings.Contains(name, "UniqueFilterMiddleware") || strings.Contains(name, "MaxSubscriptionsMiddleware"))
	}},
	{[]string{"C19"}, func(P *core.Program, fn *ssa.Function, recv, name, pkg string) bool {
		return strings.HasSuffix(pkg, "/middleware/prometheus")
	}},
	{[]string{"C20"}, func(P *core.Program, fn *ssa.Function, recv, name, pkg string) bool {
		return pkg == "" && (recv == "NIP11" || recv == "ServeMux" || strings.HasPrefix(recv, "Nip11") || strings.HasPrefix(recv, "NIP11"))
	}},
}

var subsystemCache = map[*core.Program]map[*ssa.Function]map[string]bool{}

func subsystemTable(c *core.Ctx) map[*ssa.Function]map[string]bool {
	P := c.P
	if t, ok := subsystemCache[P]; ok {
		return t
	}
	t := map[*ssa.Function]map[string]bool{}
	subsystemCache[P] = t
	rootPath := ""
	if P.Root != nil {
		rootPath = P.Root.Pkg.Path()
	}
	for _, e := range subsystemEntries {
		var roots []*ssa.Function
		for _, fn := range P.ModFuncs {
			if fn.Parent() != nil || strings.HasSuffix(P.PkgOf(fn), "/cmd/mocrelay") {
				continue
			}
			pkg := P.PkgOf(fn)
			if pkg == rootPath {
				pkg = ""
			}
			if e.match(P, fn, recvTypeName(fn), fn.Name(), pkg) {
				roots = append(roots, fn)
			}
		}
		for _, f := range an.RefClosure(roots, P.InModule) {
			if t[f] == nil {
				t[f] = map[string]bool{}
			}
			for _, p := range e.props {
				t[f][p] = true
			}
		}
	}
	return t
}

// subsystemProps: the properties whose behaviour runs through fn (nil: none of them does).
func subsystemProps(c *core.Ctx, fn *ssa.Function) []string {
	t := subsystemTable(c)
	set := map[string]bool{}
	for f := fn; f != nil; f = f.Parent() {
		for p := range t[f] {
			set[p] = true
		}
		if o := f.Origin(); o != nil {
			for p := range t[o] {
				set[p] = true
			}
		}
	}
	var out []string
	for p := range set {
		out = append(out, p)
	}
	sort.Strings(out)
	return out
}

// ---------------------------------------------------------------- borrow propagation

func aliasingType(t types.Type) bool {
	if t == nil {
		return false
	}
	switch u := t.Underlying().(type) {
	case *types.Slice, *types.Pointer, *types.Map, *types.Chan, *types.Signature:
		return true
	case *types.Interface:
		return !types.Identical(t, types.Universe.Lookup("error").Type())
	case *types.Basic:
		return u.Kind() == types.UnsafePointer
	case *types.Struct:
		for i := 0; i < u.NumFields(); i++ {
			if aliasingType(u.Field(i).Type()) {
				return true
			}
		}
	case *types.Tuple:
		for i := 0; i < u.Len(); i++ {
			if aliasingType(u.At(i).Type()) {
				return true
			}
		}
	}
	return false
}

// copying library functions: the result shares nothing with the arguments
var copyFuncs = map[string]bool{
	"bytes.Clone": true, "slices.Clone": true, "strings.Clone": true, "maps.Clone": true,
	"encoding/hex.DecodeString": true, "encoding/hex.EncodeToString": true, "encoding/hex.AppendEncode": false,
	"fmt.Errorf": true, "fmt.Sprintf": true, "errors.New": true, "strconv.Itoa": true,
	"encoding/json.Marshal": true, "encoding/json.NewDecoder": false,
}

type borrow struct {
	unit  []*ssa.Function
	vals  map[ssa.Value]bool
	cells map[*ssa.Alloc]bool
}

func (b *borrow) has(v ssa.Value) bool {
	if v == nil {
		return false
	}
	if b.vals[v] {
		return true
	}
	if fv, ok := v.(*ssa.FreeVar); ok {
		if bd := an.FreeVarBinding(fv); bd != nil && bd != v {
			if b.vals[bd] {
				return true
			}
		}
	}
	return false
}

func (b *borrow) cellOf(addr ssa.Value) *ssa.Alloc {
	if a := an.ResolveAlloc(addr); a != nil {
		return a
	}
	return nil
}

// propagate: the values of the unit (a function and its closures) that alias the memory of
// the seeds. Fields of a borrowed struct are borrowed (its buffers, maps); elements loaded out
// of a borrowed container are payload, not the container's memory.
func propagate(unit []*ssa.Function, seeds []ssa.Value) *borrow {
	b := &borrow{unit: unit, vals: map[ssa.Value]bool{}, cells: map[*ssa.Alloc]bool{}}
	for _, s := range seeds {
		b.vals[s] = true
	}
	mark := func(v ssa.Value) bool {
		if v == nil || b.vals[v] {
			return false
		}
		b.vals[v] = true
		return true
	}
	for changed, round := true, 0; changed && round < 40; round++ {
		changed = false
		for _, fn := range unit {
			an.Instrs(fn, func(in ssa.Instruction) {
				switch x := in.(type) {
				case *ssa.TypeAssert:
					if b.has(x.X) && mark(x) {
						changed = true
					}
				case *ssa.Extract:
					if b.has(x.Tuple) && aliasingType(x.Type()) && mark(x) {
						changed = true
					}
				case *ssa.ChangeType:
					if b.has(x.X) && mark(x) {
						changed = true
					}
				case *ssa.ChangeInterface:
					if b.has(x.X) && mark(x) {
						changed = true
					}
				case *ssa.MakeInterface:
					if b.has(x.X) && mark(x) {
						changed = true
					}
				case *ssa.FieldAddr:
					if b.has(x.X) && mark(x) {
						changed = true
					}
				case *ssa.IndexAddr:
					if b.has(x.X) && mark(x) {
						changed = true
					}
				case *ssa.Field:
					if b.has(x.X) && aliasingType(x.Type()) && mark(x) {
						changed = true
					}
				case *ssa.Slice:
					if b.has(x.X) && mark(x) {
						changed = true
					}
				case *ssa.Phi:
					for _, e := range x.Edges {
						if b.has(e) && mark(x) {
							changed = true
						}
					}
				case *ssa.UnOp:
					if x.Op != token.MUL {
						return
					}
					if a := b.cellOf(x.X); a != nil {
						if b.cells[a] && aliasingType(x.Type()) && mark(x) {
							changed = true
						}
						return
					}
					if b.has(x.X) && aliasingType(x.Type()) {
						if _, elem := x.X.(*ssa.IndexAddr); elem {
							return // an element loaded out of a borrowed container: payload
						}
						if mark(x) {
							changed = true
						}
					}
				case *ssa.Store:
					if b.has(x.Val) {
						if a := b.cellOf(x.Addr); a != nil && !b.cells[a] {
							b.cells[a] = true
							changed = true
						}
					}
				case *ssa.Call:
					if bi, ok := x.Call.Value.(*ssa.Builtin); ok {
						if bi.Name() == "append" && len(x.Call.Args) > 0 && b.has(x.Call.Args[0]) && mark(x) {
							changed = true
						}
						return
					}
					if !aliasingType(x.Type()) {
						return
					}
					name := an.CalleeName(&x.Call)
					if copyFuncs[name] {
						return
					}
					any := false
					for _, a := range x.Call.Args {
						if b.has(a) {
							any = true
						}
					}
					if x.Call.IsInvoke() && b.has(x.Call.Value) {
						any = true
					}
					if any && mark(x) {
						changed = true
					}
				}
			})
		}
	}
	return b
}

func unitOf(fn *ssa.Function) []*ssa.Function { return an.WithAnon(fn) }

// invocations: where in parent (top level) the closure cl runs: calls / defers of its
// MakeClosure, directly or through the local variable it is assigned to.
func invocations(parent, cl *ssa.Function) []ssa.CallInstruction {
	var out []ssa.CallInstruction
	var mcs []ssa.Value
	an.Instrs(parent, func(in ssa.Instruction) {
		if mc, ok := in.(*ssa.MakeClosure); ok && mc.Fn == cl {
			mcs = append(mcs, mc)
		}
	})
	isCl := func(v ssa.Value) bool {
		for _, m := range mcs {
			if v == m {
				return true
			}
		}
		if u, ok := v.(*ssa.UnOp); ok && u.Op == token.MUL {
			if a := an.ResolveAlloc(u.X); a != nil {
				for _, s := range an.StoresTo(a) {
					for _, m := range mcs {
						if s.Val == m {
							return true
						}
					}
				}
			}
		}
		return false
	}
	for _, f := range an.WithAnon(parent) {
		for _, ci := range calls(f) {
			if isCl(ci.Common().Value) {
				if f == parent {
					out = append(out, ci)
				} else {
					// invoked from another closure: where that one runs
					out = append(out, invocations(parent, f)...)
				}
			}
		}
	}
	return out
}

// ---------------------------------------------------------------- POOL-OWN

type ownEvent struct {
	at       ssa.Instruction // position in the top-level function
	deferred bool
	what     string
}

func isPoolCall(ci ssa.CallInstruction, method string) bool {
	n := an.CalleeName(ci.Common())
	return n == "(*sync.Pool)."+method
}

// poolFacts: which module functions hand a pooled object to their caller (getters: result
// index) and which give an argument back to the pool (putters: parameter index).
type poolFacts struct {
	getters map[*ssa.Function]map[int]bool
	putters map[*ssa.Function]map[int]bool
	any     bool
}

var poolFactsCache = map[*core.Program]*poolFacts{}

func bodyOf(fn *ssa.Function) *ssa.Function {
	if fn != nil && len(fn.Blocks) == 0 && fn.Origin() != nil {
		return fn.Origin()
	}
	return fn
}

// acquisitions of fn (top level and closures): pool Gets and calls of getters
func poolAcquisitions(pf *poolFacts, fn *ssa.Function) []ssa.Value {
	var out []ssa.Value
	for _, f := range unitOf(fn) {
		for _, ci := range calls(f) {
			call, ok := ci.(*ssa.Call)
			if !ok {
				continue
			}
			if isPoolCall(ci, "Get") {
				out = append(out, call)
				continue
			}
			if sc := bodyOf(an.StaticCallee(ci.Common())); sc != nil && len(pf.getters[sc]) > 0 {
				out = append(out, call)
			}
		}
	}
	return out
}

// releasesOf: the events of the top-level function at which something borrowed goes back
func releasesOf(pf *poolFacts, fn *ssa.Function, b *borrow) []ownEvent {
	var out []ownEvent
	for _, f := range b.unit {
		for _, ci := range calls(f) {
			rel := ""
			if isPoolCall(ci, "Put") && len(ci.Common().Args) == 2 && b.has(ci.Common().Args[1]) {
				rel = "Put"
			} else if sc := bodyOf(an.StaticCallee(ci.Common())); sc != nil && len(pf.putters[sc]) > 0 {
				for i := range pf.putters[sc] {
					if i < len(ci.Common().Args) && b.has(ci.Common().Args[i]) {
						rel = sc.Name() + "(→Put)"
					}
				}
			}
			if rel == "" {
				continue
			}
			_, isDefer := ci.(*ssa.Defer)
			if f == fn {
				out = append(out, ownEvent{at: ci, deferred: isDefer, what: rel})
				continue
			}
			for _, inv := range invocations(fn, f) {
				_, d := inv.(*ssa.Defer)
				out = append(out, ownEvent{at: inv, deferred: d || isDefer, what: rel + " in " + f.Name()})
			}
		}
	}
	return out
}

func instrReaches(a, b ssa.Instruction) bool {
	if a.Block() == b.Block() {
		if before(a, b) {
			return true
		}
		// through a loop back to the same block
		for _, s := range a.Block().Succs {
			if an.Reachable(s, b.Block(), nil, nil) {
				return true
			}
		}
		return false
	}
	return an.Reachable(a.Block(), b.Block(), nil, nil)
}

func computePoolFacts(c *core.Ctx) *poolFacts {
	P := c.P
	if pf, ok := poolFactsCache[P]; ok {
		return pf
	}
	pf := &poolFacts{getters: map[*ssa.Function]map[int]bool{}, putters: map[*ssa.Function]map[int]bool{}}
	poolFactsCache[P] = pf
	for _, fn := range P.ModFuncs {
		for _, ci := range calls(fn) {
			if isPoolCall(ci, "Get") || isPoolCall(ci, "Put") {
				pf.any = true
			}
		}
	}
	if !pf.any {
		return pf
	}
	for round := 0; round < 4; round++ {
		changed := false
		for _, fn := range P.ModFuncs {
			if fn.Parent() != nil || len(fn.Blocks) == 0 {
				continue
			}
			// putter: a parameter flows to Put
			for i, p := range fn.Params {
				if !aliasingType(p.Type()) || pf.putters[fn][i] {
					continue
				}
				b := propagate(unitOf(fn), []ssa.Value{p})
				if len(releasesOf(pf, fn, b)) > 0 {
					if pf.putters[fn] == nil {
						pf.putters[fn] = map[int]bool{}
					}
					pf.putters[fn][i] = true
					changed = true
				}
			}
			// getter: a result aliases an acquisition that is not given back on that path
			acq := poolAcquisitions(pf, fn)
			if len(acq) == 0 {
				continue
			}
			b := propagate(unitOf(fn), acq)
			rel := releasesOf(pf, fn, b)
			for _, rb := range an.ReturnBlocks(fn) {
				ret := an.LastInstr(rb).(*ssa.Return)
				for i, v := range an.ReturnValues(ret) {
					if !b.has(v) || !aliasingType(v.Type()) || pf.getters[fn][i] {
						continue
					}
					released := false
					for _, e := range rel {
						if instrReaches(e.at, ret) {
							released = true
						}
					}
					if !released {
						if pf.getters[fn] == nil {
							pf.getters[fn] = map[int]bool{}
						}
						pf.getters[fn][i] = true
						changed = true
					}
				}
			}
		}
		if !changed {
			break
		}
	}
	return pf
}

func runPoolOwn(c *core.Ctx) {
	P := c.P
	pf := computePoolFacts(c)
	if !pf.any {
		c.CountFuncs(len(P.ModFuncs))
		c.Trivial(nil, "-", "pools", "-", fmt.Sprintf("no sync.Pool Get/Put in the %d module functions: nothing is recycled through a pool", len(P.ModFuncs)))
		return
	}
	n := 0
	for _, fn := range libFuncs(c) {
		if fn.Parent() != nil || len(fn.Blocks) == 0 {
			continue
		}
		acqs := poolAcquisitions(pf, fn)
		if len(acqs) == 0 {
			continue
		}
		c.CountFuncs(1)
		props := subsystemProps(c, fn)
		if len(props) == 0 {
			props = []string{"C15"}
		}
		for _, acq := range acqs {
			n++
			b := propagate(unitOf(fn), []ssa.Value{acq})
			rel := releasesOf(pf, fn, b)
			where := P.Pos(acq.Pos())
			construct := "pooled@" + an.CalleeName(&acq.(*ssa.Call).Call)
			// 1. put back at most once on a path
			var twice []string
			for i, e1 := range rel {
				for j, e2 := range rel {
					if i >= j || e1.at == e2.at {
						continue
					}
					both := false
					switch {
					case e1.deferred || e2.deferred:
						both = instrReaches(e1.at, e2.at) || instrReaches(e2.at, e1.at)
					default:
						avoid := map[*ssa.BasicBlock]bool{}
						if in, ok := acq.(ssa.Instruction); ok && in.Parent() == fn && in.Block() != e1.at.Block() && in.Block() != e2.at.Block() {
							avoid[in.Block()] = true
						}
						both = (e1.at.Block() == e2.at.Block()) || an.Reachable(e1.at.Block(), e2.at.Block(), nil, avoid) || an.Reachable(e2.at.Block(), e1.at.Block(), nil, avoid)
					}
					if both {
						twice = append(twice, fmt.Sprintf("%s at %s and %s at %s", e1.what, P.Pos(e1.at.Pos()), e2.what, P.Pos(e2.at.Pos())))
					}
				}
			}
			c.Check(len(twice) == 0, props, fname(c, fn), construct+"/put-once", where,
				fmt.Sprintf("%d release point(s), no two on one path: the object is in the pool at most once", len(rel)),
				fmt.Sprintf("the pooled object taken at %s can be given back twice on one path (%s): it then sits in the pool twice and two later Gets — two sessions — share it", where, strings.Join(twice, "; ")))
			// 2. nothing of it outlives the Put
			var out []string
			released := func(at ssa.Instruction) (string, bool) {
				top := at
				for top.Parent() != fn {
					inv := invocations(fn, top.Parent())
					if len(inv) == 0 {
						return "", false
					}
					top = inv[0]
				}
				for _, e := range rel {
					if e.deferred && (instrReaches(e.at, top) || instrReaches(top, e.at)) {
						return e.what + " (deferred at " + P.Pos(e.at.Pos()) + ")", true
					}
					if !e.deferred && (instrReaches(e.at, top) || instrReaches(top, e.at)) {
						return e.what + " at " + P.Pos(e.at.Pos()), true
					}
				}
				return "", false
			}
			for _, f := range b.unit {
				an.Instrs(f, func(in ssa.Instruction) {
					switch x := in.(type) {
					case *ssa.Return:
						if f != fn {
							return
						}
						for i, v := range an.ReturnValues(x) {
							if b.has(v) && aliasingType(v.Type()) {
								if w, ok := released(x); ok {
									out = append(out, fmt.Sprintf("result #%d returned at %s (%s) aliases it, and %s gives it back", i, P.Pos(x.Pos()), clip(an.PathOf(v), 60), w))
								}
							}
						}
					case *ssa.Store:
						if !b.has(x.Val) || !aliasingType(x.Val.Type()) {
							return
						}
						if b.cellOf(x.Addr) != nil || b.has(x.Addr) {
							return
						}
						if w, ok := released(x); ok {
							out = append(out, fmt.Sprintf("stored into %s at %s, and %s gives it back", clip(an.PathOf(x.Addr), 60), P.Pos(x.Pos()), w))
						}
					case *ssa.Send:
						if b.has(x.X) && aliasingType(x.X.Type()) {
							if w, ok := released(x); ok {
								out = append(out, fmt.Sprintf("sent on a channel at %s, and %s gives it back", P.Pos(x.Pos()), w))
							}
						}
					case *ssa.Go:
						for _, a := range x.Call.Args {
							if b.has(a) && aliasingType(a.Type()) {
								if w, ok := released(x); ok {
									out = append(out, fmt.Sprintf("handed to a goroutine at %s, and %s gives it back", P.Pos(x.Pos()), w))
								}
							}
						}
					case *ssa.MapUpdate:
						if b.has(x.Value) && aliasingType(x.Value.Type()) && !b.has(x.Map) {
							if w, ok := released(x); ok {
								out = append(out, fmt.Sprintf("put into a map at %s, and %s gives it back", P.Pos(x.Pos()), w))
							}
						}
					}
				})
			}
			sort.Strings(out)
			isGetter := len(pf.getters[fn]) > 0
			okMsg := fmt.Sprintf("%d release point(s); nothing that aliases the object is returned, stored away, sent or handed to a goroutine on a path that gives it back", len(rel))
			if isGetter && len(rel) == 0 {
				okMsg = "hands the pooled object to its callers, which are checked in turn"
			}
			c.Check(len(out) == 0, props, fname(c, fn), construct+"/no-alias-out", where, okMsg,
				fmt.Sprintf("memory of the pooled object taken at %s outlives its return to the pool: %s — the next Get (another session) rewrites what the holder still reads", where, strings.Join(out, "; ")))
		}
	}
	c.CountSites(n)
}

// ---------------------------------------------------------------- ATOMIC-OWN

func isAtomicPtrLoad(ci ssa.CallInstruction) bool {
	n := an.CalleeName(ci.Common())
	return strings.HasPrefix(n, "(*sync/atomic.Pointer[") && strings.HasSuffix(n, ").Load")
}

func runAtomicOwn(c *core.Ctx) {
	P := c.P
	// loaders: module functions returning what they Loaded
	loaders := map[*ssa.Function]bool{}
	anyLoad := false
	loadsOf := func(fn *ssa.Function) []ssa.Value {
		var out []ssa.Value
		for _, f := range unitOf(fn) {
			for _, ci := range calls(f) {
				call, ok := ci.(*ssa.Call)
				if !ok {
					continue
				}
				if isAtomicPtrLoad(ci) {
					out = append(out, call)
				} else if sc := bodyOf(an.StaticCallee(ci.Common())); sc != nil && loaders[sc] {
					out = append(out, call)
				}
			}
		}
		return out
	}
	for _, fn := range P.ModFuncs {
		for _, ci := range calls(fn) {
			if isAtomicPtrLoad(ci) {
				anyLoad = true
			}
		}
	}
	if !anyLoad {
		c.CountFuncs(len(P.ModFuncs))
		c.Trivial(nil, "-", "atomic-pointers", "-", fmt.Sprintf("no atomic.Pointer.Load in the %d module functions: nothing is published through an atomic pointer", len(P.ModFuncs)))
		return
	}
	for round := 0; round < 3; round++ {
		for _, fn := range P.ModFuncs {
			if fn.Parent() != nil || len(fn.Blocks) == 0 || loaders[fn] {
				continue
			}
			ls := loadsOf(fn)
			if len(ls) == 0 {
				continue
			}
			b := propagate(unitOf(fn), ls)
			for _, rb := range an.ReturnBlocks(fn) {
				for _, v := range an.ReturnValues(an.LastInstr(rb).(*ssa.Return)) {
					if b.has(v) && aliasingType(v.Type()) {
						loaders[fn] = true
					}
				}
			}
		}
	}
	for _, fn := range libFuncs(c) {
		if fn.Parent() != nil || len(fn.Blocks) == 0 {
			continue
		}
		ls := loadsOf(fn)
		if len(ls) == 0 {
			continue
		}
		c.CountFuncs(1)
		props := subsystemProps(c, fn)
		if len(props) == 0 {
			props = []string{"C15"}
		}
		for _, l := range ls {
			b := propagate(unitOf(fn), []ssa.Value{l})
			var writes []string
			for _, f := range b.unit {
				an.Instrs(f, func(in ssa.Instruction) {
					switch x := in.(type) {
					case *ssa.Store:
						if b.has(x.Addr) && b.cellOf(x.Addr) == nil {
							writes = append(writes, "store through "+clip(an.PathOf(x.Addr), 50)+" at "+P.Pos(x.Pos()))
						}
					case *ssa.MapUpdate:
						if b.has(x.Map) {
							writes = append(writes, "map update at "+P.Pos(x.Pos()))
						}
					case *ssa.Call:
						if bi, ok := x.Call.Value.(*ssa.Builtin); ok && len(x.Call.Args) > 0 && b.has(x.Call.Args[0]) {
							switch bi.Name() {
							case "clear", "copy", "delete":
								writes = append(writes, bi.Name()+"(…) at "+P.Pos(x.Pos()))
							}
						}
					}
				})
			}
			sort.Strings(writes)
			c.Check(len(writes) == 0, props, fname(c, fn), "loaded@"+clip(an.PathOf(l), 60), P.Pos(l.Pos()),
				"what Load returned is only read here",
				fmt.Sprintf("memory obtained with atomic.Pointer.Load at %s is written (%s): Load leaves the pointer published, so every concurrent caller gets the same memory — exclusive use needs Swap(nil) (or a copy)", P.Pos(l.Pos()), strings.Join(writes, "; ")))
		}
	}
}

// ---------------------------------------------------------------- HANDOFF-OWN

type sendSite struct {
	fn  *ssa.Function // function holding the instruction
	at  ssa.Instruction
	ch  ssa.Value
	val ssa.Value
}

// sendHelpers: module functions that send parameter #v on parameter #ch (sendCtx and friends)
func sendHelpers(P *core.Program) map[*ssa.Function][2]int {
	out := map[*ssa.Function][2]int{}
	paramIdx := func(fn *ssa.Function, v ssa.Value) int {
		for {
			switch x := v.(type) {
			case *ssa.MakeInterface:
				v = x.X
				continue
			case *ssa.ChangeType:
				v = x.X
				continue
			}
			break
		}
		for i, p := range fn.Params {
			if p == v {
				return i
			}
		}
		return -1
	}
	for _, fn := range P.ModFuncs {
		if fn.Parent() != nil || len(fn.Blocks) == 0 {
			continue
		}
		an.Instrs(fn, func(in ssa.Instruction) {
			switch x := in.(type) {
			case *ssa.Send:
				if ci, vi := paramIdx(fn, x.Chan), paramIdx(fn, x.X); ci >= 0 && vi >= 0 {
					out[fn] = [2]int{ci, vi}
				}
			case *ssa.Select:
				for _, st := range x.States {
					if st.Dir == types.SendOnly {
						if ci, vi := paramIdx(fn, st.Chan), paramIdx(fn, st.Send); ci >= 0 && vi >= 0 {
							out[fn] = [2]int{ci, vi}
						}
					}
				}
			}
		})
	}
	return out
}

func sendSites(P *core.Program, helpers map[*ssa.Function][2]int, fn *ssa.Function) []sendSite {
	var out []sendSite
	for _, f := range unitOf(fn) {
		an.Instrs(f, func(in ssa.Instruction) {
			switch x := in.(type) {
			case *ssa.Send:
				out = append(out, sendSite{f, x, x.Chan, x.X})
			case *ssa.Select:
				for _, st := range x.States {
					if st.Dir == types.SendOnly {
						out = append(out, sendSite{f, x, st.Chan, st.Send})
					}
				}
			case ssa.CallInstruction:
				sc := bodyOf(an.StaticCallee(x.Common()))
				if sc == nil {
					return
				}
				if h, ok := helpers[sc]; ok && h[0] < len(x.Common().Args) && h[1] < len(x.Common().Args) {
					out = append(out, sendSite{f, x, x.Common().Args[h[0]], x.Common().Args[h[1]]})
				}
			}
		})
	}
	return out
}

func isSliceT(t types.Type) bool {
	_, ok := t.Underlying().(*types.Slice)
	return ok
}

// carriedSlices: the slices a sent value hands over (the value itself, fields of the struct
// literal it is, arguments of the constructor that built it)
func carriedSlices(P *core.Program, v ssa.Value, depth int) []ssa.Value {
	if v == nil || depth > 4 {
		return nil
	}
	if isSliceT(v.Type()) {
		return []ssa.Value{v}
	}
	switch x := v.(type) {
	case *ssa.MakeInterface:
		return carriedSlices(P, x.X, depth+1)
	case *ssa.ChangeType:
		return carriedSlices(P, x.X, depth+1)
	case *ssa.UnOp:
		if x.Op == token.MUL {
			if a, ok := x.X.(*ssa.Alloc); ok {
				return carriedSlices(P, a, depth+1)
			}
		}
	case *ssa.Alloc:
		var out []ssa.Value
		for _, f := range an.StructLitFields(x) {
			if isSliceT(f.Type()) {
				out = append(out, f)
			}
		}
		return out
	case *ssa.Call:
		if sc := an.StaticCallee(&x.Call); sc != nil && P.InModule(sc) {
			var out []ssa.Value
			for _, a := range x.Call.Args {
				if isSliceT(a.Type()) {
					out = append(out, a)
				}
			}
			return out
		}
	}
	return nil
}

type bufRoot struct {
	kind string // fresh, received, param, self, ring, field, unknown
	ring ssa.Value
	at   token.Pos
	note string
}

// cellStores: every store into the local variable a (in its function and the closures capturing it)
func cellStores(a *ssa.Alloc) []*ssa.Store { return an.StoresTo(a) }

// bufRoots: where the memory of slice s comes from
func bufRoots(P *core.Program, s ssa.Value) []bufRoot {
	var out []bufRoot
	seen := map[ssa.Value]bool{}
	onStack := map[*ssa.Alloc]bool{}
	var walk func(v ssa.Value, zeroed bool, depth int)
	walk = func(v ssa.Value, zeroed bool, depth int) {
		if v == nil || depth > 24 {
			return
		}
		key := v
		if seen[key] && !zeroed {
			return
		}
		seen[key] = true
		switch x := v.(type) {
		case *ssa.Const:
			out = append(out, bufRoot{kind: "fresh", note: "nil"})
		case *ssa.MakeSlice:
			out = append(out, bufRoot{kind: "fresh", at: x.Pos(), note: "make"})
		case *ssa.Parameter:
			out = append(out, bufRoot{kind: "param", note: x.Name()})
		case *ssa.Slice:
			z := zeroed
			if k, ok := an.ConstInt(x.High); ok && k == 0 && x.High != nil {
				z = true
			}
			if a, ok := x.X.(*ssa.Alloc); ok {
				if _, isArr := a.Type().(*types.Pointer).Elem().Underlying().(*types.Array); isArr {
					out = append(out, bufRoot{kind: "fresh", at: a.Pos(), note: "local array"})
					return
				}
			}
			walk(x.X, z, depth+1)
		case *ssa.Phi:
			for _, e := range x.Edges {
				walk(e, zeroed, depth+1)
			}
		case *ssa.ChangeType:
			walk(x.X, zeroed, depth+1)
		case *ssa.Field:
			if strings.HasPrefix(an.PathOf(x), "<-") {
				out = append(out, bufRoot{kind: "received", at: x.Pos()})
				return
			}
			out = append(out, bufRoot{kind: "field", at: x.Pos(), note: an.PathOf(x)})
		case *ssa.Extract:
			switch t := x.Tuple.(type) {
			case *ssa.Select:
				out = append(out, bufRoot{kind: "received", at: t.Pos()})
			case *ssa.UnOp:
				if t.Op == token.ARROW {
					out = append(out, bufRoot{kind: "received", at: t.Pos()})
					return
				}
				out = append(out, bufRoot{kind: "unknown", at: x.Pos()})
			case *ssa.Call:
				walkCall(P, t, zeroed, depth, walk, &out)
			default:
				out = append(out, bufRoot{kind: "unknown", at: x.Pos()})
			}
		case *ssa.Call:
			walkCall(P, x, zeroed, depth, walk, &out)
		case *ssa.UnOp:
			if x.Op == token.ARROW {
				out = append(out, bufRoot{kind: "received", at: x.Pos()})
				return
			}
			if x.Op != token.MUL {
				out = append(out, bufRoot{kind: "unknown", at: x.Pos()})
				return
			}
			if a := an.ResolveAlloc(x.X); a != nil {
				if onStack[a] {
					if zeroed {
						out = append(out, bufRoot{kind: "self", at: x.Pos(), note: a.Comment})
					}
					return
				}
				onStack[a] = true
				for _, st := range cellStores(a) {
					walk(st.Val, zeroed, depth+1)
				}
				onStack[a] = false
				return
			}
			switch ad := x.X.(type) {
			case *ssa.IndexAddr:
				out = append(out, bufRoot{kind: "ring", ring: ad.X, at: x.Pos()})
			case *ssa.FieldAddr:
				// a field of a message that was itself received: the buffer came with it
				if strings.HasPrefix(an.PathOf(ad), "<-") {
					out = append(out, bufRoot{kind: "received", at: x.Pos()})
					return
				}
				out = append(out, bufRoot{kind: "field", at: x.Pos(), note: an.PathOf(ad)})
			default:
				out = append(out, bufRoot{kind: "unknown", at: x.Pos()})
			}
		default:
			out = append(out, bufRoot{kind: "unknown", at: v.Pos()})
		}
	}
	walk(s, false, 0)
	return out
}

func walkCall(P *core.Program, x *ssa.Call, zeroed bool, depth int, walk func(ssa.Value, bool, int), out *[]bufRoot) {
	if bi, ok := x.Call.Value.(*ssa.Builtin); ok {
		if bi.Name() == "append" && len(x.Call.Args) > 0 {
			walk(x.Call.Args[0], zeroed, depth+1)
			return
		}
		*out = append(*out, bufRoot{kind: "unknown", at: x.Pos()})
		return
	}
	sc := an.StaticCallee(&x.Call)
	if sc != nil && P.InModule(sc) {
		// a helper that extends and returns the slice it is given
		any := false
		for _, a := range x.Call.Args {
			if isSliceT(a.Type()) && types.Identical(a.Type(), x.Type()) {
				walk(a, zeroed, depth+1)
				any = true
			}
		}
		if any {
			return
		}
	}
	n := an.CalleeName(&x.Call)
	if n == "bytes.Clone" || n == "slices.Clone" {
		*out = append(*out, bufRoot{kind: "fresh", at: x.Pos(), note: "clone"})
		return
	}
	*out = append(*out, bufRoot{kind: "fresh", at: x.Pos(), note: "result of " + n})
}

// linear size: base (a channel field whose capacity it is, or nil) + k
type linSize struct {
	known bool
	capOf *types.Var
	k     int64
}

func fieldVarOf(v ssa.Value) *types.Var {
	u, ok := v.(*ssa.UnOp)
	if !ok || u.Op != token.MUL {
		return nil
	}
	fa, ok := u.X.(*ssa.FieldAddr)
	if !ok {
		return nil
	}
	t := fa.X.Type()
	if pt, ok := t.Underlying().(*types.Pointer); ok {
		t = pt.Elem()
	}
	st, ok := t.Underlying().(*types.Struct)
	if !ok || fa.Field >= st.NumFields() {
		return nil
	}
	return st.Field(fa.Field)
}

func sizeOf(v ssa.Value, depth int) linSize {
	if v == nil || depth > 6 {
		return linSize{}
	}
	if k, ok := an.ConstInt(v); ok {
		return linSize{known: true, k: k}
	}
	switch x := v.(type) {
	case *ssa.Convert:
		return sizeOf(x.X, depth+1)
	case *ssa.ChangeType:
		return sizeOf(x.X, depth+1)
	case *ssa.BinOp:
		a, b := sizeOf(x.X, depth+1), sizeOf(x.Y, depth+1)
		if !a.known || !b.known {
			return linSize{}
		}
		switch x.Op {
		case token.ADD:
			if a.capOf != nil && b.capOf != nil {
				return linSize{}
			}
			r := linSize{known: true, k: a.k + b.k, capOf: a.capOf}
			if b.capOf != nil {
				r.capOf = b.capOf
			}
			return r
		case token.SUB:
			if b.capOf != nil {
				return linSize{}
			}
			return linSize{known: true, k: a.k - b.k, capOf: a.capOf}
		}
	case *ssa.Call:
		if bi, ok := x.Call.Value.(*ssa.Builtin); ok && bi.Name() == "cap" && len(x.Call.Args) == 1 {
			if fv := fieldVarOf(x.Call.Args[0]); fv != nil {
				return linSize{known: true, capOf: fv}
			}
		}
	}
	return linSize{}
}

// ringSize: number of buffers of the ring container
func ringSize(ring ssa.Value) linSize {
	for i := 0; i < 8 && ring != nil; i++ {
		switch x := ring.(type) {
		case *ssa.Alloc:
			if arr, ok := x.Type().(*types.Pointer).Elem().Underlying().(*types.Array); ok {
				return linSize{known: true, k: arr.Len()}
			}
			st := an.StoresTo(x)
			if len(st) != 1 {
				return linSize{}
			}
			ring = st[0].Val
		case *ssa.FreeVar:
			ring = an.FreeVarBinding(x)
		case *ssa.UnOp:
			if x.Op != token.MUL {
				return linSize{}
			}
			ring = x.X
		case *ssa.MakeSlice:
			return sizeOf(x.Len, 0)
		case *ssa.Slice:
			ring = x.X
		default:
			return linSize{}
		}
	}
	return linSize{}
}

// chanCapacity: the capacity the channel is made with
func chanCapacity(P *core.Program, ch ssa.Value) (linSize, *types.Var) {
	if mc := an.MakeChanOf(ch); mc != nil {
		return sizeOf(mc.Size, 0), nil
	}
	v := ch
	for {
		if ct, ok := v.(*ssa.ChangeType); ok {
			v = ct.X
			continue
		}
		break
	}
	fv := fieldVarOf(v)
	if fv == nil {
		return linSize{}, nil
	}
	var sizes []linSize
	for _, fn := range P.ModFuncs {
		an.Instrs(fn, func(in ssa.Instruction) {
			st, ok := in.(*ssa.Store)
			if !ok {
				return
			}
			fa, ok := st.Addr.(*ssa.FieldAddr)
			if !ok {
				return
			}
			t := fa.X.Type()
			if pt, ok := t.Underlying().(*types.Pointer); ok {
				t = pt.Elem()
			}
			s, ok := t.Underlying().(*types.Struct)
			if !ok || fa.Field >= s.NumFields() || s.Field(fa.Field) != fv {
				return
			}
			val := st.Val
			if ct, ok := val.(*ssa.ChangeType); ok {
				val = ct.X
			}
			if mc, ok := val.(*ssa.MakeChan); ok {
				sizes = append(sizes, sizeOf(mc.Size, 0))
			} else {
				sizes = append(sizes, linSize{})
			}
		})
	}
	if len(sizes) == 0 {
		return linSize{}, fv
	}
	best := sizes[0]
	for _, s := range sizes[1:] {
		if !s.known || !best.known || s.capOf != nil || best.capOf != nil {
			return linSize{}, fv
		}
		if s.k > best.k {
			best = s
		}
	}
	return best, fv
}

func runHandoffOwn(c *core.Ctx) {
	P := c.P
	helpers := sendHelpers(P)
	n := 0
	for _, fn := range libFuncs(c) {
		if fn.Parent() != nil || len(fn.Blocks) == 0 {
			continue
		}
		sites := sendSites(P, helpers, fn)
		if len(sites) == 0 {
			continue
		}
		c.CountFuncs(1)
		for _, s := range sites {
			carried := carriedSlices(P, s.val, 0)
			if len(carried) == 0 {
				continue
			}
			n++
			props := subsystemProps(c, fn)
			if len(props) == 0 {
				props = []string{"C13"}
			}
			capC, chField := chanCapacity(P, s.ch)
			var bad, unk, okNotes []string
			for _, sl := range carried {
				for _, r := range bufRoots(P, sl) {
					switch r.kind {
					case "fresh", "received", "param":
						okNotes = append(okNotes, r.kind)
					case "self":
						bad = append(bad, fmt.Sprintf("after the hand-over the sender re-arms the same variable with a zero-length reslice of the buffer it has just sent (%s): the receiver reads memory the sender is refilling", P.Pos(r.at)))
					case "ring":
						k := ringSize(r.ring)
						switch {
						case !k.known:
							unk = append(unk, fmt.Sprintf("the buffer comes out of a ring (%s) whose size is not a constant or cap(channel)+k", P.Pos(r.at)))
						case k.capOf != nil:
							if chField != nil && k.capOf == chField && k.k >= 2 {
								okNotes = append(okNotes, fmt.Sprintf("ring of cap(channel)+%d buffers", k.k))
							} else if chField != nil && k.capOf == chField {
								bad = append(bad, fmt.Sprintf("ring of cap(channel)%+d buffers (%s), want at least cap(channel)+2: one being filled, cap queued, one being read", k.k, P.Pos(r.at)))
							} else {
								unk = append(unk, "the ring is sized by the capacity of another channel")
							}
						case !capC.known || capC.capOf != nil:
							unk = append(unk, fmt.Sprintf("ring of %d buffers (%s) but the capacity of the channel is not a constant: %d ≥ cap+2 cannot be shown", k.k, P.Pos(r.at), k.k))
						case k.k >= capC.k+2:
							okNotes = append(okNotes, fmt.Sprintf("ring of %d buffers ≥ cap %d + 2", k.k, capC.k))
						default:
							bad = append(bad, fmt.Sprintf("ring of %d buffers (%s) with a channel of capacity %d: a buffer is refilled while its batch is still queued or being read (needs %d: one being filled, %d queued, one being read)", k.k, P.Pos(r.at), capC.k, capC.k+2, capC.k))
						}
					case "field":
						unk = append(unk, fmt.Sprintf("the buffer is a field of a shared object (%s): who else writes it is not decided here", r.note))
					default:
						okNotes = append(okNotes, "other")
					}
				}
			}
			sort.Strings(bad)
			sort.Strings(unk)
			construct := "handoff(" + clip(an.PathOf(s.ch), 50) + ")"
			pos := P.Pos(s.at.Pos())
			switch {
			case len(bad) > 0:
				c.Bad(props, fname(c, s.fn), construct, pos, "a slice handed over on "+clip(an.PathOf(s.ch), 50)+" is refilled by the sender: "+strings.Join(uniq(bad), "; "))
			case len(unk) > 0:
				c.Unknown(props, fname(c, s.fn), construct, pos, strings.Join(uniq(unk), "; "))
			default:
				c.OK(props, fname(c, s.fn), construct, pos, "the handed-over slice is not refilled by the sender ("+strings.Join(uniq(okNotes), ", ")+")")
			}
		}
	}
	c.CountSites(n)
	if n == 0 {
		c.Trivial(nil, "-", "handoffs", "-", "no slice is handed over through a channel in the module")
	}
}

func uniq(xs []string) []string {
	seen := map[string]bool{}
	var out []string
	for _, x := range xs {
		if !seen[x] {
			seen[x] = true
			out = append(out, x)
		}
	}
	return out
}

// poolAssertSafe: `pool.Get().(*T)` on a package-level pool cannot fail when the pool only ever
// holds *T: its New function returns a *T and every Put on that pool in the module puts a *T.
func poolAssertSafe(P *core.Program, ta *ssa.TypeAssert) bool {
	get, ok := ta.X.(*ssa.Call)
	if !ok || an.CalleeName(&get.Call) != "(*sync.Pool).Get" || len(get.Call.Args) != 1 {
		return false
	}
	pool, ok := get.Call.Args[0].(*ssa.Global)
	if !ok {
		return false
	}
	holds := func(v ssa.Value) bool {
		mi, ok := v.(*ssa.MakeInterface)
		return ok && types.Identical(mi.X.Type(), ta.AssertedType)
	}
	newOK, putsOK := false, true
	fns := append([]*ssa.Function(nil), P.ModFuncs...)
	if pool.Pkg != nil {
		if ini := pool.Pkg.Func("init"); ini != nil {
			fns = append(fns, ini)
		}
	}
	for _, fn := range fns {
		an.Instrs(fn, func(in ssa.Instruction) {
			switch x := in.(type) {
			case *ssa.Store:
				// pool.New = func() any { return &T{…} } in the package initialiser
				fa, ok := x.Addr.(*ssa.FieldAddr)
				if !ok || fa.X != ssa.Value(pool) {
					return
				}
				var f *ssa.Function
				switch nv := x.Val.(type) {
				case *ssa.Function:
					f = nv
				case *ssa.MakeClosure:
					f, _ = nv.Fn.(*ssa.Function)
				}
				if f == nil {
					return
				}
				all := len(an.ReturnBlocks(f)) > 0
				for _, rb := range an.ReturnBlocks(f) {
					rv := an.ReturnValues(an.LastInstr(rb).(*ssa.Return))
					if len(rv) != 1 || !holds(rv[0]) {
						all = false
					}
				}
				if all {
					newOK = true
				}
			case ssa.CallInstruction:
				if an.CalleeName(x.Common()) == "(*sync.Pool).Put" && len(x.Common().Args) == 2 && x.Common().Args[0] == ssa.Value(pool) {
					if !holds(x.Common().Args[1]) {
						putsOK = false
					}
				}
			}
		})
	}
	return newOK && putsOK
}
