package rules

import (
	"fmt"
	"go/types"
	"regexp"
	"sort"
	"strings"

	"golang.org/x/tools/go/ssa"

	"mocverif/internal/an"
	"mocverif/internal/core"
)

func init() {
	reg(&core.RuleInfo{Name: "PROM-FANOUT", Props: []string{"C19"}, Engine: "TAB", Floor: 4, Confirmed: 4,
		Doc: "each hook of the metrics base calls the like-named hook of every counter once", Run: runPromFanout})
	reg(&core.RuleInfo{Name: "PROM-GAUGE", Props: []string{"C19"}, Engine: "CFG", Floor: 6, Confirmed: 7,
		Doc: "gauge increments/decrements are tied to set insertions/removals", Run: runPromGauge})
	reg(&core.RuleInfo{Name: "PROM-LABEL", Props: []string{"C19"}, Engine: "TAB", Floor: 12, Confirmed: 13,
		Doc: "per-type counter labels equal the message label constants and cover all types", Run: runPromLabel})
}

func promBase(c *core.Ctx) (*types.Named, []string) {
	nt := c.P.NamedType(c.P.Prom, "simplePrometheusMiddlewareBase")
	if nt == nil {
		return nil, nil
	}
	st := nt.Underlying().(*types.Struct)
	var fields []string
	for i := 0; i < st.NumFields(); i++ {
		fields = append(fields, an.FieldNameHook(st, i))
	}
	return nt, fields
}

var hookNames = []string{"ServeNostrStart", "ServeNostrEnd", "ServeNostrClientMsg", "ServeNostrServerMsg"}

func runPromFanout(c *core.Ctx) {
	P := c.P
	_, fields := promBase(c)
	if len(fields) == 0 {
		c.NoAnchor(nil, "simplePrometheusMiddlewareBase")
		return
	}
	for _, hook := range hookNames {
		fn := P.Method(P.Prom, "simplePrometheusMiddlewareBase", hook)
		if fn == nil {
			c.NoAnchor(nil, "metrics base "+hook)
			continue
		}
		c.CountFuncs(1)
		count := map[string]int{}
		var wrongArgs []string
		for _, ci := range calls(fn) {
			call, ok := ci.(*ssa.Call)
			if !ok {
				continue
			}
			sc := an.StaticCallee(&call.Call)
			if sc == nil || sc.Name() != hook || sc.Pkg != P.Prom {
				continue
			}
			rp := promPath(call.Call.Args[0])
			if !strings.HasPrefix(rp, "recv.") {
				continue
			}
			c.CountSites(1)
			// (the hook may be promoted from a struct the counter embeds: recv.<counter>.<embedded>)
			count[strings.SplitN(strings.TrimPrefix(rp, "recv."), ".", 2)[0]]++
			// same ctx / msg: arguments are this hook's own parameters in order; for hooks
			// after Start the context is the one carrying the request id
			for i, a := range call.Call.Args[1:] {
				ap := promPath(a)
				if i == 0 && hook == "ServeNostrStart" {
					if !strings.Contains(ap, "SETREQID(") {
						wrongArgs = append(wrongArgs, rp+": context without the request id")
					}
					continue
				}
				if ap != "p:"+fn.Params[i+1].Name() {
					wrongArgs = append(wrongArgs, fmt.Sprintf("%s: argument %d is %s", rp, i+1, ap))
				}
			}
		}
		var miss []string
		for _, f := range fields {
			if count[f] != 1 {
				miss = append(miss, fmt.Sprintf("%s×%d", f, count[f]))
			}
		}
		c.Check(len(miss) == 0 && len(wrongArgs) == 0, nil, fname(c, fn), "fanout", P.Pos(fn.Pos()), fmt.Sprintf("calls %s of each of the %d counters exactly once with its own arguments", hook, len(fields)),
			fmt.Sprintf("%s does not reach every counter exactly once (%v) or passes different arguments (%v): a gauge is never decremented / a counter never counts", hook, miss, wrongArgs))
	}
}

func isGaugeCall(call *ssa.Call, method string) bool {
	return call.Call.IsInvoke() && call.Call.Method.Name() == method && strings.HasSuffix(types.TypeString(call.Call.Value.Type(), nil), "prometheus.Gauge")
}

func gaugeCalls(fn *ssa.Function, method string) []*ssa.Call {
	var out []*ssa.Call
	for _, ci := range calls(fn) {
		if call, ok := ci.(*ssa.Call); ok && isGaugeCall(call, method) {
			out = append(out, call)
		}
	}
	return out
}

// setStoresOnlyTrue: every write into a per-session subscription set of reqCounter
// (a map[string]bool) stores the constant true — so reading the value is reading membership.
func setStoresOnlyTrue(c *core.Ctx) bool {
	ok, n := true, 0
	for _, fn := range c.P.ModFuncs {
		root := fn
		for root.Parent() != nil {
			root = root.Parent()
		}
		if recvTypeName(root) != "reqCounter" {
			continue
		}
		an.Instrs(fn, func(in ssa.Instruction) {
			mu, isMU := in.(*ssa.MapUpdate)
			if !isMU {
				return
			}
			if bt, isB := mu.Value.Type().Underlying().(*types.Basic); !isB || bt.Kind() != types.Bool {
				return
			}
			n++
			if !isConstBool(mu.Value, true) {
				ok = false
			}
		})
	}
	return ok && n > 0
}

func runPromGauge(c *core.Ctx) {
	P := c.P
	// connection gauge: Inc in Start, Dec in End, nothing else
	{
		st := P.Method(P.Prom, "connectionCounter", "ServeNostrStart")
		en := P.Method(P.Prom, "connectionCounter", "ServeNostrEnd")
		if st == nil || en == nil {
			c.NoAnchor(nil, "connectionCounter hooks")
		} else {
			c.CountFuncs(2)
			uncond := func(fn *ssa.Function, m string) bool {
				cs := gaugeCalls(fn, m)
				return len(cs) == 1 && cs[0].Block() == fn.Blocks[0] && promPath(cs[0].Call.Value) == "recv.c"
			}
			okOnly := len(gaugeCalls(st, "Dec")) == 0 && len(gaugeCalls(en, "Inc")) == 0
			c.Check(uncond(st, "Inc") && uncond(en, "Dec") && okOnly, nil, "connectionCounter", "inc/dec", P.Pos(st.Pos()), "session start increments, session end decrements the connection gauge, unconditionally", "the connection gauge is not incremented exactly once per start and decremented exactly once per end")
		}
	}
	// subscription gauge
	cm := P.Method(P.Prom, "reqCounter", "ServeNostrClientMsg")
	sm := P.Method(P.Prom, "reqCounter", "ServeNostrServerMsg")
	en := P.Method(P.Prom, "reqCounter", "ServeNostrEnd")
	st := P.Method(P.Prom, "reqCounter", "ServeNostrStart")
	if cm == nil || sm == nil || en == nil || st == nil {
		c.NoAnchor(nil, "reqCounter hooks")
		return
	}
	c.CountFuncs(4)
	// the field holding the per-session subscription sets (`m` on the pinned tree): the
	// receiver's field whose type is, or is a named form of, map[session]map[subscription]bool
	setF := "recv." + promSetField(cm)
	// helper: the set entry m[reqID][subID] for the message bound in the clause
	entry := func(fn *ssa.Function, msgType string) string {
		msgP := "p:" + fn.Params[2].Name()
		return setF + "[REQID(p:" + fn.Params[1].Name() + ")][" + msgP + ".SubscriptionID]"
	}
	checkInc := func(fn *ssa.Function, msgType string) {
		e := entry(fn, msgType)
		good := false
		detail := "no Inc for " + msgType
		an.Region(fn, nil, func(o an.Occ) {
			call, isCall := o.In.(*ssa.Call)
			if !isCall || !isGaugeCall(call, "Inc") {
				return
			}
			if assertedType(fn, o.Block(), "p:"+fn.Params[2].Name()) != msgType {
				return
			}
			host := call.Parent()
			// same block: map insert of the entry; guard: entry absent
			ins := false
			for _, in := range call.Block().Instrs {
				if mu, ok := in.(*ssa.MapUpdate); ok && promNorm(o.Path(mu.Map))+"["+promNorm(o.Path(mu.Key))+"]" == e {
					ins = true
				}
			}
			absent := false
			for _, g := range an.Guards(host, call.Block()) {
				if promNorm(o.Path(g.V)) == "ok("+e+")" && !g.True {
					absent = true
				}
				// membership read as the stored bool (`if subs[id] { return }`): the set only ever stores true
				if lk, isLk := g.V.(*ssa.Lookup); isLk && !lk.CommaOk && promNorm(o.Path(g.V)) == e && !g.True && setStoresOnlyTrue(c) {
					absent = true
				}
			}
			good = ins && absent
			detail = fmt.Sprintf("Inc with insert of the entry in the same block: %v, only when the entry was absent: %v", ins, absent)
			if !good {
				// … or guarded by a helper's verdict "newly added": the helper answers true exactly
				// on the paths that found the entry absent and inserted it
				if ok, d := verdictGuardsEntry(host, call.Block(), o.Chain, e, true); ok {
					good, detail = true, d
				}
			}
		})
		if !good {
			if ok, d := gaugeBalance(c, fn, msgType, e, subscriptionGauge(en), +1); ok {
				good = true
				_ = d
			} else if d != "" {
				detail += "; path by path: " + d
			}
		}
		c.Check(good, nil, fname(c, fn), "inc["+msgType+"]", P.Pos(fn.Pos()), "REQ of a not-yet-open subscription id: entry inserted and gauge incremented together", "subscription gauge increment is not tied to the insertion of a new (session, subscription) entry: "+detail+" — a repeated REQ of the same id counts twice")
	}
	checkDec := func(fn *ssa.Function, msgType string) {
		e := entry(fn, msgType)
		good := false
		detail := "no Dec for " + msgType
		// the decrement may sit in fn or in a private helper fn calls under the type's clause
		an.Region(fn, nil, func(o an.Occ) {
			call, isCall := o.In.(*ssa.Call)
			if !isCall || !isGaugeCall(call, "Dec") {
				return
			}
			if assertedType(fn, o.Block(), "p:"+fn.Params[2].Name()) != msgType {
				return
			}
			host := call.Parent()
			del := false
			for _, in := range call.Block().Instrs {
				if cc, ok := in.(*ssa.Call); ok {
					if b, ok := cc.Call.Value.(*ssa.Builtin); ok && b.Name() == "delete" && promNorm(o.Path(cc.Call.Args[0]))+"["+promNorm(o.Path(cc.Call.Args[1]))+"]" == e {
						del = true
					}
				}
			}
			present := false
			for _, g := range an.Guards(host, call.Block()) {
				if promNorm(o.Path(g.V)) == "ok("+e+")" && g.True {
					present = true
				}
				if lk, isLk := g.V.(*ssa.Lookup); isLk && !lk.CommaOk && promNorm(o.Path(g.V)) == e && g.True && setStoresOnlyTrue(c) {
					present = true
				}
			}
			good = del && present
			detail = fmt.Sprintf("Dec with delete of the entry in the same block: %v, only when the entry was present: %v", del, present)
			if !good {
				if ok, d := verdictGuardsEntry(host, call.Block(), o.Chain, e, false); ok {
					good, detail = true, d
				}
			}
		})
		if !good {
			if ok, d := gaugeBalance(c, fn, msgType, e, subscriptionGauge(en), -1); ok {
				good = true
				_ = d
			} else if d != "" {
				detail += "; path by path: " + d
			}
		}
		c.Check(good, nil, fname(c, fn), "dec["+msgType+"]", P.Pos(fn.Pos()), msgType+" of an open subscription: entry removed and gauge decremented together", "subscription gauge decrement is not tied to the removal of a present entry: "+detail+" — CLOSE of an unknown id (or a second CLOSED) drives the gauge negative")
	}
	checkInc(cm, "ClientReqMsg")
	checkDec(cm, "ClientCloseMsg")
	checkDec(sm, "ServerClosedMsg")
	// session end: subtract what is still open, drop the set
	{
		sid := "REQID(p:" + en.Params[1].Name() + ")"
		okSub, okDel := false, false
		for _, call := range gaugeCalls(en, "Sub") {
			if strings.Contains(promPath(call.Call.Args[0]), "len("+setF+"["+sid+"])") {
				okSub = true
			}
		}
		// (the drop may sit in a method of the set's own type that session end calls)
		an.Region(en, nil, func(o an.Occ) {
			d, ok := o.In.(*ssa.Call)
			if !ok {
				return
			}
			if b, isB := d.Call.Value.(*ssa.Builtin); isB && b.Name() == "delete" && len(d.Call.Args) == 2 && promNorm(o.Path(d.Call.Args[0])) == setF && promNorm(o.Path(d.Call.Args[1])) == sid {
				okDel = true
			}
		})
		c.Check(okSub && okDel, nil, fname(c, en), "end", P.Pos(en.Pos()), "session end subtracts the number of still-open subscriptions and drops the session's set", fmt.Sprintf("session end does not release what the session still holds (Sub(len(set)): %v, delete(set): %v): the gauge drifts upwards with every disconnect", okSub, okDel))
	}
	// session start: a fresh set
	{
		sid := "REQID(p:" + st.Params[1].Name() + ")"
		ok := false
		an.Region(st, nil, func(o an.Occ) {
			if mu, isMU := o.In.(*ssa.MapUpdate); isMU && promNorm(o.Path(mu.Map)) == setF && promNorm(o.Path(mu.Key)) == sid && strings.HasPrefix(promPath(mu.Value), "make:map") {
				ok = true
			}
		})
		c.Check(ok, nil, fname(c, st), "start", P.Pos(st.Pos()), "session start creates the session's (empty) subscription set", "session start does not create the session's set: the first REQ panics on a nil map")
	}
}

// verdictGuardsEntry: block b of host runs only when a private helper h
// answered true, and h answers true exactly on the paths on which it found the
// set entry e absent and inserted it (insert=true) / present and deleted it
// (insert=false); on its false paths the set is left alone. chain: the call
// sites leading from the rule's function to host.
func verdictGuardsEntry(host *ssa.Function, b *ssa.BasicBlock, chain []*ssa.Call, e string, insert bool) (bool, string) {
	for _, g := range an.Guards(host, b) {
		hc, ok := g.V.(*ssa.Call)
		if !ok || !g.True {
			continue
		}
		h := an.StaticCallee(&hc.Call)
		if !an.PrivateHelper(h) || h.Signature.Results().Len() != 1 {
			continue
		}
		ch := append(append([]*ssa.Call(nil), chain...), hc)
		path := func(v ssa.Value) string { return promNorm(an.PathOfChain(v, ch)) }
		// blocks of h that change the entry
		effect := map[*ssa.BasicBlock]bool{}
		an.Instrs(h, func(in ssa.Instruction) {
			switch x := in.(type) {
			case *ssa.MapUpdate:
				if insert && path(x.Map)+"["+path(x.Key)+"]" == e {
					effect[x.Block()] = true
				}
			case *ssa.Call:
				if bi, isB := x.Call.Value.(*ssa.Builtin); isB && bi.Name() == "delete" && !insert && path(x.Call.Args[0])+"["+path(x.Call.Args[1])+"]" == e {
					effect[x.Block()] = true
				}
			}
		})
		if len(effect) == 0 {
			continue
		}
		visits := func(cp an.CondPath) bool {
			for eb := range effect {
				if cp.Visits(eb) {
					return true
				}
			}
			return false
		}
		tps, ok1 := an.ResultPaths(h, 0, true)
		fps, ok2 := an.ResultPaths(h, 0, false)
		if !ok1 || !ok2 || len(tps) == 0 {
			continue
		}
		good := true
		for _, tp := range tps {
			tested := tp.Has(func(cd an.Cond) bool { return path(cd.V) == "ok("+e+")" && cd.True == !insert })
			if !tested || !visits(tp) {
				good = false
			}
		}
		for _, fp := range fps {
			if visits(fp) {
				good = false
			}
		}
		if good {
			what := "absent and inserted"
			if !insert {
				what = "present and removed"
			}
			return true, fmt.Sprintf("guarded by %s, which answers true exactly when it found the entry %s", h.Name(), what)
		}
	}
	return false, ""
}

// typeLabels: which constant label v denotes for which dynamic type of the
// message. The label may be a constant used under a type-switch clause, a
// variable assigned per clause (phi), or the result of a module helper that
// maps the message to its label.
func typeLabels(fn *ssa.Function, v ssa.Value, at *ssa.BasicBlock, msgPath string, depth int) map[string]string {
	out := map[string]string{}
	if depth > 2 {
		return out
	}
	switch x := v.(type) {
	case *ssa.Const:
		if s, ok := an.ConstStr(x); ok {
			out[assertedType(fn, at, msgPath)] = s
		}
	case *ssa.Phi:
		for i, e := range x.Edges {
			for t, l := range typeLabels(fn, e, x.Block().Preds[i], msgPath, depth+1) {
				out[t] = l
			}
		}
	case *ssa.Call:
		g := an.StaticCallee(&x.Call)
		if !an.InModuleFn(g) {
			return out
		}
		gp := ""
		for i, a := range x.Call.Args {
			if promPath(a) == msgPath && i < len(g.Params) {
				gp = "p:" + g.Params[i].Name()
			}
		}
		if gp == "" {
			return out
		}
		for _, rb := range an.ReturnBlocks(g) {
			rv := an.ReturnValues(an.LastInstr(rb).(*ssa.Return))
			if len(rv) != 1 {
				continue
			}
			for t, l := range typeLabels(g, rv[0], rb, gp, depth+1) {
				out[t] = l
			}
		}
	}
	return out
}

func runPromLabel(c *core.Ctx) {
	P := c.P
	for _, row := range []struct{ counter, hook, iface, labelMethod string }{
		{"recvMsgCounter", "ServeNostrClientMsg", "ClientMsg", "ClientMsgLabel"},
		{"sendMsgCounter", "ServeNostrServerMsg", "ServerMsg", "ServerMsgLabel"},
	} {
		fn := P.Method(P.Prom, row.counter, row.hook)
		if fn == nil {
			c.NoAnchor(nil, row.counter+"."+row.hook)
			continue
		}
		c.CountFuncs(1)
		msgP := "p:" + fn.Params[2].Name()
		got := map[string]string{} // type → label
		for _, ci := range calls(fn) {
			call, ok := ci.(*ssa.Call)
			if !ok || !strings.HasSuffix(an.CalleeName(&call.Call), "CounterVec).WithLabelValues") {
				continue
			}
			elems, ok := an.VariadicElems(call.Call.Args[1])
			if !ok || len(elems) != 1 {
				continue
			}
			labels := typeLabels(fn, elems[0], call.Block(), msgP, 0)
			// followed by Inc
			inc := false
			if call.Referrers() != nil {
				for _, r := range *call.Referrers() {
					if cc, ok := r.(*ssa.Call); ok && cc.Call.IsInvoke() && cc.Call.Method.Name() == "Inc" {
						inc = true
					}
				}
			}
			if inc {
				for t, lbl := range labels {
					got[t] = lbl
				}
			}
		}
		tys := msgTypes(P, row.iface)
		sort.Slice(tys, func(i, j int) bool { return tys[i].Obj().Name() < tys[j].Obj().Name() })
		for _, nt := range tys {
			name := nt.Obj().Name()
			want, _ := labelOf(P, nt, row.labelMethod)
			c.CountSites(1)
			c.Check(got[name] == want && want != "", nil, fname(c, fn), "label["+name+"]", P.Pos(fn.Pos()), fmt.Sprintf("%s is counted under %q = its protocol label", name, want), fmt.Sprintf("%s is counted under %q, want %q: the per-type counters do not equal the number of messages of each type", name, got[name], want))
		}
	}
	// per-kind event counter
	fn := P.Method(P.Prom, "recvEventCounter", "ServeNostrClientMsg")
	if fn == nil {
		c.NoAnchor(nil, "recvEventCounter.ServeNostrClientMsg")
		return
	}
	ok := false
	for _, ci := range calls(fn) {
		call, isCall := ci.(*ssa.Call)
		if !isCall || !strings.HasSuffix(an.CalleeName(&call.Call), "CounterVec).WithLabelValues") {
			continue
		}
		elems, _ := an.VariadicElems(call.Call.Args[1])
		if len(elems) == 1 && strings.Contains(promPath(elems[0]), "strconv.FormatInt(p:"+fn.Params[2].Name()+".Event.Kind,const:10)") && assertedType(fn, call.Block(), "p:"+fn.Params[2].Name()) == "ClientEventMsg" {
			ok = true
		}
	}
	c.Check(ok, nil, fname(c, fn), "label[kind]", P.Pos(fn.Pos()), "EVENT messages are counted under the decimal kind of their event", "the per-kind counter is not labelled with the decimal kind of the received event")
}

var (
	reGetReqID1 = regexp.MustCompile(`call:[^(]*/middleware/prometheus\.getRequestID\(`)
	reGetReqID2 = regexp.MustCompile(`call:invoke:context\.Context\.Value\(([^,()]*),(?:global:requestIDKeyInstance|zero:requestIDKey)\)`)
	reSetReqID1 = regexp.MustCompile(`call:[^(]*/middleware/prometheus\.setRequestID\(`)
	reSetReqID2 = regexp.MustCompile(`call:context\.WithValue\(([^,()]*),(?:global:requestIDKeyInstance|zero:requestIDKey),`)
)

// promPath: access path with the two spellings of "the request id carried by
// ctx" (the private helpers get/setRequestID, or their bodies written out)
// folded into one.
func promPath(v ssa.Value) string { return promNorm(an.PathOf(v)) }

func promNorm(p string) string {
	p = reGetReqID1.ReplaceAllString(p, "REQID(")
	p = reGetReqID2.ReplaceAllString(p, "REQID($1)")
	p = reSetReqID1.ReplaceAllString(p, "SETREQID(")
	p = reSetReqID2.ReplaceAllString(p, "SETREQID($1,")
	return p
}

// gaugeBalance decides the subscription gauge path by path (for spellings the block-local
// reading above does not cover: the insert after the test instead of next to the Inc, EOSE
// and CLOSED sharing one tail behind per-clause variables, a second gauge in the same
// function). On every feasible path of fn that handles a message of msgType:
//
//	presence before: what the path's comma-ok test of the entry e says (unknown if none);
//	presence after:  the last MapUpdate (present) / delete (absent) of e on the path;
//	Δ gauge:         Inc − Dec of the subscription gauge field on the path;
//
// and Δ gauge must equal after − before; an unknown "before" allows neither an update nor
// a gauge operation. wantDelta: some path must change the gauge by this much.
func gaugeBalance(c *core.Ctx, fn *ssa.Function, msgType, e, gaugePath string, wantDelta int) (bool, string) {
	msgP := "p:" + fn.Params[2].Name()
	nPaths, nWant := 0, 0
	for _, rb := range an.ReturnBlocks(fn) {
		paths, ok := an.PathsTo(fn, rb, 4096)
		if !ok {
			return false, "too many paths"
		}
		c.CountPaths(len(paths))
		for _, p := range paths {
			if !an.Feasible(p) {
				continue
			}
			// the message type handled on this path
			typ := ""
			for _, cd := range p.Conds() {
				cd = an.NormCond(cd)
				ex, ok := cd.V.(*ssa.Extract)
				if !ok || ex.Index != 1 || !cd.True {
					continue
				}
				if ta, ok := ex.Tuple.(*ssa.TypeAssert); ok && an.PathOf(ta.X) == msgP {
					typ = typeNameOf(ta.AssertedType)
				}
			}
			if typ != msgType {
				continue
			}
			nPaths++
			entryOf := func(m, k ssa.Value) string {
				return promNorm(an.PathOf(an.PhiOnPath(m, p))) + "[" + promNorm(an.PathOf(an.PhiOnPath(k, p))) + "]"
			}
			before := -1
			for _, cd := range p.Conds() {
				cd = an.NormCond(cd)
				ex, ok := cd.V.(*ssa.Extract)
				if !ok || ex.Index != 1 {
					continue
				}
				lk, ok := ex.Tuple.(*ssa.Lookup)
				if !ok || !lk.CommaOk || entryOf(lk.X, lk.Index) != e {
					continue
				}
				if cd.True {
					before = 1
				} else {
					before = 0
				}
			}
			after, delta := before, 0
			touched := false
			for _, b := range p {
				for _, in := range b.Instrs {
					switch x := in.(type) {
					case *ssa.MapUpdate:
						if entryOf(x.Map, x.Key) == e {
							after, touched = 1, true
						}
					case *ssa.Call:
						if bi, ok := x.Call.Value.(*ssa.Builtin); ok && bi.Name() == "delete" && len(x.Call.Args) == 2 && entryOf(x.Call.Args[0], x.Call.Args[1]) == e {
							after, touched = 0, true
						}
						if x.Call.IsInvoke() && strings.HasSuffix(types.TypeString(x.Call.Value.Type(), nil), "prometheus.Gauge") && promPath(x.Call.Value) == gaugePath {
							switch x.Call.Method.Name() {
							case "Inc":
								delta++
							case "Dec":
								delta--
							case "Add", "Sub", "Set":
								return false, "the subscription gauge is changed by " + x.Call.Method.Name() + " at " + c.P.Pos(x.Pos())
							}
						}
					}
				}
			}
			pos := c.P.Pos(an.LastInstr(rb).Pos())
			if before < 0 {
				if touched || delta != 0 {
					return false, fmt.Sprintf("a path to %s changes the entry or the gauge without having tested whether the entry exists", pos)
				}
				continue
			}
			if delta != after-before {
				return false, fmt.Sprintf("on a path to %s the entry goes %s → %s but the gauge changes by %+d", pos, presence(before), presence(after), delta)
			}
			if delta == wantDelta {
				nWant++
			}
		}
	}
	if nPaths == 0 {
		return false, "no path handles " + msgType
	}
	if nWant == 0 {
		return false, fmt.Sprintf("no path of %s changes the gauge by %+d", msgType, wantDelta)
	}
	return true, fmt.Sprintf("on each of the %d feasible paths handling %s the gauge changes exactly as the entry's presence does (absent→present: +1, present→absent: −1, otherwise 0)", nPaths, msgType)
}

func presence(k int) string {
	if k == 1 {
		return "present"
	}
	return "absent"
}

// subscriptionGauge: the gauge field that counts open subscriptions — the one session end
// subtracts the size of the session's set from.
func subscriptionGauge(en *ssa.Function) string {
	for _, call := range gaugeCalls(en, "Sub") {
		if strings.Contains(promPath(call.Call.Args[0]), "len(recv."+promSetField(en)+"[") {
			return promPath(call.Call.Value)
		}
	}
	return ""
}

// promSetField: the name of the receiver's field of type map[K1]map[K2]bool (possibly a named map type).
func promSetField(fn *ssa.Function) string {
	if fn.Signature.Recv() == nil {
		return "m"
	}
	t := fn.Signature.Recv().Type()
	if p, ok := t.(*types.Pointer); ok {
		t = p.Elem()
	}
	st, ok := t.Underlying().(*types.Struct)
	if !ok {
		return "m"
	}
	for i := 0; i < st.NumFields(); i++ {
		if outer, ok := st.Field(i).Type().Underlying().(*types.Map); ok {
			if inner, ok := outer.Elem().Underlying().(*types.Map); ok {
				if b, ok := inner.Elem().Underlying().(*types.Basic); ok && b.Kind() == types.Bool {
					return an.FieldNameHook(st, i)
				}
			}
		}
	}
	return "m"
}
