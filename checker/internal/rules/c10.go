package rules

import (
	"fmt"
	"go/token"
	"go/types"
	"reflect"
	"regexp"
	"regexp/syntax"
	"sort"
	"strconv"
	"strings"

	"golang.org/x/tools/go/ssa"

	"mocverif/internal/an"
	"mocverif/internal/core"
)

func init() {
	reg(&core.RuleInfo{Name: "COD-TAB", Props: []string{"C10"}, Engine: "TAB", Floor: 14, Confirmed: 26,
		Doc: "labels, arities and keys written by the encoders equal those accepted by the decoders", Run: runCodTab})
	reg(&core.RuleInfo{Name: "DEC-PANIC-CG", Props: []string{"C10"}, Engine: "CG", Floor: 1, Confirmed: 4,
		Doc: "no panicking construct is reachable from the decoders", Run: runDecPanic})
	reg(&core.RuleInfo{Name: "DEC-FILLED", Props: []string{"C10"}, Engine: "PROV", Floor: 20, Confirmed: 39,
		Doc: "pointers inside a decoded value are never left nil: no encoding/json destination is a pointer to a (container of) message pointer(s), and every pointer stored into a decoded value is freshly allocated", Run: runDecFilled})
	reg(&core.RuleInfo{Name: "DEC-BOUNDS", Props: []string{"C10"}, Engine: "INT", Floor: 20, Confirmed: 40,
		Doc: "index and slice expressions in the decoders are in range by dominating length facts", Run: runDecBounds})
}

// arrayLiteralLabel: in an encoder, the constant stored at index 0 of the
// array/slice that is marshalled, and the array's arity (base, variable).
func encoderShape(fn *ssa.Function) (label string, arity int, variable bool, ok bool) {
	// the array/slice may be filled in the encoder or in a private helper it calls
	an.Region(fn, nil, func(o an.Occ) {
		st, isStore := o.In.(*ssa.Store)
		if !isStore {
			return
		}
		ia, isIA := st.Addr.(*ssa.IndexAddr)
		if !isIA {
			return
		}
		k, isK := an.ConstInt(ia.Index)
		if !isK || k != 0 {
			return
		}
		s, isS := an.ConstStr(o.Resolve(st.Val))
		if !isS {
			return
		}
		switch x := an.LoadedValue(ia.X).(type) {
		case *ssa.Alloc:
			if arr, isArr := x.Type().(*types.Pointer).Elem().Underlying().(*types.Array); isArr {
				// `[]any{label, id}` extended by a loop of appends (possibly after slices.Grow) is label, id, then n more
				label, arity, variable, ok = s, int(arr.Len()), appendedInLoop(x), true
			}
		case *ssa.MakeSlice:
			if b, isB := x.Len.(*ssa.BinOp); isB && b.Op == token.ADD {
				if n, isN := an.ConstInt(b.X); isN {
					label, arity, variable, ok = s, int(n), true, true
				} else if n, isN := an.ConstInt(b.Y); isN {
					label, arity, variable, ok = s, int(n), true, true
				}
			}
		}
	})
	return
}

// appendedInLoop: the slice literal backed by arr is the base of an append
// inside a loop (directly, through the loop's phi, or after slices.Grow/Clip).
func appendedInLoop(arr *ssa.Alloc) bool {
	fn := arr.Parent()
	var reaches func(v ssa.Value, seen map[ssa.Value]bool) bool
	reaches = func(v ssa.Value, seen map[ssa.Value]bool) bool {
		if v == nil || seen[v] {
			return false
		}
		seen[v] = true
		switch x := v.(type) {
		case *ssa.Alloc:
			return x == arr
		case *ssa.Slice:
			return reaches(x.X, seen)
		case *ssa.Phi:
			for _, e := range x.Edges {
				if reaches(e, seen) {
					return true
				}
			}
		case *ssa.UnOp:
			if x.Op == token.MUL {
				return reaches(an.LoadedValue(x), seen)
			}
		case *ssa.Call:
			if b, isB := x.Call.Value.(*ssa.Builtin); isB && b.Name() == "append" {
				return reaches(x.Call.Args[0], seen)
			}
			if g := an.StaticCallee(&x.Call); g != nil && len(x.Call.Args) > 0 {
				switch an.FuncFullName(g) {
				case "slices.Grow", "slices.Clip":
					return reaches(x.Call.Args[0], seen)
				}
			}
		}
		return false
	}
	found := false
	an.Instrs(fn, func(in ssa.Instruction) {
		call, isCall := in.(*ssa.Call)
		if !isCall || !an.InLoop(call.Block()) {
			return
		}
		if b, isB := call.Call.Value.(*ssa.Builtin); isB && b.Name() == "append" && reaches(call.Call.Args[0], map[ssa.Value]bool{}) {
			found = true
		}
	})
	return found
}

// decoderShape: what a decoder requires in order to succeed (return a nil
// error): the label its first element must equal, and the number of elements
// — exactly k, or at least k. Read off the conditions of the success paths,
// so the spelling of the tests (!=, <, switch, early returns) does not matter.
func decoderShape(fn *ssa.Function) (labels []string, arity int, atLeast bool, ok bool) {
	var succ []an.Path
	for _, rb := range an.ReturnBlocks(fn) {
		rv := an.ReturnValues(an.LastInstr(rb).(*ssa.Return))
		if len(rv) == 0 || !an.IsNilConst(rv[len(rv)-1]) {
			continue
		}
		ps, okp := an.PathsTo(fn, rb, 4096)
		if !okp {
			return nil, 0, false, false
		}
		for _, p := range ps {
			if an.Feasible(p) {
				succ = append(succ, p)
			}
		}
	}
	lab := map[string]bool{}
	lenSubj := map[string]bool{}
	for _, p := range succ {
		for _, cd := range p.Conds() {
			cd = an.NormCond(cd)
			b, isB := cd.V.(*ssa.BinOp)
			if !isB {
				continue
			}
			for _, side := range []ssa.Value{b.X, b.Y} {
				other := b.Y
				if side == b.Y {
					other = b.X
				}
				if s, isS := an.ConstStr(side); isS && (b.Op == token.EQL || b.Op == token.NEQ) {
					if _, both := an.ConstStr(other); !both && (b.Op == token.EQL) == cd.True {
						lab[s] = true
					}
				}
				if sp := an.PathOf(side); strings.HasPrefix(sp, "len(") {
					if _, isK := an.ConstInt(other); isK {
						lenSubj[sp] = true
					}
				}
			}
		}
	}
	for l := range lab {
		labels = append(labels, l)
	}
	sort.Strings(labels)
	// the element count: the length subject whose success set is the most restrictive
	for sp := range lenSubj {
		fr := an.ConstFrame(sp)
		set := an.Empty()
		for _, p := range succ {
			// only the paths that decode an array (the `null` shortcut tests nothing)
			tests := false
			for _, cd := range p.Conds() {
				if _, isAtom := fr.Atom(cd.V, cd.True); isAtom {
					tests = true
				}
			}
			if tests {
				set = set.Union(fr.PathMeaning(p, nil))
			}
		}
		if len(set) != 1 {
			continue
		}
		lo, hi := set[0].Lo, set[0].Hi
		switch {
		case lo == hi && lo > 0:
			if !ok || !atLeast {
				arity, atLeast, ok = int(lo), false, true
			}
		case hi == an.PosInf && lo > 0:
			if !ok {
				arity, atLeast, ok = int(lo), true, true
			}
		}
	}
	if ok {
		return
	}
	// the element count tested by a private helper whose verdict the decoder acts on
	// (`label, err := elems.expect("EVENT", 3); if err != nil { return err }`): the same reading over
	// the success paths with the helper's own conditions spliced in
	var alts [][]an.Cond
	for _, p := range succ {
		alts = append(alts, an.SpliceVerdicts(p.Conds())...)
	}
	deepSubj := map[string]bool{}
	for _, cs := range alts {
		for _, cd := range cs {
			cd = an.NormCond(cd)
			if b, isB := cd.V.(*ssa.BinOp); isB {
				for _, side := range []ssa.Value{b.X, b.Y} {
					if sp := cd.Path(side); strings.HasPrefix(sp, "len(") {
						deepSubj[sp] = true
					}
				}
			}
		}
	}
	for sp := range deepSubj {
		set := an.Empty()
		for _, cs := range alts {
			if s, tested := lenFromConds(cs, sp); tested {
				set = set.Union(s)
			}
		}
		if len(set) != 1 {
			continue
		}
		lo, hi := set[0].Lo, set[0].Hi
		switch {
		case lo == hi && lo > 0:
			if !ok || !atLeast {
				arity, atLeast, ok = int(lo), false, true
			}
		case hi == an.PosInf && lo > 0:
			if !ok {
				arity, atLeast, ok = int(lo), true, true
			}
		}
	}
	return
}

func runCodTab(c *core.Ctx) {
	P := c.P
	type row struct {
		nt     *types.Named
		method string
	}
	var rows []row
	for _, nt := range msgTypes(P, "ClientMsg") {
		rows = append(rows, row{nt, "ClientMsgLabel"})
	}
	for _, nt := range msgTypes(P, "ServerMsg") {
		if _, isClient := labelOf(P, nt, "ClientMsgLabel"); isClient && labelHas(P, nt, "ServerMsgLabel") {
			continue
		}
		rows = append(rows, row{nt, "ServerMsgLabel"})
	}
	sort.Slice(rows, func(i, j int) bool { return rows[i].nt.Obj().Name() < rows[j].nt.Obj().Name() })
	for _, r := range rows {
		name := r.nt.Obj().Name()
		enc := P.Method(P.Root, name, "MarshalJSON")
		dec := P.Method(P.Root, name, "UnmarshalJSON")
		want, okL := labelOf(P, r.nt, r.method)
		if enc == nil || dec == nil || !okL {
			c.Unknown(nil, name, "codec", "-", "MarshalJSON / UnmarshalJSON / label method not found")
			continue
		}
		c.CountFuncs(2)
		el, ea, ev, eok := encoderShape(enc)
		dl, da, dmin, dok := decoderShape(dec)
		c.CountSites(2)
		lblOK := eok && el == want && len(dl) == 1 && dl[0] == want
		c.Check(lblOK, nil, name, "label", P.Pos(enc.Pos()), fmt.Sprintf("encoder writes %q, decoder requires %q, label method returns %q", el, strings.Join(dl, ","), want),
			fmt.Sprintf("label disagreement: encoder writes %q, decoder requires %v, %s() returns %q — the type does not round-trip / is dispatched wrongly", el, dl, r.method, want))
		arOK := eok && dok && ((!ev && !dmin && ea == da) || (ev && dmin && da == ea+1))
		c.Check(arOK, nil, name, "arity", P.Pos(dec.Pos()), fmt.Sprintf("encoder writes %d%s elements, decoder accepts %s%d", ea, map[bool]string{true: "+n", false: ""}[ev], map[bool]string{true: "≥", false: "exactly "}[dmin], da),
			fmt.Sprintf("arity disagreement: encoder writes %d%s elements, decoder accepts %s%d (ok enc=%v dec=%v)", ea, map[bool]string{true: "+n", false: ""}[ev], map[bool]string{true: "≥", false: "exactly "}[dmin], da, eok, dok))
	}
	// ReqFilter keys
	fenc := P.Method(P.Root, "ReqFilter", "MarshalJSON")
	fdec := P.Method(P.Root, "ReqFilter", "UnmarshalJSON")
	if fenc == nil || fdec == nil {
		c.NoAnchor(nil, "ReqFilter codec")
	} else {
		c.CountFuncs(2)
		written, hashW := map[string]bool{}, false
		an.Instrs(fenc, func(in ssa.Instruction) {
			if mu, ok := in.(*ssa.MapUpdate); ok {
				if s, ok := an.ConstStr(mu.Key); ok {
					written[s] = true
				} else if b, ok := mu.Key.(*ssa.BinOp); ok && b.Op == token.ADD {
					if s, ok := an.ConstStr(b.X); ok && s == "#" {
						hashW = true
					}
				}
			}
		})
		accepted := map[string]bool{}
		hashR := false
		an.Instrs(fdec, func(in ssa.Instruction) {
			if b, ok := in.(*ssa.BinOp); ok && b.Op == token.EQL {
				if s, ok := an.ConstStr(b.Y); ok && strings.HasPrefix(an.PathOf(b.X), "rangekey(") {
					accepted[s] = true
				}
			}
			// '#'+letter members: the clause that stores into .Tags is reached iff the
			// member name starts with '#' (the test may sit in a predicate helper)
			if mu, ok := in.(*ssa.MapUpdate); ok && strings.HasSuffix(an.PathOf(mu.Map), ".Tags") {
				kp := an.PathOf(mu.Key)
				if i := strings.LastIndex(kp, "["); i > 0 && strings.Contains(kp[i:], ":") {
					kp = kp[:i]
				}
				if set, _, ok := an.ConstFrame(kp+"[0]").ReachSet(fdec, mu.Block(), nil, nil); ok && set.Equal(an.Range('#', '#')) {
					hashR = true
				}
			}
		})
		want := "authors,ids,kinds,limit,since,until"
		c.Check(setList(written) == want && setList(accepted) == want && hashW && hashR, nil, "ReqFilter", "keys", P.Pos(fenc.Pos()), "encoder and decoder agree on {"+want+"} and '#'+letter",
			fmt.Sprintf("filter keys: written {%s} (#x: %v), accepted {%s} (#x: %v), want {%s}", setList(written), hashW, setList(accepted), hashR, want))
		// unknown members are rejected: a non-nil error return guarded by all key tests failing
		rej := false
		for _, rb := range an.ReturnBlocks(fdec) {
			rv := an.ReturnValues(an.LastInstr(rb).(*ssa.Return))
			if an.IsNilConst(rv[0]) || !an.InLoop(rb) && false {
				continue
			}
			nFalse := 0
			for _, g := range an.Guards(fdec, rb) {
				if b, ok := g.V.(*ssa.BinOp); ok && b.Op == token.EQL && !g.True && strings.HasPrefix(an.PathOf(b.X), "rangekey(") {
					nFalse++
				}
			}
			if nFalse >= 6 {
				rej = true
			}
		}
		c.Check(rej, nil, "ReqFilter", "unknown-key", P.Pos(fdec.Pos()), "a member matching none of the keys makes the decoder fail", "unknown filter members are silently ignored: a misspelt condition widens the subscription to everything")
	}
	// Event: tags = keys looked up = 7 = count test
	evt := P.NamedType(P.Root, "Event")
	edec := P.Method(P.Root, "Event", "UnmarshalJSON")
	if evt == nil || edec == nil {
		c.NoAnchor(nil, "Event / Event.UnmarshalJSON")
		return
	}
	st := evt.Underlying().(*types.Struct)
	tags := map[string]bool{}
	for i := 0; i < st.NumFields(); i++ {
		t := reflect.StructTag(st.Tag(i)).Get("json")
		tags[strings.Split(t, ",")[0]] = true
	}
	looked := map[string]bool{}
	// (a member may be fetched by a private helper that is handed its name)
	an.Region(edec, nil, func(o an.Occ) {
		if lk, ok := o.In.(*ssa.Lookup); ok {
			if s, ok := an.ConstStr(an.Unwrap(o.Resolve(lk.Index))); ok {
				looked[s] = true
			}
		}
	})
	c.CountFuncs(1)
	// the member counts under which decoding proceeds to the first lookup
	proceed := an.Empty()
	var firstLookup *ssa.Lookup
	an.Instrs(edec, func(in ssa.Instruction) {
		if lk, ok := in.(*ssa.Lookup); ok && firstLookup == nil {
			if _, ok := an.ConstStr(lk.Index); ok {
				firstLookup = lk
			}
		}
	})
	if firstLookup != nil {
		fr := an.ConstFrame("len(" + an.PathOf(firstLookup.X) + ")")
		proceed, _, _ = fr.ReachSet(edec, firstLookup.Block(), nil, nil)
	}
	nf := int64(st.NumFields())
	// "exactly the seven members" said member by member: every key of the object must be one of a
	// package-level list of names (`for k := range obj { if !slices.Contains(eventFieldNames[:], k) { return err } }`)
	// that equals the struct tags, and all of them are looked up (a missing one fails its type assertion)
	if firstLookup != nil && !proceed.Equal(an.Range(nf, nf)) && setList(tags) == setList(looked) && len(tags) == st.NumFields() {
		if names, ok := closedKeyLoop(P, edec, firstLookup.X); ok {
			c.Check(setList(names) == setList(tags), nil, "Event", "keys", P.Pos(edec.Pos()), fmt.Sprintf("%d struct tags = %d keys looked up; a member with any other name is refused by name", len(tags), len(looked)),
				fmt.Sprintf("Event codec disagreement: struct tags {%s}, but members are admitted by the list {%s}", setList(tags), setList(names)))
			return
		}
	}
	c.Check(setList(tags) == setList(looked) && len(tags) == st.NumFields() && proceed.Equal(an.Range(nf, nf)), nil, "Event", "keys", P.Pos(edec.Pos()), fmt.Sprintf("%d struct tags = %d keys looked up; decoding proceeds iff the object has %s members", len(tags), len(looked), proceed),
		fmt.Sprintf("Event codec disagreement: struct tags {%s}, keys looked up {%s}, decoding proceeds with %s members (want exactly %d): missing or extra members are not refused", setList(tags), setList(looked), proceed, nf))
}

func labelHas(P *core.Program, nt *types.Named, method string) bool {
	return P.Method(P.Root, nt.Obj().Name(), method) != nil
}

// decoderFuncs: everything reachable from ParseClientMsg and the UnmarshalJSON methods.
func decoderFuncs(c *core.Ctx) []*ssa.Function {
	P := c.P
	var roots []*ssa.Function
	if f := P.Func(P.Root, "ParseClientMsg"); f != nil {
		roots = append(roots, f)
	}
	for _, fn := range P.ModFuncs {
		if fn.Name() == "UnmarshalJSON" && fn.Pkg == P.Root && fn.Parent() == nil {
			roots = append(roots, fn)
		}
	}
	return an.RefClosure(roots, P.InModule)
}

func runDecPanic(c *core.Ctx) {
	P := c.P
	fns := decoderFuncs(c)
	c.CountFuncs(len(fns))
	var bad []string
	for _, fn := range fns {
		an.Instrs(fn, func(in ssa.Instruction) {
			switch x := in.(type) {
			case *ssa.Panic:
				bad = append(bad, fmt.Sprintf("%s: explicit panic (%s)", fname(c, fn), P.Pos(x.Pos())))
			case *ssa.TypeAssert:
				if !x.CommaOk && !poolAssertSafe(P, x) {
					bad = append(bad, fmt.Sprintf("%s: unchecked type assertion to %s (%s)", fname(c, fn), types.TypeString(x.AssertedType, nil), P.Pos(x.Pos())))
				}
			case *ssa.BinOp:
				if x.Op == token.QUO || x.Op == token.REM {
					if _, isK := an.ConstInt(x.Y); !isK {
						if bt, ok := x.Type().Underlying().(*types.Basic); ok && bt.Info()&types.IsInteger != 0 {
							bad = append(bad, fmt.Sprintf("%s: integer division by a non-constant (%s)", fname(c, fn), P.Pos(x.Pos())))
						}
					}
				}
			case *ssa.MapUpdate:
				if !mapInitialised(fn, x) {
					bad = append(bad, fmt.Sprintf("%s: write to a possibly nil map %s (%s)", fname(c, fn), clip(an.PathOf(x.Map), 50), P.Pos(x.Pos())))
				}
			case *ssa.Call:
				// a method called on what a library function hands back as a nil interface for an ordinary
				// argument: reflect.TypeOf(nil) is nil (a JSON null decodes to a nil `any`), errors.Unwrap of
				// an error that wraps nothing is nil
				if x.Call.IsInvoke() {
					if src, ok := x.Call.Value.(*ssa.Call); ok {
						switch n := an.CalleeName(&src.Call); n {
						case "reflect.TypeOf", "errors.Unwrap":
							if !knownNonNil(fn, src, x) {
								bad = append(bad, fmt.Sprintf("%s: %s() on the result of %s, which is nil for a nil argument (%s)", fname(c, fn), x.Call.Method.Name(), n, P.Pos(x.Pos())))
							}
						}
					}
				}
			}
		})
	}
	c.CountSites(len(fns))
	c.Check(len(bad) == 0, nil, "decoders", "no-panicking-construct", "-", fmt.Sprintf("%d module functions reachable from ParseClientMsg and the %s: no panic statement, unchecked assertion, nil-map write or variable integer division", len(fns), "UnmarshalJSON methods"),
		"a decoder can panic on hostile input: "+strings.Join(bad, "; "))
}

// mapInitialised: the updated map is a make() result, or a field that is
// lazily initialised behind a nil test dominating the update.
func mapInitialised(fn *ssa.Function, mu *ssa.MapUpdate) bool {
	if _, ok := an.LoadedValue(an.Unwrap(mu.Map)).(*ssa.MakeMap); ok {
		return true
	}
	mp := an.PathOf(mu.Map)
	if strings.HasPrefix(mp, "make:map") {
		return true
	}
	ok := false
	an.Instrs(fn, func(in ssa.Instruction) {
		st, isSt := in.(*ssa.Store)
		if !isSt {
			return
		}
		if _, isMk := st.Val.(*ssa.MakeMap); !isMk || an.PathOf(st.Addr) != mp {
			return
		}
		// unconditional initialisation dominating the update
		if an.InstrDominates(st, mu) {
			ok = true
			return
		}
		// lazy: "if m == nil { m = make() }" whose test dominates the update
		for _, g := range an.Guards(fn, st.Block()) {
			if is, nonNil := nilTest(g.V, mp); is && g.True != nonNil && g.At.Dominates(mu.Block()) {
				ok = true
			}
		}
	})
	return ok
}

// ---------------------------------------------------------------- DEC-BOUNDS

// lenFacts: expressions known to equal len(x).
func lenFacts(fn *ssa.Function, x ssa.Value) []string {
	out := []string{"len(" + an.PathOf(x) + ")"}
	v := an.Unwrap(x)
	if ms, ok := v.(*ssa.MakeSlice); ok {
		out = append(out, an.PathOf(ms.Len))
	}
	// a field / local that was assigned make([]T, n) in this function
	if u, ok := v.(*ssa.UnOp); ok && u.Op == token.MUL {
		ap := an.PathOf(u.X)
		an.Instrs(fn, func(in ssa.Instruction) {
			if st, ok := in.(*ssa.Store); ok && an.PathOf(st.Addr) == ap {
				if ms, ok := st.Val.(*ssa.MakeSlice); ok {
					out = append(out, an.PathOf(ms.Len))
				}
			}
		})
	}
	if ph, ok := v.(*ssa.Phi); ok {
		_ = ph
	}
	return out
}

// loopIndexBound: idx is a loop counter starting at 0 (or -1+1) whose loop
// continues only while "idx < bound"; returns the bound's access path.
func loopIndexBound(idx ssa.Value) (string, bool) {
	idx = an.Unwrap(idx)
	if !isCounter(idx) {
		return "", false
	}
	// find the loop header test "idx < bound" that dominates the use
	in, ok := idx.(ssa.Instruction)
	if !ok {
		return "", false
	}
	var h *ssa.BasicBlock
	if ph, isPhi := idx.(*ssa.Phi); isPhi {
		h = ph.Block()
	} else {
		h = in.Block()
	}
	var b *ssa.BinOp
	if iff, isIf := an.LastInstr(h).(*ssa.If); isIf {
		if t, isBin := iff.Cond.(*ssa.BinOp); isBin && t.Op == token.LSS && an.Unwrap(t.X) == idx {
			b = t
		}
	}
	if b == nil {
		// the rotated form go/ssa gives `for i := range n`: no test in the counter's own block;
		// every edge into it is the true edge of "incoming value < n", n one SSA value
		b = rotatedLoopTest(idx)
	}
	if b == nil {
		return "", false
	}
	// counter starts non-negative
	var ph *ssa.Phi
	switch x := idx.(type) {
	case *ssa.Phi:
		ph = x
	case *ssa.BinOp:
		for _, side := range []ssa.Value{x.X, x.Y} {
			if p, ok := side.(*ssa.Phi); ok {
				ph = p
			}
		}
	}
	if ph == nil {
		return "", false
	}
	startOK := false
	for _, e := range ph.Edges {
		if k, ok := an.ConstInt(e); ok {
			if _, isBin := idx.(*ssa.BinOp); isBin {
				startOK = k >= -1
			} else {
				startOK = k >= 0
			}
		}
	}
	if !startOK {
		return "", false
	}
	// len(x[k:]) is len(x)-k
	bp := an.PathOf(b.Y)
	if m := reLenOfTail.FindStringSubmatch(bp); m != nil {
		bp = "(len(" + m[1] + ") - const:" + m[2] + ")"
	}
	return bp, true
}

// rotatedLoopTest: idx is a φ at the head of a loop body whose every incoming edge is the
// true edge of a test "value arriving on that edge < bound" against one and the same SSA
// value (`for i := range n`: "0 < n" before the loop, "i+1 < n" at its end). The test of
// the first edge is returned; nil when some edge is not guarded so.
func rotatedLoopTest(idx ssa.Value) *ssa.BinOp {
	ph, isPhi := idx.(*ssa.Phi)
	if !isPhi || len(ph.Edges) < 2 {
		return nil
	}
	var first *ssa.BinOp
	for i, pred := range ph.Block().Preds {
		iff, isIf := an.LastInstr(pred).(*ssa.If)
		if !isIf || len(pred.Succs) != 2 || pred.Succs[0] != ph.Block() || pred.Succs[1] == ph.Block() {
			return nil
		}
		t, isBin := iff.Cond.(*ssa.BinOp)
		if !isBin || t.Op != token.LSS {
			return nil
		}
		same := an.Unwrap(t.X) == an.Unwrap(ph.Edges[i])
		if !same {
			k1, ok1 := an.ConstInt(t.X)
			k2, ok2 := an.ConstInt(ph.Edges[i])
			same = ok1 && ok2 && k1 == k2
		}
		if !same {
			return nil
		}
		if first == nil {
			first = t
		} else if an.Unwrap(first.Y) != an.Unwrap(t.Y) {
			return nil
		}
	}
	return first
}

func normLenOfTail(p string) string {
	if m := reLenOfTail.FindStringSubmatch(p); m != nil {
		return "(len(" + m[1] + ") - const:" + m[2] + ")"
	}
	return p
}

var reLenOfTail = regexp.MustCompile(`^len\((.*)\[const:(\d+):\]\)$`)

func contains(xs []string, s string) bool {
	for _, x := range xs {
		if x == s {
			return true
		}
	}
	return false
}

// regexpGroups: x is the result of FindSubmatch on a package-level regexp
// compiled from a constant; returns its number of capture groups.
func regexpGroups(P *core.Program, x ssa.Value) (int, bool) {
	call := an.CallOf(x)
	if call == nil || !strings.HasPrefix(an.CalleeName(&call.Call), "(*regexp.Regexp).FindSubmatch") && !strings.HasPrefix(an.CalleeName(&call.Call), "(*regexp.Regexp).FindStringSubmatch") {
		return 0, false
	}
	u, ok := call.Call.Args[0].(*ssa.UnOp)
	if !ok {
		return 0, false
	}
	g, ok := u.X.(*ssa.Global)
	if !ok {
		return 0, false
	}
	n, found := 0, false
	an.Instrs(P.Root.Func("init"), func(in ssa.Instruction) {
		if st, ok := in.(*ssa.Store); ok && st.Addr == ssa.Value(g) {
			if cc := an.CallOf(st.Val); cc != nil && strings.HasPrefix(an.CalleeName(&cc.Call), "regexp.MustCompile") {
				if s, ok := an.ConstStr(cc.Call.Args[0]); ok {
					if re, err := syntax.Parse(s, syntax.Perl); err == nil {
						n, found = re.MaxCap(), true
					}
				}
			}
		}
	})
	return n, found
}

func runDecBounds(c *core.Ctx) {
	P := c.P
	fns := decoderFuncs(c)
	c.CountFuncs(len(fns))
	for _, fn := range fns {
		an.Instrs(fn, func(in ssa.Instruction) {
			var x, idx, lo, hi ssa.Value
			kind := ""
			switch v := in.(type) {
			case *ssa.IndexAddr:
				x, idx, kind = v.X, v.Index, "index"
			case *ssa.Index:
				x, idx, kind = v.X, v.Index, "index"
			case *ssa.Slice:
				x, lo, hi, kind = v.X, v.Low, v.High, "slice"
			default:
				return
			}
			// arrays: constant indices are checked by the compiler; full slices of arrays are total
			t := x.Type().Underlying()
			if p, ok := t.(*types.Pointer); ok {
				t = p.Elem().Underlying()
			}
			if arr, ok := t.(*types.Array); ok {
				if kind == "slice" && lo == nil && hi == nil {
					return
				}
				if k, ok := an.ConstInt(idx); kind == "index" && ok && k >= 0 && k < arr.Len() {
					return
				}
			}
			c.CountSites(1)
			facts := lenFacts(fn, x)
			construct := kind + " " + clip(an.PathOf(x), 40)
			pos := P.Pos(in.Pos())
			inLen := func(minLen int64, why string) bool {
				// every way of reaching the access has len(x) >= minLen
				for _, f := range facts {
					if !strings.HasPrefix(f, "len(") {
						continue
					}
					fr := an.ConstFrame(f)
					set, n, ok := fr.ReachSet(fn, in.Block(), nil, nil)
					c.CountPaths(n)
					if ok && set.Subset(an.Range(minLen, an.PosInf)) {
						c.OK(nil, fname(c, fn), construct, pos, fmt.Sprintf("%s: reached only with %s ∈ %s", why, f, set))
						return true
					}
					// I7: the length test made by a private helper whose verdict was tested here
					// (`if _, err := elems.expect("EVENT", 3); err != nil { return err }`)
					if deep, okd := lenAtDeep(fn, in.Block(), f); okd && deep.Subset(an.Range(minLen, an.PosInf)) {
						c.OK(nil, fname(c, fn), construct, pos, fmt.Sprintf("%s: reached only with %s ∈ %s (tested by a helper whose verdict dominates the access)", why, f, deep))
						return true
					}
					// I5: FindSubmatch returns nil or exactly groups+1 elements
					if g, isRe := regexpGroups(P, x); isRe && ok && set.Subset(an.Range(1, an.PosInf)) && minLen <= int64(g)+1 {
						c.OK(nil, fname(c, fn), construct, pos, fmt.Sprintf("%s: a non-empty submatch of a pattern with %d group(s) has %d elements", why, g, g+1))
						return true
					}
				}
				return false
			}
			switch kind {
			case "index":
				if k, ok := an.ConstInt(idx); ok {
					if k >= 0 && inLen(k+1, fmt.Sprintf("constant index %d", k)) {
						return
					}
					c.Unknown(nil, fname(c, fn), construct, pos, fmt.Sprintf("constant index %d is not dominated by a length test of %s", k, an.PathOf(x)))
					return
				}
				// loop counter bounded by len(x) (or by the length x was made with)
				nf := make([]string, len(facts))
				for i, f := range facts {
					nf[i] = normLenOfTail(f)
				}
				if b, ok := loopIndexBound(idx); ok && contains(nf, b) {
					c.OK(nil, fname(c, fn), construct, pos, "index is a loop counter running while < "+b)
					return
				}
				// a counter that runs while < a constant K: in bounds of an array with at least K
				// elements, and of a slice every way to which has established len ≥ K
				if b, ok := loopIndexBound(idx); ok && strings.HasPrefix(b, "const:") {
					if k, err := strconv.ParseInt(strings.TrimPrefix(b, "const:"), 10, 64); err == nil && k >= 0 {
						if arr, isArr := t.(*types.Array); isArr && k <= arr.Len() {
							c.OK(nil, fname(c, fn), construct, pos, fmt.Sprintf("index is a loop counter running while < %d, the array has %d elements", k, arr.Len()))
							return
						}
						if inLen(k, fmt.Sprintf("loop counter running while < %d", k)) {
							return
						}
					}
				}
				// a fixed-size array indexed by a counter that runs while < some other length:
				// in bounds if that length is known to be at most the array's size here
				if arr, isArr := t.(*types.Array); isArr {
					if b, ok := loopIndexBound(idx); ok && strings.HasPrefix(b, "len(") {
						set, n, okr := an.ConstFrame(b).ReachSet(fn, in.Block(), nil, nil)
						c.CountPaths(n)
						if okr && set.Subset(an.Range(0, arr.Len())) {
							c.OK(nil, fname(c, fn), construct, pos, fmt.Sprintf("index is a loop counter running while < %s ∈ %s, the array has %d elements", b, set, arr.Len()))
							return
						}
					}
				}
				// i+c with loop bound len(x)-c
				if bin, ok := an.Unwrap(idx).(*ssa.BinOp); ok && bin.Op == token.ADD {
					if k, isK := an.ConstInt(bin.Y); isK && k >= 0 {
						if b, ok := loopIndexBound(bin.X); ok {
							for _, f := range facts {
								if b == fmt.Sprintf("(%s - const:%d)", f, k) {
									c.OK(nil, fname(c, fn), construct, pos, fmt.Sprintf("index i+%d with i running while < %s", k, b))
									return
								}
							}
						}
					}
				}
				if newBoundsProver(c).indexInRange(x, idx, in.Block()) {
					c.OK(nil, fname(c, fn), construct, pos, "index is non-negative by construction and below len of the same value by a dominating comparison")
					return
				}
				c.Unknown(nil, fname(c, fn), construct, pos, "index "+an.PathOf(idx)+" not proven within "+strings.Join(facts, " = "))
			case "slice":
				// s[len(p):] behind strings.HasPrefix(s, p)
				if lo != nil && hi == nil {
					lp := an.PathOf(lo)
					for _, g := range an.Guards(fn, in.Block()) {
						if call, ok := g.V.(*ssa.Call); ok && g.True && an.CalleeName(&call.Call) == "strings.HasPrefix" {
							pfx, isConst := an.ConstStr(call.Call.Args[1])
							lk, isK := an.ConstInt(lo)
							if an.PathOf(call.Call.Args[0]) == an.PathOf(x) && (lp == "len("+an.PathOf(call.Call.Args[1])+")" || isConst && isK && lk == int64(len(pfx))) {
								c.OK(nil, fname(c, fn), construct, pos, "low bound len(prefix) behind strings.HasPrefix(s, prefix)")
								return
							}
						}
					}
				}
				// constant bounds behind a length test
				var need int64 = -1
				okConst := true
				for _, b := range []ssa.Value{lo, hi} {
					if b == nil {
						continue
					}
					k, ok := an.ConstInt(b)
					if !ok {
						okConst = false
						break
					}
					if k > need {
						need = k
					}
				}
				if okConst && need >= 0 && inLen(need, fmt.Sprintf("constant bounds ≤ %d", need)) {
					return
				}
				if lo == nil && hi == nil {
					c.Trivial(nil, fname(c, fn), construct, pos, "full slice")
					return
				}
				if newBoundsProver(c).sliceInRange(x, lo, hi, in.Block()) {
					c.OK(nil, fname(c, fn), construct, pos, "slice bounds ordered and within len of the same value by construction and dominating comparisons")
					return
				}
				c.Unknown(nil, fname(c, fn), construct, pos, "slice bounds not proven within "+strings.Join(facts, " = "))
			}
		})
	}
}

// ---------------------------------------------------------------- DEC-FILLED

// modStructPtr: t is *S for a struct type S declared in the module.
func modStructPtr(t types.Type) bool {
	p, ok := t.Underlying().(*types.Pointer)
	if !ok {
		return false
	}
	n, ok := p.Elem().(*types.Named)
	if !ok || n.Obj().Pkg() == nil {
		return false
	}
	if _, isStruct := n.Underlying().(*types.Struct); !isStruct {
		return false
	}
	pp := n.Obj().Pkg().Path()
	return pp == core.ModulePath || strings.HasPrefix(pp, core.ModulePath+"/")
}

// holdsNullablePtr: a value of type t decoded by encoding/json can end up
// holding a nil *S (JSON null sets a pointer to nil without calling S's
// decoder): t is *S, or a slice / array / map / pointer chain leading to one.
func holdsNullablePtr(t types.Type, depth int) bool {
	if depth > 3 {
		return false
	}
	if modStructPtr(t) {
		return true
	}
	switch x := t.Underlying().(type) {
	case *types.Slice:
		return holdsNullablePtr(x.Elem(), depth+1)
	case *types.Array:
		return holdsNullablePtr(x.Elem(), depth+1)
	case *types.Map:
		return holdsNullablePtr(x.Elem(), depth+1)
	case *types.Pointer:
		return holdsNullablePtr(x.Elem(), depth+1)
	}
	return false
}

func runDecFilled(c *core.Ctx) {
	P := c.P
	fns := decoderFuncs(c)
	c.CountFuncs(len(fns))
	seq := map[string]int{}
	for _, fn := range fns {
		an.Instrs(fn, func(in ssa.Instruction) {
			switch x := in.(type) {
			case *ssa.Call:
				g := an.StaticCallee(&x.Call)
				if g == nil {
					return
				}
				name := an.FuncFullName(g)
				if name != "encoding/json.Unmarshal" && name != "(*encoding/json.Decoder).Decode" {
					return
				}
				dest := x.Call.Args[len(x.Call.Args)-1]
				if mi, ok := dest.(*ssa.MakeInterface); ok {
					dest = mi.X
				}
				c.CountSites(1)
				pt, isPtr := dest.Type().Underlying().(*types.Pointer)
				what := clip(types.TypeString(dest.Type(), func(p *types.Package) string { return p.Name() }), 50)
				k := fname(c, fn) + "/" + what
				seq[k]++
				construct := fmt.Sprintf("json-dest %s#%d", what, seq[k])
				if !isPtr {
					// a destination that is not statically a pointer (an `any` handed on): not decided here
					c.Check(!holdsNullablePtr(dest.Type(), 0), nil, fname(c, fn), construct, P.Pos(x.Pos()), "destination of static type "+types.TypeString(dest.Type(), nil)+" cannot hold a message pointer",
						"encoding/json decodes into a value of type "+types.TypeString(dest.Type(), nil)+" that can hold a *message pointer: JSON null leaves it nil in an accepted message")
					return
				}
				c.Check(!holdsNullablePtr(pt.Elem(), 0), nil, fname(c, fn), construct, P.Pos(x.Pos()),
					"encoding/json fills a "+types.TypeString(pt.Elem(), nil)+": no message pointer that JSON null could leave nil",
					"encoding/json decodes into a "+types.TypeString(pt.Elem(), nil)+": for the JSON value null it sets the pointer to nil without calling the type's own decoder, so an accepted message carries a nil "+types.TypeString(pt.Elem(), nil)+" (not a completely filled value; later reads of its fields panic)")
			case *ssa.Store:
				if !modStructPtr(x.Val.Type()) {
					return
				}
				switch x.Addr.(type) {
				case *ssa.FieldAddr, *ssa.IndexAddr:
				default:
					return
				}
				c.CountSites(1)
				var bad []string
				for _, src := range an.Sources(fn, x.Val) {
					switch y := src.(type) {
					case *ssa.Alloc:
						continue
					case *ssa.Call:
						if g := an.StaticCallee(&y.Call); an.InModuleFn(g) && freshResult(g, 0) && !mayReturnNil(g) {
							continue
						}
					}
					bad = append(bad, clip(an.PathOf(src), 40))
				}
				what := clip(addrSuffixGeneric(x.Addr), 40)
				k := fname(c, fn) + "/" + what
				seq[k]++
				c.Check(len(bad) == 0, nil, fname(c, fn), fmt.Sprintf("store %s#%d", what, seq[k]), P.Pos(x.Pos()),
					"the pointer stored into the decoded value is a fresh allocation",
					fmt.Sprintf("a pointer stored into a decoded value may be nil or shared (%s): the accepted message is not a completely filled value of its own", strings.Join(bad, ", ")))
			}
		})
	}
	// every message type with a pointer field has a decoder that stores it
	for _, fn := range fns {
		if fn.Name() != "UnmarshalJSON" || fn.Signature.Recv() == nil {
			continue
		}
		rp, ok := fn.Signature.Recv().Type().Underlying().(*types.Pointer)
		if !ok {
			continue
		}
		st, ok := rp.Elem().Underlying().(*types.Struct)
		if !ok {
			continue
		}
		for i := 0; i < st.NumFields(); i++ {
			f := st.Field(i)
			if !modStructPtr(f.Type()) {
				continue
			}
			stored := false
			an.Region(fn, nil, func(o an.Occ) {
				if s, isStore := o.In.(*ssa.Store); isStore {
					if fa, isFA := s.Addr.(*ssa.FieldAddr); isFA && fieldNameOf(fa) == an.FieldNameHook(st, i) && modStructPtr(s.Val.Type()) {
						stored = true
					}
				}
			})
			c.Check(stored, nil, fname(c, fn), "field "+an.FieldNameHook(st, i), P.Pos(fn.Pos()), "the decoder stores the pointer field", "the decoder never stores the pointer field "+f.Name()+": an accepted message carries a nil pointer")
		}
	}
}

// mayReturnNil: some return of g hands back a nil constant as first result.
func mayReturnNil(g *ssa.Function) bool {
	for _, rb := range an.ReturnBlocks(g) {
		rv := an.ReturnValues(an.LastInstr(rb).(*ssa.Return))
		if len(rv) > 0 && an.IsNilConst(rv[0]) {
			return true
		}
	}
	return false
}

// closedKeyLoop: dec ranges over the decoded object obj and returns a non-nil error for every key that
// slices.Contains does not find in (a slice of) a package-level array of constant strings; the names in
// that array. ok=false: no such loop.
func closedKeyLoop(P *core.Program, dec *ssa.Function, obj ssa.Value) (map[string]bool, bool) {
	var contains *ssa.Call
	var arr *ssa.Global
	an.Instrs(dec, func(in ssa.Instruction) {
		call, ok := in.(*ssa.Call)
		if !ok || !strings.HasPrefix(an.CalleeName(&call.Call), "slices.Contains") || len(call.Call.Args) != 2 || !an.InLoop(call.Block()) {
			return
		}
		// the key: what a range over obj yields
		ex, isEx := call.Call.Args[1].(*ssa.Extract)
		if !isEx || ex.Index != 1 {
			return
		}
		nx, isNx := ex.Tuple.(*ssa.Next)
		if !isNx {
			return
		}
		rg, isRg := nx.Iter.(*ssa.Range)
		if !isRg || an.PathOf(rg.X) != an.PathOf(obj) {
			return
		}
		// the list: a slice of a package-level array
		if sl, isSl := call.Call.Args[0].(*ssa.Slice); isSl {
			if g, isG := sl.X.(*ssa.Global); isG {
				contains, arr = call, g
			}
		}
	})
	if contains == nil {
		return nil, false
	}
	// "not contained" leads to a non-nil error
	refuses := false
	for _, rb := range an.ReturnBlocks(dec) {
		rv := an.ReturnValues(an.LastInstr(rb).(*ssa.Return))
		if len(rv) == 0 || an.IsNilConst(rv[len(rv)-1]) {
			continue
		}
		for _, g := range an.Guards(dec, rb) {
			if v, pol := stripNot(g.V, g.True); v == ssa.Value(contains) && !pol {
				refuses = true
			}
		}
	}
	if !refuses {
		return nil, false
	}
	names := map[string]bool{}
	dirty := false
	for _, pkg := range []*ssa.Package{P.Root} {
		initFn := pkg.Func("init")
		if initFn == nil {
			continue
		}
		an.Instrs(initFn, func(in ssa.Instruction) {
			st, ok := in.(*ssa.Store)
			if !ok {
				return
			}
			if ia, ok := st.Addr.(*ssa.IndexAddr); ok && ia.X == ssa.Value(arr) {
				if s, ok := an.ConstStr(st.Val); ok {
					names[s] = true
				} else {
					dirty = true
				}
			}
		})
	}
	// nobody else writes the array
	for _, fn := range P.ModFuncs {
		if fn.Name() == "init" {
			continue
		}
		an.Instrs(fn, func(in ssa.Instruction) {
			if st, ok := in.(*ssa.Store); ok {
				if ia, ok := st.Addr.(*ssa.IndexAddr); ok && ia.X == ssa.Value(arr) {
					dirty = true
				}
			}
		})
	}
	return names, !dirty && len(names) > 0
}

// knownNonNil: at use, the result of src (reflect.TypeOf(v) / errors.Unwrap(e)) cannot be nil: it was
// tested against nil on the way, or — for TypeOf — its argument was (`v != nil`, `case nil:` taken
// elsewhere), or the argument is a concrete value boxed right here.
func knownNonNil(fn *ssa.Function, src *ssa.Call, use ssa.Instruction) bool {
	arg := src.Call.Args[0]
	if mi, ok := arg.(*ssa.MakeInterface); ok && an.CalleeName(&src.Call) == "reflect.TypeOf" {
		if _, isI := mi.X.Type().Underlying().(*types.Interface); !isI {
			if _, isP := mi.X.Type().Underlying().(*types.Pointer); !isP {
				return true
			}
		}
	}
	for _, g := range an.Guards(fn, use.Block()) {
		g = an.NormCond(g)
		b, ok := g.V.(*ssa.BinOp)
		if !ok || !an.IsNilConst(b.Y) || (b.Op != token.EQL && b.Op != token.NEQ) || (b.Op == token.NEQ) != g.True {
			continue
		}
		if b.X == ssa.Value(src) || (b.X == arg && an.CalleeName(&src.Call) == "reflect.TypeOf") {
			return true
		}
	}
	return false
}
