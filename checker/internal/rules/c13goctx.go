package rules

import (
	"fmt"
	"strings"

	"golang.org/x/tools/go/ssa"

	"mocverif/internal/an"
	"mocverif/internal/core"
)

func init() {
	reg(&core.RuleInfo{Name: "GO-CTX", Props: []string{"C13"}, Engine: "CG", Floor: 3, Confirmed: 8,
		Doc: "a goroutine started by a function that cancels its own derived context on return blocks only under that context, never under the caller's", Run: runGoCtx})
}

// runGoCtx: F derives `c2, cancel := context.WithCancel(parent)` and defers cancel() — the
// promise that everything F started ends with F. A goroutine closure of F that waits on
// `parent.Done()` or hands `parent` to a function that can block (a select / send /
// receive somewhere below it) outlives F whenever F returns for another reason than the
// caller's cancellation (inbound channel closed, error): the goroutine leaks.
func runGoCtx(c *core.Ctx) {
	P := c.P
	mayBlock := map[*ssa.Function]int{}
	var blocks func(g *ssa.Function) bool
	blocks = func(g *ssa.Function) bool {
		if v, ok := mayBlock[g]; ok {
			return v == 1
		}
		mayBlock[g] = 2
		res := false
		for _, h := range an.RefClosure([]*ssa.Function{g}, P.InModule) {
			for _, op := range an.ChanOps(h) {
				if op.Kind == an.OpSend || op.Kind == an.OpRecv || op.Kind == an.OpRange || (op.Kind == an.OpSelect && op.Select.Blocking) {
					res = true
				}
			}
		}
		if res {
			mayBlock[g] = 1
		}
		return res
	}
	isCtx := func(v ssa.Value) bool {
		return strings.HasSuffix(v.Type().String(), "context.Context")
	}
	for _, fn := range libFuncs(c) {
		if fn.Parent() != nil {
			continue
		}
		// derived contexts whose cancel is deferred in fn
		type derived struct {
			call   *ssa.Call
			parent ssa.Value
		}
		var ds []derived
		an.Instrs(fn, func(in ssa.Instruction) {
			call, ok := in.(*ssa.Call)
			if !ok {
				return
			}
			switch an.CalleeName(&call.Call) {
			case "context.WithCancel", "context.WithTimeout", "context.WithDeadline", "context.WithCancelCause", "context.WithTimeoutCause", "context.WithDeadlineCause":
			default:
				return
			}
			// its cancel function is deferred in fn
			deferred := false
			if call.Referrers() != nil {
				for _, r := range *call.Referrers() {
					ex, isEx := r.(*ssa.Extract)
					if !isEx || ex.Index != 1 {
						continue
					}
					an.Instrs(fn, func(in2 ssa.Instruction) {
						if d, isD := in2.(*ssa.Defer); isD && an.LoadedValue(d.Call.Value) == ssa.Value(ex) {
							deferred = true
						}
					})
				}
			}
			if deferred {
				ds = append(ds, derived{call, call.Call.Args[0]})
			}
		})
		if len(ds) == 0 {
			continue
		}
		// goroutine closures of fn (and closures nested in them)
		var gos []*ssa.Function
		an.Instrs(fn, func(in ssa.Instruction) {
			if g, ok := in.(*ssa.Go); ok {
				if mc, isMC := g.Call.Value.(*ssa.MakeClosure); isMC {
					gos = append(gos, an.WithAnon(mc.Fn.(*ssa.Function))...)
				}
			}
		})
		if len(gos) == 0 {
			continue
		}
		c.CountFuncs(1)
		// does v (in closure g) denote the parent context of one of the derivations?
		isParent := func(v ssa.Value) bool {
			r := an.LoadedValue(resolveFree(v))
			for _, d := range ds {
				if r == an.LoadedValue(d.parent) || r == d.parent {
					return true
				}
			}
			return false
		}
		n := 0
		var bad []string
		for _, g := range gos {
			an.Instrs(g, func(in ssa.Instruction) {
				ci, ok := in.(ssa.CallInstruction)
				if !ok {
					return
				}
				com := ci.Common()
				// ctx.Done()
				if com.IsInvoke() && com.Method.Name() == "Done" && isCtx(com.Value) {
					n++
					if isParent(com.Value) {
						bad = append(bad, fmt.Sprintf("waits on the caller's ctx.Done() at %s", P.Pos(in.Pos())))
					}
					return
				}
				callee := an.StaticCallee(com)
				if callee == nil || !P.InModule(callee) || !blocks(callee) {
					return
				}
				for _, a := range com.Args {
					if !isCtx(a) {
						continue
					}
					n++
					if isParent(a) {
						bad = append(bad, fmt.Sprintf("%s is given the caller's context at %s", fname(c, callee), P.Pos(in.Pos())))
					}
				}
			})
		}
		if n == 0 {
			continue
		}
		c.CountSites(n)
		c.Check(len(bad) == 0, nil, fname(c, fn), "goroutines/context", P.Pos(fn.Pos()),
			fmt.Sprintf("%d context use(s) in the goroutines it starts: all under the context it cancels on return", n),
			"a goroutine started here blocks under the caller's context instead of the one cancelled on return ("+strings.Join(bad, "; ")+"): when the function returns for another reason than the caller's cancellation the goroutine never exits")
	}
}
