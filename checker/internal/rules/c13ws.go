package rules

import (
	"fmt"
	"regexp"
	"strings"

	"golang.org/x/tools/go/ssa"

	"mocverif/internal/an"
	"mocverif/internal/core"
)

func init() {
	reg(&core.RuleInfo{Name: "WS-DEADLINE", Props: []string{"C13"}, Engine: "PROV", Floor: 2, Confirmed: 2,
		Doc: "every un-timed WebSocket write/ping is controlled by SendTimeout only", Run: runWSDeadline})
}

// wsOp: one WebSocket write/ping and the place where its context is decided.
type wsOp struct {
	short string          // "Write" | "Ping"
	owner *ssa.Function   // function the operation is written in (for the obligation's name)
	pos   ssa.Instruction // the operation (or the place a method value of it is handed on)
	fn    *ssa.Function   // function in which the context value is chosen
	ctx   ssa.Value       // that context value
	at    *ssa.BasicBlock // block of fn in which it is used
}

// wsOps finds the operations. Normally the context is an argument of the call
// itself. When the operation sits in a closure (or is a method value,
// conn.Ping) that is handed to a module helper which calls it with a context
// of its own — relay.withSendTimeout(ctx, func(ctx) error { return
// conn.Write(ctx, …) }) — the context is decided in that helper, at the call
// of its function parameter.
func wsOps(c *core.Ctx) []wsOp {
	P := c.P
	var out []wsOp
	isOp := func(name string) string {
		switch name {
		case "(*github.com/coder/websocket.Conn).Write":
			return "Write"
		case "(*github.com/coder/websocket.Conn).Ping":
			return "Ping"
		}
		return ""
	}
	// handedTo: value v (a closure / method value made in maker) is argument k of a static call
	// of module function h; returns h's dynamic calls of parameter k
	handedTo := func(v ssa.Value) (*ssa.Function, []*ssa.Call) {
		if v.Referrers() == nil {
			return nil, nil
		}
		for _, r := range *v.Referrers() {
			hc, ok := r.(*ssa.Call)
			if !ok {
				continue
			}
			h := an.StaticCallee(&hc.Call)
			if !an.InModuleFn(h) || len(h.Params) != len(hc.Call.Args) {
				continue
			}
			for k, a := range hc.Call.Args {
				if a != v {
					continue
				}
				var dyn []*ssa.Call
				for _, ci := range calls(h) {
					if dc, ok := ci.(*ssa.Call); ok && an.Unwrap(dc.Call.Value) == ssa.Value(h.Params[k]) {
						dyn = append(dyn, dc)
					}
				}
				if len(dyn) > 0 {
					return h, dyn
				}
			}
		}
		return nil, nil
	}
	for _, fn := range P.ModFuncs {
		if P.PkgOf(fn) != core.ModulePath {
			continue
		}
		an.Instrs(fn, func(in ssa.Instruction) {
			switch x := in.(type) {
			case *ssa.Call:
				short := isOp(an.CalleeName(&x.Call))
				if short == "" {
					return
				}
				op := wsOp{short: short, owner: fn, pos: x, fn: fn, ctx: x.Call.Args[1], at: x.Block()}
				// inside a closure, with the closure's own parameter as context
				if par, ok := an.Unwrap(x.Call.Args[1]).(*ssa.Parameter); ok && fn.Parent() != nil {
					pi := -1
					for i, p := range fn.Params {
						if p == par {
							pi = i
						}
					}
					an.Instrs(fn.Parent(), func(pin ssa.Instruction) {
						mc, ok := pin.(*ssa.MakeClosure)
						if !ok || mc.Fn != ssa.Value(fn) || pi < 0 {
							return
						}
						if h, dyn := handedTo(mc); h != nil {
							for _, dc := range dyn {
								if pi < len(dc.Call.Args) {
									o2 := op
									o2.fn, o2.ctx, o2.at = h, dc.Call.Args[pi], dc.Block()
									out = append(out, o2)
								}
							}
							op.fn = nil
						}
					})
				}
				if op.fn != nil {
					out = append(out, op)
				}
			case *ssa.MakeClosure:
				// a method value conn.Ping / conn.Write handed on
				bw, ok := x.Fn.(*ssa.Function)
				if !ok || bw.Synthetic == "" || len(x.Bindings) != 1 {
					return
				}
				target, _ := throughBound(bw)
				if target == nil || target == bw {
					return
				}
				short := isOp(an.FuncFullName(target))
				if short == "" {
					return
				}
				if h, dyn := handedTo(x); h != nil {
					for _, dc := range dyn {
						if len(dc.Call.Args) > 0 {
							out = append(out, wsOp{short: short, owner: fn, pos: x, fn: h, ctx: dc.Call.Args[0], at: dc.Block()})
						}
					}
				} else {
					out = append(out, wsOp{short: short, owner: fn, pos: x})
				}
			}
		})
	}
	return out
}

func runWSDeadline(c *core.Ctx) {
	P := c.P
	n := 0
	timedSomewhere := map[string]bool{}
	for _, op := range wsOps(c) {
		n++
		c.CountSites(1)
		construct := "ctx-arg of (*websocket.Conn)." + op.short
		owner := fname(c, op.owner)
		if op.fn == nil {
			c.Unknown(nil, owner, construct, P.Pos(op.pos.Pos()), "the operation is handed on as a function value; where it is called, and with which context, is not visible")
			continue
		}
		fn := op.fn
		// a free function that is handed the timeout: its parameter is what every caller passes
		subst := uniformArgSubst(c, fn)
		var problems []string
		nTimed, nUntimed := 0, 0
		paths, _ := an.PathsTo(fn, op.at, 1024)
		c.CountPaths(len(paths))
		for _, p := range paths {
			if !an.Feasible(p) {
				continue
			}
			for _, dc := range deadlineCases(fn, op.ctx, p, op.at, nil, 0, subst) {
				if dc.timed {
					nTimed++
					continue
				}
				nUntimed++
				onlySend := false
				for _, cp := range dc.conds {
					if strings.Contains(cp, ".SendTimeout") {
						onlySend = true
					}
					for _, other := range []string{"PingDuration", "RecvRateLimit", "MaxMessageLength", "Logger"} {
						if strings.Contains(cp, "."+other) {
							problems = append(problems, fmt.Sprintf("the un-timed path is selected by %s, not by SendTimeout", cp))
						}
					}
				}
				if !onlySend {
					problems = append(problems, "an un-timed path is taken without any test of SendTimeout")
				}
			}
		}
		uniq := map[string]bool{}
		var ps []string
		for _, p := range problems {
			if !uniq[p] {
				uniq[p] = true
				ps = append(ps, p)
			}
		}
		timedSomewhere[owner+op.short] = timedSomewhere[owner+op.short] || nTimed > 0
		c.Check(len(ps) == 0, nil, owner, construct, P.Pos(op.pos.Pos()),
			fmt.Sprintf("%d timed path(s) from WithTimeout(_, opt.SendTimeout); %d un-timed path(s) controlled by SendTimeout only", nTimed, nUntimed),
			"with some option combination (e.g. PingDuration: 0, SendTimeout: 1s) a write to a peer that stopped reading blocks without deadline: "+strings.Join(ps, "; "))
	}
	if n == 0 {
		c.NoAnchor(nil, "calls of (*websocket.Conn).Write/Ping")
	}
	for k, ok := range timedSomewhere {
		if !ok {
			c.Bad(nil, k, "deadline-exists", "-", "no path gives this WebSocket operation a SendTimeout deadline at all")
		}
	}
}

// uniformArgSubst: for a function all of whose module call sites pass the same
// expression for a parameter (sendMsg(ctx, conn, msg, relay.opt.SendTimeout)),
// a rewriting of access paths that names the parameter by that expression.
func uniformArgSubst(c *core.Ctx, fn *ssa.Function) func(string) string {
	bind := map[string]string{}
	root := fn
	for root.Parent() != nil {
		root = root.Parent()
	}
	callers := callerIndex(c)[root]
	if len(callers) > 0 && an.PrivateHelper(root) {
		for i, p := range root.Params {
			arg, same := "", true
			for _, caller := range callers {
				for _, ci := range calls(caller) {
					if an.StaticCallee(ci.Common()) != root || len(ci.Common().Args) != len(root.Params) {
						continue
					}
					ap := an.PathOf(ci.Common().Args[i])
					if arg == "" {
						arg = ap
					} else if arg != ap {
						same = false
					}
				}
			}
			if same && arg != "" && !strings.HasPrefix(arg, "p:") {
				if i == 0 && root.Signature.Recv() != nil {
					// a method of a small value built by its one caller (`w := connWriter{conn, opt.SendTimeout}; w.ping(ctx)`)
					if strings.HasPrefix(arg, "lit{") || strings.HasPrefix(arg, "&lit{") {
						bind["recv"] = arg
					}
					continue
				}
				bind["p:"+p.Name()] = arg
			}
		}
	}
	if _, has := bind["recv"]; !has && root.Signature.Recv() != nil {
		// called only from other methods of the same value (`loop` → `writePing`): the value is what
		// those methods were called on
		if lit := receiverLiteral(c, root, 0); lit != "" {
			bind["recv"] = lit
		}
	}
	return func(s string) string {
		for k, v := range bind {
			s = regexp.MustCompile(`\b`+regexp.QuoteMeta(k)+`\b`).ReplaceAllString(s, strings.ReplaceAll(v, "$", "$$"))
		}
		return an.SimplifyLitFields(s)
	}
}

// receiverLiteral: the one struct literal (`&lit{…}` / `lit{…}`) every call chain hands to fn as
// its receiver: directly, or through methods of the same type that pass their own receiver on.
func receiverLiteral(c *core.Ctx, fn *ssa.Function, depth int) string {
	if depth > 4 {
		return ""
	}
	lit := ""
	sites := 0
	for _, caller := range uniqFuncs(callerIndex(c)[fn]) {
		for _, ci := range calls(caller) {
			if an.StaticCallee(ci.Common()) != fn || len(ci.Common().Args) == 0 {
				continue
			}
			sites++
			ap := an.PathOf(ci.Common().Args[0])
			got := ""
			switch {
			case strings.HasPrefix(ap, "lit{") || strings.HasPrefix(ap, "&lit{"):
				got = ap
			case ap == "recv":
				croot := caller
				for croot.Parent() != nil {
					croot = croot.Parent()
				}
				if recvTypeName(croot) == recvTypeName(fn) {
					got = receiverLiteral(c, croot, depth+1)
				}
			}
			if got == "" || lit != "" && lit != got {
				return ""
			}
			lit = got
		}
	}
	if sites == 0 {
		return ""
	}
	return lit
}

// deadlineCase: one way the context handed to a WebSocket operation comes
// about: with a SendTimeout deadline or without, under which conditions
// (access paths of the branch conditions, in the terms of the function that
// performs the operation).
type deadlineCase struct {
	timed bool
	conds []string
}

// deadlineCases resolves the context value v along path p of fn: phis are
// selected by the path; a context.WithTimeout(_, …SendTimeout) result is
// timed; a context produced by a module helper (`ctx, cancel :=
// relay.withSendTimeout(ctx)`) is whatever the helper's return paths make it,
// with the helper's own branch conditions added.
func deadlineCases(fn *ssa.Function, v ssa.Value, p an.Path, at *ssa.BasicBlock, in *ssa.CallCommon, depth int, subst func(string) string) []deadlineCase {
	pathOf := func(x ssa.Value) string {
		if in != nil {
			return subst(an.PathOfIn(x, in))
		}
		return subst(an.PathOf(x))
	}
	// the conditions that select this way of getting the context: those that control
	// the place where the choice is made — the operation's own block, or, when the context
	// was chosen into a variable first, the block the chosen phi edge comes from. (Branches
	// taken earlier for unrelated reasons do not select anything.)
	sel := at
	var selEdgeTo *ssa.BasicBlock
	for i := 0; i < 8; i++ {
		ph, ok := v.(*ssa.Phi)
		if !ok {
			break
		}
		pred := p.Pred(ph.Block())
		next := ssa.Value(nil)
		for j, pb := range ph.Block().Preds {
			if pb == pred {
				next = ph.Edges[j]
			}
		}
		if next == nil {
			break
		}
		v = next
		sel, selEdgeTo = pred, ph.Block()
	}
	var conds []string
	onPath := map[*ssa.BasicBlock]bool{}
	for _, b := range p {
		onPath[b] = true
	}
	if sel != nil {
		for _, g := range an.Guards(fn, sel) {
			conds = append(conds, pathOf(g.V))
		}
		// … and the branch at the end of that block, if the choice is made by its edge
		if iff, isIf := an.LastInstr(sel).(*ssa.If); isIf && selEdgeTo != nil && len(sel.Succs) == 2 && sel.Succs[0] != sel.Succs[1] {
			conds = append(conds, pathOf(iff.Cond))
		}
	}
	// (WithTimeoutCause: the same deadline, with a reason attached)
	if vp := pathOf(v); (strings.Contains(vp, "call:context.WithTimeout(") || strings.Contains(vp, "call:context.WithTimeoutCause(")) && strings.Contains(vp, ".SendTimeout") {
		return []deadlineCase{{timed: true, conds: conds}}
	}
	if ex, ok := v.(*ssa.Extract); ok && ex.Index == 0 && depth < 2 && in == nil {
		if hc, ok := ex.Tuple.(*ssa.Call); ok {
			if g := an.StaticCallee(&hc.Call); an.InModuleFn(g) {
				var out []deadlineCase
				for _, rb := range an.ReturnBlocks(g) {
					rv := an.ReturnValues(an.LastInstr(rb).(*ssa.Return))
					if len(rv) == 0 {
						continue
					}
					qs, _ := an.PathsTo(g, rb, 256)
					for _, q := range qs {
						if !an.Feasible(q) {
							continue
						}
						for _, dc := range deadlineCases(g, rv[0], q, rb, &hc.Call, depth+1, subst) {
							dc.conds = append(append([]string(nil), conds...), dc.conds...)
							out = append(out, dc)
						}
					}
				}
				if len(out) > 0 {
					return out
				}
			}
		}
	}
	return []deadlineCase{{timed: false, conds: conds}}
}
