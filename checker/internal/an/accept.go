package an

import (
	"go/token"

	"golang.org/x/tools/go/ssa"
)

// Accept paths: instead of asking which tests dominate a particular
// `return true` block (which depends on how the author spelled the function:
// early returns, a merged `a && b` result, a switch), ask under which
// conditions result #idx of the function may have a given truth value: for
// every feasible path to a return, the branch conditions taken plus — when
// the returned value is itself a computed boolean — that value's own truth.

// CondPath: a path to a return with everything known to hold on it.
type CondPath struct {
	Path  Path
	Conds []Cond // branch conditions and Extra, negations stripped into the polarity
	Extra []Cond // the part of Conds that comes from the returned value itself
	// Sub: the paths taken inside private helpers whose verdicts this path tested
	// (ResultPathsDeep); Conds already contains their conditions.
	Sub []CondPath
}

// Visits: the path (or a helper path below it) passes through block b.
func (cp CondPath) Visits(b *ssa.BasicBlock) bool {
	if cp.Path.Contains(b) {
		return true
	}
	for _, s := range cp.Sub {
		if s.Visits(b) {
			return true
		}
	}
	return false
}

// Meaning: the subject values under which the path is taken (frame f).
func (cp CondPath) Meaning(f Frame) Set {
	s := f.PathMeaning(cp.Path, nil)
	for _, c := range cp.Extra {
		if a, ok := f.Atom(c.V, c.True); ok {
			s = s.Intersect(a)
		}
	}
	for _, sub := range cp.Sub {
		s = s.Intersect(sub.Meaning(f))
	}
	return s
}

// NormCond strips negations into the polarity.
func NormCond(c Cond) Cond {
	for {
		u, ok := c.V.(*ssa.UnOp)
		if !ok || u.Op != token.NOT {
			return c
		}
		c.V = u.X
		c.True = !c.True
	}
}

// valueConds: the conditions under which bool v, evaluated at the end of
// path p, has truth value pol. feasible=false: it cannot.
func valueConds(v ssa.Value, p Path, pol bool, depth int) (conds []Cond, feasible bool) {
	if depth > 16 {
		return []Cond{{V: v, True: pol}}, true
	}
	switch x := v.(type) {
	case *ssa.Const:
		isTrue := x.Value != nil && x.Value.String() == "true"
		return nil, isTrue == pol
	case *ssa.Phi:
		// the edge taken is the LAST occurrence of the phi's block on the path
		for i := len(p) - 1; i >= 1; i-- {
			if p[i] == x.Block() {
				for j, pb := range x.Block().Preds {
					if pb == p[i-1] {
						return valueConds(x.Edges[j], p[:i], pol, depth+1)
					}
				}
			}
		}
	case *ssa.UnOp:
		if x.Op == token.NOT {
			return valueConds(x.X, p, !pol, depth+1)
		}
		if x.Op == token.MUL {
			if r := resolveRetVal(x, p); r != ssa.Value(x) {
				return valueConds(r, p, pol, depth+1)
			}
		}
	}
	return []Cond{{V: v, True: pol}}, true
}

// ReachConds: for every feasible path from fn's entry to block b, what holds
// on it — the branch conditions taken, with a branch on a computed boolean
// (`ok := a && b; if !ok {…}`, a phi) resolved into the conditions of the edge
// the path took. Paths on which such a value cannot have the polarity the
// branch needs are dropped. "Test T guards b" is then "every path has T",
// however the author combined the tests.
func ReachConds(fn *ssa.Function, b *ssa.BasicBlock) (out [][]Cond, ok bool) {
	paths, pok := PathsTo(fn, b, 4096)
	if !pok {
		return nil, false
	}
	for _, p := range paths {
		if !Feasible(p) {
			continue
		}
		var cs []Cond
		feasible := true
		for _, c := range p.Conds() {
			upto := p
			if c.Idx+1 <= len(p) {
				upto = p[:c.Idx+1]
			}
			ex, feas := valueConds(c.V, upto, c.True, 0)
			if !feas {
				feasible = false
				break
			}
			for _, e := range ex {
				cs = append(cs, NormCond(e))
			}
		}
		if feasible {
			out = append(out, cs)
		}
	}
	return out, true
}

// ResultPaths: the feasible paths of fn on which bool result #idx may equal
// want, each with its conditions.
func ResultPaths(fn *ssa.Function, idx int, want bool) (out []CondPath, ok bool) {
	ok = true
	for _, rb := range ReturnBlocks(fn) {
		ret := LastInstr(rb).(*ssa.Return)
		rvs := ReturnValues(ret)
		if idx >= len(rvs) {
			return nil, false
		}
		paths, pok := PathsTo(fn, rb, 4096)
		if !pok {
			return nil, false
		}
		for _, p := range paths {
			if !Feasible(p) {
				continue
			}
			extra, feas := valueConds(resolveRetVal(rvs[idx], p), p, want, 0)
			if !feas {
				continue
			}
			cp := CondPath{Path: p}
			for _, c := range p.Conds() {
				cp.Conds = append(cp.Conds, NormCond(c))
			}
			for _, c := range extra {
				cp.Conds = append(cp.Conds, NormCond(c))
				cp.Extra = append(cp.Extra, NormCond(c))
			}
			// a value forced both ways on one path: infeasible
			seen := map[ssa.Value]bool{}
			contra := false
			for _, c := range cp.Conds {
				if c.At != nil && len(Latches(c.At)) > 0 {
					continue // the header test of a loop passed twice
				}
				if v, has := seen[c.V]; has && v != c.True {
					contra = true
				}
				seen[c.V] = c.True
			}
			if contra {
				continue
			}
			out = append(out, cp)
		}
	}
	return out, ok
}

// Has reports whether the path carries a condition satisfying f.
func (cp CondPath) Has(f func(Cond) bool) bool {
	for _, c := range cp.Conds {
		if f(c) {
			return true
		}
	}
	return false
}

// AllHave: every path carries a condition satisfying f (false for no paths).
func AllHave(paths []CondPath, f func(Cond) bool) bool {
	if len(paths) == 0 {
		return false
	}
	for _, p := range paths {
		if !p.Has(f) {
			return false
		}
	}
	return true
}

// ResultPathsDeep: like ResultPaths, but where a path tests the verdict of a
// private helper with one bool result (`if !stat.markSeen(id, msg) { return
// false }` — pure or not), the helper's own paths to that verdict are spliced
// in: one CondPath per combination, whose Conds carry the helper's conditions
// (with their call chain, see Cond.Path) and whose Sub lists the helper paths.
func ResultPathsDeep(fn *ssa.Function, idx int, want bool) ([]CondPath, bool) {
	return resultPathsDeep(fn, idx, want, nil, 0)
}

func resultPathsDeep(fn *ssa.Function, idx int, want bool, chain []*ssa.Call, depth int) ([]CondPath, bool) {
	base, ok := ResultPaths(fn, idx, want)
	if !ok {
		return nil, false
	}
	for i := range base {
		for j := range base[i].Conds {
			base[i].Conds[j].Chain = chain
		}
	}
	if depth >= 2 {
		return base, true
	}
	var out []CondPath
	for _, cp := range base {
		cur := []CondPath{cp}
		for _, cd := range cp.Conds {
			call, isCall := cd.V.(*ssa.Call)
			if !isCall {
				continue
			}
			h := StaticCallee(&call.Call)
			if !PrivateHelper(h) || h.Signature.Results().Len() != 1 || h == fn {
				continue
			}
			sub, okh := resultPathsDeep(h, 0, cd.True, append(append([]*ssa.Call(nil), chain...), call), depth+1)
			if !okh || len(sub) == 0 || len(sub)*len(cur) > 512 {
				continue
			}
			var next []CondPath
			for _, c0 := range cur {
				for _, sp := range sub {
					n := c0
					n.Conds = append(append([]Cond(nil), c0.Conds...), sp.Conds...)
					n.Sub = append(append([]CondPath(nil), c0.Sub...), sp)
					next = append(next, n)
				}
			}
			cur = next
		}
		out = append(out, cur...)
	}
	return out, true
}
