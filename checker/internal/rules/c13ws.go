package rules

import (
	"fmt"
	"regexp"
	"strings"

	"golang.org/x/tools/go/ssa"

	"mocverif/internal/an"
	"mocverif/internal/core"
)

func init() {
	reg(&core.RuleInfo{Name: "WS-DEADLINE", Props: []string{"C13"}, Engine: "PROV", Floor: 2, Confirmed: 2,
		Doc: "every un-timed WebSocket write/ping is controlled by SendTimeout only", Run: runWSDeadline})
}

func runWSDeadline(c *core.Ctx) {
	P := c.P
	n := 0
	timedSomewhere := map[string]bool{}
	for _, fn := range P.ModFuncs {
		if P.PkgOf(fn) != core.ModulePath {
			continue
		}
		for _, ci := range calls(fn) {
			call, ok := ci.(*ssa.Call)
			if !ok {
				continue
			}
			name := an.CalleeName(&call.Call)
			if name != "(*github.com/coder/websocket.Conn).Write" && name != "(*github.com/coder/websocket.Conn).Ping" {
				continue
			}
			n++
			c.CountSites(1)
			short := name[strings.LastIndex(name, ".")+1:]
			construct := "ctx-arg of (*websocket.Conn)." + short
			ctxArg := call.Call.Args[1]
			// a free function that is handed the timeout: its parameter is what every caller passes
			subst := uniformArgSubst(c, fn)
			var problems []string
			nTimed, nUntimed := 0, 0
			paths, _ := an.PathsTo(fn, call.Block(), 1024)
			c.CountPaths(len(paths))
			for _, p := range paths {
				if !an.Feasible(p) {
					continue
				}
				for _, dc := range deadlineCases(fn, ctxArg, p, call.Block(), nil, 0, subst) {
					if dc.timed {
						nTimed++
						continue
					}
					nUntimed++
					onlySend := false
					for _, cp := range dc.conds {
						if strings.Contains(cp, ".SendTimeout") {
							onlySend = true
						}
						for _, other := range []string{"PingDuration", "RecvRateLimit", "MaxMessageLength", "Logger"} {
							if strings.Contains(cp, "."+other) {
								problems = append(problems, fmt.Sprintf("the un-timed path is selected by %s, not by SendTimeout", cp))
							}
						}
					}
					if !onlySend {
						problems = append(problems, "an un-timed path is taken without any test of SendTimeout")
					}
				}
			}
			uniq := map[string]bool{}
			var ps []string
			for _, p := range problems {
				if !uniq[p] {
					uniq[p] = true
					ps = append(ps, p)
				}
			}
			timedSomewhere[fname(c, fn)+short] = timedSomewhere[fname(c, fn)+short] || nTimed > 0
			c.Check(len(ps) == 0, nil, fname(c, fn), construct, P.Pos(call.Pos()),
				fmt.Sprintf("%d timed path(s) from WithTimeout(_, opt.SendTimeout); %d un-timed path(s) controlled by SendTimeout only", nTimed, nUntimed),
				"with some option combination (e.g. PingDuration: 0, SendTimeout: 1s) a write to a peer that stopped reading blocks without deadline: "+strings.Join(ps, "; "))
		}
	}
	if n == 0 {
		c.NoAnchor(nil, "calls of (*websocket.Conn).Write/Ping")
	}
	for k, ok := range timedSomewhere {
		if !ok {
			c.Bad(nil, k, "deadline-exists", "-", "no path gives this WebSocket operation a SendTimeout deadline at all")
		}
	}
}

// uniformArgSubst: for a function all of whose module call sites pass the same
// expression for a parameter (sendMsg(ctx, conn, msg, relay.opt.SendTimeout)),
// a rewriting of access paths that names the parameter by that expression.
func uniformArgSubst(c *core.Ctx, fn *ssa.Function) func(string) string {
	bind := map[string]string{}
	root := fn
	for root.Parent() != nil {
		root = root.Parent()
	}
	callers := callerIndex(c)[root]
	if len(callers) > 0 && an.PrivateHelper(root) {
		for i, p := range root.Params {
			arg, same := "", true
			for _, caller := range callers {
				for _, ci := range calls(caller) {
					if an.StaticCallee(ci.Common()) != root || len(ci.Common().Args) != len(root.Params) {
						continue
					}
					ap := an.PathOf(ci.Common().Args[i])
					if arg == "" {
						arg = ap
					} else if arg != ap {
						same = false
					}
				}
			}
			if same && arg != "" && !strings.HasPrefix(arg, "p:") {
				bind["p:"+p.Name()] = arg
			}
		}
	}
	return func(s string) string {
		for k, v := range bind {
			s = regexp.MustCompile(regexp.QuoteMeta(k)+`\b`).ReplaceAllString(s, strings.ReplaceAll(v, "$", "$$"))
		}
		return s
	}
}

// deadlineCase: one way the context handed to a WebSocket operation comes
// about: with a SendTimeout deadline or without, under which conditions
// (access paths of the branch conditions, in the terms of the function that
// performs the operation).
type deadlineCase struct {
	timed bool
	conds []string
}

// deadlineCases resolves the context value v along path p of fn: phis are
// selected by the path; a context.WithTimeout(_, …SendTimeout) result is
// timed; a context produced by a module helper (`ctx, cancel :=
// relay.withSendTimeout(ctx)`) is whatever the helper's return paths make it,
// with the helper's own branch conditions added.
func deadlineCases(fn *ssa.Function, v ssa.Value, p an.Path, at *ssa.BasicBlock, in *ssa.CallCommon, depth int, subst func(string) string) []deadlineCase {
	pathOf := func(x ssa.Value) string {
		if in != nil {
			return an.PathOfIn(x, in)
		}
		return subst(an.PathOf(x))
	}
	// the conditions that select this way of getting the context: those that control
	// the place where the choice is made — the operation's own block, or, when the context
	// was chosen into a variable first, the block the chosen phi edge comes from. (Branches
	// taken earlier for unrelated reasons do not select anything.)
	sel := at
	var selEdgeTo *ssa.BasicBlock
	for i := 0; i < 8; i++ {
		ph, ok := v.(*ssa.Phi)
		if !ok {
			break
		}
		pred := p.Pred(ph.Block())
		next := ssa.Value(nil)
		for j, pb := range ph.Block().Preds {
			if pb == pred {
				next = ph.Edges[j]
			}
		}
		if next == nil {
			break
		}
		v = next
		sel, selEdgeTo = pred, ph.Block()
	}
	var conds []string
	onPath := map[*ssa.BasicBlock]bool{}
	for _, b := range p {
		onPath[b] = true
	}
	if sel != nil {
		for _, g := range an.Guards(fn, sel) {
			conds = append(conds, pathOf(g.V))
		}
		// … and the branch at the end of that block, if the choice is made by its edge
		if iff, isIf := an.LastInstr(sel).(*ssa.If); isIf && selEdgeTo != nil && len(sel.Succs) == 2 && sel.Succs[0] != sel.Succs[1] {
			conds = append(conds, pathOf(iff.Cond))
		}
	}
	if vp := pathOf(v); strings.Contains(vp, "call:context.WithTimeout(") && strings.Contains(vp, ".SendTimeout") {
		return []deadlineCase{{timed: true, conds: conds}}
	}
	if ex, ok := v.(*ssa.Extract); ok && ex.Index == 0 && depth < 2 && in == nil {
		if hc, ok := ex.Tuple.(*ssa.Call); ok {
			if g := an.StaticCallee(&hc.Call); an.InModuleFn(g) {
				var out []deadlineCase
				for _, rb := range an.ReturnBlocks(g) {
					rv := an.ReturnValues(an.LastInstr(rb).(*ssa.Return))
					if len(rv) == 0 {
						continue
					}
					qs, _ := an.PathsTo(g, rb, 256)
					for _, q := range qs {
						if !an.Feasible(q) {
							continue
						}
						for _, dc := range deadlineCases(g, rv[0], q, rb, &hc.Call, depth+1, subst) {
							dc.conds = append(append([]string(nil), conds...), dc.conds...)
							out = append(out, dc)
						}
					}
				}
				if len(out) > 0 {
					return out
				}
			}
		}
	}
	return []deadlineCase{{timed: false, conds: conds}}
}
