// mocverif decides structural necessary conditions of mocrelay's properties
// from /repo's source (typed syntax, SSA, call graph). It never runs
// repository code.
package main

import (
	"flag"
	"fmt"
	"golang.org/x/tools/go/ssa"
	"mocverif/internal/an"
	"os"
	"path/filepath"
	"sort"
	"strconv"
	"strings"
	"time"

	"mocverif/internal/core"
	"mocverif/internal/rules"
)

func main() {
	prop := flag.String("property", "", "property id (C01..C20) or 'all'")
	tier := flag.String("tier", "quick", "quick|thorough")
	repo := flag.String("repo", "/repo", "repository to analyse")
	verif := flag.String("verif", "/verif", "verif directory (evidence, known findings, mutants)")
	evdir := flag.String("evidence", "", "evidence directory (default <verif>/evidence)")
	list := flag.Bool("list", false, "list rules and exit")
	dump := flag.Bool("dump", false, "print every obligation")
	noSelf := flag.Bool("no-selftest", false, "thorough tier: skip the seeded-mutant self-test")
	ssaDump := flag.String("ssa", "", "debug: print the SSA of module functions whose name contains this string")
	dumpNames := flag.String("dump-names", "", "maintenance: write the declaration baseline of the loaded tree (names, types, signatures) to this file")
	pathsDump := flag.String("paths", "", "debug: print the access path of every value of module functions whose name contains this string")
	flag.Parse()
	if *dumpNames != "" {
		p, err := core.Load(*repo)
		if err != nil {
			fatal("%v", err)
		}
		b, err := p.DumpNames()
		if err != nil {
			fatal("%v", err)
		}
		if err := os.WriteFile(*dumpNames, append(b, '\n'), 0o644); err != nil {
			fatal("%v", err)
		}
		fmt.Printf("wrote %s\n", *dumpNames)
		return
	}
	if *pathsDump != "" {
		p, err := core.Load(*repo)
		if err != nil {
			fatal("%v", err)
		}
		for _, fn := range p.ModFuncs {
			if !strings.Contains(fn.String(), *pathsDump) {
				continue
			}
			fmt.Println("##", fn.String())
			for _, b := range fn.Blocks {
				for _, in := range b.Instrs {
					if v, ok := in.(ssa.Value); ok {
						fmt.Printf("  b%d %-6s %s\n", b.Index, v.Name(), an.PathOf(v))
					}
				}
			}
		}
		return
	}

	if *ssaDump != "" {
		p, err := core.Load(*repo)
		if err != nil {
			fatal("%v", err)
		}
		for _, fn := range p.ModFuncs {
			if strings.Contains(fn.String(), *ssaDump) {
				fn.WriteTo(os.Stdout)
			}
		}
		if *ssaDump == "init" {
			p.Root.Func("init").WriteTo(os.Stdout)
		}
		return
	}

	if *list {
		for _, r := range rules.Sorted() {
			fmt.Printf("%-18s %-8s %v floor=%d confirmed=%d\n", r.Name, r.Engine, r.Props, r.Floor, r.Confirmed)
		}
		return
	}
	if t := os.Getenv("VERIF_TIER"); t != "" && !flagSet("tier") {
		*tier = t
	}
	if *tier != "quick" && *tier != "thorough" {
		fatal("bad tier %q", *tier)
	}
	seed := 0
	if s := os.Getenv("VERIF_SEED"); s != "" {
		seed, _ = strconv.Atoi(s)
	}
	if *evdir == "" {
		*evdir = filepath.Join(*verif, "evidence")
	}
	var props []string
	if *prop == "all" {
		for _, pi := range rules.Props {
			props = append(props, pi.ID)
		}
	} else if rules.PropByID(*prop) != nil {
		props = []string{*prop}
	} else {
		fatal("unknown property %q", *prop)
	}

	start := time.Now()
	abs, err := filepath.Abs(*repo)
	if err != nil {
		fatal("%v", err)
	}
	kf, err := core.LoadFindings(filepath.Join(*verif, "known_findings.json"))
	if err != nil {
		fatal("known_findings.json: %v", err)
	}
	p, err := core.Load(abs)
	if err != nil {
		// a tree that does not load is a failing result for every property asked
		for _, id := range props {
			fmt.Printf("  LOAD-FAILURE: %v\n", err)
			writeLoadFailure(*evdir, id, *tier, seed, err, time.Since(start))
			fmt.Printf("VIOLATION property=%s replay=%s\n", id, filepath.Join(*evdir, id+".violations.json"))
		}
		os.Exit(1)
	}
	thorough := *tier == "thorough"

	// select rules: those that can attribute to one of the asked properties
	want := map[string]bool{}
	for _, id := range props {
		want[id] = true
	}
	var sel []*core.RuleInfo
	for _, r := range rules.Sorted() {
		for _, pr := range r.Props {
			if want[pr] {
				sel = append(sel, r)
				break
			}
		}
	}
	obs, stats := core.RunRules(p, sel, thorough)
	loadAndRules := time.Since(start)

	if *dump {
		sort.SliceStable(obs, func(i, j int) bool { return obs[i].Key < obs[j].Key })
		for _, o := range obs {
			fmt.Printf("%-10s %-28s %s %v\n      %s\n", o.Status, o.Pos, o.Key, o.Props, o.Detail)
		}
	}

	exit := 0
	for _, id := range props {
		pi := rules.PropByID(id)
		extra := map[string]any{
			"packages_loaded":  len(p.Initial),
			"module_functions": len(p.ModFuncs),
			"call_graph":       map[bool]string{false: "CHA", true: "VTA over CHA"}[thorough],
			"repo":             abs,
			"not_decided":      pi.NotDecided,
			"seeded_mutants":   nil,
		}
		if thorough && !*noSelf {
			st := selfTest(*verif, abs, id)
			extra["seeded_mutants"] = st
		}
		res, err := core.WriteEvidence(*evdir, core.PropertyInfo{ID: pi.ID, Explanation: pi.Explanation, Assumptions: pi.Assumptions}, *tier, seed, obs, stats, kf, time.Since(start), extra)
		if err != nil {
			fatal("evidence: %v", err)
		}
		if res.Total == 0 {
			fmt.Printf("  UNDECIDED: no obligations were produced for %s\n", id)
			fmt.Printf("VIOLATION property=%s replay=%s\n", id, filepath.Join(*evdir, id+".json"))
			exit = 1
			continue
		}
		if core.PrintResult(res, *evdir, kf) != 0 {
			exit = 1
		}
	}
	_ = loadAndRules
	// checker self-consistency: an attribution outside a rule's registration means that
	// property's own check would not run the rule — a bug of the checker, reported loudly
	if len(core.UndeclaredAttr) > 0 {
		var ks []string
		for k := range core.UndeclaredAttr {
			ks = append(ks, k)
		}
		sort.Strings(ks)
		fmt.Fprintf(os.Stderr, "mocverif: internal error: obligations attributed to properties their rule is not registered for: %v\n", ks)
		os.Exit(2)
	}
	os.Exit(exit)
}

func flagSet(name string) bool {
	found := false
	flag.Visit(func(f *flag.Flag) {
		if f.Name == name {
			found = true
		}
	})
	return found
}

func fatal(format string, a ...any) {
	fmt.Fprintf(os.Stderr, "mocverif: "+format+"\n", a...)
	os.Exit(2)
}

func writeLoadFailure(evdir, id, tier string, seed int, err error, wall time.Duration) {
	os.MkdirAll(evdir, 0o755)
	msg := strings.ReplaceAll(err.Error(), "\"", "'")
	ev := fmt.Sprintf(`{"property_id":%q,"tier":%q,"seed":%d,"level":"other","coverage":{"explanation":"the repository did not load/type-check; nothing was analysed","obligations":1,"discharged":0,"evaluations":1,"distinct_nontrivial":0,"samples":[%q]},"wall_s":%f,"violations":1}`+"\n", id, tier, seed, msg, wall.Seconds())
	os.WriteFile(filepath.Join(evdir, id+".json"), []byte(ev), 0o644)
	os.WriteFile(filepath.Join(evdir, id+".violations.json"), []byte(fmt.Sprintf(`{"property_id":%q,"violations":[{"rule":"E-LOAD","detail":%q}]}`+"\n", id, msg)), 0o644)
}
