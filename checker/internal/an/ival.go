package an

import (
	"fmt"
	"go/token"
	"go/types"
	"math"
	"sort"
	"strings"

	"golang.org/x/tools/go/ssa"
)

// E-INT: the meaning of pure integer predicates as finite unions of closed
// integer intervals over one subject, in one frame: either the constant
// frame (endpoints are integers) or a symbol frame (endpoint k means S+k for
// one opaque symbol S). -Inf/+Inf are math.MinInt64/MaxInt64.
//
// This is an abstract domain: no repository code is evaluated.

const (
	NegInf = math.MinInt64
	PosInf = math.MaxInt64
)

type Iv struct{ Lo, Hi int64 }

// Set is a normalised (sorted, disjoint, non-adjacent) union of intervals.
type Set []Iv

func Full() Set  { return Set{{NegInf, PosInf}} }
func Empty() Set { return nil }

func Range(lo, hi int64) Set {
	if lo > hi {
		return nil
	}
	return Set{{lo, hi}}
}

func (s Set) norm() Set {
	if len(s) == 0 {
		return nil
	}
	t := append(Set(nil), s...)
	sort.Slice(t, func(i, j int) bool { return t[i].Lo < t[j].Lo })
	out := Set{t[0]}
	for _, iv := range t[1:] {
		last := &out[len(out)-1]
		if last.Hi == PosInf || iv.Lo <= last.Hi+1 {
			if iv.Hi > last.Hi {
				last.Hi = iv.Hi
			}
		} else {
			out = append(out, iv)
		}
	}
	return out
}

func (s Set) Union(t Set) Set { return append(append(Set(nil), s...), t...).norm() }

func (s Set) Intersect(t Set) Set {
	var out Set
	for _, a := range s {
		for _, b := range t {
			lo, hi := a.Lo, a.Hi
			if b.Lo > lo {
				lo = b.Lo
			}
			if b.Hi < hi {
				hi = b.Hi
			}
			if lo <= hi {
				out = append(out, Iv{lo, hi})
			}
		}
	}
	return out.norm()
}

func (s Set) Complement() Set {
	s = s.norm()
	var out Set
	cur := int64(NegInf) // next uncovered lower bound
	for _, iv := range s {
		if iv.Lo > cur {
			out = append(out, Iv{cur, iv.Lo - 1})
		}
		if iv.Hi == PosInf {
			return out
		}
		cur = iv.Hi + 1
	}
	return append(out, Iv{cur, PosInf})
}

func (s Set) Equal(t Set) bool {
	s, t = s.norm(), t.norm()
	if len(s) != len(t) {
		return false
	}
	for i := range s {
		if s[i] != t[i] {
			return false
		}
	}
	return true
}

func (s Set) IsEmpty() bool { return len(s.norm()) == 0 }

func (s Set) Subset(t Set) bool { return s.Intersect(t).Equal(s) }

func (s Set) Contains(x int64) bool {
	for _, iv := range s {
		if iv.Lo <= x && x <= iv.Hi {
			return true
		}
	}
	return false
}

// String renders with an optional symbol name for the frame.
func (s Set) String() string { return s.Format("") }

func (s Set) Format(sym string) string {
	s = s.norm()
	if len(s) == 0 {
		return "∅"
	}
	b := func(x int64) string {
		switch x {
		case NegInf:
			return "-∞"
		case PosInf:
			return "+∞"
		}
		if sym == "" {
			return fmt.Sprint(x)
		}
		if x == 0 {
			return sym
		}
		return fmt.Sprintf("%s%+d", sym, x)
	}
	var parts []string
	for _, iv := range s {
		l, r := "[", "]"
		if iv.Lo == NegInf {
			l = "("
		}
		if iv.Hi == PosInf {
			r = ")"
		}
		parts = append(parts, l+b(iv.Lo)+","+b(iv.Hi)+r)
	}
	return strings.Join(parts, "∪")
}

// atomSet: the set of subject values satisfying "subject op k".
func atomSet(op token.Token, k int64) Set {
	switch op {
	case token.LSS:
		if k == NegInf {
			return nil
		}
		return Range(NegInf, k-1)
	case token.LEQ:
		return Range(NegInf, k)
	case token.GTR:
		if k == PosInf {
			return nil
		}
		return Range(k+1, PosInf)
	case token.GEQ:
		return Range(k, PosInf)
	case token.EQL:
		return Range(k, k)
	case token.NEQ:
		return Range(k, k).Complement()
	}
	return Full()
}

func flip(op token.Token) token.Token {
	switch op {
	case token.LSS:
		return token.GTR
	case token.LEQ:
		return token.GEQ
	case token.GTR:
		return token.LSS
	case token.GEQ:
		return token.LEQ
	}
	return op
}

// Frame tells E-INT which values are the subject and which are terms.
type Frame struct {
	// IsSubject reports whether v denotes the subject.
	IsSubject func(v ssa.Value) bool
	// Term: if v is a term of the frame (a constant in the constant frame,
	// the symbol (+k) in a symbol frame), return its offset.
	Term func(v ssa.Value) (int64, bool)
	// Assume fixes the truth value of some bool SSA values (BoolMeaning).
	Assume map[ssa.Value]bool
	// Domain restricts the subject (nil = all integers); lengths are >= 0.
	Domain Set
	// SubjectPath / SymPath: the subject (and the single symbol) by access
	// path; used when IsSubject / Term are nil.
	SubjectPath, SymPath string
	// In: the frame is evaluating the body of this call's callee; access
	// paths are written in the caller's terms (PathOfIn).
	In *ssa.CallCommon
	// outer: the call sites above In (predicate helpers nest: validID → validHexOfLen)
	outer []*ssa.Call
	// AssumePath fixes the truth of conditions named by access path — e.g.
	// "(recv.f.Since != const:nil)": true — wherever they are tested (in the
	// function itself or in a predicate helper it delegates to). Paths that
	// contradict an assumption are infeasible.
	AssumePath map[string]bool
	// AssumeEntry: values of loop-carried variables at the START of the path under evaluation (a
	// path that begins inside a loop body knows the loop condition held when the body was entered);
	// consulted only for a phi whose incoming edge lies before the path's first block
	AssumeEntry map[ssa.Value]bool
}

// Inside returns f for evaluating the body of the innermost callee of chain
// (call sites from the frame's own function downwards): paths are read in the
// frame's terms.
func (f Frame) Inside(chain []*ssa.Call) Frame {
	if len(chain) == 0 {
		return f
	}
	f.In = &chain[len(chain)-1].Call
	f.outer = append([]*ssa.Call(nil), chain...)
	return f
}

// OccReachSet: the subject values under which the instruction at o (possibly inside
// private helpers of root) is reached: the call sites must be reached in their
// functions and the instruction in its own.
func (f Frame) OccReachSet(root *ssa.Function, o Occ) (Set, int, bool) {
	s, n, ok := f.ReachSet(root, o.Block(), nil, nil)
	if !ok {
		return s, n, false
	}
	for i := range o.Chain {
		callee := StaticCallee(&o.Chain[i].Call)
		if callee == nil {
			return s, n, false
		}
		var at *ssa.BasicBlock
		if i+1 < len(o.Chain) {
			at = o.Chain[i+1].Block()
		} else {
			at = o.In.Block()
		}
		si, ni, oki := f.Inside(o.Chain[:i+1]).ReachSet(callee, at, nil, nil)
		n += ni
		if !oki {
			return s, n, false
		}
		s = s.Intersect(si)
	}
	return s, n, true
}

// AssumePresent returns f restricted to executions in which the pointer /
// slice / map with access path ap is non-nil.
func (f Frame) AssumePresent(ap string) Frame {
	m := map[string]bool{}
	for k, v := range f.AssumePath {
		m[k] = v
	}
	m["("+ap+" != const:nil)"] = true
	m["("+ap+" == const:nil)"] = false
	m["(const:nil != "+ap+")"] = true
	m["(const:nil == "+ap+")"] = false
	f.AssumePath = m
	return f
}

func (f Frame) pathOf(v ssa.Value) string {
	if f.In != nil {
		if len(f.outer) > 0 {
			return PathOfChain(v, f.outer)
		}
		return PathOfIn(v, f.In)
	}
	return PathOf(v)
}

func (f Frame) isSubject(v ssa.Value) bool {
	if f.IsSubject != nil {
		return f.IsSubject(v)
	}
	return f.SubjectPath != "" && f.pathOf(v) == f.SubjectPath
}

func (f Frame) term(v ssa.Value) (int64, bool) {
	if f.Term != nil {
		return f.Term(v)
	}
	if f.SymPath != "" {
		if f.pathOf(v) == f.SymPath {
			return 0, true
		}
		return 0, false
	}
	// inside a predicate helper a bound parameter stands for the caller's argument
	if par, ok := v.(*ssa.Parameter); ok && f.In != nil {
		if g := StaticCallee(f.In); g != nil {
			for i, gp := range g.Params {
				if gp == par && i < len(f.In.Args) {
					a := f.In.Args[i]
					// … which may itself be a parameter of the helper above
					for k := len(f.outer) - 2; k >= 0; k-- {
						ap, isPar := a.(*ssa.Parameter)
						if !isPar {
							break
						}
						og := StaticCallee(&f.outer[k].Call)
						if og == nil {
							break
						}
						for j, op := range og.Params {
							if op == ap && j < len(f.outer[k].Call.Args) {
								a = f.outer[k].Call.Args[j]
							}
						}
					}
					return ConstInt(a)
				}
			}
		}
	}
	// a field of a by-value parameter that the caller binds to a package-level struct of
	// constants (`kindsReplaceable.contains(kind)` reading r.from / r.to inside contains)
	if k, ok := f.globalFieldTerm(v); ok {
		return k, true
	}
	return ConstInt(v)
}

// GlobalFieldConstHook: the integer constant that field #i of the package-level struct variable g
// holds for the whole run — set by the package initialiser and assigned nowhere else (installed
// by the loader, which sees the whole module).
var GlobalFieldConstHook = func(g *ssa.Global, i int) (int64, bool) { return 0, false }

func (f Frame) globalFieldTerm(v ssa.Value) (int64, bool) {
	var base ssa.Value
	field := -1
	switch x := v.(type) {
	case *ssa.Field:
		base, field = x.X, x.Field
	case *ssa.UnOp:
		if fa, ok := x.X.(*ssa.FieldAddr); ok && x.Op == token.MUL {
			base, field = fa.X, fa.Field
			// the spilled copy of a by-value parameter
			if a, isAlloc := base.(*ssa.Alloc); isAlloc {
				if st := StoresTo(a); len(st) == 1 {
					base = st[0].Val
				}
			}
		}
	}
	if field < 0 {
		return 0, false
	}
	// directly a global, or a parameter bound (through the helper chain) to a load of one
	for hop := 0; hop < 4; hop++ {
		switch b := base.(type) {
		case *ssa.Global:
			return GlobalFieldConstHook(b, field)
		case *ssa.UnOp:
			if b.Op != token.MUL {
				return 0, false
			}
			base = b.X
		case *ssa.Parameter:
			if f.In == nil {
				return 0, false
			}
			calls := append([]*ssa.Call(nil), f.outer...)
			bound := false
			for k := len(calls) - 1; k >= 0 && !bound; k-- {
				g := StaticCallee(&calls[k].Call)
				if g == nil {
					continue
				}
				for i, gp := range g.Params {
					if gp == b && i < len(calls[k].Call.Args) {
						base = calls[k].Call.Args[i]
						bound = true
					}
				}
			}
			if !bound {
				if g := StaticCallee(f.In); g != nil {
					for i, gp := range g.Params {
						if gp == b && i < len(f.In.Args) {
							base = f.In.Args[i]
							bound = true
						}
					}
				}
			}
			if !bound {
				return 0, false
			}
		default:
			return 0, false
		}
	}
	return 0, false
}

func (f Frame) full() Set {
	if f.Domain != nil {
		return f.Domain
	}
	return Full()
}

// NoSubject is a frame without subject: BoolMeaning then only folds
// constants, phis (by path), negations and assumptions.
func NoSubject() Frame {
	return Frame{}
}

// ConstFrame: subject by access path, terms are integer constants.
func ConstFrame(subjectPath string) Frame {
	var dom Set
	if strings.HasPrefix(subjectPath, "len(") {
		dom = Range(0, PosInf)
	}
	return Frame{Domain: dom, SubjectPath: subjectPath}
}

// SymFrame: subject by path, the single symbol by path (offset 0).
func SymFrame(subjectPath, symPath string) Frame {
	return Frame{SubjectPath: subjectPath, SymPath: symPath}
}

// Atom interprets cond (with polarity) as a constraint on the subject.
// ok=false: the condition does not speak about the subject in this frame
// (an opaque side condition).
func (f Frame) Atom(cond ssa.Value, pol bool) (Set, bool) {
	for {
		u, ok := cond.(*ssa.UnOp)
		if ok && u.Op == token.NOT {
			cond = u.X
			pol = !pol
			continue
		}
		break
	}
	b, ok := cond.(*ssa.BinOp)
	if !ok {
		return nil, false
	}
	switch b.Op {
	case token.LSS, token.LEQ, token.GTR, token.GEQ, token.EQL, token.NEQ:
	default:
		return nil, false
	}
	return f.atomOps(b.Op, b.X, b.Y, pol)
}

func (f Frame) atomOps(op token.Token, x, y ssa.Value, pol bool) (Set, bool) {
	var s Set
	if f.isSubject(x) {
		k, ok := f.term(y)
		if !ok {
			return nil, false
		}
		s = atomSet(op, k)
	} else if f.isSubject(y) {
		k, ok := f.term(x)
		if !ok {
			return nil, false
		}
		s = atomSet(flip(op), k)
	} else {
		return nil, false
	}
	if !pol {
		s = s.Complement()
	}
	return s, true
}

// phiOnPath: a variable that clauses of a switch set differently and a shared tail then
// reads (`n = len(a.xs)` in one case, `n = len(b.xs)` in another; `if n > max` after the
// switch) is, on a given path, the value its clause gave it.
func phiOnPath(v ssa.Value, p Path) ssa.Value {
	for i := 0; i < 8; i++ {
		ph, ok := v.(*ssa.Phi)
		if !ok {
			return v
		}
		pred := p.Pred(ph.Block())
		next := ssa.Value(nil)
		for j, pb := range ph.Block().Preds {
			if pb == pred && ph.Edges[j] != ssa.Value(ph) {
				next = ph.Edges[j]
			}
		}
		if next == nil {
			return v
		}
		v = next
	}
	return v
}

// PathMeaning intersects the constraints of the path's branch edges. Branch
// conditions are folded along the path (phis selected by the predecessor on
// the path, constants, negations, atoms of the frame); a condition that
// folds to an impossible outcome makes the path infeasible (∅). opaque
// collects the side conditions the frame could not interpret.
func (f Frame) PathMeaning(p Path, opaque *[]Cond) Set {
	s := f.full()
	for _, c := range p.Conds() {
		t, fs, known := f.evalBool(c.V, p.upTo(c), 0)
		if !known {
			if opaque != nil {
				*opaque = append(*opaque, c)
			}
			continue
		}
		if c.True {
			s = s.Intersect(t)
		} else {
			s = s.Intersect(fs)
		}
	}
	return s
}

// PathKeep selects the paths a meaning is computed over (nil = all).
type PathKeep func(Path) bool

// Via keeps paths that pass through one of the given blocks.
func Via(blocks ...*ssa.BasicBlock) PathKeep {
	return func(p Path) bool {
		for _, b := range blocks {
			if p.Contains(b) {
				return true
			}
		}
		return false
	}
}

// DefinesPath keeps paths on which some value with access path ap is computed.
func DefinesPath(fn *ssa.Function, ap string) PathKeep {
	var blocks []*ssa.BasicBlock
	for _, b := range fn.Blocks {
		for _, in := range b.Instrs {
			if v, ok := in.(ssa.Value); ok && PathOf(v) == ap {
				blocks = append(blocks, b)
				break
			}
		}
	}
	return Via(blocks...)
}

// Feasible rejects paths that take the same pure condition (equal access
// path, no call involved) with both polarities: go/ssa performs no CSE, so
// "if p != nil {…}; if p != nil && q != nil {…}" yields two tests of one fact.
func Feasible(p Path) bool {
	seen := map[string]bool{}
	// one SSA value tested twice (`over := n > max; if over {…}; …; if over {…}`) is one fact, whatever
	// it was computed from — unless it is defined inside a loop the path goes around
	same := map[ssa.Value]bool{}
	type eqKey struct {
		x ssa.Value
		y ssa.Value
		k string // the constant operand (every occurrence of a constant is its own ssa.Const)
	}
	eqFact := map[eqKey]bool{} // x == y (same SSA operands), whichever of == / != spelled the test
	for _, c := range p.Conds() {
		nc := NormCond(c)
		if in, isIn := nc.V.(ssa.Instruction); isIn && in.Block() != nil && !InLoop(in.Block()) {
			if v, ok := same[nc.V]; ok && v != nc.True {
				return false
			}
			same[nc.V] = nc.True
		}
		if b, isB := nc.V.(*ssa.BinOp); isB && (b.Op == token.EQL || b.Op == token.NEQ) {
			// both tests sit in one iteration (or outside loops): the operands are the same values
			if _, xk := b.X.(*ssa.Const); !xk {
				if xi, isI := b.X.(ssa.Instruction); !isI || xi.Block() == nil || !loopVariantBetween(p, c) {
					eq := (b.Op == token.EQL) == nc.True
					k := eqKey{x: b.X, y: b.Y}
					if kc, isK := b.Y.(*ssa.Const); isK {
						k.y = nil
						if kc.Value == nil {
							k.k = "nil"
						} else {
							k.k = kc.Value.ExactString()
						}
					}
					if v, ok := eqFact[k]; ok && v != eq {
						return false
					}
					eqFact[k] = eq
				}
			}
		}
	}
	for _, c := range p.Conds() {
		// a decision carried in a local variable (`reason := ""; switch {case a: reason = "x"}; if reason != "" {…}`):
		// the phi's edge on this path is a constant, so the test is decided
		if holds, known := constPhiTest(c, p); known {
			if !holds {
				return false
			}
			continue
		}
		k := PathOf(c.V)
		if strings.Contains(k, "call:") || strings.Contains(k, "<-") || strings.Contains(k, "?") {
			continue
		}
		// loop-variant conditions (the header test of a loop passed twice) are different facts
		if strings.Contains(k, "phi{") || strings.Contains(k, "rangeok(") || strings.Contains(k, "next(") || strings.Contains(k, "…") || len(Latches(c.At)) > 0 {
			continue
		}
		if v, ok := seen[k]; ok && v != c.True {
			return false
		}
		seen[k] = c.True
	}
	return true
}

// loopVariantBetween: the path passes a loop header more than once up to the condition's block —
// values defined in the loop may then belong to different iterations.
func loopVariantBetween(p Path, c Cond) bool {
	seen := map[*ssa.BasicBlock]int{}
	for i, b := range p {
		if c.Idx > 0 && i > c.Idx {
			break
		}
		if len(Latches(b)) > 0 {
			seen[b]++
			if seen[b] > 1 {
				return true
			}
		}
	}
	return false
}

// constPhiTest: c compares a phi with a constant and, on path p, the phi took a
// constant edge: whether the branch taken agrees with the comparison.
func constPhiTest(c Cond, p Path) (holds bool, known bool) {
	bin, ok := c.V.(*ssa.BinOp)
	if !ok || (bin.Op != token.EQL && bin.Op != token.NEQ) || c.Idx <= 0 || c.Idx >= len(p) {
		return false, false
	}
	x, y := bin.X, bin.Y
	if _, isK := x.(*ssa.Const); isK {
		x, y = y, x
	}
	k, isK := y.(*ssa.Const)
	ph, isPhi := x.(*ssa.Phi)
	if !isK || !isPhi || k.Value == nil {
		return false, false
	}
	// the edge taken: last occurrence of the phi's block at or before the test
	for i := c.Idx; i >= 1; i-- {
		if p[i] != ph.Block() {
			continue
		}
		for j, pb := range ph.Block().Preds {
			if pb == p[i-1] {
				ek, isEK := ph.Edges[j].(*ssa.Const)
				if !isEK || ek.Value == nil {
					return false, false
				}
				eq := ek.Value.ExactString() == k.Value.ExactString()
				return ((bin.Op == token.EQL) == eq) == c.True, true
			}
		}
		return false, false
	}
	return false, false
}

// ReachEdge: like ReachSet for the CFG edge e (the branch condition of the
// edge itself is included).
func (f Frame) ReachEdge(fn *ssa.Function, e Edge, keep PathKeep, opaque *[]Cond) (Set, int, bool) {
	paths, ok := PathsTo(fn, e.From, 4096)
	if !ok {
		return nil, len(paths), false
	}
	out := Empty()
	n := 0
	for _, p := range paths {
		if keep != nil && !keep(p) {
			continue
		}
		q := append(append(Path(nil), p...), e.To)
		if !Feasible(q) {
			continue
		}
		n++
		out = out.Union(f.PathMeaning(q, opaque))
	}
	return out, n, true
}

// ReachSet: the set of subject values under which target may be reached
// (union over the kept simple paths).
func (f Frame) ReachSet(fn *ssa.Function, target *ssa.BasicBlock, keep PathKeep, opaque *[]Cond) (Set, int, bool) {
	paths, ok := PathsTo(fn, target, 4096)
	if !ok {
		return nil, len(paths), false
	}
	out := Empty()
	n := 0
	for _, p := range paths {
		if keep != nil && !keep(p) {
			continue
		}
		if !Feasible(p) {
			continue
		}
		n++
		out = out.Union(f.PathMeaning(p, opaque))
	}
	return out, n, true
}

// evalBool: the subject sets (within the frame's domain) under which the
// bool value v, evaluated along path p, is true / false. known=false: v is
// opaque to the frame (both outcomes possible for every subject value).
func (f Frame) evalBool(v ssa.Value, p Path, depth int) (t, fs Set, known bool) {
	full := f.full()
	if depth > 16 {
		return full, full, false
	}
	if b, ok := f.Assume[v]; ok {
		if b {
			return full, Empty(), true
		}
		return Empty(), full, true
	}
	switch x := v.(type) {
	case *ssa.Const:
		if x.Value != nil && x.Value.String() == "true" {
			return full, Empty(), true
		}
		return Empty(), full, true
	case *ssa.Phi:
		pred := p.Pred(x.Block())
		selfEdge := false
		for i, pb := range x.Block().Preds {
			if pb == pred {
				if x.Edges[i] == ssa.Value(x) {
					// unchanged by this iteration: the value the variable had when the iteration began
					selfEdge = true
					break
				}
				return f.evalBool(x.Edges[i], p, depth+1)
			}
		}
		if b, ok := f.AssumeEntry[v]; ok && (pred == nil || selfEdge) {
			if b {
				return full, Empty(), true
			}
			return Empty(), full, true
		}
		return full, full, false
	case *ssa.UnOp:
		if x.Op == token.NOT {
			a, b, k := f.evalBool(x.X, p, depth+1)
			return b, a, k
		}
		if x.Op == token.MUL {
			if r := resolveRetVal(x, p); r != ssa.Value(x) {
				return f.evalBool(r, p, depth+1)
			}
		}
	case *ssa.BinOp:
		if len(f.AssumePath) > 0 {
			if b, ok := f.AssumePath[f.pathOf(x)]; ok {
				if b {
					return full, Empty(), true
				}
				return Empty(), full, true
			}
		}
		if a, ok := f.Atom(x, true); ok {
			return full.Intersect(a), full.Intersect(a.Complement()), true
		}
		// a three-way comparison tested against zero: cmp.Compare(a, b) < 0, cmp.Or(…) < 0
		if t, fs, ok := f.threeWayTest(x); ok {
			return full.Intersect(t), full.Intersect(fs), true
		}
		// an operand that is a per-clause variable: what it is on this path
		switch x.Op {
		case token.LSS, token.LEQ, token.GTR, token.GEQ, token.EQL, token.NEQ:
			if rx, ry := phiOnPath(x.X, p), phiOnPath(x.Y, p); rx != x.X || ry != x.Y {
				if a, ok := f.atomOps(x.Op, rx, ry, true); ok {
					return full.Intersect(a), full.Intersect(a.Complement()), true
				}
			}
		}
	case *ssa.Call:
		// a pure predicate of the module (`isTagKey(k)`): its verdict means what its
		// body means, read in the caller's terms
		if g := StaticCallee(&x.Call); g != nil && len(f.outer) < 3 && f.IsSubject == nil && f.Term == nil && IsPurePredicate(g) {
			f2 := f
			f2.In = &x.Call
			f2.outer = append(append([]*ssa.Call(nil), f.outer...), x)
			f2.Assume = nil
			if t, fs, _, ok := f2.FuncBoolMeaning(g, 0, nil, nil); ok {
				return full.Intersect(t), full.Intersect(fs), true
			}
		}
	}
	return full, full, false
}

// threeWay: where a three-way comparison is negative, zero and positive, as sets of the
// subject. cmp.Compare / strings.Compare / bytes.Compare over the subject and a term mean
// <, ==, >; over anything else every outcome is possible. cmp.Or(c1, c2, …) is the first
// non-zero ci: negative where c1 is, or where c1 is zero and the rest is negative.
func (f Frame) threeWay(v ssa.Value, depth int) (neg, zero, pos Set, ok bool) {
	full := f.full()
	call, isCall := v.(*ssa.Call)
	if !isCall || depth > 4 {
		return nil, nil, nil, false
	}
	switch CalleeName(&call.Call) {
	case "cmp.Compare", "strings.Compare", "bytes.Compare":
		if len(call.Call.Args) != 2 {
			return nil, nil, nil, false
		}
		a, b := call.Call.Args[0], call.Call.Args[1]
		n, ok1 := f.atomOps(token.LSS, a, b, true)
		if !ok1 {
			return full, full, full, true
		}
		z, _ := f.atomOps(token.EQL, a, b, true)
		p, _ := f.atomOps(token.GTR, a, b, true)
		return n, z, p, true
	case "cmp.Or":
		if len(call.Call.Args) != 1 {
			return nil, nil, nil, false
		}
		elems, okv := VariadicElems(call.Call.Args[0])
		if !okv || len(elems) == 0 {
			return nil, nil, nil, false
		}
		neg, zero, pos = Empty(), full, Empty()
		for i := len(elems) - 1; i >= 0; i-- {
			n, z, p, ok1 := f.threeWay(elems[i], depth+1)
			if !ok1 {
				return nil, nil, nil, false
			}
			neg, zero, pos = n.Union(z.Intersect(neg)), z.Intersect(zero), p.Union(z.Intersect(pos))
		}
		return neg, zero, pos, true
	}
	return nil, nil, nil, false
}

// threeWayTest: `three-way op 0` (or `0 op three-way`): where it may hold and where it may fail.
func (f Frame) threeWayTest(b *ssa.BinOp) (t, fs Set, ok bool) {
	op, x := b.Op, b.X
	if k, isK := ConstInt(b.Y); !isK || k != 0 {
		if k2, isK2 := ConstInt(b.X); !isK2 || k2 != 0 {
			return nil, nil, false
		}
		op, x = flip(b.Op), b.Y
	}
	n, z, p, ok := f.threeWay(x, 0)
	if !ok {
		return nil, nil, false
	}
	switch op {
	case token.LSS:
		return n, z.Union(p), true
	case token.LEQ:
		return n.Union(z), p, true
	case token.GTR:
		return p, n.Union(z), true
	case token.GEQ:
		return p.Union(z), n, true
	case token.EQL:
		return z, n.Union(p), true
	case token.NEQ:
		return n.Union(p), z, true
	}
	return nil, nil, false
}

var purePred = map[*ssa.Function]int{} // 1 pure, 2 not

// IsPurePredicate: a module function with a single bool result whose body
// has no effect: no store except to its own locals, no map update, send, go,
// defer, and only calls of builtins, of an allow-list of standard pure
// functions, or of other pure predicates.
func IsPurePredicate(g *ssa.Function) bool {
	if v, ok := purePred[g]; ok {
		return v == 1
	}
	purePred[g] = 2
	if !InModuleFn(g) {
		return false
	}
	res := g.Signature.Results()
	if res.Len() != 1 {
		return false
	}
	if bt, ok := res.At(0).Type().Underlying().(*types.Basic); !ok || bt.Kind() != types.Bool {
		return false
	}
	pure := true
	Instrs(g, func(in ssa.Instruction) {
		switch x := in.(type) {
		case *ssa.Store:
			if ResolveAlloc(x.Addr) == nil {
				pure = false
			}
		case *ssa.MapUpdate, *ssa.Send, *ssa.Go, *ssa.Defer, *ssa.Select, *ssa.Panic, *ssa.RunDefers:
			pure = false
		case *ssa.UnOp:
			if x.Op == token.ARROW {
				pure = false
			}
		case *ssa.Call:
			if _, isB := x.Call.Value.(*ssa.Builtin); isB {
				return
			}
			n := CalleeName(&x.Call)
			if strings.HasPrefix(n, "strings.") || strings.HasPrefix(n, "bytes.") || strings.HasPrefix(n, "unicode/utf8.") || strings.HasPrefix(n, "unicode.") || strings.HasPrefix(n, "strconv.") || strings.HasPrefix(n, "slices.Contains") {
				return
			}
			if sc := StaticCallee(&x.Call); sc != nil && sc != g && IsPurePredicate(sc) {
				return
			}
			pure = false
		}
	})
	if pure {
		purePred[g] = 1
	}
	return pure
}

// BoolMeaning: (true-set, false-set) of v along p, within pm.
func (f Frame) BoolMeaning(v ssa.Value, p Path, pm Set, depth int) (t, fs Set) {
	a, b, _ := f.evalBool(v, p, depth)
	return pm.Intersect(a), pm.Intersect(b)
}

// FuncBoolMeaning: for a function returning bool as result #idx, the sets
// of subject values for which it may return true / false. via restricts to
// paths through that block (nil = all). sideOK reports whether an opaque
// side condition is tolerated (nil = all tolerated, just collected).
func (f Frame) FuncBoolMeaning(fn *ssa.Function, idx int, keep PathKeep, opaque *[]Cond) (t, fs Set, npaths int, ok bool) {
	t, fs = Empty(), Empty()
	ok = true
	for _, rb := range ReturnBlocks(fn) {
		ret := LastInstr(rb).(*ssa.Return)
		if idx >= len(ret.Results) {
			return nil, nil, 0, false
		}
		paths, pok := PathsTo(fn, rb, 4096)
		if !pok {
			return nil, nil, npaths, false
		}
		for _, p := range paths {
			if keep != nil && !keep(p) {
				continue
			}
			if !Feasible(p) {
				continue
			}
			npaths++
			pm := f.PathMeaning(p, opaque)
			rv := ret.Results[idx]
			// named results are spilled to a local when the function has defers;
			// resolve a load of a single-store local
			a, b := f.BoolMeaning(resolveRetVal(rv, p), p, pm, 0)
			t = t.Union(a)
			fs = fs.Union(b)
		}
	}
	return t, fs, npaths, ok
}

// resolveRetVal: named bool results ("ok = true; return") appear as loads of
// an Alloc; pick the last store on the path.
// ResolveRetVal is resolveRetVal for rule code.
func ResolveRetVal(v ssa.Value, p Path) ssa.Value { return resolveRetVal(v, p) }

func resolveRetVal(v ssa.Value, p Path) ssa.Value {
	u, ok := v.(*ssa.UnOp)
	if !ok || u.Op != token.MUL {
		return v
	}
	a, ok := u.X.(*ssa.Alloc)
	if !ok {
		return v
	}
	var last ssa.Value
	done := false
	for _, b := range p {
		for _, in := range b.Instrs {
			if in == ssa.Instruction(u) {
				done = true
				break
			}
			if s, ok := in.(*ssa.Store); ok && s.Addr == ssa.Value(a) {
				last = s.Val
			}
		}
		if done {
			break
		}
	}
	if last == nil {
		// zero value of bool
		return ssa.NewConst(nil, v.Type())
	}
	return last
}

// EvalBool exposes evalBool for rules that fold a boolean along a path
// under assumptions (Frame.Assume).
func (f Frame) EvalBool(v ssa.Value, p Path) (isTrue, isFalse, known bool) {
	t, fs, k := f.evalBool(v, p, 0)
	return !t.IsEmpty(), !fs.IsEmpty(), k
}

// PhiOnPath: the value a per-clause variable has on path p (see phiOnPath).
func PhiOnPath(v ssa.Value, p Path) ssa.Value { return phiOnPath(v, p) }
