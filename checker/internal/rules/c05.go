package rules

import (
	"fmt"
	"go/token"
	"go/types"
	"strings"

	"golang.org/x/tools/go/ssa"

	"mocverif/internal/an"
	"mocverif/internal/core"
)

func init() {
	reg(&core.RuleInfo{Name: "DEL-AUTH", Props: []string{"C05", "C04"}, Engine: "CFG", Floor: 1, Confirmed: 1,
		Doc: "removal from the store is edge-dominated by the pubkey equality", Run: runDelAuth})
	reg(&core.RuleInfo{Name: "REG-KEY", Props: []string{"C05"}, Engine: "PROV", Floor: 3, Confirmed: 9,
		Doc: "registry / removal keys carry the Pubkey of an event, never a tag value", Run: runRegKey})
	reg(&core.RuleInfo{Name: "REG-COUPD", Props: []string{"C05"}, Engine: "CFG", Floor: 3, Confirmed: 3,
		Doc: "kind 5: register + delete-by-reference on insert; registry cleaned when the request leaves", Run: runRegCoupd})
	reg(&core.RuleInfo{Name: "KEY-DOM", Props: []string{"C05"}, Engine: "PROV", Floor: 2, Confirmed: 2,
		Doc: "id-domain references can reach address-keyed classes", Run: runKeyDom})
}

func runDelAuth(c *core.Ctx) {
	P := c.P
	a := resolveCache(c)
	if a == nil {
		c.NoAnchor(nil, "EventCache removal helper")
		return
	}
	c.CountFuncs(1)
	for _, st := range cacheStmts(a.del, true) {
		d := st.site
		c.CountSites(1)
		keyPath := an.PathOf(st.del.Call.Args[1])
		cand := "recv.evs[" + keyPath + "]"
		ok := false
		var why []string
		for _, g := range an.Guards(a.del, d.Block()) {
			b, isBin := g.V.(*ssa.BinOp)
			if !isBin || (b.Op != token.EQL && b.Op != token.NEQ) {
				continue
			}
			eq := (b.Op == token.EQL) == g.True
			x, y := an.PathOf(b.X), an.PathOf(b.Y)
			why = append(why, fmt.Sprintf("%s %s %s (%v)", x, b.Op, y, g.True))
			if !eq {
				continue
			}
			if (x == cand+".Pubkey" && strings.HasPrefix(y, "p:") && strings.HasSuffix(y, ".Pubkey")) ||
				(y == cand+".Pubkey" && strings.HasPrefix(x, "p:") && strings.HasSuffix(x, ".Pubkey")) {
				ok = true
			}
			// the requested author as a string parameter of its own (`delete(key, pubkey string)`)
			if ki := a.delKeyParam(); ki != 0 {
				req := "p:" + a.del.Params[3-ki].Name()
				if (x == cand+".Pubkey" && y == req) || (y == cand+".Pubkey" && x == req) {
					ok = true
				}
			}
		}
		c.Check(ok, nil, fname(c, a.del), "remove(evs)/author-check", P.Pos(d.Pos()),
			"removal only on the edge candidate.Pubkey == requested Pubkey", "the removal of "+cand+" is not guarded by candidate.Pubkey == requested pubkey: one author's deletion request or replacement can remove another author's event; guards: "+strings.Join(why, "; "))
	}
}

func isNamedRoot(t types.Type, name string) bool {
	n := derefNamed(t)
	return n != nil && n.Obj().Name() == name && n.Obj().Pkg() != nil && n.Obj().Pkg().Path() == core.ModulePath
}

func runRegKey(c *core.Ctx) {
	P := c.P
	n := 0
	for _, fn := range P.ModFuncs {
		if c.P.PkgOf(fn) != core.ModulePath {
			continue
		}
		c.CountFuncs(1)
		idx := 0
		an.Instrs(fn, func(in ssa.Instruction) {
			a, ok := in.(*ssa.Alloc)
			if !ok || !isNamedRoot(a.Type(), "eventCacheDeletedEventKey") {
				return
			}
			fs := an.StructLitFields(a)
			if len(fs) == 0 {
				return // a by-value parameter copy, not a literal
			}
			pk, has := fs["Pubkey"]
			n++
			idx++
			c.CountSites(1)
			construct := fmt.Sprintf("registry-key#%d", idx)
			if !has {
				c.Bad(nil, fname(c, fn), construct, P.Pos(a.Pos()), "registry key built without a Pubkey")
				return
			}
			p := an.PathOf(pk)
			var isEventPubkey func(v ssa.Value) bool
			isEventPubkey = func(v ssa.Value) bool {
				// a field of a record that is assigned once in the whole module, from an event's Pubkey
				// (`d := &deletion{author: event.Pubkey}` … `key{ref, d.author}`)
				if u, ok := v.(*ssa.UnOp); ok {
					if fa, ok := u.X.(*ssa.FieldAddr); ok && !isNamedRoot(fa.X.Type(), "Event") {
						if st := an.FieldSingleStoreHook(fa.X.Type(), fa.Field); st != nil && an.FieldWriteOnceHook(fa.X.Type(), fa.Field) && st.Val != v {
							return isEventPubkey(st.Val)
						}
					}
				}
				q := an.PathOf(v)
				if !strings.HasSuffix(q, ".Pubkey") || strings.Contains(q, ".Tags") || strings.HasPrefix(q, "const:") {
					return false
				}
				if u, ok := v.(*ssa.UnOp); ok {
					if fa, ok := u.X.(*ssa.FieldAddr); ok {
						return isNamedRoot(fa.X.Type(), "Event")
					}
				}
				return false
			}
			good := isEventPubkey(pk)
			// a private helper may take the pubkey as a parameter: then every
			// module call site must pass an event's Pubkey
			if par, ok := pk.(*ssa.Parameter); ok && !good {
				pi := -1
				for i, q := range fn.Params {
					if q == par {
						pi = i
					}
				}
				sites := 0
				good = true
				for _, caller := range P.ModFuncs {
					for _, call := range callsTo(caller, fn) {
						sites++
						if !isEventPubkey(call.Call.Args[pi]) {
							good = false
							p += " ← " + an.PathOf(call.Call.Args[pi]) + " at " + P.Pos(call.Pos())
						}
					}
				}
				if sites == 0 {
					good = false
				} else if good {
					p += fmt.Sprintf(" (an event's Pubkey at all %d call sites)", sites)
				}
			}
			c.Check(good, nil, fname(c, fn), construct, P.Pos(a.Pos()), "Pubkey ← "+p, "the author component of a registry/removal key is "+p+", not the Pubkey of an event: deletions are attributed to the wrong author")
		})
	}
	if n == 0 {
		c.NoAnchor(nil, "eventCacheDeletedEventKey literals in event_cache.go")
	}
}

// kind5Guard: block is guarded by <ev>.Kind == 5 (true edge); returns ev path.
func kind5Guard(fn *ssa.Function, b *ssa.BasicBlock) (string, bool) {
	for _, g := range an.Guards(fn, b) {
		bin, ok := g.V.(*ssa.BinOp)
		if !ok || bin.Op != token.EQL || !g.True {
			continue
		}
		if k, ok := an.ConstInt(bin.Y); ok && k == 5 && strings.HasSuffix(an.PathOf(bin.X), ".Kind") {
			return strings.TrimSuffix(an.PathOf(bin.X), ".Kind"), true
		}
	}
	return "", false
}

// reachesFunc: fn statically (transitively, module only) calls target.
func reachesFunc(P *core.Program, fn, target *ssa.Function) bool {
	for _, f := range an.RefClosure([]*ssa.Function{fn}, P.InModule) {
		if sameFunc(f, target) {
			return true
		}
	}
	return false
}

// regFirst: in the merged kind-5 step sc, some write to the deletion registry is not
// preceded by a removal — the registration is not skipped once a target was removed.
// (A step that only writes the registry never reaches del; a step that does both must
// contain a registry write that a call leading to del does not dominate.)
func regFirst(P *core.Program, sc, del *ssa.Function) bool {
	ok := false
	var removals []ssa.Instruction
	for _, ci := range calls(sc) {
		if g := an.StaticCallee(ci.Common()); g != nil && P.InModule(g) && (sameFunc(g, del) || reachesFunc(P, g, del)) {
			removals = append(removals, ci)
		}
	}
	an.Instrs(sc, func(in ssa.Instruction) {
		mu, isMU := in.(*ssa.MapUpdate)
		if !isMU || !strings.Contains(an.PathOf(mu.Map), ".deleted") {
			return
		}
		dominated := false
		for _, r := range removals {
			if an.InstrDominates(r, mu) {
				dominated = true
			}
		}
		if !dominated {
			ok = true
		}
	})
	return ok
}

func runRegCoupd(c *core.Ctx) {
	P := c.P
	a := resolveCache(c)
	if a == nil {
		c.NoAnchor(nil, "EventCache.Add and helpers")
		return
	}
	add := a.add
	c.CountFuncs(2)
	var regCall, delCall *ssa.Call
	for _, ci := range calls(add) {
		call, ok := ci.(*ssa.Call)
		if !ok {
			continue
		}
		sc := an.StaticCallee(&call.Call)
		if sc == nil || !P.InModule(sc) || sameFunc(sc, a.ins) {
			continue
		}
		ev, g := kind5Guard(add, call.Block())
		if !g || ev != evParamOf(add) {
			continue
		}
		writesReg := false
		for _, f := range an.RefClosure([]*ssa.Function{sc}, P.InModule) {
			if len(mapUpdatesOn(f, ".deleted")) > 0 || len(mapUpdatesOn(f, ".deleted["+"")) > 0 {
				writesReg = true
			}
			an.Instrs(f, func(in ssa.Instruction) {
				if mu, ok := in.(*ssa.MapUpdate); ok && strings.Contains(an.PathOf(mu.Map), ".deleted") {
					writesReg = true
				}
			})
		}
		// one step each, or both in one merged step (register every reference, then remove the targets)
		if writesReg {
			regCall = call
		}
		if reachesFunc(P, sc, a.del) && (!writesReg || regFirst(P, sc, a.del)) {
			delCall = call
		}
	}
	pos := P.Pos(add.Pos())
	c.Check(regCall != nil, nil, fname(c, add), "kind5/register", pos, "a retained deletion request is entered into the registry", "Add does not register a kind-5 event in the deletion registry: its targets can be inserted again")
	c.Check(delCall != nil, nil, fname(c, add), "kind5/delete-by-reference", pos, "a deletion request removes what it references", "Add does not remove the events a kind-5 event references")
	// registration and removal only after the request itself was stored
	if regCall != nil && a.insCall != nil {
		c.Check(an.InstrDominates(a.insCall, regCall), nil, fname(c, add), "kind5/after-insert", P.Pos(regCall.Pos()), "registration follows the successful insertion of the request", "the request is registered before (or without) being stored")
	}
	// cleanup in the removal helper
	del := a.del
	okClean := false
	var cpos token.Pos
	an.Region(del, a.stop, func(o an.Occ) {
		call, ok := o.In.(*ssa.Call)
		if !ok {
			return
		}
		b, ok := call.Call.Value.(*ssa.Builtin)
		if !ok || b.Name() != "delete" || !strings.Contains(o.Path(call.Call.Args[0]), ".deleted") {
			return
		}
		ev, g := kind5Guard(del, o.Block())
		if !g {
			return
		}
		cpos = o.Site().Pos()
		// entry removed is keyed by the victim's own pubkey; id removed is the victim's ID
		p0, p1 := o.Path(call.Call.Args[0]), o.Path(call.Call.Args[1])
		if strings.Contains(p0, "Pubkey="+ev+".Pubkey") && p1 == ev+".ID" {
			okClean = true
		}
	})
	c.Check(okClean, nil, fname(c, del), "kind5/registry-cleanup", P.Pos(cpos), "when a deletion request leaves the store its registry entries (keyed by its own pubkey and id) are removed", "the removal helper does not delete a leaving kind-5 event's own registry entries: a request that was evicted or deleted keeps blocking its targets")
}

// ---------------------------------------------------------------- KEY-DOM

func runKeyDom(c *core.Ctx) {
	P := c.P
	a := resolveCache(c)
	if a == nil || a.keyFn == nil {
		c.NoAnchor(nil, "EventCache.Add / key function")
		return
	}
	add := a.add
	c.CountFuncs(2)
	evParam := evParamOf(add)
	// (1) suppression probes of the registry in Add (directly, or inside a private predicate it calls)
	var probeKeys []string
	seenProbe := map[ssa.Instruction]bool{}
	// (the insertion helper is looked into as well: the registry test may have been moved there)
	an.Region(add, func(g *ssa.Function) bool { return !(a.ins != nil && sameFunc(g, a.ins)) && a.stop(g) }, func(o an.Occ) {
		switch x := o.In.(type) {
		case *ssa.Call:
			sc := an.StaticCallee(&x.Call)
			if sc == nil || !P.InModule(sc) || !strings.Contains(calleeReturnPath(sc), ".deleted[") {
				return
			}
			if len(x.Call.Args) >= 2 && !seenProbe[x] {
				seenProbe[x] = true
				probeKeys = append(probeKeys, a.inEntryTerms(o.Path(x.Call.Args[1])))
			}
		case *ssa.Lookup:
			if strings.HasSuffix(o.Path(x.X), ".deleted") && !seenProbe[x] {
				// (a lookup inside a registry predicate is listed too, in the caller's terms: the
				// predicate may take the event and probe with several of its attributes)
				seenProbe[x] = true
				probeKeys = append(probeKeys, a.inEntryTerms(o.Path(x.Index)))
			}
		}
	})
	c.CountSites(len(probeKeys))
	hasKey, hasID := false, false
	for _, k := range probeKeys {
		if strings.Contains(k, an.FuncFullName(a.keyFn)) || strings.Contains(k, an.FuncFullName(an.Follow(a.keyFn))) {
			hasKey = true
		}
		if k == evParam+".ID" || strings.Contains(k, "EventKey="+evParam+".ID") {
			hasID = true
		}
	}
	c.Check(hasKey && hasID, nil, fname(c, add), "probe deleted[…]", P.Pos(add.Pos()),
		"suppression consults the registry with the storage key and with event.ID: "+strings.Join(probeKeys, " ; "),
		fmt.Sprintf("suppression probes the registry with %v only (storage key: %v, event id: %v): replaceable/addressable events are stored under kind:pubkey[:d], which never equals the id an e tag names, so a deletion request cannot block re-insertion of the version it deleted by id", probeKeys, hasKey, hasID))
	// (2) delete-by-reference resolves ids through an id-keyed structure
	var delRef *ssa.Function
	for _, ci := range calls(add) {
		call, ok := ci.(*ssa.Call)
		if !ok {
			continue
		}
		sc := an.StaticCallee(&call.Call)
		if sc == nil || !P.InModule(sc) || sameFunc(sc, a.del) {
			continue
		}
		if _, g := kind5Guard(add, call.Block()); g && reachesFunc(P, sc, a.del) {
			delRef = sc
		}
	}
	if delRef == nil {
		c.Unknown(nil, fname(c, add), "probe evs[e-tag]", P.Pos(add.Pos()), "delete-by-reference function not found under the kind-5 guard")
		return
	}
	idConst := int64(-1)
	if obj, ok := P.Root.Pkg.Scope().Lookup("eventCacheEvsIndexKeyWhatID").(*types.Const); ok {
		idConst, _ = an.ConstVal(obj)
	}
	var keys []string
	raw, viaIndex := false, false
	for _, o := range occCallsTo(delRef, a.del, a.stop) {
		k := a.delArg(o)
		keys = append(keys, k)
		if (strings.Contains(k, an.FuncFullName(a.keyFn)) || strings.Contains(k, an.FuncFullName(an.Follow(a.keyFn)))) && strings.Contains(k, ".idx[") && strings.Contains(k, fmt.Sprintf("What=const:%d", idConst)) {
			viaIndex = true
		} else {
			raw = true
		}
	}
	c.CountSites(len(keys))
	c.Check(raw && viaIndex, nil, fname(c, delRef), "probe evs[e-tag]", P.Pos(delRef.Pos()),
		"referenced keys are removed directly and ids are resolved through the ID index to the storage key",
		fmt.Sprintf("delete-by-reference probes the store only with the raw tag value (direct=%v, resolved through the id index=%v): an e tag carries an event id, but replaceable/addressable events are stored under their address, so deleting them by id has no effect", raw, viaIndex))
}
