#!/bin/sh
# build bin/mocverif from the vendored module (offline)
set -e
cd /verif/checker
export GOPROXY=off GOSUMDB=off GOTOOLCHAIN=local GOWORK=off
if [ -d vendor ]; then export GOFLAGS=-mod=vendor; else export GOFLAGS=-mod=mod; fi
go build -o /verif/bin/mocverif ./cmd/mocverif
