package an

import (
	"go/token"
	"go/types"

	"golang.org/x/tools/go/ssa"
)

// Sources: the root values a container value (map / slice / pointer) may
// denote, following local variables, phis and — type-based — the elements
// of local containers (so a shared map that was appended to a local slice
// and is later read back from it is still seen as the shared map).
func Sources(fn *ssa.Function, v ssa.Value) []ssa.Value {
	seen := map[ssa.Value]bool{}
	var out []ssa.Value
	var walk func(v ssa.Value, depth int)
	add := func(v ssa.Value) {
		for _, o := range out {
			if o == v {
				return
			}
		}
		out = append(out, v)
	}
	// values of type t put into local containers of fn
	elementsOfType := func(t types.Type) []ssa.Value {
		var vals []ssa.Value
		Instrs(fn, func(in ssa.Instruction) {
			switch x := in.(type) {
			case *ssa.Store:
				if _, ok := x.Addr.(*ssa.IndexAddr); ok && types.Identical(x.Val.Type(), t) {
					vals = append(vals, x.Val)
				}
			case *ssa.MapUpdate:
				if types.Identical(x.Value.Type(), t) {
					vals = append(vals, x.Value)
				}
			case *ssa.Call:
				if b, ok := x.Call.Value.(*ssa.Builtin); ok && b.Name() == "append" && len(x.Call.Args) == 2 {
					if elems, ok := VariadicElems(x.Call.Args[1]); ok {
						for _, e := range elems {
							if types.Identical(e.Type(), t) {
								vals = append(vals, e)
							}
						}
					}
				}
			}
		})
		return vals
	}
	walk = func(v ssa.Value, depth int) {
		if v == nil || seen[v] || depth > 12 {
			return
		}
		seen[v] = true
		switch x := v.(type) {
		case *ssa.ChangeType:
			walk(x.X, depth+1)
		case *ssa.MakeInterface:
			walk(x.X, depth+1)
		case *ssa.Phi:
			for _, e := range x.Edges {
				walk(e, depth+1)
			}
		case *ssa.Slice:
			walk(x.X, depth+1)
		case *ssa.Extract:
			if nx, ok := x.Tuple.(*ssa.Next); ok {
				// element of a ranged container
				if r, ok := nx.Iter.(*ssa.Range); ok && IsLocalRoot(rootOf(r.X)) {
					for _, e := range elementsOfType(v.Type()) {
						walk(e, depth+1)
					}
					return
				}
			}
			if lk, ok := x.Tuple.(*ssa.Lookup); ok && x.Index == 0 {
				walk(lk, depth+1)
				return
			}
			add(v)
		case *ssa.Lookup:
			if IsLocalRoot(rootOf(x.X)) {
				for _, e := range elementsOfType(v.Type()) {
					walk(e, depth+1)
				}
				return
			}
			add(v)
		case *ssa.UnOp:
			if x.Op != token.MUL {
				add(v)
				return
			}
			if a := ResolveAlloc(x.X); a != nil {
				st := StoresTo(a)
				if len(st) == 0 {
					add(a)
					return
				}
				for _, s := range st {
					walk(s.Val, depth+1)
				}
				return
			}
			if ia, ok := x.X.(*ssa.IndexAddr); ok && IsLocalRoot(rootOf(ia.X)) {
				for _, e := range elementsOfType(v.Type()) {
					walk(e, depth+1)
				}
				return
			}
			// an element of a slice that was handed in / returned by a call: the slice's
			// origin decides (the caller's argument, the callee's result)
			if ia, ok := x.X.(*ssa.IndexAddr); ok {
				switch r := rootOf(ia.X).(type) {
				case *ssa.Parameter:
					add(r)
					return
				case *ssa.Call:
					add(r)
					return
				}
			}
			// a field of an object: the object decides
			if fa, ok := x.X.(*ssa.FieldAddr); ok {
				base := ssa.Value(fa)
				for {
					f2, ok := base.(*ssa.FieldAddr)
					if !ok {
						break
					}
					base = f2.X
				}
				if u2, ok := base.(*ssa.UnOp); ok && u2.Op == token.MUL {
					if a := ResolveAlloc(u2.X); a != nil {
						if st := StoresTo(a); len(st) == 1 {
							base = st[0].Val
						}
					}
				}
				if IsLocalRoot(base) {
					add(base)
					return
				}
				if p, ok := base.(*ssa.Parameter); ok {
					add(p)
					return
				}
			}
			add(v)
		case *ssa.FieldAddr:
			// the address of a field (`m.lim.add()` passes &m.lim as the receiver): the object decides
			base := ssa.Value(x)
			for {
				f2, ok := base.(*ssa.FieldAddr)
				if !ok {
					break
				}
				base = f2.X
			}
			if u2, ok := base.(*ssa.UnOp); ok && u2.Op == token.MUL {
				if a := ResolveAlloc(u2.X); a != nil {
					if st := StoresTo(a); len(st) == 1 {
						base = st[0].Val
					}
				}
			}
			if IsLocalRoot(base) {
				add(base)
				return
			}
			if p, ok := base.(*ssa.Parameter); ok {
				add(p)
				return
			}
			add(v)
		default:
			add(v)
		}
	}
	walk(v, 0)
	return out
}

// rootOf walks loads / element addresses / appends / phis down to an
// allocation site or an external value ("is this container local?"). For a
// loop-carried local slice any phi edge that reaches an allocation decides.
func rootOf(v ssa.Value) ssa.Value {
	return rootOfSeen(v, map[ssa.Value]bool{})
}

func rootOfSeen(v ssa.Value, seen map[ssa.Value]bool) ssa.Value {
	for i := 0; i < 32; i++ {
		if seen[v] {
			return v
		}
		seen[v] = true
		switch x := v.(type) {
		case *ssa.ChangeType:
			v = x.X
		case *ssa.Slice:
			v = x.X
		case *ssa.IndexAddr:
			v = x.X
		case *ssa.Phi:
			// a loop-carried slice (`s = s[:len(s)-1]`): every edge leads back to one origin
			var roots []ssa.Value
			for _, e := range x.Edges {
				r := rootOfSeen(e, seen)
				if IsLocalRoot(r) {
					return r
				}
				if r == ssa.Value(x) {
					continue
				}
				dup := false
				for _, o := range roots {
					if o == r {
						dup = true
					}
				}
				if !dup {
					roots = append(roots, r)
				}
			}
			if len(roots) == 1 {
				return roots[0]
			}
			return v
		case *ssa.Call:
			if b, ok := x.Call.Value.(*ssa.Builtin); ok && b.Name() == "append" {
				v = x.Call.Args[0]
				continue
			}
			return v
		case *ssa.UnOp:
			if x.Op == token.MUL {
				if a := ResolveAlloc(x.X); a != nil {
					st := StoresTo(a)
					if len(st) >= 1 {
						v = st[0].Val
						continue
					}
					return a
				}
			}
			return v
		default:
			return v
		}
	}
	return v
}

// IsLocalRoot: the value is allocated by the function itself.
func IsLocalRoot(v ssa.Value) bool {
	switch v.(type) {
	case *ssa.Alloc, *ssa.MakeMap, *ssa.MakeSlice, *ssa.MakeChan:
		return true
	}
	return false
}
