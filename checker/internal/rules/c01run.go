package rules

import (
	"go/token"
	"go/types"

	"golang.org/x/tools/go/ssa"

	"mocverif/internal/an"
)

// runCopy: what the run-copying spelling of a byte-wise escaper looks like once verified.
type runCopy struct {
	ok      bool
	why     string
	flushes map[*ssa.Call]bool // append(dst, s[start:i]...) and append(dst, s[start:]...)
	skip    an.Edge            // the edge of the loop on which the current byte is left in the pending run
}

// runCopyIdiom recognises
//
//	start := 0
//	for i := 0; i < len(s); i++ {
//		c := s[i]
//		if <c needs no escape> { continue }          // skip edge: c stays in the run s[start:i+1]
//		dst = append(dst, s[start:i]...)             // flush the run in front of c
//		dst = append(dst, <escape of c>...)          // table entry, or the \u00xx form
//		start = i + 1
//	}
//	dst = append(dst, s[start:]...)                  // flush the last run
//
// and decides its bookkeeping: i runs over every index once; start is 0, then i+1 after
// every flush and unchanged otherwise; every path that moves start passes the flush and
// then exactly one escape append; the skip path appends nothing; the tail flush follows the
// loop on every way to the return; the buffer is threaded through all of them. What remains
// for the caller (SER-2) is the byte set of the skip edge — it must be exactly the
// verbatim class — and the shapes of the two escape appends.
func runCopyIdiom(esc *ssa.Function, subj ssa.Value, tableAppend, ctlAppend *ssa.Call) runCopy {
	fail := func(w string) runCopy { return runCopy{why: w} }
	var strV, idxV ssa.Value
	var at *ssa.BasicBlock
	switch x := subj.(type) {
	case *ssa.Lookup:
		strV, idxV, at = x.X, x.Index, x.Block()
	case *ssa.Index:
		strV, idxV, at = x.X, x.Index, x.Block()
	default:
		return fail("the escaped byte is not read by indexing the input string")
	}
	s, ok := strV.(*ssa.Parameter)
	if !ok {
		return fail("the indexed string is not the escaper's parameter")
	}
	if bt, isB := s.Type().Underlying().(*types.Basic); !isB || bt.Kind() != types.String {
		return fail("the indexed value is not a string")
	}
	h := an.LoopHeaderOf(at)
	if h == nil {
		return fail("the byte is not read inside a loop")
	}
	// induction variable: phi(0, i+1) tested by i < len(s) at the header
	iPhi, ok := idxV.(*ssa.Phi)
	if !ok || iPhi.Block() != h {
		return fail("the index is not the loop's induction variable")
	}
	iff, ok := an.LastInstr(h).(*ssa.If)
	if !ok {
		return fail("the loop header does not test the index")
	}
	cond, ok := iff.Cond.(*ssa.BinOp)
	if !ok || cond.Op != token.LSS || cond.X != ssa.Value(iPhi) || an.PathOf(cond.Y) != "len(p:"+s.Name()+")" {
		return fail("the loop is not `i < len(s)`")
	}
	loop := an.LoopBlocks(h)
	exit := h.Succs[1]
	if loop[exit] {
		return fail("the false edge of the header test does not leave the loop")
	}
	isIPlus1 := func(v ssa.Value) bool {
		b, isB := v.(*ssa.BinOp)
		if !isB || b.Op != token.ADD || b.X != ssa.Value(iPhi) {
			return false
		}
		k, isK := an.ConstInt(b.Y)
		return isK && k == 1
	}
	for j, pb := range h.Preds {
		if loop[pb] {
			if !isIPlus1(iPhi.Edges[j]) {
				return fail("the index does not advance by one on every iteration")
			}
		} else if k, isK := an.ConstInt(iPhi.Edges[j]); !isK || k != 0 {
			return fail("the index does not start at 0")
		}
	}
	// the start variable: another int phi at the header, 0 on entry; leaves of its back-edge value
	type leaf struct {
		v    ssa.Value
		from *ssa.BasicBlock // the block the value flows in from
		to   *ssa.BasicBlock // … and the block of the phi it flows into
	}
	var startPhi *ssa.Phi
	var leaves []leaf
	for _, in := range h.Instrs {
		ph, isPhi := in.(*ssa.Phi)
		if !isPhi || ph == iPhi {
			continue
		}
		if bt, isB := ph.Type().Underlying().(*types.Basic); !isB || bt.Kind() != types.Int {
			continue
		}
		good := true
		var ls []leaf
		var walk func(v ssa.Value, from, to *ssa.BasicBlock, depth int)
		walk = func(v ssa.Value, from, to *ssa.BasicBlock, depth int) {
			if inner, isInner := v.(*ssa.Phi); isInner && inner != ph && loop[inner.Block()] && depth < 4 {
				for j, e := range inner.Edges {
					walk(e, inner.Block().Preds[j], inner.Block(), depth+1)
				}
				return
			}
			ls = append(ls, leaf{v, from, to})
		}
		for j, pb := range h.Preds {
			if loop[pb] {
				walk(ph.Edges[j], pb, h, 0)
			} else if k, isK := an.ConstInt(ph.Edges[j]); !isK || k != 0 {
				good = false
			}
		}
		for _, l := range ls {
			if l.v != ssa.Value(ph) && !isIPlus1(l.v) {
				good = false
			}
		}
		if good && len(ls) > 0 {
			startPhi, leaves = ph, ls
		}
	}
	if startPhi == nil {
		return fail("no run-start variable (0, then i+1 after a flush, unchanged otherwise)")
	}
	// the flush: append(dst, s[start:i]...) inside the loop; the tail flush: append(dst, s[start:]...) after it
	var flush, tail *ssa.Call
	an.Instrs(esc, func(in ssa.Instruction) {
		call, isCall := in.(*ssa.Call)
		if !isCall {
			return
		}
		if b, isB := call.Call.Value.(*ssa.Builtin); !isB || b.Name() != "append" || len(call.Call.Args) != 2 {
			return
		}
		sl, isSl := call.Call.Args[1].(*ssa.Slice)
		if !isSl || sl.X != ssa.Value(s) || sl.Low != ssa.Value(startPhi) || sl.Max != nil {
			return
		}
		switch {
		case sl.High == ssa.Value(iPhi) && loop[call.Block()]:
			if flush != nil {
				flush = nil
				return
			}
			flush = call
		case sl.High == nil && !loop[call.Block()]:
			tail = call
		}
	})
	if flush == nil {
		return fail("no single flush `append(dst, s[start:i]...)` in the loop")
	}
	if tail == nil {
		return fail("no tail flush `append(dst, s[start:]...)` after the loop")
	}
	// the buffer variable: the header phi the flush extends
	dstPhi, ok := flush.Call.Args[0].(*ssa.Phi)
	if !ok || dstPhi.Block() != h {
		return fail("the flush does not extend the buffer as it stood at the start of the iteration")
	}
	if tail.Call.Args[0] != ssa.Value(dstPhi) || !(tail.Block() == exit || exit.Dominates(tail.Block())) {
		return fail("the tail flush does not extend the buffer the loop ended with")
	}
	for _, rb := range an.ReturnBlocks(esc) {
		if !(tail.Block() == rb || tail.Block().Dominates(rb)) {
			return fail("a return is reachable without the tail flush")
		}
	}
	// escapes extend what the flush produced, and nothing else is appended in the loop
	if tableAppend == nil || ctlAppend == nil {
		return fail("escape appends not identified")
	}
	for _, e := range []*ssa.Call{tableAppend, ctlAppend} {
		if e.Call.Args[0] != ssa.Value(flush) || !loop[e.Block()] {
			return fail("an escape is not appended to the flushed buffer")
		}
	}
	nAppends := 0
	an.Instrs(esc, func(in ssa.Instruction) {
		if call, isCall := in.(*ssa.Call); isCall && loop[call.Block()] {
			if b, isB := call.Call.Value.(*ssa.Builtin); isB && b.Name() == "append" {
				nAppends++
			}
		}
	})
	if nAppends != 3 {
		return fail("the loop appends something besides the flush and the two escapes")
	}
	// per leaf of start: moved (i+1) ⇒ flush and exactly one escape on the way; unchanged ⇒ nothing appended
	avoidH := map[*ssa.BasicBlock]bool{h: true}
	var skip an.Edge
	nSkip := 0
	for _, l := range leaves {
		if isIPlus1(l.v) {
			if !(flush.Block() == l.from || flush.Block().Dominates(l.from)) {
				return fail("the run start moves on a path that did not flush the run")
			}
			viaT := tableAppend.Block() == l.from || tableAppend.Block().Dominates(l.from)
			viaC := ctlAppend.Block() == l.from || ctlAppend.Block().Dominates(l.from)
			if !viaT && !viaC {
				// merged after the two escape branches: no way from the flush to here around both
				around := map[*ssa.BasicBlock]bool{h: true, tableAppend.Block(): true, ctlAppend.Block(): true}
				if flush.Block() == l.from || an.Reachable(flush.Block(), l.from, nil, around) {
					return fail("the run start moves on a path that appended no escape")
				}
			}
			continue
		}
		// unchanged: no append can have happened in this iteration
		for _, a := range []*ssa.Call{flush, tableAppend, ctlAppend} {
			if a.Block() == l.from || an.Reachable(a.Block(), l.from, nil, avoidH) && an.Reachable(h, a.Block(), nil, nil) && a.Block().Dominates(l.from) {
				return fail("a byte is appended on a path that keeps it in the pending run")
			}
		}
		skip = an.Edge{From: l.from, To: l.to}
		nSkip++
	}
	if nSkip != 1 {
		return fail("not exactly one way to leave a byte in the pending run")
	}
	// the table and \u00xx branches exclude each other
	if an.Reachable(tableAppend.Block(), ctlAppend.Block(), nil, avoidH) || an.Reachable(ctlAppend.Block(), tableAppend.Block(), nil, avoidH) {
		return fail("both escapes can be appended for one byte")
	}
	// the buffer the next iteration starts with: the header phi's back-edge leaves are the phi itself (skip) or an escape's result
	var dstLeaves []ssa.Value
	var walkD func(v ssa.Value, depth int)
	walkD = func(v ssa.Value, depth int) {
		if inner, isInner := v.(*ssa.Phi); isInner && inner != dstPhi && loop[inner.Block()] && depth < 4 {
			for _, e := range inner.Edges {
				walkD(e, depth+1)
			}
			return
		}
		dstLeaves = append(dstLeaves, v)
	}
	for j, pb := range h.Preds {
		if loop[pb] {
			walkD(dstPhi.Edges[j], 0)
		}
	}
	for _, v := range dstLeaves {
		if v != ssa.Value(dstPhi) && v != ssa.Value(tableAppend) && v != ssa.Value(ctlAppend) {
			return fail("the buffer carried to the next iteration is not the one just extended")
		}
	}
	return runCopy{ok: true, flushes: map[*ssa.Call]bool{flush: true, tail: true}, skip: skip}
}

// escaperRunCopy finds the table / byte / escape appends of the escaper on its own (for rules that
// only need to know whether the run flushes are legitimate) and runs runCopyIdiom.
func escaperRunCopy(esc *ssa.Function) runCopy {
	var table *ssa.Global
	var subj ssa.Value
	an.Instrs(esc, func(in ssa.Instruction) {
		ia, ok := in.(*ssa.IndexAddr)
		if !ok {
			return
		}
		g, ok := ia.X.(*ssa.Global)
		if !ok {
			return
		}
		if bt, ok := ia.Index.Type().Underlying().(*types.Basic); ok && bt.Kind() == types.Uint8 {
			table, subj = g, ia.Index
		}
	})
	if table == nil {
		return runCopy{why: "no byte-indexed table"}
	}
	var tableCall, ctlCall *ssa.Call
	an.Instrs(esc, func(in ssa.Instruction) {
		call, ok := in.(*ssa.Call)
		if !ok {
			return
		}
		if b, isB := call.Call.Value.(*ssa.Builtin); !isB || b.Name() != "append" || len(call.Call.Args) != 2 {
			return
		}
		if u, isU := call.Call.Args[1].(*ssa.UnOp); isU && u.Op == token.MUL {
			if ia, isIA := u.X.(*ssa.IndexAddr); isIA && ia.X == ssa.Value(table) && ia.Index == subj {
				tableCall = call
			}
		}
		if elems, ok := an.VariadicElems(call.Call.Args[1]); ok && len(elems) == 6 {
			ctlCall = call
		}
	})
	return runCopyIdiom(esc, subj, tableCall, ctlCall)
}
