package rules

import (
	"fmt"
	"go/token"
	"go/types"
	"sort"
	"strings"

	"golang.org/x/tools/go/ssa"

	"mocverif/internal/an"
	"mocverif/internal/core"
)

func init() {
	reg(&core.RuleInfo{Name: "LOCK-GUARD", Props: []string{"C15", "C03", "C05", "C07", "C13", "C18", "C19"}, Engine: "LOCK", Floor: 20, Confirmed: 60,
		Doc: "guarded fields are only accessed with the owner's mutex held; writes exclusively", Run: runLockGuard})
	reg(&core.RuleInfo{Name: "LOCK-ESCAPE", Props: allProps, Engine: "LOCK", Floor: 1, Confirmed: 8,
		Doc: "no guarded container leaves its critical section", Run: runLockEscape})
	reg(&core.RuleInfo{Name: "EVT-IMMUT", Props: []string{"C15"}, Engine: "PROV", Floor: 2, Confirmed: 4,
		Doc: "shared *Event values are never written after publication", Run: runEvtImmut})
	reg(&core.RuleInfo{Name: "PUB-RO", Props: []string{"C07", "C15"}, Engine: "CG", Floor: 1, Confirmed: 1,
		Doc: "nothing reachable from Publish writes shared memory", Run: runPubRO})
	reg(&core.RuleInfo{Name: "PUB-NB", Props: []string{"C07"}, Engine: "CG", Floor: 1, Confirmed: 1,
		Doc: "nothing reachable from Publish blocks", Run: runPubNB})
	reg(&core.RuleInfo{Name: "PUB-ALL", Props: []string{"C07"}, Engine: "CFG", Floor: 1, Confirmed: 1,
		Doc: "the walk from Publish to the per-subscriber send visits every registered subscriber: no loop on the way is left early", Run: runPubAll})
}

// frozen guarded-field table (confirmed by reading; DESIGN.md §5 C15)
var guardTable = map[string][]string{
	"EventCache":             {"evs", "evsCreatedAt", "evsIndex", "deleted"},
	"safeMap":                {"m"},
	"reqCounter":             {"m"},
	"reqResponseTimeCounter": {"m"},
	"simpleMaxSubscriptionsMiddlewareBaseCtxValue": {"subs"},
}

// autoGuard: rows inferred for structs with a mutex that the confirmed table does not know
// (a type a later change introduced). Every field that can change after construction, or
// that refers to something that can, is taken to be guarded: maps, slices, channels,
// interfaces and pointers — except pointers to types that synchronise themselves (a struct
// with its own mutex, sync.* and sync/atomic types) — and any other field that is assigned
// outside the function that allocates the struct. This is the strictest reading (every such
// access holds the lock; a channel field counts only when it is re-assigned after construction,
// because channel operations synchronise themselves); code that satisfies it is race-free on those fields, code that
// does not is reported for confirmation.
var autoGuard = map[*core.Program]map[string][]string{}

func selfSynchronised(t types.Type, depth int) bool {
	if depth > 3 {
		return false
	}
	ts := types.TypeString(t, nil)
	if strings.HasPrefix(ts, "sync.") || strings.HasPrefix(ts, "sync/atomic.") || strings.HasPrefix(ts, "*sync.") || strings.HasPrefix(ts, "*sync/atomic.") {
		return true
	}
	if p, ok := t.Underlying().(*types.Pointer); ok {
		t = p.Elem()
	}
	if st, ok := t.Underlying().(*types.Struct); ok {
		return mutexField(st) != ""
	}
	return false
}

func guardedFieldsOf(c *core.Ctx, name string) ([]string, bool) {
	if f, ok := guardTable[name]; ok {
		return f, true
	}
	f, ok := autoGuardTable(c)[name]
	return f, ok
}

func autoGuardTable(c *core.Ctx) map[string][]string {
	P := c.P
	if t, ok := autoGuard[P]; ok {
		return t
	}
	t := map[string][]string{}
	autoGuard[P] = t
	// fields assigned outside a constructor
	assigned := map[string]bool{}
	for _, fn := range P.ModFuncs {
		an.Instrs(fn, func(in ssa.Instruction) {
			st, ok := in.(*ssa.Store)
			if !ok {
				return
			}
			fa, ok := st.Addr.(*ssa.FieldAddr)
			if !ok || freshBase(fa) {
				return
			}
			if n, s := structOf(fa); n != nil && s != nil {
				assigned[n.Obj().Name()+"."+an.FieldNameHook(s, fa.Field)] = true
			}
		})
	}
	for _, pkg := range []*ssa.Package{P.Root, P.Sqlite, P.Prom} {
		sc := pkg.Pkg.Scope()
		for _, n := range sc.Names() {
			tn, ok := sc.Lookup(n).(*types.TypeName)
			if !ok {
				continue
			}
			s, ok := tn.Type().Underlying().(*types.Struct)
			if !ok || mutexField(s) == "" {
				continue
			}
			if _, confirmed := guardTable[n]; confirmed {
				continue
			}
			fields := []string{}
			for i := 0; i < s.NumFields(); i++ {
				ft := s.Field(i).Type()
				if isMu, _ := isMutexType(ft); isMu || selfSynchronised(ft, 0) {
					continue
				}
				fname := an.FieldNameHook(s, i)
				switch ft.Underlying().(type) {
				case *types.Chan:
					// a channel synchronises its own operations: only re-pointing the field needs the lock
					if assigned[n+"."+fname] {
						fields = append(fields, fname)
					}
				case *types.Map, *types.Slice, *types.Interface, *types.Pointer:
					fields = append(fields, fname)
				default:
					if assigned[n+"."+fname] {
						fields = append(fields, fname)
					}
				}
			}
			t[n] = fields
		}
	}
	return t
}

func isConfirmedRow(typ string) bool {
	_, ok := guardTable[typ]
	return ok
}

func guardProps(typ string) []string {
	switch typ {
	case "EventCache":
		return []string{"C15", "C03", "C05"}
	case "safeMap":
		return []string{"C15", "C07"}
	case "reqCounter", "reqResponseTimeCounter":
		return []string{"C15", "C19"}
	case "simpleMaxSubscriptionsMiddlewareBaseCtxValue":
		return []string{"C15", "C18"}
	}
	return []string{"C15"}
}

var writeMethods = map[string]bool{"Set": true, "Del": true, "Clear": true, "Add": true, "Delete": true}

// readOnlyMethods: methods of library containers that do not change the container (for
// inferred rows, where every other method called on a guarded field counts as a write:
// lru Get, for one, moves the entry to the front).
var readOnlyMethods = map[string]bool{"Len": true, "Contains": true, "Peek": true, "Keys": true, "Values": true, "Cap": true, "Has": true, "String": true}

func isMutexType(t types.Type) (bool, bool) {
	s := types.TypeString(t, nil)
	return s == "sync.Mutex" || s == "sync.RWMutex", s == "sync.RWMutex"
}

// structOf: the named struct type a FieldAddr works on.
func structOf(fa *ssa.FieldAddr) (*types.Named, *types.Struct) {
	t := fa.X.Type()
	if p, ok := t.Underlying().(*types.Pointer); ok {
		t = p.Elem()
	}
	n, _ := t.(*types.Named)
	if n == nil {
		return nil, nil
	}
	if o := n.Origin(); o != nil {
		n = o
	}
	s, _ := n.Underlying().(*types.Struct)
	return n, s
}

// mutexField returns the name of the struct's mutex field, if any.
func mutexField(s *types.Struct) string {
	for i := 0; i < s.NumFields(); i++ {
		if ok, _ := isMutexType(s.Field(i).Type()); ok {
			return an.FieldNameHook(s, i)
		}
	}
	return ""
}

type lockMode int

const (
	lockNone lockMode = iota
	lockShared
	lockExclusive
)

func (m lockMode) String() string { return [...]string{"none", "shared", "exclusive"}[m] }

type lockCtx struct {
	c    *core.Ctx
	memo map[string]lockMode
	busy map[string]bool
	// callers index: callee origin → call sites
	sites map[*ssa.Function][]ssa.CallInstruction
}

func originOf(f *ssa.Function) *ssa.Function {
	if o := f.Origin(); o != nil {
		return o
	}
	return f
}

func newLockCtx(c *core.Ctx) *lockCtx {
	lc := &lockCtx{c: c, memo: map[string]lockMode{}, busy: map[string]bool{}, sites: map[*ssa.Function][]ssa.CallInstruction{}}
	for _, fn := range libFuncs(c) {
		for _, ci := range calls(fn) {
			if sc := an.StaticCallee(ci.Common()); sc != nil && c.P.InModule(sc) {
				lc.sites[originOf(sc)] = append(lc.sites[originOf(sc)], ci)
			}
		}
	}
	return lc
}

// heldAt: the lock mode held on mutex path mu at instruction at in fn.
func (lc *lockCtx) heldAt(fn *ssa.Function, at ssa.Instruction, mu string, depth int) lockMode {
	best := lockNone
	// (1) Lock/RLock in fn dominating 'at' with a deferred matching unlock
	an.Instrs(fn, func(in ssa.Instruction) {
		call, ok := in.(*ssa.Call)
		if !ok {
			return
		}
		name := an.CalleeName(&call.Call)
		var mode lockMode
		var unlock string
		switch name {
		case "(*sync.RWMutex).Lock":
			mode, unlock = lockExclusive, "(*sync.RWMutex).Unlock"
		case "(*sync.Mutex).Lock":
			mode, unlock = lockExclusive, "(*sync.Mutex).Unlock"
		case "(*sync.RWMutex).RLock":
			mode, unlock = lockShared, "(*sync.RWMutex).RUnlock"
		default:
			return
		}
		if an.PathOf(call.Call.Args[0]) != mu || !an.InstrDominates(in, at) {
			return
		}
		deferred := false
		an.Instrs(fn, func(in2 ssa.Instruction) {
			if d, ok := in2.(*ssa.Defer); ok && an.CalleeName(&d.Call) == unlock && an.PathOf(d.Call.Args[0]) == mu && an.InstrDominates(in, in2) && an.InstrDominates(in2, at) {
				deferred = true
			}
		})
		if !deferred {
			// explicit unlocks (`mu.Lock(); …; mu.Unlock()`): the access lies in the locked region when no
			// unlock of this mutex can be followed by the access without the lock being taken again
			released := false
			nUnlock := 0
			an.Instrs(fn, func(in2 ssa.Instruction) {
				u, ok := in2.(*ssa.Call)
				if !ok || an.CalleeName(&u.Call) != unlock || an.PathOf(u.Call.Args[0]) != mu {
					return
				}
				nUnlock++
				reachesAccess := false
				forwardScan(u, func(x ssa.Instruction) bool {
					if x == at {
						reachesAccess = true
						return true
					}
					return x == in // the lock is taken again first
				})
				if reachesAccess {
					released = true
				}
			})
			if nUnlock > 0 && !released {
				deferred = true
			}
		}
		if deferred && mode > best {
			best = mode
		}
	})
	if best != lockNone || depth > 6 {
		return best
	}
	// (2) closure: held where the closure is made (synchronous use only)
	if parent := fn.Parent(); parent != nil {
		var mk *ssa.MakeClosure
		an.Instrs(parent, func(in ssa.Instruction) {
			if mc, ok := in.(*ssa.MakeClosure); ok && mc.Fn == ssa.Value(fn) {
				mk = mc
			}
		})
		if mk == nil {
			return lockNone
		}
		for _, r := range *mk.Referrers() {
			if _, isGo := r.(*ssa.Go); isGo {
				return lockNone
			}
		}
		return lc.heldAt(parent, mk, mu, depth+1)
	}
	// (3) helper: every module call site holds the lock on the corresponding argument
	if !strings.HasPrefix(mu, "recv.") && !strings.HasPrefix(mu, "p:") {
		return lockNone
	}
	base, rest := splitBase(mu)
	pi := paramIndex(fn, base)
	if pi < 0 {
		return lockNone
	}
	key := an.FuncFullName(fn) + "|" + mu
	if m, ok := lc.memo[key]; ok {
		return m
	}
	if lc.busy[key] {
		return lockExclusive // optimistic on recursion; the other call sites decide
	}
	lc.busy[key] = true
	defer func() { lc.busy[key] = false }()
	sites := lc.sites[originOf(fn)]
	if len(sites) == 0 || isExported(fn) {
		lc.memo[key] = lockNone
		return lockNone
	}
	res := lockExclusive
	for _, ci := range sites {
		args := ci.Common().Args
		if pi >= len(args) {
			res = lockNone
			break
		}
		if _, isGo := ci.(*ssa.Go); isGo {
			res = lockNone
			break
		}
		ap := an.PathOf(args[pi])
		m := lc.heldAt(ci.Parent(), ci, ap+rest, depth+1)
		if m < res {
			res = m
		}
	}
	lc.memo[key] = res
	return res
}

func isExported(fn *ssa.Function) bool {
	if fn.Parent() != nil {
		return false
	}
	n := fn.Name()
	return n != "" && n[0] >= 'A' && n[0] <= 'Z'
}

func splitBase(path string) (string, string) {
	if strings.HasPrefix(path, "recv") {
		return "recv", strings.TrimPrefix(path, "recv")
	}
	if i := strings.IndexAny(path[2:], ".["); i >= 0 {
		return path[:i+2], path[i+2:]
	}
	return path, ""
}

func paramIndex(fn *ssa.Function, base string) int {
	for i, p := range fn.Params {
		if base == "recv" && i == 0 && fn.Signature.Recv() != nil {
			return 0
		}
		if base == "p:"+p.Name() {
			return i
		}
	}
	return -1
}

type fieldAccess struct {
	fn    *ssa.Function
	fa    *ssa.FieldAddr
	typ   string
	field string
	write bool
	what  string
}

// guardedAccesses lists reads/writes of guarded fields in fn.
func guardedAccesses(c *core.Ctx, fn *ssa.Function) []fieldAccess {
	var out []fieldAccess
	an.Instrs(fn, func(in ssa.Instruction) {
		fa, ok := in.(*ssa.FieldAddr)
		if !ok {
			return
		}
		n, s := structOf(fa)
		if n == nil || s == nil {
			return
		}
		fields, ok := guardedFieldsOf(c, n.Obj().Name())
		_, confirmed := guardTable[n.Obj().Name()]
		auto := !confirmed // inferred row: any method called on the field's value may change it
		if !ok {
			return
		}
		f := an.FieldNameHook(s, fa.Field)
		guarded := false
		for _, g := range fields {
			if g == f {
				guarded = true
			}
		}
		if !guarded {
			return
		}
		acc := fieldAccess{fn: fn, fa: fa, typ: n.Obj().Name(), field: f, what: "read"}
		if fa.Referrers() != nil {
			for _, r := range *fa.Referrers() {
				switch x := r.(type) {
				case *ssa.Store:
					if x.Addr == ssa.Value(fa) {
						acc.write, acc.what = true, "assign"
					}
				case *ssa.UnOp:
					if x.Referrers() == nil {
						continue
					}
					for _, r2 := range *x.Referrers() {
						switch y := r2.(type) {
						case *ssa.MapUpdate:
							if y.Map == ssa.Value(x) {
								acc.write, acc.what = true, "map update"
							}
						case *ssa.Call:
							if b, ok := y.Call.Value.(*ssa.Builtin); ok && b.Name() == "delete" && y.Call.Args[0] == ssa.Value(x) {
								acc.write, acc.what = true, "map delete"
							}
							if sc := an.StaticCallee(&y.Call); sc != nil && len(y.Call.Args) > 0 && y.Call.Args[0] == ssa.Value(x) && (writeMethods[sc.Name()] || auto && !readOnlyMethods[sc.Name()] || receiverWriters(c)[originOf(sc)]) {
								acc.write, acc.what = true, "call "+sc.Name()
							}
						case *ssa.Lookup:
							// nested map: m[k][k2] = v / delete(m[k], k2)
							if y.Referrers() != nil {
								for _, r3 := range *y.Referrers() {
									if mu, ok := r3.(*ssa.MapUpdate); ok && mu.Map == ssa.Value(y) {
										acc.write, acc.what = true, "nested map update"
									}
									if cc, ok := r3.(*ssa.Call); ok {
										if b, ok := cc.Call.Value.(*ssa.Builtin); ok && b.Name() == "delete" {
											acc.write, acc.what = true, "nested map delete"
										}
									}
								}
							}
						}
					}
				}
			}
		}
		// the field itself is assigned only while the object is built, and this use only asks whether
		// it was set (`v.subs == nil`): nothing of the guarded structure is read
		if !acc.write && an.FieldWriteOnceHook(fa.X.Type(), fa.Field) && onlyNilTested(fa) {
			return
		}
		// … or the pointer is only used to call methods that never look at their receiver (a key
		// function hung on the index type, `c.evsIndex.keysFromEvent(event)`): nothing guarded is read
		if !acc.write && an.FieldWriteOnceHook(fa.X.Type(), fa.Field) && onlyStatelessCalls(c, fa) {
			return
		}
		out = append(out, acc)
	})
	return out
}

// freshBase: the struct the field belongs to is allocated in this function
// (constructor).
func freshBase(fa *ssa.FieldAddr) bool {
	switch x := fa.X.(type) {
	case *ssa.Alloc:
		return true
	case *ssa.UnOp:
		if a := an.ResolveAlloc(x.X); a != nil {
			st := an.StoresTo(a)
			if len(st) == 1 {
				_, isAlloc := st[0].Val.(*ssa.Alloc)
				return isAlloc
			}
		}
	}
	return false
}

func runLockGuard(c *core.Ctx) {
	P := c.P
	// (0) the frozen table still describes the code: every struct with a mutex
	// field and mutable siblings is in the table
	seen := map[string]bool{}
	for _, pkg := range []*ssa.Package{P.Root, P.Sqlite, P.Prom} {
		sc := pkg.Pkg.Scope()
		for _, n := range sc.Names() {
			tn, ok := sc.Lookup(n).(*types.TypeName)
			if !ok {
				continue
			}
			s, ok := tn.Type().Underlying().(*types.Struct)
			if !ok || mutexField(s) == "" {
				continue
			}
			seen[n] = true
			if _, ok := guardTable[n]; !ok {
				// a type the confirmed table does not know: the strictest row is inferred
				// (autoGuardTable) and checked like a confirmed one
				c.Trivial(nil, n, "guard-table", P.Pos(tn.Pos()), fmt.Sprintf("struct %s is not in the confirmed table: inferred row %v (every field that can change after construction)", n, autoGuardTable(c)[n]))
			}
		}
	}
	for n := range guardTable {
		if !seen[n] {
			// the type may have been replaced by a differently named and shaped one (its state moved into a
			// new value with its own mutex): then the inferred rows (above) carry the obligation. Without any
			// new mutex-bearing struct the state went somewhere unsynchronised, or the anchor is simply lost.
			if len(autoGuardTable(c)) > 0 {
				var succ []string
				for k := range autoGuardTable(c) {
					succ = append(succ, k)
				}
				sort.Strings(succ)
				c.Trivial(guardProps(n), n, "guard-table", "-", fmt.Sprintf("guarded struct %s of the confirmed table no longer exists; mutex-bearing structs the table does not know, checked under inferred rows: %v", n, succ))
				continue
			}
			c.Unknown(guardProps(n), n, "guard-table", "-", "guarded struct "+n+" of the confirmed table no longer exists (or lost its mutex): anchor unresolved")
		}
	}
	lc := newLockCtx(c)
	type agg struct {
		typ, field, fn string
		pos            string
		n              int
		bad            []string
		modes          map[string]bool
		props          []string
		auto           bool
	}
	groups := map[string]*agg{}
	var order []string
	for _, fn := range libFuncs(c) {
		accs := guardedAccesses(c, fn)
		if len(accs) == 0 {
			continue
		}
		c.CountFuncs(1)
		for _, a := range accs {
			if freshBase(a.fa) {
				continue // constructor: the object is not shared yet
			}
			c.CountSites(1)
			_, s := structOf(a.fa)
			mu := an.PathOf(a.fa.X) + "." + mutexField(s)
			mode := lc.heldAt(fn, a.fa, mu, 0)
			kind := "read"
			if a.write {
				kind = "write"
			}
			key := a.typ + "." + a.field + ":" + kind + "|" + fname(c, fn)
			g := groups[key]
			if g == nil {
				g = &agg{typ: a.typ, field: a.field, fn: fname(c, fn), pos: P.Pos(a.fa.Pos()), modes: map[string]bool{}, props: guardProps(a.typ)}
				groups[key] = g
				order = append(order, key)
			}
			g.n++
			g.modes[mode.String()] = true
			switch {
			case mode == lockNone:
				g.auto = !isConfirmedRow(a.typ)
				g.bad = append(g.bad, fmt.Sprintf("%s (%s) at %s without %s held on any path from an exported entry", kind, a.what, P.Pos(a.fa.Pos()), mu))
			case a.write && mode != lockExclusive:
				g.auto = !isConfirmedRow(a.typ)
				g.bad = append(g.bad, fmt.Sprintf("write (%s) at %s under the shared lock only", a.what, P.Pos(a.fa.Pos())))
			}
		}
	}
	sort.Strings(order)
	for _, key := range order {
		g := groups[key]
		construct := "field:" + strings.Split(key, "|")[0]
		var ms []string
		for m := range g.modes {
			ms = append(ms, m)
		}
		sort.Strings(ms)
		if len(g.bad) > 0 && g.auto {
			c.Unknown(g.props, g.fn, construct, g.pos, strings.Join(g.bad, "; ")+": the struct is not in the confirmed guarded-field table and its inferred row (every field that can change after construction is guarded by its mutex) does not hold here: confirm which fields the mutex guards")
		} else if len(g.bad) > 0 {
			c.Bad(g.props, g.fn, construct, g.pos, strings.Join(g.bad, "; ")+": a concurrent session can observe or corrupt the structure mid-update (data race)")
		} else {
			c.OK(g.props, g.fn, construct, g.pos, fmt.Sprintf("%d access(es), lock held: %s", g.n, strings.Join(ms, "/")))
		}
	}
	// lock order and re-entry, decided at the call sites that are reached WHILE a lock
	// is held (forward may-hold dataflow; a deferred unlock holds until the return):
	//  - holding an exclusive lock, no callee may acquire any module mutex;
	//  - holding a lock in any mode, no callee may acquire the SAME mutex again (an
	//    RLock nested in an RLock deadlocks as soon as a writer queues in between).
	acq := lockSummaries(c)
	for _, fn := range libFuncs(c) {
		held := heldAtCalls(fn)
		if len(held) == 0 {
			continue
		}
		var second, again []string
		for _, hc := range held {
			g := an.StaticCallee(&hc.call.Call)
			if g == nil || !P.InModule(g) {
				continue
			}
			for _, a := range acq[g] {
				mp := a.in(hc.call)
				same := false
				for _, h := range hc.locks {
					if h.path == mp {
						same = true
					}
					if h.exclusive && !same {
						second = append(second, fmt.Sprintf("%s acquires %s at %s while %s is held exclusively", fname(c, g), mp, P.Pos(hc.call.Pos()), h.path))
					}
				}
				if same {
					again = append(again, fmt.Sprintf("%s acquires %s again at %s", fname(c, g), mp, P.Pos(hc.call.Pos())))
				}
			}
		}
		c.Check(len(second) == 0, []string{"C15"}, fname(c, fn), "lock-order", P.Pos(fn.Pos()), "no second module mutex is acquired while the exclusive lock is held", "acquires another mutex while holding an exclusive lock ("+strings.Join(second, "; ")+"): lock-order inversion can deadlock")
		c.Check(len(again) == 0, []string{"C15", "C13"}, fname(c, fn), "lock-reentry", P.Pos(fn.Pos()), "no callee re-acquires a mutex the caller already holds", "a mutex is acquired again while it is already held ("+strings.Join(again, "; ")+"): sync mutexes are not re-entrant — a nested RLock blocks for ever once a writer waits, and no context cancellation ends it")
	}
}

type heldLock struct {
	path      string
	exclusive bool
}

type heldCall struct {
	call  *ssa.Call
	locks []heldLock
}

func lockOp(call *ssa.CallCommon) (op string, ok bool) {
	n := an.CalleeName(call)
	for _, m := range []string{"Lock", "RLock", "Unlock", "RUnlock"} {
		if n == "(*sync.RWMutex)."+m || n == "(*sync.Mutex)."+m {
			return m, true
		}
	}
	return "", false
}

// heldAtCalls: the calls of fn that may execute while fn holds a sync mutex,
// with the mutexes (by access path) held there.
func heldAtCalls(fn *ssa.Function) []heldCall {
	if len(fn.Blocks) == 0 {
		return nil
	}
	type state map[string]bool // mutex path -> exclusive
	in := map[*ssa.BasicBlock]state{fn.Blocks[0]: {}}
	clone := func(s state) state {
		o := state{}
		for k, v := range s {
			o[k] = v
		}
		return o
	}
	// transfer function of one block; record = note the locks held at each call
	out := map[*ssa.Call][]heldLock{}
	flow := func(b *ssa.BasicBlock, record bool) state {
		st := clone(in[b])
		for _, ins := range b.Instrs {
			call, ok := ins.(*ssa.Call)
			if !ok {
				continue
			}
			if op, isLock := lockOp(&call.Call); isLock {
				mp := an.PathOf(call.Call.Args[0])
				switch op {
				case "Lock":
					st[mp] = true
				case "RLock":
					if _, has := st[mp]; !has {
						st[mp] = false
					}
				default:
					delete(st, mp)
				}
				continue
			}
			if record && len(st) > 0 {
				var hl []heldLock
				for k, v := range st {
					hl = append(hl, heldLock{k, v})
				}
				sort.Slice(hl, func(i, j int) bool { return hl[i].path < hl[j].path })
				out[call] = hl
			}
		}
		return st
	}
	// fixpoint of the may-hold sets, then one recording pass
	work := []*ssa.BasicBlock{fn.Blocks[0]}
	visits := map[*ssa.BasicBlock]int{}
	for len(work) > 0 {
		b := work[0]
		work = work[1:]
		if visits[b] > 16 {
			continue
		}
		visits[b]++
		st := flow(b, false)
		for i, s := range b.Succs {
			if an.DeadEdge(b, i) {
				continue
			}
			old, had := in[s]
			merged := clone(old)
			changed := !had
			for k, v := range st {
				if ov, ok := merged[k]; !ok || (v && !ov) {
					merged[k] = v || ov
					changed = true
				}
			}
			if changed {
				in[s] = merged
				work = append(work, s)
			}
		}
	}
	for _, b := range fn.Blocks {
		if _, reached := in[b]; reached {
			flow(b, true)
		}
	}
	var res []heldCall
	for call, hl := range out {
		res = append(res, heldCall{call, hl})
	}
	sort.Slice(res, func(i, j int) bool { return res[i].call.Pos() < res[j].call.Pos() })
	return res
}

// acquisition: a mutex a function acquires (itself or through callees),
// named by the parameter it is reached from.
type acquisition struct {
	param int    // index into Params (0 = receiver)
	rest  string // field chain below the parameter (".mu")
}

func (a acquisition) in(call *ssa.Call) string {
	if a.param < len(call.Call.Args) {
		return an.PathOf(call.Call.Args[a.param]) + a.rest
	}
	return "?" + a.rest
}

// lockSummaries: for every module function, the mutexes it may acquire in
// terms of its parameters (transitively through static module callees).
func lockSummaries(c *core.Ctx) map[*ssa.Function][]acquisition {
	P := c.P
	sum := map[*ssa.Function]map[acquisition]bool{}
	rootOfPath := func(fn *ssa.Function, p string) (int, string, bool) {
		for i, par := range fn.Params {
			root := "p:" + par.Name()
			if i == 0 && fn.Signature.Recv() != nil {
				root = "recv"
			}
			if p == root || strings.HasPrefix(p, root+".") {
				return i, strings.TrimPrefix(p, root), true
			}
		}
		return 0, "", false
	}
	fns := P.ModFuncs
	for _, fn := range fns {
		sum[fn] = map[acquisition]bool{}
	}
	for round := 0; round < 6; round++ {
		changed := false
		for _, fn := range fns {
			an.Instrs(fn, func(in ssa.Instruction) {
				call, ok := in.(*ssa.Call)
				if !ok {
					return
				}
				add := func(p string) {
					if i, rest, ok := rootOfPath(fn, p); ok {
						a := acquisition{i, rest}
						if !sum[fn][a] {
							sum[fn][a] = true
							changed = true
						}
					}
				}
				if op, isLock := lockOp(&call.Call); isLock {
					if op == "Lock" || op == "RLock" {
						add(an.PathOf(call.Call.Args[0]))
					}
					return
				}
				if g := an.StaticCallee(&call.Call); g != nil && sum[g] != nil && g != fn {
					for a := range sum[g] {
						add(a.in(call))
					}
				}
			})
		}
		if !changed {
			break
		}
	}
	out := map[*ssa.Function][]acquisition{}
	for fn, m := range sum {
		for a := range m {
			out[fn] = append(out[fn], a)
		}
		sort.Slice(out[fn], func(i, j int) bool {
			if out[fn][i].param != out[fn][j].param {
				return out[fn][i].param < out[fn][j].param
			}
			return out[fn][i].rest < out[fn][j].rest
		})
	}
	return out
}

func runLockEscape(c *core.Ctx) {
	P := c.P
	for _, fn := range libFuncs(c) {
		for _, a := range guardedAccesses(c, fn) {
			if freshBase(a.fa) || a.fa.Referrers() == nil {
				continue
			}
			for _, r := range *a.fa.Referrers() {
				ld, ok := r.(*ssa.UnOp)
				if !ok || ld.Op != token.MUL || ld.Referrers() == nil {
					continue
				}
				// only containers (maps, pointers, slices) can be mutated through an alias
				switch ld.Type().Underlying().(type) {
				case *types.Map, *types.Pointer, *types.Slice:
				default:
					continue
				}
				c.CountSites(1)
				var esc []string
				for _, rb := range an.ReturnBlocks(fn) {
					for _, rv := range an.ReturnValues(an.LastInstr(rb).(*ssa.Return)) {
						if rv == ssa.Value(ld) {
							esc = append(esc, "returned")
						}
					}
				}
				for _, u := range *ld.Referrers() {
					switch x := u.(type) {
					case *ssa.Return:
						_ = x
					case *ssa.Store:
						if x.Val == ssa.Value(ld) {
							if _, local := x.Addr.(*ssa.Alloc); !local {
								esc = append(esc, "stored to "+an.PathOf(x.Addr))
							}
						}
					case *ssa.Send:
						if x.X == ssa.Value(ld) {
							esc = append(esc, "sent on a channel")
						}
					case *ssa.MakeInterface, *ssa.Phi:
						// conservative: boxed/merged values are followed one step
						if v, ok := u.(ssa.Value); ok && v.Referrers() != nil {
							for _, u2 := range *v.Referrers() {
								if _, isRet := u2.(*ssa.Return); isRet {
									esc = append(esc, "returned")
								}
							}
						}
					}
				}
				// moved out, not shared: before the section ends the field is re-pointed to memory
				// that has nothing to do with what is returned (nil, a fresh container, a buffer the
				// caller handed in) — ownership of the old container passes to the caller as a whole
				if len(esc) > 0 {
					bw := propagate(unitOf(fn), []ssa.Value{ld})
					moved := false
					an.Instrs(fn, func(in ssa.Instruction) {
						st, ok := in.(*ssa.Store)
						if !ok {
							return
						}
						fa2, ok := st.Addr.(*ssa.FieldAddr)
						if !ok || fa2.Field != a.fa.Field || an.PathOf(fa2.X) != an.PathOf(a.fa.X) {
							return
						}
						if instrReaches(ld, st) && !bw.has(st.Val) {
							moved = true
						}
					})
					if moved {
						var rest []string
						for _, e := range esc {
							if e != "returned" {
								rest = append(rest, e)
							}
						}
						esc = rest
					}
				}
				construct := "container:" + a.typ + "." + a.field
				lprops := []string{"C15"}
				for _, sp := range subsystemProps(c, fn) {
					if sp != "C15" {
						lprops = append(lprops, sp)
					}
				}
				c.Check(len(esc) == 0, lprops, fname(c, fn), construct, P.Pos(ld.Pos()), "the guarded container stays inside its critical section", "the guarded container "+a.typ+"."+a.field+" is "+strings.Join(esc, ", ")+": callers touch it after the lock is released")
			}
		}
	}
}

// rootOfAddr walks an address expression down to its root value; reports
// whether the chain passes through an Event.
func rootOfAddr(v ssa.Value) (root ssa.Value, viaEvent bool) {
	isEventPtr := func(t types.Type) bool {
		p, ok := t.Underlying().(*types.Pointer)
		if !ok {
			return false
		}
		n, ok := p.Elem().(*types.Named)
		return ok && n.Obj().Name() == "Event" && n.Obj().Pkg() != nil && n.Obj().Pkg().Path() == core.ModulePath
	}
	if isEventPtr(v.Type()) {
		viaEvent = true // whole-struct store through a *Event
	}
	for i := 0; i < 20; i++ {
		switch x := v.(type) {
		case *ssa.FieldAddr:
			if isEventPtr(x.X.Type()) {
				viaEvent = true // a field of an Event
			}
			v = x.X
		case *ssa.IndexAddr:
			v = x.X
		case *ssa.UnOp:
			if x.Op == token.MUL {
				if a := an.ResolveAlloc(x.X); a != nil {
					st := an.StoresTo(a)
					if len(st) == 1 {
						v = st[0].Val
						continue
					}
					return a, viaEvent
				}
				v = x.X
				continue
			}
			return v, viaEvent
		case *ssa.Slice:
			v = x.X
		case *ssa.ChangeType:
			v = x.X
		default:
			return v, viaEvent
		}
	}
	return v, viaEvent
}

// privateCell: v is a variable of an enclosing function captured by the
// closure that writes it (`n := 0; m.Loop(func(..) { n += .. })`), and the
// enclosing function keeps the cell to itself: it is only loaded, stored, and
// bound into closures that are called synchronously (never the operand of `go`,
// never stored, handed only to functions that just call their parameter). Such
// a cell is fresh per call of the enclosing function — not shared state.
func privateCell(v ssa.Value, depth int) bool {
	fv, ok := v.(*ssa.FreeVar)
	if !ok || depth > 3 {
		return false
	}
	switch b := an.FreeVarBinding(fv).(type) {
	case *ssa.FreeVar:
		return privateCell(b, depth+1)
	case *ssa.Alloc:
		var published []ssa.Instruction
		var writers []ssa.Instruction
		for _, r := range *b.Referrers() {
			switch x := r.(type) {
			case *ssa.Store:
				if x.Addr != ssa.Value(b) {
					return false // the address itself is stored somewhere
				}
				writers = append(writers, x)
			case *ssa.UnOp, *ssa.DebugRef:
			case *ssa.MakeClosure:
				if !closureCalledSynchronously(x, 0) {
					return false
				}
				writers = append(writers, x)
			case *ssa.Call:
				// built in private, then published once: `p.Store(&cell)` on a sync/atomic
				// pointer. Until then the cell is the builder's own; that every write to it
				// (and every closure that can write it) comes before is checked below.
				if n := an.CalleeName(&x.Call); strings.HasPrefix(n, "(*sync/atomic.Pointer[") && strings.HasSuffix(n, ".Store") && len(x.Call.Args) == 2 && x.Call.Args[1] == ssa.Value(b) {
					published = append(published, x)
					continue
				}
				return false
			default:
				return false
			}
		}
		for _, pub := range published {
			for _, w := range writers {
				// w before pub on every path, and pub is not inside a loop: w cannot run again after it
				if !an.InstrDominates(w, pub) || an.LoopHeaderOf(pub.Block()) != nil {
					return false
				}
			}
		}
		return true
	}
	return false
}

// closureCalledSynchronously: every use of the function value f is a call of
// it, or passing it to a function that (recursively) only calls it.
func closureCalledSynchronously(f ssa.Value, depth int) bool {
	if depth > 10 || f.Referrers() == nil {
		return false
	}
	for _, r := range *f.Referrers() {
		switch x := r.(type) {
		case *ssa.DebugRef:
		case *ssa.Call, *ssa.Defer:
			com := x.(ssa.CallInstruction).Common()
			if com.Value == f {
				continue // called here
			}
			g := com.StaticCallee()
			if g == nil {
				return false
			}
			if !an.InModuleFn(g) {
				switch an.FuncFullName(g) {
				case "time.AfterFunc", "context.AfterFunc":
					return false
				}
				if pk := g.Package(); pk != nil && pk.Pkg.Path() == "net/http" {
					return false
				}
				continue // library functions taking a callback run it before returning
			}
			args := com.Args
			params := g.Params
			if len(params) != len(args) {
				return false
			}
			for i, a := range args {
				if a == f && !closureCalledSynchronously(params[i], depth+1) {
					return false
				}
			}
		case *ssa.Store:
			// a parameter captured by reference is spilled into a cell of its own first (`*t0 = f`): the
			// cell is only read to call the function, by this function and by synchronous closures
			a, isAlloc := x.Addr.(*ssa.Alloc)
			if x.Val != f || !isAlloc || !funcCellCalledSynchronously(a, depth+1) {
				return false
			}
		case *ssa.MakeClosure:
			// captured by a closure that itself is only called synchronously and only calls it
			// (`m.Loop(func(_ string, mm *subscriber) { f(mm) })`)
			fn, _ := x.Fn.(*ssa.Function)
			if fn == nil || !closureCalledSynchronously(x, depth+1) {
				return false
			}
			for i, b := range x.Bindings {
				if b == f && (i >= len(fn.FreeVars) || !closureCalledSynchronously(fn.FreeVars[i], depth+1)) {
					return false
				}
			}
		default:
			return false // go f(), stored, returned, sent …
		}
	}
	return true
}

func localRoot(v ssa.Value) bool {
	if privateCell(v, 0) {
		return true
	}
	switch x := v.(type) {
	case *ssa.Alloc, *ssa.MakeSlice, *ssa.MakeMap:
		return true
	case *ssa.Phi:
		// a container allocated on first use: nil or a fresh make on every edge
		seen := map[ssa.Value]bool{}
		var all func(v ssa.Value) bool
		all = func(v ssa.Value) bool {
			v = an.Unwrap(v)
			if seen[v] {
				return true
			}
			seen[v] = true
			switch y := v.(type) {
			case *ssa.MakeMap, *ssa.MakeSlice:
				return true
			case *ssa.Const:
				return y.IsNil()
			case *ssa.Phi:
				for _, e := range y.Edges {
					if !all(e) {
						return false
					}
				}
				return true
			}
			return false
		}
		return all(x)
	case *ssa.Call:
		// a freshly built value returned by a callee (e.g. anySliceAs) is not yet shared
		_ = x
		return true
	case *ssa.Extract:
		return true
	}
	return false
}

func runEvtImmut(c *core.Ctx) {
	P := c.P
	n := 0
	for _, fn := range libFuncs(c) {
		// a builder offered to the library's users — an exported method of *Event that fills in its own
		// receiver (`ev.Sign(key)`) and that nothing in the module calls: no event the relay shares
		// between sessions can reach it
		if recvTypeName(fn) == "Event" && fn.Parent() == nil && len(callerIndex(c)[fn]) == 0 {
			if obj, _ := fn.Object().(*types.Func); obj != nil && obj.Exported() {
				continue
			}
		}
		an.Instrs(fn, func(in ssa.Instruction) {
			st, ok := in.(*ssa.Store)
			if !ok {
				return
			}
			root, viaEvent := rootOfAddr(st.Addr)
			if !viaEvent {
				return
			}
			n++
			c.CountSites(1)
			construct := "store→Event" + addrSuffix(st.Addr)
			if localRoot(root) {
				c.OK(nil, fname(c, fn), construct, P.Pos(st.Pos()), "the written event is allocated in this function (not yet published)")
				return
			}
			// frozen exception: the decoder fills its receiver with a whole-struct store
			if par, isPar := root.(*ssa.Parameter); isPar && st.Addr == ssa.Value(par) && fn.Name() == "UnmarshalJSON" && recvTypeName(fn) == "Event" {
				// other side: module call sites pass an Event allocated in the caller
				sites, bad := 0, []string{}
				for _, caller := range libFuncs(c) {
					for _, call := range callsTo(caller, fn) {
						sites++
						r, _ := rootOfAddr(call.Call.Args[0])
						if _, isAlloc := r.(*ssa.Alloc); !isAlloc {
							bad = append(bad, P.Pos(call.Pos())+" passes "+an.PathOf(call.Call.Args[0]))
						}
					}
				}
				c.Check(len(bad) == 0 && sites > 0, nil, fname(c, fn), construct, P.Pos(st.Pos()),
					fmt.Sprintf("decoder fills its receiver by contract; all %d module call sites pass an Event allocated in the caller", sites),
					"Event.UnmarshalJSON overwrites an event that may already be shared: "+strings.Join(bad, "; "))
				return
			}
			c.Bad(nil, fname(c, fn), construct, P.Pos(st.Pos()), "writes through a *Event that was not allocated here ("+an.PathOf(root)+"): events are shared by pointer between the cache, the index, the router and every session, so this is a data race and changes what other sessions see")
		})
	}
	if n == 0 {
		c.NoAnchor(nil, "stores through Event values (the decoders at least)")
	}
}

// ---------------------------------------------------------------- publish region

// moduleReach: module functions reachable from root over the call graph
// (CHA quick, VTA thorough), including closures passed as values.
func moduleReach(c *core.Ctx, root *ssa.Function) []*ssa.Function {
	cg := c.P.CallGraph(c.Thorough)
	// Function-typed parameters are followed per call site: inside a higher-order helper
	// (`anyOf(elems, pred)`) a call of pred goes to what *this* caller passed, not to every
	// function any caller passes. Everything else follows the call graph.
	type bindings map[*ssa.Parameter][]*ssa.Function
	keyOf := func(f *ssa.Function, b bindings) string {
		var ks []string
		for p, fs := range b {
			k := p.Name() + "="
			for _, g := range fs {
				k += g.String() + ","
			}
			ks = append(ks, k)
		}
		sort.Strings(ks)
		return f.String() + "|" + strings.Join(ks, ";")
	}
	resolve := func(v ssa.Value, b bindings) ([]*ssa.Function, bool) {
		v = an.Unwrap(v)
		if fv := funcValue(v); fv != nil {
			return []*ssa.Function{fv}, true
		}
		v = an.LoadedValue(resolveFree(v))
		if fv := funcValue(v); fv != nil {
			return []*ssa.Function{fv}, true
		}
		if p, ok := v.(*ssa.Parameter); ok {
			fs, ok := b[p]
			return fs, ok
		}
		return nil, false
	}
	seen := map[string]bool{}
	listed := map[*ssa.Function]bool{}
	var order []*ssa.Function
	var visit func(f *ssa.Function, b bindings)
	visit = func(f *ssa.Function, b bindings) {
		if f == nil || !c.P.InModule(f) {
			return
		}
		k := keyOf(f, b)
		if seen[k] {
			return
		}
		seen[k] = true
		if !listed[f] {
			listed[f] = true
			order = append(order, f)
		}
		site := map[ssa.CallInstruction][]*ssa.Function{}
		if n := cg.Nodes[f]; n != nil {
			for _, e := range n.Out {
				site[e.Site] = append(site[e.Site], e.Callee.Func)
			}
		}
		an.Instrs(f, func(in ssa.Instruction) {
			// closures made here are called by callees (Loop(func…)); they see f's bindings
			if mc, ok := in.(*ssa.MakeClosure); ok {
				visit(mc.Fn.(*ssa.Function), b)
			}
			ci, ok := in.(ssa.CallInstruction)
			if !ok {
				return
			}
			cc := ci.Common()
			var targets []*ssa.Function
			if sc := an.StaticCallee(cc); sc != nil {
				targets = []*ssa.Function{sc}
			} else if sc := an.InvokeConcrete(cc); sc != nil {
				// an interface call on a value whose one dynamic type is in view
				targets = []*ssa.Function{sc}
			} else if fs, ok := resolve(cc.Value, b); ok && !cc.IsInvoke() {
				targets = fs
			} else {
				targets = site[ci]
			}
			for _, g := range targets {
				if g == nil {
					continue
				}
				nb := bindings{}
				if !cc.IsInvoke() && len(g.Params) == len(cc.Args) {
					for i, a := range cc.Args {
						if _, isFn := g.Params[i].Type().Underlying().(*types.Signature); !isFn {
							continue
						}
						if fs, ok := resolve(a, b); ok {
							nb[g.Params[i]] = fs
						}
					}
				}
				visit(g, nb)
			}
		})
	}
	visit(root, bindings{})
	return order
}

func publishRoot(c *core.Ctx) *ssa.Function {
	return c.P.Method(c.P.Root, "subscribers", "Publish")
}

func runPubRO(c *core.Ctx) {
	P := c.P
	pub := publishRoot(c)
	if pub == nil {
		c.NoAnchor(nil, "subscribers.Publish")
		return
	}
	fns := moduleReach(c, pub)
	c.CountFuncs(len(fns))
	var bad []string
	for _, fn := range fns {
		an.Instrs(fn, func(in ssa.Instruction) {
			switch x := in.(type) {
			case *ssa.Store:
				root, _ := rootOfAddr(x.Addr)
				if !localRoot(root) {
					bad = append(bad, fmt.Sprintf("%s stores to %s (%s)", fname(c, fn), clip(an.PathOf(x.Addr), 40), P.Pos(x.Pos())))
				}
			case *ssa.MapUpdate:
				root, _ := rootOfAddr(x.Map)
				if !localRoot(root) {
					bad = append(bad, fmt.Sprintf("%s updates map %s (%s)", fname(c, fn), clip(an.PathOf(x.Map), 40), P.Pos(x.Pos())))
				}
			}
		})
	}
	c.CountSites(len(fns))
	c.Check(len(bad) == 0, nil, fname(c, pub), "publish-region/writes", P.Pos(pub.Pos()),
		fmt.Sprintf("%d module functions reachable from Publish store only to memory they allocate: concurrent publishers need only the read lock", len(fns)),
		"a function reachable from Publish writes shared memory while only the read lock is held: "+strings.Join(bad, "; "))
}

// PUB-ALL (closed world): on the way from Publish to the per-subscriber
// non-blocking send every loop that (directly or through a callback) leads to a
// delivery runs over all its elements — its only exit is the loop condition.
// A `return`/`break` from the body (stop at the first full buffer, first match,
// first error …) leaves the remaining subscribers without the event although
// their own buffers have room.
func runPubAll(c *core.Ctx) {
	P := c.P
	pub := publishRoot(c)
	if pub == nil {
		c.NoAnchor(nil, "subscribers.Publish")
		return
	}
	delivers := func(f *ssa.Function) bool {
		for _, g := range moduleReach(c, f) {
			for _, op := range an.ChanOps(g) {
				if op.Kind == an.OpSelect && !op.Select.Blocking {
					for _, st := range op.Select.States {
						if st.Dir == types.SendOnly {
							return true
						}
					}
				}
			}
		}
		return false
	}
	fns := moduleReach(c, pub)
	var bad []string
	nLoops := 0
	for _, fn := range fns {
		if !delivers(fn) {
			continue
		}
		c.CountFuncs(1)
		for _, h := range fn.Blocks {
			if len(an.Latches(h)) == 0 {
				continue
			}
			body := an.LoopBlocks(h)
			// only loops whose body can lead to a delivery
			leads := false
			for b := range body {
				for _, in := range b.Instrs {
					ci, ok := in.(ssa.CallInstruction)
					if !ok {
						continue
					}
					if sc := an.StaticCallee(ci.Common()); sc != nil {
						if P.InModule(sc) && delivers(sc) {
							leads = true
						}
					} else if _, isB := ci.Common().Value.(*ssa.Builtin); !isB {
						leads = true // a callback or interface method
					}
				}
			}
			if !leads {
				continue
			}
			nLoops++
			for b := range body {
				if b == h {
					continue
				}
				for _, s := range b.Succs {
					if !body[s] {
						bad = append(bad, fmt.Sprintf("%s leaves its loop early at %s", fname(c, fn), P.Pos(an.LastInstr(b).Pos())))
					}
				}
			}
		}
	}
	c.CountSites(nLoops)
	if nLoops == 0 {
		c.NoAnchor(nil, "loops between Publish and the per-subscriber send")
		return
	}
	sort.Strings(bad)
	c.Check(len(bad) == 0, nil, fname(c, pub), "publish-region/complete-walk", P.Pos(pub.Pos()),
		fmt.Sprintf("%d loop(s) between Publish and the per-subscriber send, each left only when its elements are exhausted: every registered subscriber is offered the event", nLoops),
		"the walk over the registered subscribers can stop early ("+strings.Join(bad, "; ")+"): subscribers behind that point miss the event although their own buffer has room")
}

func runPubNB(c *core.Ctx) {
	P := c.P
	pub := publishRoot(c)
	if pub == nil {
		c.NoAnchor(nil, "subscribers.Publish")
		return
	}
	fns := moduleReach(c, pub)
	c.CountFuncs(len(fns))
	// what runs inside the walk (the function literals handed to the table's Loop, and everything they
	// reach) runs under the table's read lock
	underWalk := map[*ssa.Function]bool{}
	for _, fn := range fns {
		if fn.Parent() != nil {
			for _, g := range moduleReach(c, fn) {
				underWalk[g] = true
			}
		}
	}
	var bad []string
	for _, fn := range fns {
		for _, op := range an.ChanOps(fn) {
			switch op.Kind {
			case an.OpSend:
				bad = append(bad, fname(c, fn)+" sends on "+shortChan(op.Chan)+" ("+P.Pos(op.Instr.Pos())+")")
			case an.OpRecv:
				bad = append(bad, fname(c, fn)+" receives from "+shortChan(op.Chan)+" ("+P.Pos(op.Instr.Pos())+")")
			case an.OpSelect:
				if op.Select.Blocking {
					bad = append(bad, fname(c, fn)+" has a blocking select ("+P.Pos(op.Instr.Pos())+")")
				}
			}
		}
		for _, ci := range calls(fn) {
			n := an.CalleeName(ci.Common())
			if n == "(*sync.RWMutex).Lock" || n == "(*sync.Mutex).Lock" {
				// a table update made after the walk, outside its read lock (`for _, id := range gone {
				// subs.UnsubscribeAll(id) }`), by a method of the table type that does nothing but the update:
				// it waits for other walkers and updates, none of which waits for a subscriber
				if !underWalk[fn] && recvTypeName(fn) == "safeMap" && len(an.ChanOps(fn)) == 0 && onlyLockAndBuiltinCalls(fn) {
					continue
				}
				bad = append(bad, fname(c, fn)+" takes an exclusive lock ("+P.Pos(ci.Pos())+")")
			}
			if strings.HasSuffix(n, "Handler.ServeNostr") {
				bad = append(bad, fname(c, fn)+" calls into a handler ("+P.Pos(ci.Pos())+")")
			}
		}
	}
	c.Check(len(bad) == 0, nil, fname(c, pub), "publish-region/blocking", P.Pos(pub.Pos()),
		fmt.Sprintf("%d module functions reachable from Publish: no bare send/receive, no blocking select, no exclusive lock, no handler call — a stalled subscriber cannot delay a publisher", len(fns)),
		"the publish path can block: "+strings.Join(bad, "; ")+": one subscriber that stops reading stalls every publisher (and everything waiting for the registry lock)")
}

// addrSuffix names the written location relative to the event: ".Tags[*]",
// ".ID", "" (whole struct).
func addrSuffix(v ssa.Value) string {
	switch x := v.(type) {
	case *ssa.FieldAddr:
		if n, s := structOf(x); n != nil && n.Obj().Name() == "Event" {
			return "." + an.FieldNameHook(s, x.Field)
		}
		return addrSuffix(x.X)
	case *ssa.IndexAddr:
		return addrSuffix(x.X) + "[*]"
	case *ssa.UnOp:
		return addrSuffix(x.X)
	}
	return ""
}

// onlyNilTested: every use of the field address is a load whose value is only compared with nil.
// receiverUnused: the module method never refers to its receiver
func receiverUnused(c *core.Ctx, fn *ssa.Function) bool {
	if fn == nil || !c.P.InModule(fn) || len(fn.Blocks) == 0 || fn.Signature.Recv() == nil || len(fn.Params) == 0 {
		return false
	}
	refs := fn.Params[0].Referrers()
	if refs == nil {
		return true
	}
	for _, r := range *refs {
		if _, dbg := r.(*ssa.DebugRef); !dbg {
			return false
		}
	}
	return true
}

// onlyStatelessCalls: every use of the field is a load whose value is only the receiver of calls
// of methods that never refer to their receiver
func onlyStatelessCalls(c *core.Ctx, fa *ssa.FieldAddr) bool {
	if fa.Referrers() == nil || len(*fa.Referrers()) == 0 {
		return false
	}
	for _, r := range *fa.Referrers() {
		u, ok := r.(*ssa.UnOp)
		if !ok || u.Op != token.MUL || u.Referrers() == nil || len(*u.Referrers()) == 0 {
			return false
		}
		for _, r2 := range *u.Referrers() {
			if _, dbg := r2.(*ssa.DebugRef); dbg {
				continue
			}
			call, ok := r2.(*ssa.Call)
			if !ok || len(call.Call.Args) == 0 || call.Call.Args[0] != ssa.Value(u) {
				return false
			}
			for _, a := range call.Call.Args[1:] {
				if a == ssa.Value(u) {
					return false
				}
			}
			if !receiverUnused(c, an.StaticCallee(&call.Call)) {
				return false
			}
		}
	}
	return true
}

func onlyNilTested(fa *ssa.FieldAddr) bool {
	if fa.Referrers() == nil || len(*fa.Referrers()) == 0 {
		return false
	}
	for _, r := range *fa.Referrers() {
		u, ok := r.(*ssa.UnOp)
		if !ok || u.Op != token.MUL || u.Referrers() == nil || len(*u.Referrers()) == 0 {
			return false
		}
		for _, r2 := range *u.Referrers() {
			b, ok := r2.(*ssa.BinOp)
			if !ok || (b.Op != token.EQL && b.Op != token.NEQ) || !(an.IsNilConst(b.X) || an.IsNilConst(b.Y)) {
				return false
			}
		}
	}
	return true
}

// funcCellCalledSynchronously: cell (an Alloc, or the FreeVar a closure sees it as) holds a function
// value; every use of the cell is the store that fills it, a load whose value is only called
// synchronously, or its capture by a closure that is only called synchronously and treats it alike.
func funcCellCalledSynchronously(cell ssa.Value, depth int) bool {
	if depth > 8 || cell.Referrers() == nil {
		return false
	}
	for _, r := range *cell.Referrers() {
		switch x := r.(type) {
		case *ssa.DebugRef:
		case *ssa.Store:
			if x.Addr != cell {
				return false
			}
		case *ssa.UnOp:
			if x.Op != token.MUL || !closureCalledSynchronously(x, depth+1) {
				return false
			}
		case *ssa.MakeClosure:
			fn, _ := x.Fn.(*ssa.Function)
			if fn == nil || !closureCalledSynchronously(x, depth+1) {
				return false
			}
			for i, b := range x.Bindings {
				if b == cell && (i >= len(fn.FreeVars) || !funcCellCalledSynchronously(fn.FreeVars[i], depth+1)) {
					return false
				}
			}
		default:
			return false
		}
	}
	return true
}

// onlyLockAndBuiltinCalls: fn calls nothing but sync lock operations and builtins (a plain table update).
func onlyLockAndBuiltinCalls(fn *ssa.Function) bool {
	for _, ci := range calls(fn) {
		if _, isB := ci.Common().Value.(*ssa.Builtin); isB {
			continue
		}
		if strings.HasPrefix(an.CalleeName(ci.Common()), "(*sync.") {
			continue
		}
		return false
	}
	return true
}
