package rules

import (
	"fmt"
	"go/token"
	"go/types"
	"regexp"
	"strconv"
	"strings"

	"golang.org/x/tools/go/ssa"

	"mocverif/internal/an"
	"mocverif/internal/core"
)

func init() {
	reg(&core.RuleInfo{Name: "SQL-TOMB", Props: []string{"C06"}, Engine: "PROV", Floor: 2, Confirmed: 3,
		Doc: "tombstone sub-selects bind tombstone pubkey to the event's pubkey and are applied to every filter", Run: runSQLTomb})
	reg(&core.RuleInfo{Name: "SQL-COL", Props: []string{"C06"}, Engine: "PROV", Floor: 6, Confirmed: 8,
		Doc: "insert columns ↔ parameter provenance; select ↔ scan ↔ convert field-wise", Run: runSQLCol})
	reg(&core.RuleInfo{Name: "SQL-HASH", Props: []string{"C06"}, Engine: "PROV", Floor: 2, Confirmed: 2,
		Doc: "writer and reader hash the same tag shape; tombstone key = addressable key shape", Run: runSQLHash})
	reg(&core.RuleInfo{Name: "KIND-PART-SQL", Props: []string{"C06", "C14"}, Engine: "INT", Floor: 2, Confirmed: 2,
		Doc: "the upsert's kind predicate is replaceable ∪ addressable, conjoined with newest-wins", Run: runKindPartSQL})
	reg(&core.RuleInfo{Name: "ORD-SQL", Props: []string{"C06"}, Engine: "TAB", Floor: 2, Confirmed: 2,
		Doc: "outer select and per-filter sub-selects order by created_at descending", Run: runOrdSQL})
}

var colRe = regexp.MustCompile(`IdentifierExpression\.Col\((.*?),const:"(\w+)"\)`)

// sqlCol extracts (owner, column) from the provenance of a goqu column
// expression: owner is the table name constant or a parameter path.
func sqlCol(p string) (owner, col string) {
	// innermost Col(...)
	i := strings.LastIndex(p, "Expression.Col(")
	skip := len("Expression.Col(")
	if i < 0 {
		// through a narrow interface of the module (`type eventsTable interface{ Col(any) exp.IdentifierExpression }`)
		i = strings.LastIndex(p, ".Col(")
		skip = len(".Col(")
	}
	if i < 0 {
		return "", ""
	}
	rest := p[i+skip:]
	j := strings.LastIndex(rest, `,const:"`)
	if j < 0 {
		return "", ""
	}
	owner = rest[:j]
	col = rest[j+len(`,const:"`):]
	if k := strings.Index(col, `"`); k >= 0 {
		col = col[:k]
	}
	if m := regexp.MustCompile(`Sprintf\(const:"(\w+)%d"`).FindStringSubmatch(owner); m != nil {
		owner = m[1] // a per-iteration alias of the events table
	} else if m := regexp.MustCompile(`\.As\([^,]*,const:"(\w+)"\)`).FindStringSubmatch(owner); m != nil {
		owner = m[1]
	} else if m := regexp.MustCompile(`goqu/v9\.T\(const:"(\w+)"\)`).FindStringSubmatch(owner); m != nil {
		owner = m[1]
	}
	return
}

func runSQLTomb(c *core.Ctx) {
	P := c.P
	build := P.Func(P.Sqlite, "buildEventQuery")
	if build == nil {
		c.NoAnchor(nil, "sqlite.buildEventQuery")
		return
	}
	// the helper: a module function building 'not exists' over the tombstone tables
	var helper *ssa.Function
	for _, fn := range sqliteFuncs(c) {
		found := false
		an.Instrs(fn, func(in ssa.Instruction) {
			if call, ok := in.(*ssa.Call); ok {
				for _, a := range call.Call.Args {
					if s, ok := an.ConstStr(a); ok && s == "deleted_event_ids" {
						found = true
					}
				}
			}
		})
		if found {
			helper = fn
		}
	}
	if helper == nil {
		c.Bad(nil, fname(c, build), "tombstone-helper", P.Pos(build.Pos()), "no query fragment consults deleted_event_ids / deleted_event_keys: deleted events are returned")
		return
	}
	c.CountFuncs(2)
	// equalities inside the helper: tombstone column = parameter
	eqs := map[string]string{} // "table.col" → rhs path
	for _, ci := range calls(helper) {
		com := ci.Common()
		if !com.IsInvoke() || com.Method.Name() != "Eq" || len(com.Args) != 1 {
			continue
		}
		o, col := sqlCol(an.PathOf(com.Value))
		eqs[o+"."+col] = an.PathOf(com.Args[0])
	}
	c.CountSites(len(eqs))
	par := func(i int) string { return "p:" + helper.Params[i].Name() }
	// the parameter roles are fixed by the call site below: (dataset, event_key col, id col, pubkey col)
	var call *ssa.Call
	for _, cl := range callsTo(build, helper) {
		call = cl
	}
	if call == nil {
		c.Bad(nil, fname(c, build), "tombstone-applied", P.Pos(build.Pos()), "the tombstone fragment is never applied to the per-filter sub-selects")
		return
	}
	role := map[string]int{}
	alias := ""
	for i, a := range call.Call.Args {
		o, col := sqlCol(an.PathOf(a))
		if col != "" {
			role[col] = i
			alias = o
		}
	}
	want := map[string]string{}
	if i, ok := role["event_key"]; ok {
		want["deleted_event_keys.event_key"] = par(i)
	}
	if i, ok := role["id"]; ok {
		want["deleted_event_ids.id"] = par(i)
	}
	if i, ok := role["pubkey"]; ok {
		want["deleted_event_keys.pubkey"] = par(i)
		want["deleted_event_ids.pubkey"] = par(i)
	}
	var problems []string
	for k, w := range want {
		if eqs[k] != w {
			problems = append(problems, fmt.Sprintf("%s = %s, want %s", k, eqs[k], w))
		}
	}
	if len(want) != 4 {
		// the helper may be handed the events table (alias) itself and take the three columns off
		// it: each equality is then read in the builder's terms — tombstone column = the like-named
		// column of one and the same alias
		problems = nil
		owners := map[string]bool{}
		n := 0
		for _, ci := range calls(helper) {
			com := ci.Common()
			if !com.IsInvoke() || com.Method.Name() != "Eq" || len(com.Args) != 1 {
				continue
			}
			lo, lcol := sqlCol(an.PathOf(com.Value))
			ro, rcol := sqlCol(an.PathOfIn(com.Args[0], &call.Call))
			if !strings.HasPrefix(lo, "deleted_event_") {
				continue
			}
			n++
			owners[ro] = true
			if rcol != lcol || ro == "" || strings.HasPrefix(ro, "deleted_event_") {
				problems = append(problems, fmt.Sprintf("%s.%s = %s.%s", lo, lcol, ro, rcol))
			}
			alias = ro
		}
		got := map[string]bool{}
		for k := range eqs {
			got[k] = true
		}
		for _, k := range []string{"deleted_event_keys.event_key", "deleted_event_keys.pubkey", "deleted_event_ids.id", "deleted_event_ids.pubkey"} {
			if !got[k] {
				problems = append(problems, "no equality on "+k)
			}
		}
		if len(owners) != 1 {
			problems = append(problems, fmt.Sprintf("the tombstone columns are compared with columns of %d different tables", len(owners)))
		}
		if n != 4 {
			problems = append(problems, fmt.Sprintf("%d equalities on tombstone columns, want 4", n))
		}
	}
	c.Check(len(problems) == 0, nil, fname(c, helper), "tombstone-equalities", P.Pos(helper.Pos()),
		"not exists(deleted_event_keys: event_key = e.event_key ∧ pubkey = e.pubkey) ∧ not exists(deleted_event_ids: id = e.id ∧ pubkey = e.pubkey)",
		"tombstone sub-selects do not bind the tombstone to the event's own key/id and author: "+strings.Join(problems, "; ")+" — one author's deletion request hides another author's event, or none")
	// applied to each per-filter sub-select: the call's result flows into the appended sub-select
	okApplied := an.InLoop(call.Block()) && strings.Contains(alias, "esub")
	var app *ssa.Call
	an.Instrs(build, func(in ssa.Instruction) {
		if cl, ok := in.(*ssa.Call); ok {
			if b, ok := cl.Call.Value.(*ssa.Builtin); ok && b.Name() == "append" && an.InLoop(cl.Block()) && (strings.Contains(an.PathOf(cl.Call.Args[1]), an.FuncFullName(helper)) || strings.Contains(an.PathOf(cl.Call.Args[1]), `const:"deleted_event_ids"`)) {
				// same iteration: the call dominates the append inside the filter loop
				if an.LoopBlocks(an.LoopHeaderOf(call.Block()))[cl.Block()] && an.InstrDominates(call, cl) {
					app = cl
				}
			}
		}
	})
	c.Check(okApplied && app != nil, nil, fname(c, build), "tombstone-applied", P.Pos(call.Pos()),
		"every per-filter sub-select that is collected went through the tombstone fragment (with its own event alias)", "a per-filter sub-select is collected without the tombstone fragment")
}

// insertColumns parses "insert into T ( a, b, c ) values".
func insertColumns(q string) (string, []string) {
	m := regexp.MustCompile(`(?is)insert\s+into\s+(\w+)\s*\(([^)]*)\)`).FindStringSubmatch(q)
	if m == nil {
		return "", nil
	}
	var cols []string
	for _, c := range strings.Split(m[2], ",") {
		cols = append(cols, strings.TrimSpace(c))
	}
	return m[1], cols
}

// colProvenance: what the parameter bound to a column must be derived from.
func colProvenanceOK(table, col, p string) bool {
	hexOf := func(f string) bool { return strings.Contains(p, "encoding/hex.DecodeString(p:event."+f+")") }
	switch col {
	case "event_key":
		if strings.HasPrefix(table, "deleted_") {
			return strings.Contains(p, "Sum32")
		}
		return p == "p:eventKey" || (strings.HasPrefix(p, "call:") && strings.Contains(p, ".getEventKey("))
	case "id":
		if table == "deleted_event_ids" {
			return strings.Contains(p, "encoding/hex.DecodeString(p:event.Tags[*][1])")
		}
		return hexOf("ID")
	case "pubkey":
		return hexOf("Pubkey")
	case "created_at":
		return p == "p:event.CreatedAt"
	case "kind":
		return p == "p:event.Kind"
	case "content":
		return p == "p:event.Content"
	case "sig":
		return hexOf("Sig")
	case "tags":
		return strings.Contains(p, "encoding/json.Marshal(p:event.Tags)")
	case "tag_hash":
		return strings.Contains(p, "crypto/md5.Sum(")
	}
	return false
}

func runSQLCol(c *core.Ctx) {
	P := c.P
	fn, begin := txFunc(c)
	if fn == nil {
		c.NoAnchor(nil, "sqlite transaction function")
		return
	}
	// params struct literal: field → builder function
	var lit *ssa.Alloc
	var host *ssa.Function
	for _, f := range sqliteFuncs(c) {
		an.Instrs(f, func(in ssa.Instruction) {
			if a, ok := in.(*ssa.Alloc); ok && typeNameOf(a.Type()) == "insertEventsParams" && len(an.StructLitFields(a)) >= 3 {
				lit, host = a, f
			}
		})
	}
	if lit == nil {
		c.NoAnchor(nil, "insertEventsParams literal")
		return
	}
	fields := an.StructLitFields(lit)
	for _, o := range an.RegionCalls(fn, nil, "(*database/sql.Stmt).ExecContext") {
		call := o.In.(*ssa.Call)
		q, ok := stmtQuery(o.Resolve(call.Call.Args[0]), begin)
		if !ok {
			continue
		}
		table, cols := insertColumns(q)
		c.CountSites(1)
		// which field of the params struct feeds this Exec
		ap := o.Path(call.Call.Args[2])
		field := ""
		for f := range fields {
			if strings.Contains(ap, "."+f) {
				if len(f) > len(field) {
					field = f
				}
			}
		}
		construct := "insert[" + table + "]"
		if field == "" {
			c.Unknown(nil, fname(c, fn), construct, P.Pos(call.Pos()), "parameters of the statement do not come from a field of the batch parameter struct: "+ap)
			continue
		}
		bcall := an.CallOf(fields[field])
		if bcall == nil {
			c.Unknown(nil, fname(c, host), construct, P.Pos(lit.Pos()), "field "+field+" is not the result of a builder function")
			continue
		}
		builder := an.StaticCallee(&bcall.Call)
		// key parameter of the builder is the event key computed for this event
		elems := builderRow(builder)
		if elems == nil {
			c.Unknown(nil, fname(c, builder), construct, P.Pos(builder.Pos()), "row literal of the builder not recognised")
			continue
		}
		var got []string
		good := len(elems) == len(cols)
		for i, e := range elems {
			p := an.PathOf(e)
			// a value the caller computed once and handed in (`pubkeyBin`, the author decoded a single
			// time for all rows of an event): what the call site passes, with the event it passes
			// along named as the builder names it
			if pr, isPar := an.Unwrap(e).(*ssa.Parameter); isPar && pr.Parent() == builder && typeNameOf(pr.Type()) != "Event" && pr.Name() != "eventKey" {
				evArg, evName := "", ""
				for j, q := range builder.Params {
					if typeNameOf(q.Type()) == "Event" && j < len(bcall.Call.Args) {
						evArg, evName = an.PathOf(bcall.Call.Args[j]), "p:"+q.Name()
					}
				}
				for j, q := range builder.Params {
					if q == pr && j < len(bcall.Call.Args) && evArg != "" {
						p = strings.ReplaceAll(an.PathOf(bcall.Call.Args[j]), evArg, evName)
					}
				}
			}
			got = append(got, clip(p, 60))
			// a value computed by a module helper: what the helper returns, in the builder's terms
			if hc, ok := an.Unwrap(e).(*ssa.Call); ok {
				if g := an.StaticCallee(&hc.Call); g != nil && P.InModule(g) && len(g.Blocks) > 0 {
					for _, rb := range an.ReturnBlocks(g) {
						if rv := an.ReturnValues(an.LastInstr(rb).(*ssa.Return)); len(rv) == 1 {
							p += " ← " + an.PathOfIn(rv[0], &hc.Call)
						}
					}
				}
			}
			if i < len(cols) && !colProvenanceOK(table, cols[i], p) {
				good = false
			}
		}
		// eventKey argument at the builder's call site = the key function's result
		if good {
			for i, par := range builder.Params {
				if par.Name() == "eventKey" {
					if !strings.Contains(an.PathOf(bcall.Call.Args[i]), "getEventKey(") {
						good = false
						got = append(got, "eventKey argument ← "+an.PathOf(bcall.Call.Args[i]))
					}
				}
			}
		}
		c.Check(good, nil, fname(c, builder), construct, P.Pos(builder.Pos()), fmt.Sprintf("columns %v ← %v", cols, got),
			fmt.Sprintf("columns %v are bound to %v: position-wise provenance mismatch — a stored event would come back with swapped or foreign fields", cols, got))
	}
	// select ↔ scan ↔ toEvent
	build := P.Func(P.Sqlite, "buildEventQuery")
	var selCols []string
	if build != nil {
		for _, ci := range calls(build) {
			if call, ok := ci.(*ssa.Call); ok && strings.HasSuffix(an.CalleeName(&call.Call), "DialectWrapper).Select") {
				if elems, ok := an.VariadicElems(call.Call.Args[1]); ok && len(elems) > len(selCols) {
					selCols = nil
					for _, e := range elems {
						_, col := sqlCol(an.PathOf(e))
						selCols = append(selCols, col)
					}
				}
			}
		}
	}
	var scanFields []string
	for _, f := range sqliteFuncs(c) {
		for _, call := range callsNamed(f, "(*database/sql.Rows).Scan") {
			if elems, ok := an.VariadicElems(call.Call.Args[1]); ok {
				for _, e := range elems {
					if fa, ok := an.Unwrap(e).(*ssa.FieldAddr); ok {
						scanFields = append(scanFields, fieldNameOf(fa))
					}
				}
			}
		}
	}
	snake := func(s string) string {
		var b strings.Builder
		for i, r := range s {
			if r >= 'A' && r <= 'Z' {
				if i > 0 && !(s[i-1] >= 'A' && s[i-1] <= 'Z') {
					b.WriteByte('_')
				}
				b.WriteRune(r + 32)
			} else {
				b.WriteRune(r)
			}
		}
		return b.String()
	}
	okScan := len(selCols) == 7 && len(scanFields) == 7
	for i := range selCols {
		if i < len(scanFields) && snake(scanFields[i]) != selCols[i] {
			okScan = false
		}
	}
	c.Check(okScan, nil, "sqlite.fetchRawEvent", "select↔scan", "-", fmt.Sprintf("Select%v is scanned into %v position by position", selCols, scanFields), fmt.Sprintf("selected columns %v are scanned into fields %v: order mismatch", selCols, scanFields))
	// toEvent: each Event field from the like-named raw field
	var conv *ssa.Function
	for _, f := range sqliteFuncs(c) {
		if recvTypeName(f) == "rawEvent" {
			conv = f
		}
	}
	if conv == nil {
		c.NoAnchor(nil, "rawEvent → Event conversion")
		return
	}
	var evLit *ssa.Alloc
	an.Instrs(conv, func(in ssa.Instruction) {
		if a, ok := in.(*ssa.Alloc); ok && typeNameOf(a.Type()) == "Event" {
			evLit = a
		}
	})
	okConv := evLit != nil
	var detail []string
	if evLit != nil {
		fs := an.StructLitFields(evLit)
		for _, f := range []string{"ID", "Pubkey", "CreatedAt", "Kind", "Tags", "Content", "Sig"} {
			v, has := fs[f]
			if !has {
				okConv = false
				detail = append(detail, f+" not set")
				continue
			}
			p := an.PathOf(v)
			src := "recv." + f
			if f == "Tags" {
				// decoded from r.Tags by json.Unmarshal into the local that is stored
				um := false
				for _, call := range callsNamed(conv, "encoding/json.Unmarshal") {
					if an.PathOf(call.Call.Args[0]) == src {
						um = true
					}
				}
				if !um {
					okConv = false
					detail = append(detail, "Tags not decoded from the tags column")
				}
				continue
			}
			if !strings.Contains(p, src) || strings.Count(p, "recv.") != 1 {
				okConv = false
				detail = append(detail, f+" ← "+p)
			}
		}
	}
	c.Check(okConv, nil, fname(c, conv), "convert", P.Pos(conv.Pos()), "each of the 7 Event fields is rebuilt from the like-named column", "returned events are not field-wise identical to what was stored: "+strings.Join(detail, "; "))
}

// builderRow: the elements of the []any row literal a builder returns (or
// appends to its [][]any result).
func builderRow(fn *ssa.Function) []ssa.Value {
	var best []ssa.Value
	an.Instrs(fn, func(in ssa.Instruction) {
		sl, ok := in.(*ssa.Slice)
		if !ok {
			return
		}
		// (not the argument list of a formatting call: `fmt.Errorf("… %q: %w", tag[1], err)` is a []any too)
		if sl.Referrers() != nil {
			for _, r := range *sl.Referrers() {
				if ci, isCI := r.(ssa.CallInstruction); isCI {
					n := an.CalleeName(ci.Common())
					if strings.HasPrefix(n, "fmt.") || strings.HasPrefix(n, "log.") || strings.HasPrefix(n, "errors.") || strings.Contains(n, "log/slog") {
						return
					}
				}
			}
		}
		if elems, ok := an.VariadicElems(sl); ok && len(elems) >= 2 {
			// row literals hold interface values
			if _, isIface := elems[0].Type().Underlying().(interface{ NumMethods() int }); isIface && len(elems) > len(best) {
				best = elems
			}
		}
	})
	return best
}

func runSQLHash(c *core.Ctx) {
	P := c.P
	var shapes []string
	var where []string
	for _, fn := range sqliteFuncs(c) {
		for _, call := range callsNamed(fn, "crypto/md5.Sum") {
			c.CountSites(1)
			arg := an.Unwrap(call.Call.Args[0])
			b, ok := arg.(*ssa.BinOp)
			if !ok {
				shapes = append(shapes, "?"+an.PathOf(arg))
				continue
			}
			cls := func(v ssa.Value) string {
				p := an.PathOf(v)
				switch {
				case strings.HasSuffix(p, "[*][0]") || strings.HasPrefix(p, "rangekey("):
					return "name"
				case strings.Contains(p, "[*][1]") || strings.HasPrefix(p, "rangeval("):
					return "value"
				}
				return "?" + p
			}
			shapes = append(shapes, cls(b.X)+"+"+cls(b.Y))
			where = append(where, fname(c, fn))
		}
	}
	okTag := len(shapes) == 2 && shapes[0] == "name+value" && shapes[1] == "name+value"
	c.Check(okTag, nil, "sqlite", "tag_hash", "-", fmt.Sprintf("writer and reader both hash md5(name+value) (%v)", where), fmt.Sprintf("tag hash shapes %v in %v: writer and reader disagree, so #x conditions never match stored tags", shapes, where))
	// tombstone key vs addressable key: same expression over (hash(pubkey), hash(address)), same seed
	key := P.Func(P.Sqlite, "getEventKey")
	// the tombstone builder: a row whose key hashes a tag value of the deletion event
	var tomb *ssa.Function
	for _, fn := range sqliteFuncs(c) {
		if fn == key || fn.Parent() != nil {
			continue
		}
		if row := builderRow(fn); len(row) > 0 {
			shape, _, vals := hashKeyDescr(fn, row[0], nil)
			if !strings.Contains(shape, "<<") {
				continue
			}
			for _, w := range vals {
				if strings.HasSuffix(w.path, ".Tags[*][1]") {
					tomb = fn
				}
			}
		}
	}
	if key == nil || tomb == nil {
		c.NoAnchor(nil, "sqlite key function / address tombstone builder")
		return
	}
	c.CountFuncs(2)
	// key expression shapes: (hash<<32 | hash) over what was written into the hasher,
	// whether computed inline or in a shared module helper (read in the caller's terms).
	// The addressable key is the one fed with two strings: the author and the address
	// kind:author:d — spelled with Sprintf, concatenation, FormatInt, …
	keyShape, keyAddr := "", ""
	for _, rb := range an.ReturnBlocks(key) {
		rv := an.ReturnValues(an.LastInstr(rb).(*ssa.Return))
		// (a key that exists: `true`, or a nil error)
		if len(rv) != 2 || !(isConstBool(rv[1], true) || (types.Identical(rv[1].Type(), types.Universe.Lookup("error").Type()) && an.IsNilConst(rv[1]))) {
			continue
		}
		shape, _, vals := hashKeyDescr(key, rv[0], rb)
		if !strings.Contains(shape, "<<") || len(vals) != 2 {
			continue
		}
		parts := vals[1].parts
		if strings.HasSuffix(vals[0].path, ".Pubkey") && len(parts) == 5 && strings.HasSuffix(parts[0], ".Kind") && parts[1] == `":"` && parts[2] == vals[0].path && parts[3] == `":"` {
			keyShape = shape
		}
		keyAddr = strings.Join(parts, " + ")
	}
	tombShape := ""
	var tombWrites []string
	okW := false
	if row := builderRow(tomb); len(row) > 0 {
		var vals []hashWrite
		tombShape, tombWrites, vals = hashKeyDescr(tomb, row[0], nil)
		// author part = the field after the first ':' of the tag value, address = the whole tag value
		if len(vals) == 2 && strings.HasSuffix(vals[1].path, ".Tags[*][1]") && vals[0].val != nil {
			if src, ok := secondColonField(vals[0].val); ok && an.PathOf(src) == vals[1].path {
				okW = true
			}
		}
	}
	c.Check(keyShape != "" && keyShape == tombShape && okW, nil, fname(c, tomb), "address-key", P.Pos(tomb.Pos()),
		"tombstone key = hash(pubkey part)<<32 | hash(whole address), the same expression as the addressable storage key (address = "+keyAddr+")", fmt.Sprintf("tombstone key %q built from %v vs storage key %q over address %s: an 'a' deletion can never equal the key of the event it references", tombShape, tombWrites, keyShape, keyAddr))
}

// hashWrite: one string fed into the hasher: its value (in the function where
// the key is requested when it is a plain argument of a key helper), its access
// path in that function's terms and its parts when it is put together from pieces.
type hashWrite struct {
	val   ssa.Value
	path  string
	parts []string
}

// strParts: a string built by Sprintf("%d:%s", …), by concatenation, by
// FormatInt/Itoa — as the list of its pieces (literals quoted, values by path).
func strParts(v ssa.Value, path func(ssa.Value) string) []string {
	v = an.Unwrap(v)
	var out []string
	add := func(ps ...string) {
		for _, p := range ps {
			if n := len(out); n > 0 && strings.HasPrefix(p, `"`) && strings.HasPrefix(out[n-1], `"`) {
				out[n-1] = out[n-1][:len(out[n-1])-1] + p[1:]
				continue
			}
			out = append(out, p)
		}
	}
	switch x := v.(type) {
	case *ssa.Const:
		if s, ok := an.ConstStr(x); ok {
			return []string{strconv.Quote(s)}
		}
	case *ssa.BinOp:
		if x.Op == token.ADD {
			add(strParts(x.X, path)...)
			add(strParts(x.Y, path)...)
			return out
		}
	case *ssa.Call:
		switch an.CalleeName(&x.Call) {
		case "strconv.FormatInt":
			if k, ok := an.ConstInt(x.Call.Args[1]); ok && k == 10 {
				return []string{path(unconv(x.Call.Args[0]))}
			}
		case "strconv.Itoa":
			return []string{path(unconv(x.Call.Args[0]))}
		case "fmt.Sprintf":
			format, ok := an.ConstStr(x.Call.Args[0])
			args, ok2 := an.VariadicElems(x.Call.Args[1])
			if !ok || !ok2 {
				break
			}
			ai := 0
			lit := ""
			good := true
			for i := 0; i < len(format); i++ {
				if format[i] != '%' {
					lit += string(format[i])
					continue
				}
				i++
				if i >= len(format) {
					good = false
					break
				}
				switch format[i] {
				case '%':
					lit += "%"
				case 'd', 's', 'v':
					if ai >= len(args) {
						good = false
						break
					}
					if lit != "" {
						add(strconv.Quote(lit))
						lit = ""
					}
					add(path(unconv(an.Unwrap(args[ai]))))
					ai++
				default:
					good = false
				}
			}
			if good && ai == len(args) {
				if lit != "" {
					add(strconv.Quote(lit))
				}
				return out
			}
		}
	}
	return []string{path(v)}
}

func unconv(v ssa.Value) ssa.Value {
	for {
		switch x := v.(type) {
		case *ssa.Convert:
			v = x.X
		case *ssa.ChangeType:
			v = x.X
		case *ssa.MakeInterface:
			v = x.X
		default:
			return v
		}
	}
}

// secondColonField: v is the text between the first and the second ':' of
// some string src — strings.Split(src, ":")[1], SplitN(src, ":", n)[1] with
// n ≥ 3 or n < 0, or Cut(after(Cut(src, ":")), ":") before.
func secondColonField(v ssa.Value) (ssa.Value, bool) {
	v = an.LoadedValue(an.Unwrap(v))
	isColon := func(x ssa.Value) bool { s, ok := an.ConstStr(x); return ok && s == ":" }
	if u, ok := v.(*ssa.UnOp); ok && u.Op == token.MUL {
		if ia, ok := u.X.(*ssa.IndexAddr); ok {
			if k, isK := an.ConstInt(ia.Index); isK && k == 1 {
				if call, ok := an.LoadedValue(an.Unwrap(ia.X)).(*ssa.Call); ok {
					switch an.CalleeName(&call.Call) {
					case "strings.Split":
						if isColon(call.Call.Args[1]) {
							return call.Call.Args[0], true
						}
					case "strings.SplitN":
						if n, isN := an.ConstInt(call.Call.Args[2]); isN && isColon(call.Call.Args[1]) && (n >= 3 || n < 0) {
							return call.Call.Args[0], true
						}
					}
				}
			}
		}
	}
	if ex, ok := v.(*ssa.Extract); ok && ex.Index == 0 {
		if c2, ok := ex.Tuple.(*ssa.Call); ok && an.CalleeName(&c2.Call) == "strings.Cut" && isColon(c2.Call.Args[1]) {
			if ex1, ok := an.LoadedValue(an.Unwrap(c2.Call.Args[0])).(*ssa.Extract); ok && ex1.Index == 1 {
				if c1, ok := ex1.Tuple.(*ssa.Call); ok && an.CalleeName(&c1.Call) == "strings.Cut" && isColon(c1.Call.Args[1]) {
					return c1.Call.Args[0], true
				}
			}
		}
	}
	return nil, false
}

// hashKeyDescr: the shape of a 64-bit key value (hasher sums normalised to H)
// and the strings written into the hasher before it, both in fn's terms. The
// key may be computed inline in fn or by a module helper fn calls.
func hashKeyDescr(fn *ssa.Function, v ssa.Value, at *ssa.BasicBlock) (shape string, writes []string, vals []hashWrite) {
	v = an.Unwrap(v)
	if cv, ok := v.(*ssa.Convert); ok {
		v = an.Unwrap(cv.X)
	}
	if call, ok := v.(*ssa.Call); ok {
		if g := an.StaticCallee(&call.Call); an.InModuleFn(g) {
			for _, rb := range an.ReturnBlocks(g) {
				rv := an.ReturnValues(an.LastInstr(rb).(*ssa.Return))
				if len(rv) == 0 {
					continue
				}
				shape = normHash(an.PathOfIn(rv[0], &call.Call))
				for _, w := range writesBeforeVals(g, rb) {
					hw := hashWrite{path: an.PathOfIn(w, &call.Call)}
					if par, isPar := an.Unwrap(w).(*ssa.Parameter); isPar && len(g.Params) == len(call.Call.Args) {
						for i, gp := range g.Params {
							if gp == par {
								hw.val = call.Call.Args[i]
							}
						}
					}
					if hw.val != nil {
						hw.parts = strParts(hw.val, an.PathOf)
					} else {
						hw.parts = strParts(w, func(x ssa.Value) string { return an.PathOfIn(x, &call.Call) })
					}
					writes = append(writes, hw.path)
					vals = append(vals, hw)
				}
			}
			return shape, writes, vals
		}
	}
	var b *ssa.BasicBlock
	if in, ok := v.(ssa.Instruction); ok {
		b = in.Block()
	} else if v.Parent() != nil {
		b = v.Parent().Blocks[0]
	}
	if at != nil {
		b = at
	}
	if b == nil {
		return an.PathOf(v), nil, nil
	}
	for _, w := range writesBeforeVals(fn, b) {
		writes = append(writes, an.PathOf(w))
		vals = append(vals, hashWrite{val: w, path: an.PathOf(w), parts: strParts(w, an.PathOf)})
	}
	return normHash(an.PathOf(v)), writes, vals
}

func normHash(p string) string {
	return regexp.MustCompile(`call:\(\*[^)]*XXHZero\)\.Sum32\([^)]*\)\)`).ReplaceAllString(p, "H")
}

// writesBefore: arguments of io.WriteString calls in blocks dominating b (in order).
func writesBefore(fn *ssa.Function, b *ssa.BasicBlock) []string {
	var out []string
	for _, w := range writesBeforeVals(fn, b) {
		out = append(out, an.PathOf(w))
	}
	return out
}

func writesBeforeVals(fn *ssa.Function, b *ssa.BasicBlock) []ssa.Value {
	var out []ssa.Value
	for _, ci := range calls(fn) {
		call, ok := ci.(*ssa.Call)
		if !ok || an.CalleeName(&call.Call) != "io.WriteString" {
			continue
		}
		if call.Block() == b || call.Block().Dominates(b) {
			out = append(out, call.Call.Args[1])
		}
	}
	return out
}

// ---------------------------------------------------------------- SQL kind predicate

type sqlTok struct{ kind, text string }

func sqlTokens(s string) []sqlTok {
	var out []sqlTok
	re := regexp.MustCompile(`(?i)\s*(<=|>=|<>|!=|=|<|>|\(|\)|[\w.]+)`)
	for _, m := range re.FindAllStringSubmatch(s, -1) {
		t := m[1]
		switch strings.ToLower(t) {
		case "and", "or":
			out = append(out, sqlTok{strings.ToLower(t), t})
		case "(", ")":
			out = append(out, sqlTok{t, t})
		case "<=", ">=", "<>", "!=", "=", "<", ">":
			out = append(out, sqlTok{"op", t})
		default:
			out = append(out, sqlTok{"id", t})
		}
	}
	return out
}

type sqlParser struct {
	toks    []sqlTok
	pos     int
	subject string
	opaque  []string // other atoms, with nesting depth 0 only
	depth   int
}

func (p *sqlParser) peek() sqlTok {
	if p.pos < len(p.toks) {
		return p.toks[p.pos]
	}
	return sqlTok{"eof", ""}
}

func (p *sqlParser) expr() an.Set {
	s := p.term()
	for p.peek().kind == "or" {
		p.pos++
		s = s.Union(p.term())
	}
	return s
}

func (p *sqlParser) term() an.Set {
	s := p.factor()
	for p.peek().kind == "and" {
		p.pos++
		s = s.Intersect(p.factor())
	}
	return s
}

func (p *sqlParser) factor() an.Set {
	if p.peek().kind == "(" {
		p.pos++
		p.depth++
		s := p.expr()
		p.depth--
		if p.peek().kind == ")" {
			p.pos++
		}
		return s
	}
	l := p.peek()
	p.pos++
	op := p.peek()
	p.pos++
	r := p.peek()
	p.pos++
	toSet := func(o string, k int64) an.Set {
		switch o {
		case "=":
			return an.Range(k, k)
		case "<":
			return an.Range(an.NegInf, k-1)
		case "<=":
			return an.Range(an.NegInf, k)
		case ">":
			return an.Range(k+1, an.PosInf)
		case ">=":
			return an.Range(k, an.PosInf)
		case "<>", "!=":
			return an.Range(k, k).Complement()
		}
		return an.Full()
	}
	flipOp := map[string]string{"<": ">", "<=": ">=", ">": "<", ">=": "<=", "=": "=", "<>": "<>", "!=": "!="}
	if strings.EqualFold(l.text, p.subject) {
		if k, err := strconv.ParseInt(r.text, 10, 64); err == nil {
			return toSet(op.text, k)
		}
	}
	if strings.EqualFold(r.text, p.subject) {
		if k, err := strconv.ParseInt(l.text, 10, 64); err == nil {
			return toSet(flipOp[op.text], k)
		}
	}
	if p.depth == 0 {
		p.opaque = append(p.opaque, strings.ToLower(l.text+" "+op.text+" "+r.text))
	}
	return an.Full()
}

func runKindPartSQL(c *core.Ctx) {
	P := c.P
	fn, begin := txFunc(c)
	if fn == nil {
		c.NoAnchor(nil, "sqlite transaction function")
		return
	}
	q := ""
	for _, call := range callsNamed(fn, "(*database/sql.Stmt).ExecContext") {
		if s, ok := stmtQuery(call.Call.Args[0], begin); ok && strings.Contains(s, "do update") {
			q = s
		}
	}
	if q == "" {
		c.NoAnchor(nil, "upsert statement")
		return
	}
	c.CountSites(1)
	lq := strings.ToLower(q)
	i := strings.LastIndex(lq, "where")
	if i < 0 {
		c.Bad(nil, fname(c, fn), "upsert/where", P.Pos(fn.Pos()), "the upsert has no where clause: any conflicting insert overwrites the stored event (a regular event's row is overwritten by a different event with the same key)")
		return
	}
	p := &sqlParser{toks: sqlTokens(q[i+len("where"):]), subject: "events.kind"}
	set := p.expr()
	want := kindTable["Replaceable"].Union(kindTable["ParamReplaceable"])
	c.Check(set.Equal(want), nil, fname(c, fn), "upsert/kind-predicate", P.Pos(fn.Pos()), "a stored row is replaced only if its kind ∈ "+set.String()+" = replaceable ∪ addressable",
		"the upsert replaces rows whose kind ∈ "+set.String()+", want "+want.String()+" (KIND-PART): a class is replaced that must not be, or a replaceable class is never replaced")
	hasNewest, hasID := false, false
	for _, o := range p.opaque {
		if o == "events.created_at < excluded.created_at" || o == "excluded.created_at > events.created_at" {
			hasNewest = true
		}
		if o == "events.id <> excluded.id" || o == "events.id != excluded.id" {
			hasID = true
		}
	}
	c.Check(hasNewest, nil, fname(c, fn), "upsert/newest-wins", P.Pos(fn.Pos()), "conjoined with events.created_at < excluded.created_at (strictly newer wins; opaque conjuncts: "+strings.Join(p.opaque, "; ")+")",
		"the upsert is not conjoined with 'events.created_at < excluded.created_at' (conjuncts: "+strings.Join(p.opaque, "; ")+"): an older version can displace a newer one")
	_ = hasID
}

func runOrdSQL(c *core.Ctx) {
	P := c.P
	build := P.Func(P.Sqlite, "buildEventQuery")
	if build == nil {
		c.NoAnchor(nil, "sqlite.buildEventQuery")
		return
	}
	c.CountFuncs(1)
	outer, inner := false, false
	n := 0
	for _, ci := range calls(build) {
		call, ok := ci.(*ssa.Call)
		if !ok || !strings.HasSuffix(an.CalleeName(&call.Call), "SelectDataset).Order") {
			continue
		}
		n++
		elems, ok := an.VariadicElems(call.Call.Args[1])
		if !ok || len(elems) != 1 {
			continue
		}
		p := an.PathOf(elems[0])
		_, col := sqlCol(p)
		desc := strings.Contains(p, ".Desc(")
		if col == "created_at" && desc {
			if an.InLoop(call.Block()) {
				inner = true
			} else {
				outer = true
			}
		}
	}
	c.CountSites(n)
	c.Check(outer, nil, fname(c, build), "order/outer", P.Pos(build.Pos()), "the outer select is ordered by created_at descending", "the outer select is not ordered by created_at descending: results are not newest first")
	c.Check(inner, nil, fname(c, build), "order/per-filter", P.Pos(build.Pos()), "each per-filter sub-select is ordered by created_at descending (so its limit keeps the newest)", "a per-filter sub-select is not ordered by created_at descending: its limit keeps arbitrary (not the newest) events")
}

func init() {
	reg(&core.RuleInfo{Name: "SQL-COND", Props: []string{"C06"}, Engine: "PROV", Floor: 4, Confirmed: 4,
		Doc: "each list condition of a filter becomes an IN on its own column, behind the condition's presence test", Run: runSQLCond})
}

func runSQLCond(c *core.Ctx) {
	P := c.P
	build := P.Func(P.Sqlite, "buildEventQuery")
	if build == nil {
		c.NoAnchor(nil, "sqlite.buildEventQuery")
		return
	}
	c.CountFuncs(1)
	filt := "p:" + build.Params[0].Name() + "[*]"
	type in struct {
		col, arg string
		block    *ssa.BasicBlock
		pos      string
		occ      an.Occ
	}
	var ins []in
	an.Region(build, nil, func(o an.Occ) {
		ci, isCI := o.In.(ssa.CallInstruction)
		if !isCI {
			return
		}
		com := ci.Common()
		if !com.IsInvoke() || com.Method.Name() != "In" || len(com.Args) != 1 {
			return
		}
		_, col := sqlCol(o.Path(com.Value))
		elems, _ := an.VariadicElems(com.Args[0])
		arg := o.Path(com.Args[0])
		if len(elems) == 1 {
			arg = o.Path(elems[0])
		}
		ins = append(ins, in{col, arg, o.Block(), P.Pos(o.Site().Pos()), o})
	})
	c.CountSites(len(ins))
	for _, row := range []struct{ field, col, via string }{
		{"IDs", "id", "encoding/hex.DecodeString("},
		{"Authors", "pubkey", "encoding/hex.DecodeString("},
		{"Kinds", "kind", ""},
		{"Tags", "tag_hash", "crypto/md5.Sum("},
	} {
		good := false
		detail := "no IN condition on column " + row.col
		for _, x := range ins {
			if x.col != row.col {
				continue
			}
			detail = "IN on " + row.col + " ← " + clip(x.arg, 80)
			// behind the presence test of this field
			present := false
			for _, g := range an.Guards(build, x.block) {
				if is, nn := nilTest(g.V, filt+"."+row.field); is && g.True == nn {
					present = true
				}
			}
			// (the #x conditions walked entry by entry without a test in front: an entry exists, so
			// the condition is present)
			if !present && row.field == "Tags" && len(x.block.Instrs) > 0 && rangedMapOf(x.block.Instrs[0]) == filt+".Tags" {
				present = true
			}
			// … or behind the same test inside the helper that adds the condition (`if tags == nil { return b }`)
			if inner := x.occ.In; len(x.occ.Chain) > 0 && inner.Parent() != build {
				for _, g := range an.Guards(inner.Parent(), inner.Block()) {
					b, isB := g.V.(*ssa.BinOp)
					if !isB || (b.Op != token.EQL && b.Op != token.NEQ) {
						continue
					}
					other := b.X
					if an.IsNilConst(b.X) {
						other = b.Y
					} else if !an.IsNilConst(b.Y) {
						continue
					}
					if x.occ.Path(other) == filt+"."+row.field && g.True == (b.Op == token.NEQ) {
						present = true
					}
				}
			}
			// the operand is built from this field's elements (a slice filled in a loop over them, or the field itself)
			fromField := x.arg == filt+"."+row.field
			// (… or a list grown by appending, one element of the field at a time: `bins = append(bins, decode(v))`
			// in a loop over the field — elements that cannot be decoded, hence cannot equal a stored value, may be left out)
			if !fromField && strings.Contains(x.arg, "append(") && strings.Contains(x.arg, filt+"."+row.field+"[*]") && (row.via == "" || strings.Contains(x.arg, row.via)) {
				fromField = true
			}
			if !fromField {
				an.Region(build, nil, func(o an.Occ) {
					st, ok := o.In.(*ssa.Store)
					if !ok {
						return
					}
					ia, ok := st.Addr.(*ssa.IndexAddr)
					if !ok || o.Path(ia.X) != x.arg {
						return
					}
					vp := o.Path(st.Val)
					if strings.Contains(vp, filt+"."+row.field) || (row.field == "Tags" && strings.Contains(vp, "rangeval("+filt+".Tags)")) {
						if row.via == "" || strings.Contains(vp, row.via) {
							fromField = true
						}
					}
				})
			}
			if present && fromField {
				good = true
			} else {
				detail += fmt.Sprintf(" (behind '%s != nil': %v, built from the field's elements: %v)", row.field, present, fromField)
			}
		}
		c.Check(good, nil, fname(c, build), "condition("+row.field+")", P.Pos(build.Pos()), "a present "+row.field+" condition becomes "+row.col+" IN (its elements)", "a present "+row.field+" condition is not translated into an IN on column "+row.col+" built from its elements: "+detail+" — the condition is ignored by stored queries")
	}
}
