package rules

import (
	"fmt"
	"go/types"
	"regexp"
	"strings"

	"golang.org/x/tools/go/ssa"

	"mocverif/internal/an"
	"mocverif/internal/core"
)

func init() {
	reg(&core.RuleInfo{Name: "LABEL", Props: []string{"C07", "C09", "C16", "C17", "C18"}, Engine: "PROV", Floor: 25, Confirmed: 33,
		Doc: "every reply constructor is labelled with the id of the request it answers", Run: runLabel})
	reg(&core.RuleInfo{Name: "SUB-SYNC", Props: []string{"C07"}, Engine: "CFG", Floor: 3, Confirmed: 3,
		Doc: "Subscribe / Publish / Unsubscribe run synchronously before the reply, with the right ids", Run: runSubSync})
	reg(&core.RuleInfo{Name: "SUB-KEY", Props: []string{"C07"}, Engine: "PROV", Floor: 4, Confirmed: 5,
		Doc: "the registry is keyed connection id, then subscription id", Run: runSubKey})
	reg(&core.RuleInfo{Name: "BUF", Props: []string{"C07"}, Engine: "CHAN", Floor: 2, Confirmed: 2,
		Doc: "per-connection queue has the configured capacity and a single receiver", Run: runBuf})
}

var idCtors = map[string]string{
	"NewServerOKMsg":      "Event.ID",
	"NewServerEOSEMsg":    "SubscriptionID",
	"NewServerEventMsg":   "SubscriptionID",
	"NewServerClosedMsg":  "SubscriptionID",
	"NewServerClosedMsgf": "SubscriptionID",
	"NewServerCountMsg":   "SubscriptionID",
}

// labelExceptions: frozen, with reasons.
var labelExceptions = map[string]string{
	"(*mocrelay.subscriber).SendIfMatch": "a live event is labelled with the subscription id of the receiving subscriber (recv.SubscriptionID)",
	"mocrelay.joinServerOKMsgs":          "the merged OK carries the event id of the child replies being merged (msgs[0].EventID; all children answer the same id, see SLOT-RELEASE)",
}

// the exact provenance each frozen exception admits
var labelExceptionPath = map[string]string{
	"(*mocrelay.subscriber).SendIfMatch": "recv.SubscriptionID",
	"mocrelay.joinServerOKMsgs":          "p:msgs[0].EventID",
}

var labelRe = regexp.MustCompile(`^p:(\w+)\.(Event\.ID|SubscriptionID)$`)

func labelAttribution(c *core.Ctx, fn *ssa.Function) []string {
	root := fn
	for root.Parent() != nil {
		root = root.Parent()
	}
	name := root.String()
	pkg := c.P.PkgOf(fn)
	switch {
	case strings.HasSuffix(pkg, "/handler/sqlite"):
		return []string{"C16"}
	case strings.Contains(name, "RouterHandler") || strings.Contains(name, "subscriber"):
		return []string{"C07"}
	case strings.Contains(name, "mergeHandler") || strings.Contains(name, "joinServerOKMsgs"):
		return []string{"C09"}
	case strings.Contains(name, "MaxSubscriptions") || strings.Contains(name, "UniqueFilter"):
		return []string{"C18"}
	case strings.Contains(name, "MiddlewareBase"):
		return []string{"C17"}
	case strings.Contains(name, "simpleCacheHandler") || strings.Contains(name, "DefaultSimpleHandlerBase"):
		return []string{"C16"}
	}
	return []string{"C16"}
}

func runLabel(c *core.Ctx) {
	P := c.P
	for _, fn := range libFuncs(c) {
		for _, ci := range calls(fn) {
			call, ok := ci.(*ssa.Call)
			if !ok {
				continue
			}
			name := an.CalleeName(&call.Call)
			if !strings.HasPrefix(name, core.ModulePath+".NewServer") {
				continue
			}
			short := strings.TrimPrefix(name, core.ModulePath+".")
			want, ok := idCtors[short]
			if !ok {
				continue
			}
			c.CountSites(1)
			props := labelAttribution(c, fn)
			ap := an.PathOf(call.Call.Args[0])
			construct := short + "/id"
			root := fn
			for root.Parent() != nil {
				root = root.Parent()
			}
			if why, isEx := labelExceptions[fname(c, root)]; isEx {
				c.Check(ap == labelExceptionPath[fname(c, root)], props, fname(c, fn), construct, P.Pos(call.Pos()), "frozen exception: "+why+" ← "+ap,
					short+" is labelled with "+ap+", want "+labelExceptionPath[fname(c, root)]+" ("+why+")")
				continue
			}
			good := labelFromRequest(c, fn, call.Call.Args[0], want, 0)
			// the merged OK built in the state's own method from the replies filed under a key: labelled
			// with that key (SetMsg files a child's reply under its EventID, which is the request's)
			if !good && recvTypeName(fn) == "mergeHandlerSessionOKState" && short == "NewServerOKMsg" {
				if pr, isP := call.Call.Args[0].(*ssa.Parameter); isP && pr.Parent() == fn {
					an.Instrs(fn, func(in ssa.Instruction) {
						if lk, isLk := in.(*ssa.Lookup); isLk && lk.Index == ssa.Value(pr) && an.PathOf(lk.X) == "recv.s" {
							good = true
						}
					})
				}
			}
			c.Check(good, props, fname(c, fn), construct, P.Pos(call.Pos()), short+" labelled with "+ap,
				short+" is labelled with "+ap+", want the request's "+want+": the client cannot match the reply to its request")
		}
	}
}

// labelFromRequest: v (in fn) is the request's id field `want` — read from a
// client-message parameter of fn (or of the function fn is nested in), or, if
// fn is a private helper that takes the id as a parameter, at every call site
// of fn.
func labelFromRequest(c *core.Ctx, fn *ssa.Function, v ssa.Value, want string, depth int) bool {
	ap := an.PathOf(v)
	root := fn
	for root.Parent() != nil {
		root = root.Parent()
	}
	if m := labelRe.FindStringSubmatch(ap); m != nil && m[2] == want {
		for _, f := range []*ssa.Function{fn, root} {
			for _, p := range f.Params {
				if p.Name() != m[1] {
					continue
				}
				tn := typeNameOf(p.Type())
				if tn == "ClientMsg" || strings.HasPrefix(tn, "Client") {
					return true
				}
			}
		}
		return false
	}
	if depth < 2 && an.PrivateHelper(fn) && fn.Signature.Recv() != nil && strings.HasPrefix(ap, "recv.") && !strings.ContainsAny(ap[5:], ".[(") {
		// a field of the receiver of a small reply-building value (`reqResult{subID, events}.replies()`):
		// what every call site's receiver holds in that field — read off its literal, or off every
		// return of the private function that built it
		field := ap[5:]
		okCaller := func(g *ssa.Function, full string) bool {
			m := labelRe.FindStringSubmatch(full)
			if m == nil || m[2] != want {
				return false
			}
			groot := g
			for groot.Parent() != nil {
				groot = groot.Parent()
			}
			for _, f := range []*ssa.Function{g, groot} {
				for _, p := range f.Params {
					if tn := typeNameOf(p.Type()); p.Name() == m[1] && (tn == "ClientMsg" || strings.HasPrefix(tn, "Client")) {
						return true
					}
				}
			}
			return false
		}
		sites := 0
		for _, g := range libFuncs(c) {
			for _, site := range callsTo(g, fn) {
				sites++
				recvArg := site.Call.Args[0]
				inner := an.CallOf(recvArg)
				if fs, ok := an.LitFields(an.PathOf(recvArg)); ok && inner == nil {
					if !okCaller(g, fs[field]) {
						return false
					}
					continue
				}
				if inner == nil {
					return false
				}
				h := an.StaticCallee(&inner.Call)
				if !an.PrivateHelper(h) {
					return false
				}
				// the field's index in the struct the helper returns
				rt := h.Signature.Results().At(0).Type()
				if pt, isPtr := rt.Underlying().(*types.Pointer); isPtr {
					rt = pt.Elem()
				}
				stt, isStruct := rt.Underlying().(*types.Struct)
				if !isStruct {
					return false
				}
				fi := -1
				for i := 0; i < stt.NumFields(); i++ {
					if an.FieldNameHook(stt, i) == field {
						fi = i
					}
				}
				paths, okp := an.ResultFieldPathsStrict(inner, fi)
				if fi < 0 || !okp || len(paths) == 0 {
					return false
				}
				for _, pth := range paths {
					if !okCaller(g, pth) {
						return false
					}
				}
			}
		}
		return sites > 0
	}
	par, isPar := an.Unwrap(v).(*ssa.Parameter)
	if !isPar && depth < 2 && an.PrivateHelper(fn) && strings.HasPrefix(ap, "p:") {
		// a field of a parameter of a private helper (`storeVerdict(ev *Event)` labelling with ev.ID): the
		// id is what the call sites pass, with the same field path appended
		name, rest := ap[2:], ""
		if i := strings.IndexAny(name, ".["); i >= 0 {
			name, rest = name[:i], name[i:]
		}
		idx := -1
		for i, p := range fn.Params {
			if p.Name() == name {
				idx = i
			}
		}
		if idx < 0 || rest == "" {
			return false
		}
		sites := 0
		for _, g := range libFuncs(c) {
			for _, site := range callsTo(g, fn) {
				sites++
				if idx >= len(site.Call.Args) {
					return false
				}
				full := an.PathOf(site.Call.Args[idx]) + rest
				m := labelRe.FindStringSubmatch(full)
				if m == nil || m[2] != want {
					return false
				}
				okParam := false
				groot := g
				for groot.Parent() != nil {
					groot = groot.Parent()
				}
				for _, f := range []*ssa.Function{g, groot} {
					for _, p := range f.Params {
						if tn := typeNameOf(p.Type()); p.Name() == m[1] && (tn == "ClientMsg" || strings.HasPrefix(tn, "Client")) {
							okParam = true
						}
					}
				}
				if !okParam {
					return false
				}
			}
		}
		return sites > 0
	}
	if !isPar || depth >= 2 || !an.PrivateHelper(fn) {
		return false
	}
	idx := -1
	for i, p := range fn.Params {
		if p == par {
			idx = i
		}
	}
	sites := 0
	for _, g := range libFuncs(c) {
		for _, site := range callsTo(g, fn) {
			sites++
			if idx >= len(site.Call.Args) || !labelFromRequest(c, g, site.Call.Args[idx], want, depth+1) {
				return false
			}
		}
	}
	return sites > 0
}

// routerMsgFunc: the RouterHandler method that calls Subscribe, Publish and Unsubscribe.
func routerMsgFunc(c *core.Ctx) *ssa.Function {
	serve := c.P.Method(c.P.Root, "RouterHandler", "ServeNostr")
	for _, fn := range c.P.ModFuncs {
		// a method of the router, or of a per-connection value ServeNostr builds and calls
		if recvTypeName(fn) != "RouterHandler" && (serve == nil || fn.Parent() != nil || len(callsTo(serve, fn)) == 0) {
			continue
		}
		n := 0
		for _, ci := range calls(fn) {
			cn := an.CalleeName(ci.Common())
			if strings.HasSuffix(cn, "subscribers).Subscribe") || strings.HasSuffix(cn, "subscribers).Publish") || strings.HasSuffix(cn, "subscribers).Unsubscribe") {
				n++
			}
		}
		if n >= 2 {
			return fn
		}
	}
	return nil
}

// returnsCtor: return blocks of fn whose result #0 is a call of ctor.
func returnsCtor(fn *ssa.Function, ctor string) []*ssa.Call {
	var out []*ssa.Call
	for _, rb := range an.ReturnBlocks(fn) {
		r := an.LastInstr(rb).(*ssa.Return)
		for _, v := range an.ReturnValues(r) {
			// the value itself, or — a result variable assigned per clause — each phi edge
			cands := []ssa.Value{v}
			if ph, isPhi := an.Unwrap(v).(*ssa.Phi); isPhi {
				cands = ph.Edges
			}
			for _, cv := range cands {
				if call := an.CallOf(cv); call != nil && strings.HasSuffix(an.CalleeName(&call.Call), "."+ctor) {
					out = append(out, call)
				}
			}
		}
	}
	return out
}

func runSubSync(c *core.Ctx) {
	P := c.P
	fn := routerMsgFunc(c)
	serve := P.Method(P.Root, "RouterHandler", "ServeNostr")
	if fn == nil || serve == nil {
		c.NoAnchor(nil, "RouterHandler message function")
		return
	}
	c.CountFuncs(2)
	// everything is read in ServeNostr's terms (the message function may get the per-connection id
	// as a parameter, or as a field of a per-connection value it is a method of): the id is the
	// uuid ServeNostr draws, the message the one it received
	sites := callsTo(serve, fn)
	if len(sites) != 1 {
		c.Unknown(nil, fname(c, serve), "session-id", P.Pos(serve.Pos()), "ServeNostr does not call the message function exactly once")
		return
	}
	inS := func(v ssa.Value) string { return an.PathOfIn(v, &sites[0].Call) }
	// (the uuid may be drawn in ServeNostr or in the constructor of the per-connection value)
	sess := "call:github.com/google/uuid.NewString()"
	handed := false
	for _, a := range sites[0].Call.Args {
		if strings.Contains(an.PathOf(a), sess) {
			handed = true
		}
	}
	if !handed {
		c.Unknown(nil, fname(c, serve), "session-id", P.Pos(serve.Pos()), "the per-connection id handed to the message function was not recognised")
		return
	}
	msgP, msgS := "", ""
	for _, p := range fn.Params {
		if typeNameOf(p.Type()) == "ClientMsg" {
			msgP = "p:" + p.Name()
			msgS = inS(p)
		}
	}
	find := func(suffix string) ssa.CallInstruction {
		for _, ci := range calls(fn) {
			if strings.HasSuffix(an.CalleeName(ci.Common()), suffix) {
				return ci
			}
		}
		return nil
	}
	// REQ
	{
		ci := find("subscribers).Subscribe")
		var why string
		good := false
		if ci == nil {
			why = "no Subscribe call"
		} else if _, isCall := ci.(*ssa.Call); !isCall {
			why = "Subscribe is started with go/defer: the EOSE can be sent before the subscription is registered, so an event published after the client saw EOSE may be missed"
		} else {
			eose := returnsCtor(fn, "NewServerEOSEMsg")
			sub := inS(ci.Common().Args[1])
			good = len(eose) == 1 && an.InstrDominates(ci, eose[0]) &&
				strings.Contains(sub, "ReqID="+sess+",") && strings.Contains(sub, "SubscriptionID="+msgS+".SubscriptionID") &&
				strings.Contains(sub, "NewReqFiltersEventLimitMatcher("+msgS+".ReqFilters)") && assertedType(fn, ci.Block(), msgP) == "ClientReqMsg"
			why = fmt.Sprintf("Subscribe(%s) dominates the EOSE: %v", clip(sub, 80), good)
		}
		c.Check(good, nil, fname(c, fn), "clause[REQ]", P.Pos(fn.Pos()), "REQ: Subscribe(newSubscriber(session id, msg, queue)) runs synchronously before EOSE is returned", why)
	}
	// EVENT
	{
		ci := find("subscribers).Publish")
		good := false
		why := "no Publish call"
		if ci != nil {
			if _, isCall := ci.(*ssa.Call); !isCall {
				why = "Publish is started with go/defer: OK can precede delivery, breaking per-publisher order"
			} else {
				oks := returnsCtor(fn, "NewServerOKMsg")
				good = len(oks) == 1 && an.InstrDominates(ci, oks[0]) && inS(ci.Common().Args[1]) == msgS+".Event" && isConstBool(oks[0].Call.Args[1], true)
				why = fmt.Sprintf("Publish(%s) before an accepting OK: %v", an.PathOf(ci.Common().Args[1]), good)
			}
		}
		c.Check(good, nil, fname(c, fn), "clause[EVENT]", P.Pos(fn.Pos()), "EVENT: Publish(msg.Event) runs synchronously before the accepting OK is returned", why)
	}
	// CLOSE
	{
		good := false
		why := "no Unsubscribe call"
		// (a REQ that is refused with CLOSED may end what was open under its id as well: every
		// Unsubscribe names the session and the id of the message of its own clause; the CLOSE clause has one)
		others := true
		for _, ci := range calls(fn) {
			if !strings.HasSuffix(an.CalleeName(ci.Common()), "subscribers).Unsubscribe") {
				continue
			}
			_, isCall := ci.(*ssa.Call)
			a := ci.Common().Args
			exact := isCall && inS(a[1]) == sess && inS(a[2]) == msgS+".SubscriptionID"
			switch assertedType(fn, ci.Block(), msgP) {
			case "ClientCloseMsg":
				good = exact
				why = fmt.Sprintf("Unsubscribe(%s, %s)", inS(a[1]), inS(a[2]))
			case "ClientReqMsg":
				others = others && exact
			default:
				others = false
			}
			if !exact {
				why = fmt.Sprintf("Unsubscribe(%s, %s)", inS(a[1]), inS(a[2]))
			}
		}
		good = good && others
		c.Check(good, nil, fname(c, fn), "clause[CLOSE]", P.Pos(fn.Pos()), "CLOSE: Unsubscribe(session id, msg.SubscriptionID) synchronously", "CLOSE does not remove exactly (session id, msg.SubscriptionID): "+why)
	}
}

func runSubKey(c *core.Ctx) {
	P := c.P
	sub := P.Method(P.Root, "subscribers", "Subscribe")
	unsub := P.Method(P.Root, "subscribers", "Unsubscribe")
	unall := P.Method(P.Root, "subscribers", "UnsubscribeAll")
	// the function that builds a subscriber (a constructor helper, or whoever writes the literal)
	var newSub *ssa.Function
	for _, f := range libFuncs(c) {
		an.Instrs(f, func(in ssa.Instruction) {
			if a, ok := in.(*ssa.Alloc); ok && typeNameOf(a.Type()) == "subscriber" && a.Comment == "complit" {
				newSub = f
			}
		})
	}
	if sub == nil || unsub == nil || unall == nil || newSub == nil {
		c.NoAnchor(nil, "subscribers.Subscribe/Unsubscribe/UnsubscribeAll, subscriber literal")
		return
	}
	c.CountFuncs(4)
	// keys used on the outer map (receiver path recv.subs) and on inner maps
	keys := func(fn *ssa.Function) (outer, inner []string) {
		an.Region(fn, func(g *ssa.Function) bool { return recvTypeName(g) == "safeMap" }, func(o an.Occ) {
			call, ok := o.In.(*ssa.Call)
			if !ok {
				return
			}
			sc := an.StaticCallee(&call.Call)
			if sc == nil || recvTypeName(sc) != "safeMap" || len(call.Call.Args) < 2 {
				return
			}
			k := o.Path(call.Call.Args[1])
			if o.Path(call.Call.Args[0]) == "recv.subs" {
				outer = append(outer, originOf(sc).Name()+"("+k+")")
			} else {
				inner = append(inner, originOf(sc).Name()+"("+k+")")
			}
		})
		return
	}
	all := func(xs []string, want string) bool {
		if len(xs) == 0 {
			return false
		}
		for _, x := range xs {
			if !strings.HasSuffix(x, "("+want+")") {
				return false
			}
		}
		return true
	}
	so, si := keys(sub)
	sp := "p:" + sub.Params[1].Name()
	c.Check(all(so, sp+".ReqID") && all(si, sp+".SubscriptionID"), nil, fname(c, sub), "keys", P.Pos(sub.Pos()),
		fmt.Sprintf("outer %v, inner %v", so, si), fmt.Sprintf("Subscribe keys: outer %v (want the connection id), inner %v (want the subscription id): two connections using the same subscription id would replace each other", so, si))
	uo, ui := keys(unsub)
	c.Check(all(uo, "p:"+unsub.Params[1].Name()) && all(ui, "p:"+unsub.Params[2].Name()), nil, fname(c, unsub), "keys", P.Pos(unsub.Pos()),
		fmt.Sprintf("outer %v, inner %v", uo, ui), fmt.Sprintf("Unsubscribe keys: outer %v, inner %v, want (connection id, subscription id)", uo, ui))
	// Unsubscribe removes one subscription, not the connection: the outer entry may go only
	// once the inner table is empty *after* the named subscription was taken out of it
	{
		type occ struct {
			name string
			o    an.Occ
		}
		var outerOps, innerOps []occ
		an.Region(unsub, func(g *ssa.Function) bool { return recvTypeName(g) == "safeMap" }, func(o an.Occ) {
			call, ok := o.In.(*ssa.Call)
			if !ok {
				return
			}
			sc := an.StaticCallee(&call.Call)
			if sc == unall {
				outerOps = append(outerOps, occ{"Delete", o}) // the connection-wide removal, called from the single-subscription one
				return
			}
			if sc == nil || recvTypeName(sc) != "safeMap" || len(call.Call.Args) < 1 {
				return
			}
			if o.Path(call.Call.Args[0]) == "recv.subs" {
				outerOps = append(outerOps, occ{originOf(sc).Name(), o})
			} else {
				innerOps = append(innerOps, occ{originOf(sc).Name(), o})
			}
		})
		okDrop, why := true, "the outer table is only read"
		for _, op := range outerOps {
			if op.name == "TryGet" || op.name == "Get" || op.name == "Len" {
				continue
			}
			if op.name != "Delete" {
				okDrop, why = false, "outer "+op.name
				continue
			}
			// dominated by the inner Delete, and guarded by inner Len() == 0
			site := op.o.Site()
			dominated, emptyGuard := false, false
			for _, in := range innerOps {
				if in.name == "Delete" && in.o.Site().Block().Dominates(site.Block()) && in.o.Site() != site {
					dominated = true
				}
			}
			for _, g := range an.Guards(unsub, site.Block()) {
				b, isB := g.V.(*ssa.BinOp)
				if !isB {
					continue
				}
				call, isCall := b.X.(*ssa.Call)
				if !isCall {
					continue
				}
				sc := an.StaticCallee(&call.Call)
				if sc == nil || recvTypeName(sc) != "safeMap" || originOf(sc).Name() != "Len" || an.PathOf(call.Call.Args[0]) == "recv.subs" {
					continue
				}
				fr := an.Frame{IsSubject: func(v ssa.Value) bool { return v == ssa.Value(call) }, Term: func(v ssa.Value) (int64, bool) { return an.ConstInt(v) }}
				if set, ok := fr.Atom(g.V, g.True); ok && set.Intersect(an.Range(0, an.PosInf)).Equal(an.Range(0, 0)) {
					emptyGuard = true
				}
			}
			if !(dominated && emptyGuard) {
				okDrop, why = false, fmt.Sprintf("outer Delete (after the inner Delete: %v, only when the inner table is empty: %v)", dominated, emptyGuard)
			} else if okDrop {
				why = "the outer entry is dropped only after the inner Delete and when the inner table is empty"
			}
		}
		c.Check(okDrop, nil, fname(c, unsub), "outer-entry", P.Pos(unsub.Pos()), why,
			"Unsubscribe removes the connection's whole table: "+why+" — a CLOSE for one subscription id ends the connection's other open subscriptions, which then miss every later matching event")
	}
	ao, ai := keys(unall)
	c.Check(all(ao, "p:"+unall.Params[1].Name()) && len(ai) == 0 && len(ao) == 1 && strings.HasPrefix(ao[0], "Delete("), nil, fname(c, unall), "keys", P.Pos(unall.Pos()),
		fmt.Sprintf("outer %v", ao), fmt.Sprintf("UnsubscribeAll: outer %v inner %v, want Delete(connection id) on the outer map", ao, ai))
	// newSubscriber fills the key fields from the connection id and the request
	var lit *ssa.Alloc
	an.Instrs(newSub, func(in ssa.Instruction) {
		if a, ok := in.(*ssa.Alloc); ok && typeNameOf(a.Type()) == "subscriber" {
			lit = a
		}
	})
	good := false
	detail := "no subscriber literal"
	if lit != nil {
		fs := an.StructLitFields(lit)
		get := func(n string) string {
			if v, ok := fs[n]; ok {
				return an.PathOf(v)
			}
			return "-"
		}
		// ReqID ← a string parameter (the connection id), SubscriptionID and Matcher ← one
		// request parameter, Ch ← a channel parameter
		mp := strings.TrimSuffix(get("SubscriptionID"), ".SubscriptionID")
		isParam := func(p string, pred func(types.Type) bool) bool {
			for _, par := range newSub.Params {
				if p == "p:"+par.Name() && pred(par.Type()) {
					return true
				}
			}
			return false
		}
		isStr := func(t types.Type) bool { b, ok := t.Underlying().(*types.Basic); return ok && b.Kind() == types.String }
		isCh := func(t types.Type) bool { _, ok := t.Underlying().(*types.Chan); return ok }
		isReq := func(t types.Type) bool { return strings.HasPrefix(typeNameOf(t), "Client") }
		good = isParam(get("ReqID"), isStr) && mp != get("SubscriptionID") && isParam(mp, isReq) &&
			isParam(get("Ch"), isCh) && strings.Contains(get("Matcher"), "NewReqFiltersEventLimitMatcher("+mp+".ReqFilters)")
		detail = fmt.Sprintf("ReqID←%s SubscriptionID←%s Ch←%s Matcher←%s", get("ReqID"), get("SubscriptionID"), get("Ch"), clip(get("Matcher"), 70))
	}
	c.Check(good, nil, fname(c, newSub), "fields", P.Pos(newSub.Pos()), detail, "subscriber fields not taken from (connection id, request, queue): "+detail)
}

func runBuf(c *core.Ctx) {
	P := c.P
	serve := P.Method(P.Root, "RouterHandler", "ServeNostr")
	ctor := P.Func(P.Root, "NewRouterHandler")
	if serve == nil || ctor == nil {
		c.NoAnchor(nil, "RouterHandler.ServeNostr / NewRouterHandler")
		return
	}
	c.CountFuncs(2)
	var mc *ssa.MakeChan
	var mcSite *ssa.CallCommon // the constructor call through which the queue is made, if any
	findQueue := func(f *ssa.Function, site *ssa.CallCommon) {
		an.Instrs(f, func(in ssa.Instruction) {
			if m, ok := in.(*ssa.MakeChan); ok {
				if ch, ok := m.Type().Underlying().(*types.Chan); ok && typeNameOf(ch.Elem()) == "ServerMsg" && mc == nil {
					mc, mcSite = m, site
				}
			}
		})
	}
	findQueue(serve, nil)
	if mc == nil {
		// made by the constructor of a per-connection value, once per ServeNostr call
		for _, ci := range calls(serve) {
			call, isCall := ci.(*ssa.Call)
			if g := an.StaticCallee(ci.Common()); isCall && g != nil && an.PrivateHelper(g) && an.LoopHeaderOf(call.Block()) == nil && len(g.Params) == len(call.Call.Args) {
				findQueue(g, &call.Call)
			}
		}
	}
	if mc == nil {
		c.Bad(nil, fname(c, serve), "queue", P.Pos(serve.Pos()), "no per-connection queue of ServerMsg is created")
		return
	}
	size := an.PathOf(mc.Size)
	if mcSite != nil {
		size = an.PathOfIn(mc.Size, mcSite)
	}
	// the configured capacity: the field NewRouterHandler fills from its parameter
	cfgField := ""
	an.Instrs(ctor, func(in ssa.Instruction) {
		if a, ok := in.(*ssa.Alloc); ok && typeNameOf(a.Type()) == "RouterHandler" {
			for f, v := range an.StructLitFields(a) {
				if an.PathOf(v) == "p:"+ctor.Params[0].Name() {
					cfgField = f
				}
			}
		}
	})
	c.Check(cfgField != "" && size == "recv."+cfgField, nil, fname(c, serve), "queue/capacity", P.Pos(mc.Pos()), "queue capacity = "+size+" = the constructor argument", "queue capacity is "+size+", not the configured buffer length (recv."+cfgField+")")
	// exactly one receiver, inside a goroutine of this function
	recvs := an.RecvSites(serve, func(v ssa.Value) bool { return an.MakeChanOf(v) == mc }, 0)
	// … or in a method of a per-connection value that carries the queue in a field
	// (`ss.subCh = make(…); go ss.forward(ctx, …)`): the receive is read in ServeNostr's terms
	mcPath := an.PathOf(mc)
	for _, f := range an.WithAnon(serve) {
		for _, ci := range calls(f) {
			g := an.StaticCallee(ci.Common())
			if g == nil || !an.PrivateHelper(g) || g.Signature.Recv() == nil || len(g.Params) != len(ci.Common().Args) {
				continue
			}
			passed := false
			for _, a := range ci.Common().Args {
				if an.MakeChanOf(a) == mc {
					passed = true // counted by RecvSites through the parameter
				}
			}
			if passed {
				continue
			}
			for _, h := range an.WithAnon(g) {
				for _, op := range an.ChanOps(h) {
					if op.Kind == an.OpSelect {
						for _, st := range op.Select.States {
							if st.Dir == types.RecvOnly && an.PathOfIn(st.Chan, ci.Common()) == mcPath {
								recvs++
							}
						}
					}
					if op.Kind == an.OpRecv && an.PathOfIn(op.Chan, ci.Common()) == mcPath {
						recvs++
					}
				}
			}
		}
	}
	c.Check(recvs == 1, nil, fname(c, serve), "queue/single-receiver", P.Pos(mc.Pos()), "the queue is drained by exactly one receive site (FIFO per subscription)", fmt.Sprintf("%d receive sites on the per-connection queue: deliveries can be reordered or lost", recvs))
}
