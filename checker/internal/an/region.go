package an

import (
	"go/types"
	"strings"

	"golang.org/x/tools/go/ssa"
)

// Regions. A maintainer may move any part of a function into a private
// helper (or fold a helper back in) without changing behaviour. Rules that
// look for "the instruction that does X in function F" therefore look at F's
// region: F and the unexported module functions it calls statically
// (transitively, not through anchors the rule names itself). An occurrence
// keeps the chain of call sites, so that values of a helper can be read in
// F's terms (the helper's parameters are the call's arguments) and positions
// in F (dominance, guards) are those of the outermost call site.

type Occ struct {
	In    ssa.Instruction
	Chain []*ssa.Call // call sites from the root function down to In's function
}

// Site: the instruction of the root function that In belongs to.
func (o Occ) Site() ssa.Instruction {
	if len(o.Chain) > 0 {
		return o.Chain[0]
	}
	return o.In
}

func (o Occ) Block() *ssa.BasicBlock { return o.Site().Block() }

// Path: access path of v (a value of In's function) in the root's terms.
func (o Occ) Path(v ssa.Value) string { return PathOfChain(v, o.Chain) }

// PathOfChain: path of a value of the innermost callee of chain, written in
// the terms of the function containing chain[0].
func PathOfChain(v ssa.Value, chain []*ssa.Call) string {
	st := &provState{memo: map[ssa.Value]string{}, busy: map[ssa.Value]bool{}}
	for _, call := range chain {
		fn := StaticCallee(&call.Call)
		sub := &provState{memo: map[ssa.Value]string{}, busy: map[ssa.Value]bool{}, bind: map[*ssa.Parameter]string{}, depth: 1}
		if fn != nil && len(fn.Params) == len(call.Call.Args) {
			for i, p := range fn.Params {
				sub.bind[p] = st.path(call.Call.Args[i])
			}
		}
		st = sub
	}
	return st.path(v)
}

// PrivateHelper: an unexported function of the analysed module with a body.
func PrivateHelper(g *ssa.Function) bool {
	if !InModuleFn(g) || g.Parent() != nil {
		return false
	}
	if o := g.Origin(); o != nil {
		g = o
	}
	obj, _ := g.Object().(*types.Func)
	if obj == nil {
		return false
	}
	if !obj.Exported() {
		return true
	}
	// an exported free function that a later edit introduced (`ParseAddress`, which a validator now
	// delegates to): part of the change under analysis, read like the helper it is for its callers here
	if sig, ok := obj.Type().(*types.Signature); ok && sig.Recv() == nil && NewDeclHook(obj) {
		return true
	}
	// a capitalised method on an unexported type that a later edit introduced (a phase of
	// some function moved into `state.Collect(…)`): as private as its receiver
	if sig, ok := obj.Type().(*types.Signature); ok && sig.Recv() != nil && NewDeclHook(obj) {
		t := sig.Recv().Type()
		if p, isPtr := t.(*types.Pointer); isPtr {
			t = p.Elem()
		}
		if n, isNamed := t.(*types.Named); isNamed && !n.Obj().Exported() {
			return true
		}
	}
	return false
}

// Region calls f for every instruction of fn and of the private helpers fn
// reaches by static calls. stop(g) = true keeps g out (a function the rule
// treats as an anchor of its own). Anonymous functions are not entered.
func Region(fn *ssa.Function, stop func(*ssa.Function) bool, f func(Occ)) {
	var walk func(g *ssa.Function, chain []*ssa.Call, onStack map[*ssa.Function]bool)
	walk = func(g *ssa.Function, chain []*ssa.Call, onStack map[*ssa.Function]bool) {
		Instrs(g, func(in ssa.Instruction) {
			f(Occ{In: in, Chain: chain})
			call, ok := in.(*ssa.Call)
			if !ok || len(chain) >= 3 {
				return
			}
			h := StaticCallee(&call.Call)
			if !PrivateHelper(h) || onStack[h] || (stop != nil && stop(h)) {
				return
			}
			onStack[h] = true
			walk(h, append(append([]*ssa.Call(nil), chain...), call), onStack)
			delete(onStack, h)
		})
	}
	walk(fn, nil, map[*ssa.Function]bool{fn: true})
}

// RegionCalls: the calls in fn's region whose callee name ends with suffix.
func RegionCalls(fn *ssa.Function, stop func(*ssa.Function) bool, suffix string) []Occ {
	var out []Occ
	Region(fn, stop, func(o Occ) {
		if call, ok := o.In.(*ssa.Call); ok && strings.HasSuffix(CalleeName(&call.Call), suffix) {
			out = append(out, o)
		}
	})
	return out
}

// Resolve: a parameter of a helper on the chain is the argument passed at the
// call site (followed outwards as far as it stays a parameter).
func (o Occ) Resolve(v ssa.Value) ssa.Value {
	for i := len(o.Chain) - 1; i >= 0; i-- {
		par, ok := Unwrap(v).(*ssa.Parameter)
		if !ok {
			return v
		}
		g := StaticCallee(&o.Chain[i].Call)
		if g == nil || par.Parent() != g {
			return v
		}
		for j, gp := range g.Params {
			if gp == par && j < len(o.Chain[i].Call.Args) {
				v = o.Chain[i].Call.Args[j]
			}
		}
	}
	return v
}
