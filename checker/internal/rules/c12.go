package rules

import (
	"fmt"
	"go/token"
	"go/types"
	"strings"

	"golang.org/x/tools/go/ssa"

	"mocverif/internal/an"
	"mocverif/internal/core"
)

func init() {
	reg(&core.RuleInfo{Name: "GATE-CHAIN", Props: []string{"C12", "C01", "C11"}, Engine: "CFG", Floor: 8, Confirmed: 8,
		Doc: "text/utf8/json/parse/valid (and verify for EVENT) pass edges dominate the forward to the handler", Run: runGateChain})
	reg(&core.RuleInfo{Name: "GATE-ONE-NOTICE", Props: []string{"C12"}, Engine: "CFG", Floor: 1, Confirmed: 1,
		Doc: "every path of the read function forwards, or rejects with exactly one message, or fails the connection", Run: runGateOneNotice})
	reg(&core.RuleInfo{Name: "RECV-OWNER", Props: []string{"C12"}, Engine: "CHAN", Floor: 1, Confirmed: 2,
		Doc: "only the reader goroutine sends on and closes the handler's inbound channel", Run: runRecvOwner})
	reg(&core.RuleInfo{Name: "WRITE-PATH", Props: []string{"C12"}, Engine: "PROV", Floor: 3, Confirmed: 3,
		Doc: "each handler output is marshalled and written as one text frame", Run: runWritePath})
}

// A channel of the gate is named by an index: i ≥ 0 is fn's i-th parameter; i ≤ -2 is field
// #(-i-2) of fn's receiver (a per-connection value that carries the connection's channels:
// `type session struct{ conn; recv chan<- ClientMsg; send chan ServerMsg }`).
func chanField(i int) int { return -i - 2 }

// chanIs: v is the channel idx of fn.
func chanIs(fn *ssa.Function, idx int, v ssa.Value) bool {
	v = an.Unwrap(v)
	if idx >= 0 {
		return idx < len(fn.Params) && resolveFree(v) == ssa.Value(fn.Params[idx])
	}
	root := fn
	for root.Parent() != nil {
		root = root.Parent()
	}
	if root.Signature.Recv() == nil || len(root.Params) == 0 {
		return false
	}
	u, ok := v.(*ssa.UnOp)
	if !ok || u.Op != token.MUL {
		return false
	}
	fa, ok := u.X.(*ssa.FieldAddr)
	return ok && fa.Field == chanField(idx) && resolveFree(fa.X) == ssa.Value(root.Params[0])
}

// chanPassed: how the channel idx of fn reaches the callee of call: as its i-th argument, or —
// a receiver field — because the callee is a method called on the same receiver.
func chanPassed(fn *ssa.Function, idx int, call *ssa.CallCommon, sc *ssa.Function) []int {
	var out []int
	for i, a := range call.Args {
		if chanIs(fn, idx, a) {
			out = append(out, i)
		}
	}
	if idx < 0 && sc != nil && sc.Signature.Recv() != nil && len(call.Args) > 0 {
		root := fn
		for root.Parent() != nil {
			root = root.Parent()
		}
		if len(root.Params) > 0 && resolveFree(an.Unwrap(call.Args[0])) == ssa.Value(root.Params[0]) && recvTypeName(sc) == recvTypeName(root) {
			out = append(out, idx)
		}
	}
	return out
}

// sendsOnParam: fn (transitively, through module helpers) sends on its idx-th
// parameter. Returns the call/send instructions in fn that do so.
func sendsOnParam(P *core.Program, fn *ssa.Function, idx int, depth int) []ssa.Instruction {
	return sendsOnParamIn(P, fn, fn, idx, depth)
}

// localClosureOf: sc is a function literal declared inside owner (a `reject := func(…) error {…}`
// that sees owner's parameters as captured variables)
func localClosureOf(sc, owner *ssa.Function) bool {
	for f := sc; f != nil; f = f.Parent() {
		if f.Parent() == owner {
			return true
		}
	}
	return false
}

// sendsOnParamIn: the instructions of body (owner itself, or a function literal inside it) that send
// on owner's idx-th parameter
func sendsOnParamIn(P *core.Program, body, fn *ssa.Function, idx int, depth int) []ssa.Instruction {
	if depth > 4 || idx >= len(fn.Params) {
		return nil
	}
	var out []ssa.Instruction
	an.Instrs(body, func(in ssa.Instruction) {
		switch x := in.(type) {
		case *ssa.Send:
			if chanIs(fn, idx, x.Chan) {
				out = append(out, in)
			}
		case *ssa.Select:
			for _, st := range x.States {
				if st.Dir == types.SendOnly && chanIs(fn, idx, st.Chan) {
					out = append(out, in)
				}
			}
		case *ssa.Call:
			sc := an.StaticCallee(&x.Call)
			if sc == nil || !P.InModule(sc) {
				return
			}
			// a function literal of the owner that sends on the captured channel
			if localClosureOf(sc, fn) {
				if len(sendsOnParamIn(P, sc, fn, idx, depth+1)) > 0 {
					out = append(out, in)
				}
				return
			}
			for _, i := range chanPassed(fn, idx, &x.Call, sc) {
				if len(sendsOnParam(P, sc, i, depth+1)) > 0 {
					out = append(out, in)
					break
				}
			}
		}
	})
	return out
}

// sendsByVerdict: call is a call of a private helper with one bool result that is
// handed fn's send channel; if on all paths with the same answer the helper sends
// the same number of messages (in loops: not decidable), return that number per
// answer.
func sendsByVerdict(P *core.Program, call *ssa.Call, sendIdx int, fn *ssa.Function) (map[bool]int, bool) {
	h := an.StaticCallee(&call.Call)
	if !an.PrivateHelper(h) || h.Signature.Results().Len() != 1 || len(h.Params) != len(call.Call.Args) {
		return nil, false
	}
	if bt, ok := h.Signature.Results().At(0).Type().Underlying().(*types.Basic); !ok || bt.Kind() != types.Bool {
		return nil, false
	}
	passed := chanPassed(fn, sendIdx, &call.Call, h)
	if len(passed) == 0 {
		return nil, false
	}
	pi := passed[len(passed)-1]
	sends := map[ssa.Instruction]bool{}
	for _, s := range sendsOnParam(P, h, pi, 0) {
		if an.InLoop(s.Block()) {
			return nil, false
		}
		sends[s] = true
	}
	out := map[bool]int{}
	for _, want := range []bool{true, false} {
		ps, ok := an.ResultPaths(h, 0, want)
		if !ok {
			return nil, false
		}
		cnt := -1
		for _, p := range ps {
			k := 0
			for _, b := range p.Path {
				for _, in := range b.Instrs {
					if sends[in] {
						k++
					}
				}
			}
			if cnt >= 0 && k != cnt {
				return nil, false
			}
			cnt = k
		}
		if cnt < 0 {
			cnt = 0
		}
		out[want] = cnt
	}
	return out, true
}

// mayDropOnParam: fn (or a module helper it hands the channel to) sends on its
// idx-th parameter inside a select that has a default case.
func mayDropOnParam(P *core.Program, fn *ssa.Function, idx int, depth int) bool {
	if depth > 4 || idx >= len(fn.Params) {
		return false
	}
	drop := false
	an.Instrs(fn, func(in ssa.Instruction) {
		switch x := in.(type) {
		case *ssa.Select:
			for _, st := range x.States {
				if st.Dir == types.SendOnly && chanIs(fn, idx, st.Chan) && !x.Blocking {
					drop = true
				}
			}
		case *ssa.Call:
			sc := an.StaticCallee(&x.Call)
			if sc == nil || !P.InModule(sc) {
				return
			}
			for _, i := range chanPassed(fn, idx, &x.Call, sc) {
				if mayDropOnParam(P, sc, i, depth+1) {
					drop = true
				}
			}
		}
	})
	return drop
}

type gate struct {
	fn       *ssa.Function
	recvIdx  int // parameter: chan<- ClientMsg
	sendIdx  int // parameter: chan ServerMsg
	forwards []ssa.Instruction
}

// resolveGate: the relay function that parses and validates: it calls
// ParseClientMsg and ValidClientMsg and has a chan<- ClientMsg parameter.
func resolveGate(c *core.Ctx) *gate {
	P := c.P
	parse := P.Func(P.Root, "ParseClientMsg")
	var best *gate
	bestDepth := 99
	for _, fn := range P.ModFuncs {
		if fn.Pkg != P.Root || fn.Parent() != nil {
			continue
		}
		g := &gate{fn: fn, recvIdx: -1, sendIdx: -1}
		for i, p := range fn.Params {
			if ch, ok := p.Type().Underlying().(*types.Chan); ok {
				switch typeNameOf(ch.Elem()) {
				case "ClientMsg":
					g.recvIdx = i
				case "ServerMsg":
					g.sendIdx = i
				}
			}
		}
		if (g.recvIdx < 0 || g.sendIdx < 0) && fn.Signature.Recv() != nil {
			// the channels as fields of the per-connection value the function is a method of
			rt := fn.Signature.Recv().Type()
			if pt, ok := rt.(*types.Pointer); ok {
				rt = pt.Elem()
			}
			if st, ok := rt.Underlying().(*types.Struct); ok {
				for i := 0; i < st.NumFields(); i++ {
					if ch, ok := st.Field(i).Type().Underlying().(*types.Chan); ok {
						switch typeNameOf(ch.Elem()) {
						case "ClientMsg":
							if g.recvIdx < 0 {
								g.recvIdx = -i - 2
							}
						case "ServerMsg":
							if g.sendIdx < 0 {
								g.sendIdx = -i - 2
							}
						}
					}
				}
			}
		}
		if g.recvIdx == -1 || g.sendIdx == -1 {
			continue
		}
		// the parse happens in fn or in a private helper fn hands the payload to; of several
		// nested candidates (read loop → read function) the one closest to the parse
		depth := -1
		an.Region(fn, nil, func(o an.Occ) {
			if call, ok := o.In.(*ssa.Call); ok && parse != nil && an.StaticCallee(&call.Call) == parse {
				if depth < 0 || len(o.Chain) < depth {
					depth = len(o.Chain)
				}
			}
		})
		if depth < 0 || depth >= bestDepth {
			continue
		}
		g.forwards = sendsOnParam(P, fn, g.recvIdx, 0)
		best, bestDepth = g, depth
	}
	return best
}

func stripNot(v ssa.Value, pol bool) (ssa.Value, bool) {
	for {
		if u, ok := v.(*ssa.UnOp); ok && u.Op == token.NOT {
			v, pol = u.X, !pol
			continue
		}
		return v, pol
	}
}

func runGateChain(c *core.Ctx) {
	P := c.P
	g := resolveGate(c)
	if g == nil {
		c.NoAnchor(nil, "relay read function (calls ParseClientMsg, has the inbound channel)")
		return
	}
	fn := g.fn
	c.CountFuncs(1)
	if len(g.forwards) != 1 {
		c.Bad([]string{"C12"}, fname(c, fn), "forward", P.Pos(fn.Pos()), fmt.Sprintf("%d forwarding sites on the handler's inbound channel, want exactly 1", len(g.forwards)))
		return
	}
	S := g.forwards[0]
	payload := ""
	readPath := ""
	an.Instrs(fn, func(in ssa.Instruction) {
		if call, ok := in.(*ssa.Call); ok && an.CalleeName(&call.Call) == "(*github.com/coder/websocket.Conn).Read" {
			readPath = an.PathOf(call)
			payload = readPath + "#1"
		}
	})
	if payload == "" {
		// the frame read by a private helper of the relay's own (`typ, payload, err := relay.readMsg(ctx, conn)`:
		// conn.Reader + io.ReadAll, with the size limit enforced by hand so that an oversized frame can be
		// answered instead of closing the connection)
		an.Instrs(fn, func(in ssa.Instruction) {
			call, ok := in.(*ssa.Call)
			if !ok || payload != "" {
				return
			}
			h := an.StaticCallee(&call.Call)
			if !an.PrivateHelper(h) || h.Signature.Results().Len() != 3 || !strings.HasSuffix(h.Signature.Results().At(0).Type().String(), "websocket.MessageType") {
				return
			}
			okSrc, why := frameSourceOK(P, h)
			c.CountSites(1)
			c.Check(okSrc, []string{"C12"}, fname(c, h), "frame-source", P.Pos(h.Pos()),
				"the helper hands out the frame's type and all of its bytes; a frame is refused as too long only when more than the limit was read (one byte beyond the limit is read to tell)",
				"the frame reader does not hand out every frame within the size limit: "+why)
			readPath = an.PathOf(call)
			payload = readPath + "#1"
		})
	}
	if payload == "" {
		c.NoAnchor(nil, "conn.Read in the read function")
		return
	}
	parsed := "call:" + core.ModulePath + ".ParseClientMsg(" + payload + ")"
	type want struct {
		name  string
		props []string
		match func(gd an.Cond, v ssa.Value, pol bool) bool
	}
	// (a test may sit in a helper whose verdict the read function acts on: its values are
	// read through the condition's call chain)
	callIs := func(gd an.Cond, v ssa.Value, callee, arg string) bool {
		call, ok := v.(*ssa.Call)
		return ok && an.CalleeName(&call.Call) == callee && len(call.Call.Args) >= 1 && gd.Path(call.Call.Args[len(call.Call.Args)-1]) == arg
	}
	wants := []want{
		{"frame-type==text", []string{"C12"}, func(gd an.Cond, v ssa.Value, pol bool) bool {
			b, ok := v.(*ssa.BinOp)
			if !ok {
				return false
			}
			k, isK := an.ConstInt(b.Y)
			tp := gd.Path(b.X)
			// (read by a helper of the relay's own: the type is the message reader's)
			isType := tp == readPath+"#0" || (strings.Contains(readPath, core.ModulePath) && strings.Contains(tp, "websocket.Conn).Reader(") && strings.HasSuffix(tp, "#0"))
			return isType && isK && k == 1 && ((b.Op == token.EQL) == pol) && (b.Op == token.EQL || b.Op == token.NEQ)
		}},
		{"utf8.Valid", []string{"C12"}, func(gd an.Cond, v ssa.Value, pol bool) bool {
			return pol && callIs(gd, v, "unicode/utf8.Valid", payload)
		}},
		{"json.Valid", []string{"C12"}, func(gd an.Cond, v ssa.Value, pol bool) bool {
			return pol && callIs(gd, v, "encoding/json.Valid", payload)
		}},
		{"ParseClientMsg err==nil", []string{"C12", "C11"}, func(gd an.Cond, v ssa.Value, pol bool) bool {
			b, ok := v.(*ssa.BinOp)
			return ok && gd.Path(b.X) == parsed+"#1" && an.IsNilConst(b.Y) && ((b.Op == token.EQL) == pol)
		}},
		{"ValidClientMsg", []string{"C12", "C11"}, func(gd an.Cond, v ssa.Value, pol bool) bool {
			return pol && callIs(gd, v, core.ModulePath+".ValidClientMsg", parsed+"#0")
		}},
	}
	reach, rok := an.ReachCondsDeep(fn, S.Block())
	if !rok || len(reach) == 0 {
		c.Unknown([]string{"C12"}, fname(c, fn), "edges", P.Pos(S.Pos()), "paths to the forward could not be enumerated")
		return
	}
	c.CountPaths(len(reach))
	for _, w := range wants {
		// every way to the forward has taken the pass edge of the gate
		found := true
		for _, conds := range reach {
			has := false
			for _, gd := range conds {
				v, pol := stripNot(gd.V, gd.True)
				if w.match(gd, v, pol) {
					has = true
				}
			}
			if !has {
				found = false
			}
		}
		c.CountSites(1)
		c.Check(found, w.props, fname(c, fn), "edge["+w.name+"]", P.Pos(S.Pos()), "the pass edge of "+w.name+" edge-dominates the forward to the handler",
			"the forward to the handler is not dominated by the pass edge of "+w.name+": frames failing this gate reach the handler")
	}
	// forwarded value = the parse result
	var fwdArg string
	if call, ok := S.(*ssa.Call); ok {
		arg := call.Call.Args[len(call.Call.Args)-1]
		fwdArg = an.PathOf(arg)
		// the message may come out of a decision helper as a field of its result: then every
		// return of the helper that sets the field must set it to the parse result
		if hc, field, isField := an.FieldOfHelperResult(arg); isField {
			if vals, ok := an.ResultFieldPaths(hc, field); ok && len(vals) > 0 {
				fwdArg = vals[0]
				for _, v := range vals {
					if v != vals[0] {
						fwdArg = strings.Join(vals, " | ")
					}
				}
			}
		}
	}
	c.Check(fwdArg == parsed+"#0", []string{"C12"}, fname(c, fn), "forwarded-value", P.Pos(S.Pos()), "the forwarded message is the parse result of the validated payload", "the forwarded value is "+fwdArg+", not the parse result of the validated payload")
	// EVENT sub-path: Verify err == nil and valid == true — on every way to the forward that
	// established the message to be an EVENT (branch conditions of fn and of the helpers whose
	// verdicts it acts on, each read in fn's terms)
	wantVerify := "call:(*" + core.ModulePath + ".Event).Verify(" + parsed + "#0.Event)"
	verifyPath := ""
	evPaths, okErr, okValid := 0, true, true
	for _, conds := range reach {
		isEvent := false
		for _, cd := range conds {
			if ex, ok := cd.V.(*ssa.Extract); ok && cd.True && ex.Index == 1 {
				if ta, ok := ex.Tuple.(*ssa.TypeAssert); ok && typeNameOf(ta.AssertedType) == "ClientEventMsg" && cd.Path(ta.X) == parsed+"#0" {
					isEvent = true
				}
			}
		}
		if !isEvent {
			continue
		}
		evPaths++
		e, v := false, false
		for _, cd := range conds {
			val, pol := stripNot(cd.V, cd.True)
			if b, ok := val.(*ssa.BinOp); ok && an.IsNilConst(b.Y) && ((b.Op == token.EQL) == pol) {
				if vp := cd.Path(b.X); strings.HasSuffix(vp, "#1") && strings.HasPrefix(vp, "call:(*"+core.ModulePath+".Event).Verify(") {
					e = true
					verifyPath = strings.TrimSuffix(vp, "#1")
				}
			}
			if vp := cd.Path(val); pol && strings.HasSuffix(vp, "#0") && strings.HasPrefix(vp, "call:(*"+core.ModulePath+".Event).Verify(") {
				v = true
				verifyPath = strings.TrimSuffix(vp, "#0")
			}
		}
		okErr = okErr && e
		okValid = okValid && v
	}
	// (the error needs no test of its own where Verify's answers tie it to the verdict: every result that
	// can be true comes with a nil error — `return ok, nil`, or `return err == nil, err`)
	if !okErr && okValid {
		if ver := P.Method(P.Root, "Event", "Verify"); ver != nil && ver.Signature.Results().Len() == 2 {
			tied := true
			for _, rb := range an.ReturnBlocks(ver) {
				rv := an.ReturnValues(an.LastInstr(rb).(*ssa.Return))
				switch {
				case isConstBool(rv[0], false), an.IsNilConst(rv[1]):
				default:
					bo, isB := rv[0].(*ssa.BinOp)
					if !isB || bo.Op != token.EQL || !an.IsNilConst(bo.Y) || bo.X != rv[1] {
						tied = false
					}
				}
			}
			if tied {
				okErr = true
			}
		}
	}
	c.Check(evPaths > 0 && okErr && okValid && verifyPath == wantVerify, []string{"C12", "C01"}, fname(c, fn), "edge[Verify]", P.Pos(S.Pos()),
		fmt.Sprintf("on all %d EVENT paths to the forward: Verify(msg.Event) err == nil and result true", evPaths),
		fmt.Sprintf("an EVENT can be forwarded without msg.Event.Verify() having returned (true, nil) (event paths: %d, err edge: %v, true edge: %v, verified value: %s)", evPaths, okErr, okValid, verifyPath))
	c.Check(len(reach) > evPaths, []string{"C12"}, fname(c, fn), "non-event-pass", P.Pos(S.Pos()), "messages other than EVENT are forwarded without signature check", "no forwarding path for non-EVENT messages")
}

func runGateOneNotice(c *core.Ctx) {
	P := c.P
	g := resolveGate(c)
	if g == nil {
		c.NoAnchor(nil, "relay read function")
		return
	}
	fn := g.fn
	fwd := map[ssa.Instruction]bool{}
	for _, s := range g.forwards {
		fwd[s] = true
	}
	notices := map[ssa.Instruction]bool{}
	var droppable []string
	for _, s := range sendsOnParam(P, fn, g.sendIdx, 0) {
		notices[s] = true
		// the rejection must actually be delivered: a send that gives up when the writer is
		// busy (select with a default case) loses it
		if call, ok := s.(*ssa.Call); ok {
			sc := an.StaticCallee(&call.Call)
			if sc != nil && localClosureOf(sc, fn) {
				// the literal's own sends: helpers it hands the captured channel to
				for _, s2 := range sendsOnParamIn(P, sc, fn, g.sendIdx, 0) {
					if c2, isC := s2.(*ssa.Call); isC {
						sc2 := an.StaticCallee(&c2.Call)
						for _, i := range chanPassed(fn, g.sendIdx, &c2.Call, sc2) {
							if sc2 != nil && mayDropOnParam(P, sc2, i, 0) {
								droppable = append(droppable, fmt.Sprintf("%s at %s", sc2.Name(), P.Pos(c2.Pos())))
							}
						}
					}
					if sel, isSel := s2.(*ssa.Select); isSel && !sel.Blocking {
						droppable = append(droppable, "select with default at "+P.Pos(sel.Pos()))
					}
				}
			}
			for _, i := range chanPassed(fn, g.sendIdx, &call.Call, sc) {
				if sc != nil && mayDropOnParam(P, sc, i, 0) {
					droppable = append(droppable, fmt.Sprintf("%s at %s", sc.Name(), P.Pos(call.Pos())))
				}
			}
		}
		if sel, ok := s.(*ssa.Select); ok && !sel.Blocking {
			droppable = append(droppable, "select with default at "+P.Pos(sel.Pos()))
		}
	}
	c.Check(len(droppable) == 0 && len(notices) > 0, nil, fname(c, fn), "rejection-delivery", P.Pos(fn.Pos()), fmt.Sprintf("all %d rejection sends block until the writer takes the message (or the connection ends)", len(notices)),
		"a rejection is sent with a non-blocking send ("+strings.Join(droppable, "; ")+"): when the write loop is busy the NOTICE is dropped and the bad frame gets no answer")
	nPaths, nFwd, nRej, nErr := 0, 0, 0, 0
	var bad []string
	for _, rb := range an.ReturnBlocks(fn) {
		paths, ok := an.PathsTo(fn, rb, 4096)
		if !ok {
			c.Unknown(nil, fname(c, fn), "paths", P.Pos(fn.Pos()), "too many paths")
			return
		}
		r := an.LastInstr(rb).(*ssa.Return)
		errNil := alwaysNil(an.ReturnValues(r)[0], 0)
		for _, p := range paths {
			nPaths++
			f, n := 0, 0
			okCtor := true
			for _, b := range p {
				for _, in := range b.Instrs {
					if fwd[in] {
						f++
					}
					// a helper that decides and, when it refuses, rejects: how many messages it
					// sends depends on its answer, which this path tests
					if hc, isCall := in.(*ssa.Call); isCall && notices[in] {
						if cnt, ok := sendsByVerdict(P, hc, g.sendIdx, fn); ok {
							verdict, tested := false, false
							for _, cd := range p.Conds() {
								v, pol := stripNot(cd.V, cd.True)
								if v == ssa.Value(hc) {
									verdict, tested = pol, true
								}
							}
							if tested {
								n += cnt[verdict]
								continue
							}
						}
					}
					if notices[in] {
						n++
						call := in.(*ssa.Call)
						// what is sent is a rejection built by one of the protocol's constructors
						// (the message may be any of the send helper's arguments)
						isRej := false
						isCtor := func(arg string) bool {
							return strings.Contains(arg, "NewServerNoticeMsg") || strings.Contains(arg, "NewServerOKMsg") || strings.Contains(arg, "NewServerClosedMsg")
						}
						for _, a := range call.Call.Args {
							if isCtor(an.PathOf(a)) {
								isRej = true
							}
							// … or the field of a decision helper's result that every return of the
							// helper fills with such a message (or leaves empty)
							if hc, field, isField := an.FieldOfHelperResult(a); isField {
								if vals, ok := an.ResultFieldPaths(hc, field); ok && len(vals) > 0 {
									all := true
									for _, v := range vals {
										if !isCtor(v) {
											all = false
										}
									}
									if all {
										isRej = true
									}
								}
							}
						}
						// … or the call is a rejecting helper of the read function's own (`relay.refuse(ctx, send, in)`):
						// on every way through it exactly one message is sent, built by such a constructor
						if !isRej {
							if sc := an.StaticCallee(&call.Call); an.PrivateHelper(sc) {
								for _, i := range chanPassed(fn, g.sendIdx, &call.Call, sc) {
									if i >= 0 && rejectsOnce(P, sc, i, isCtor) {
										isRej = true
									}
								}
							} else if sc != nil && localClosureOf(sc, fn) && g.sendIdx >= 0 && rejectsOnceIn(P, sc, fn, g.sendIdx, isCtor) {
								// … or a function literal of the read function doing the same on the captured channel
								isRej = true
							}
						}
						if !isRej {
							okCtor = false
						}
					}
				}
			}
			switch {
			case f == 1 && n == 0 && errNil:
				nFwd++
			case f == 0 && n == 1 && errNil && okCtor:
				// a rejection decided by a helper stands for as many cases as the helper has
				// ways of deciding it
				var cs []an.Cond
				for _, cd := range p.Conds() {
					cs = append(cs, an.NormCond(cd))
				}
				if k := len(an.SpliceVerdicts(cs)); k > 1 {
					nRej += k
				} else {
					nRej++
				}
			case f == 0 && n == 0 && !errNil:
				nErr++
			default:
				bad = append(bad, fmt.Sprintf("path to %s: %d forwards, %d rejections, error-return=%v", P.Pos(r.Pos()), f, n, !errNil))
			}
		}
	}
	c.CountPaths(nPaths)
	c.Check(len(bad) == 0 && nFwd >= 1 && nRej >= 5, nil, fname(c, fn), "paths", P.Pos(fn.Pos()),
		fmt.Sprintf("%d entry→return paths: %d forward (no rejection), %d reject with exactly one NOTICE/OK/CLOSED and continue, %d end the connection with an error and no message", nPaths, nFwd, nRej, nErr),
		"a path of the read function is neither forward-only, nor exactly-one-rejection, nor a connection error: "+strings.Join(bad, "; "))
}

// alwaysNil: v is nil, or the single result of a module function that
// returns nil on every path (`return rejectWith(…)` with a helper that
// reports "keep reading").
func alwaysNil(v ssa.Value, depth int) bool {
	v = an.Unwrap(v)
	if an.IsNilConst(v) {
		return true
	}
	call, ok := v.(*ssa.Call)
	if !ok || depth > 2 {
		return false
	}
	g := an.StaticCallee(&call.Call)
	if !an.InModuleFn(g) || g.Signature.Results().Len() != 1 || len(an.ReturnBlocks(g)) == 0 {
		return false
	}
	for _, rb := range an.ReturnBlocks(g) {
		if !alwaysNil(an.ReturnValues(an.LastInstr(rb).(*ssa.Return))[0], depth+1) {
			return false
		}
	}
	return true
}

func runRecvOwner(c *core.Ctx) {
	P := c.P
	serve := P.Method(P.Root, "Relay", "ServeHTTP")
	g := resolveGate(c)
	if serve == nil || g == nil {
		c.NoAnchor(nil, "Relay.ServeHTTP / read function")
		return
	}
	c.CountFuncs(1)
	// the channel handed to Handler.ServeNostr as inbound
	var mc *ssa.MakeChan
	for _, f := range an.WithAnon(serve) {
		for _, ci := range calls(f) {
			if ci.Common().IsInvoke() && ci.Common().Method.Name() == "ServeNostr" {
				mc = an.MakeChanOf(ci.Common().Args[2])
			}
		}
	}
	if mc == nil {
		c.Unknown(nil, fname(c, serve), "inbound-channel", P.Pos(serve.Pos()), "the channel passed as inbound to Handler.ServeNostr is not made in ServeHTTP")
		return
	}
	var uses, bad []string
	closers := 0
	var closerFn, readerFn *ssa.Function
	type carrier struct {
		obj   *ssa.Call
		field int
	}
	var carriers []carrier
	for _, f := range an.WithAnon(serve) {
		an.Instrs(f, func(in ssa.Instruction) {
			ops := in.Operands(nil)
			touch := false
			for _, op := range ops {
				if *op != nil && an.MakeChanOf(*op) == mc && *op != ssa.Value(mc) {
					touch = true
				}
			}
			if !touch {
				return
			}
			switch x := in.(type) {
			case *ssa.Defer:
				if b, ok := x.Call.Value.(*ssa.Builtin); ok && b.Name() == "close" {
					closers++
					closerFn = f
					uses = append(uses, "defer close")
					return
				}
				bad = append(bad, "deferred use at "+P.Pos(in.Pos()))
			case *ssa.Call:
				if x.Call.IsInvoke() && x.Call.Method.Name() == "ServeNostr" {
					uses = append(uses, "inbound of Handler.ServeNostr (receive-only type)")
					return
				}
				if sc := an.StaticCallee(&x.Call); sc != nil && P.InModule(sc) {
					for i, a := range x.Call.Args {
						if an.MakeChanOf(a) == mc && len(sendsOnParam(P, sc, i, 0)) > 0 {
							readerFn = f
							uses = append(uses, "passed to the reader "+sc.Name())
							return
						}
					}
				}
				if b, ok := x.Call.Value.(*ssa.Builtin); ok && b.Name() == "close" {
					bad = append(bad, "non-deferred close at "+P.Pos(in.Pos()))
					return
				}
				// handed to the constructor of a per-connection value that only keeps it in a field:
				// what counts is which of that value's methods send on the field (second pass below)
				if sc := an.StaticCallee(&x.Call); sc != nil && an.PrivateHelper(sc) {
					for i, a := range x.Call.Args {
						if an.MakeChanOf(a) != mc {
							continue
						}
						if k, ok := keptInField(sc, i); ok {
							carriers = append(carriers, carrier{x, k})
							uses = append(uses, "kept in a field of the per-connection value built by "+sc.Name())
							return
						}
					}
				}
				bad = append(bad, "passed to "+an.CalleeName(&x.Call)+" at "+P.Pos(in.Pos()))
			case *ssa.Send:
				bad = append(bad, "direct send at "+P.Pos(in.Pos()))
			case *ssa.Store, *ssa.MakeClosure, *ssa.ChangeType, *ssa.UnOp:
				// variable initialisation / capture / direction conversion (its users are visited too)
			default:
				bad = append(bad, fmt.Sprintf("%T at %s", in, P.Pos(in.Pos())))
			}
		})
	}
	for _, cr := range carriers {
		senders := 0
		for _, f := range an.WithAnon(serve) {
			for _, ci := range calls(f) {
				sc := an.StaticCallee(ci.Common())
				if sc == nil || !P.InModule(sc) || sc.Signature.Recv() == nil || len(ci.Common().Args) == 0 || resolveFree(an.Unwrap(ci.Common().Args[0])) != ssa.Value(cr.obj) {
					continue
				}
				if len(sendsOnParam(P, sc, -cr.field-2, 0)) > 0 {
					senders++
					readerFn = f
					uses = append(uses, "sent on by the reader method "+sc.Name())
				}
			}
		}
		if senders != 1 {
			bad = append(bad, fmt.Sprintf("%d methods of the per-connection value send on the inbound channel", senders))
		}
		// the value itself goes nowhere else
		if cr.obj.Referrers() != nil {
			for _, r := range *cr.obj.Referrers() {
				switch x := r.(type) {
				case *ssa.Call, *ssa.Go, *ssa.Defer:
					if com := x.(ssa.CallInstruction).Common(); len(com.Args) > 0 && com.Args[0] == ssa.Value(cr.obj) && an.StaticCallee(com) != nil {
						continue
					}
					bad = append(bad, "the per-connection value is handed on at "+P.Pos(r.Pos()))
				case *ssa.MakeClosure, *ssa.DebugRef, *ssa.Store, *ssa.FieldAddr:
				default:
					bad = append(bad, fmt.Sprintf("the per-connection value is used by %T at %s", r, P.Pos(r.Pos())))
				}
			}
		}
	}
	c.Check(len(bad) == 0 && closers == 1 && closerFn != nil && closerFn == readerFn && closerFn.Parent() != nil, nil, fname(c, serve), "inbound-channel/owner", P.Pos(mc.Pos()),
		"the inbound channel is used only by: "+strings.Join(uses, "; ")+" — sent on and closed by the reader goroutine alone",
		fmt.Sprintf("the handler's inbound channel has another sender/closer (closers=%d, same goroutine as reader=%v): %s", closers, closerFn == readerFn, strings.Join(bad, "; ")))
	// one forwarding site down the reader chain
	c.Check(len(g.forwards) == 1, nil, fname(c, g.fn), "inbound-channel/single-send", P.Pos(g.fn.Pos()), "exactly one send site on the inbound channel", fmt.Sprintf("%d send sites on the inbound channel", len(g.forwards)))
}

// keptInField: the constructor ctor does nothing with its i-th parameter but store it into one
// field of the struct it allocates and returns; reports that field.
func keptInField(ctor *ssa.Function, i int) (int, bool) {
	if i >= len(ctor.Params) || ctor.Params[i].Referrers() == nil {
		return 0, false
	}
	field, n := -1, 0
	for _, r := range *ctor.Params[i].Referrers() {
		switch x := r.(type) {
		case *ssa.DebugRef:
		case *ssa.Store:
			fa, ok := x.Addr.(*ssa.FieldAddr)
			if !ok || x.Val != ssa.Value(ctor.Params[i]) {
				return 0, false
			}
			if _, isAlloc := fa.X.(*ssa.Alloc); !isAlloc {
				return 0, false
			}
			field = fa.Field
			n++
		default:
			return 0, false
		}
	}
	return field, n == 1
}

func runWritePath(c *core.Ctx) {
	P := c.P
	var loop *ssa.Function
	// the write loop: receives from a <-chan ServerMsg parameter and calls json.Marshal
	for _, fn := range P.ModFuncs {
		if !ownerTypes(c, fn)["Relay"] || fn.Parent() != nil || len(an.RegionCalls(fn, nil, "encoding/json.Marshal")) == 0 {
			continue
		}
		for _, p := range fn.Params {
			if ch, ok := p.Type().Underlying().(*types.Chan); ok && typeNameOf(ch.Elem()) == "ServerMsg" && ch.Dir() == types.RecvOnly {
				loop = fn
			}
		}
	}
	if loop == nil {
		// a method of a per-connection value that carries the outbound channel in a field
		for _, fn := range P.ModFuncs {
			if fn.Pkg != P.Root || fn.Parent() != nil || fn.Signature.Recv() == nil || len(an.RegionCalls(fn, nil, "encoding/json.Marshal")) == 0 || len(an.RegionCalls(fn, nil, "(*github.com/coder/websocket.Conn).Write")) == 0 {
				continue
			}
			rt := fn.Signature.Recv().Type()
			if pt, ok := rt.(*types.Pointer); ok {
				rt = pt.Elem()
			}
			st, ok := rt.Underlying().(*types.Struct)
			if !ok {
				continue
			}
			for i := 0; i < st.NumFields(); i++ {
				if ch, ok := st.Field(i).Type().Underlying().(*types.Chan); ok && typeNameOf(ch.Elem()) == "ServerMsg" {
					loop = fn
				}
			}
		}
	}
	if loop == nil {
		c.NoAnchor(nil, "relay write loop")
		return
	}
	c.CountFuncs(1)
	// received value → json.Marshal
	var marshal *ssa.Call
	marshalPath := ""
	for _, o := range an.RegionCalls(loop, nil, "encoding/json.Marshal") {
		call := o.In.(*ssa.Call)
		if strings.HasPrefix(o.Path(call.Call.Args[0]), "select#") {
			marshal = call
			marshalPath = o.Path(call)
		}
	}
	c.Check(marshal != nil, nil, fname(c, loop), "recv→Marshal", P.Pos(loop.Pos()), "the message received from send is marshalled as is", "the value received from the send channel is not what json.Marshal encodes")
	if marshal == nil {
		return
	}
	// Marshal #0 → module call → conn.Write(ctx, MessageText, that)
	okWrite := false
	var wpos token.Pos
	detail := "marshalled bytes are not handed to a function that writes them"
	// every conn.Write of the loop (its own or in a private helper it hands the bytes to)
	// writes a text frame whose payload is the marshalled message
	nw := 0
	okWrite = true
	for _, o := range an.RegionCalls(loop, nil, "(*github.com/coder/websocket.Conn).Write") {
		w := o.In.(*ssa.Call)
		nw++
		wpos = o.Site().Pos()
		k, isK := an.ConstInt(w.Call.Args[2])
		if !(isK && k == 1 && o.Path(w.Call.Args[3]) == marshalPath+"#0") {
			okWrite = false
			detail = fmt.Sprintf("conn.Write is called with frame type %v and payload %s", w.Call.Args[2], o.Path(w.Call.Args[3]))
		}
	}
	// … or in a closure of the loop that is handed to a helper (withSendTimeout(ctx, func(ctx) error
	// { return conn.Write(ctx, MessageText, jsonMsg) })): captured variables read as what they hold
	for _, cl := range an.WithAnon(loop) {
		if cl == loop {
			continue
		}
		for _, w := range callsNamed(cl, "(*github.com/coder/websocket.Conn).Write") {
			nw++
			wpos = w.Pos()
			k, isK := an.ConstInt(w.Call.Args[2])
			if !(isK && k == 1 && an.PathOf(w.Call.Args[3]) == marshalPath+"#0") {
				okWrite = false
				detail = fmt.Sprintf("conn.Write is called with frame type %v and payload %s", w.Call.Args[2], an.PathOf(w.Call.Args[3]))
			}
		}
	}
	if nw == 0 {
		okWrite = false
	}
	c.Check(okWrite, nil, fname(c, loop), "Marshal→Write(text)", P.Pos(wpos), "the marshalled bytes are written with conn.Write(ctx, MessageText, bytes)", detail)
	// every conn.Write call site sits in a function whose only module callers are the write loop
	n := 0
	var foreign []string
	for _, fn := range P.ModFuncs {
		ws := callsNamed(fn, "(*github.com/coder/websocket.Conn).Write")
		if len(ws) == 0 {
			continue
		}
		n += len(ws)
		root := fn
		for root.Parent() != nil {
			root = root.Parent()
		}
		if root == loop {
			continue
		}
		// every chain of module callers ends in the write loop
		var check func(g *ssa.Function, depth int)
		check = func(g *ssa.Function, depth int) {
			for _, caller := range P.ModFuncs {
				if len(callsTo(caller, g)) == 0 || caller == loop {
					continue
				}
				// an intermediate private helper is fine if it, too, is only reached from the loop
				if depth < 4 && an.PrivateHelper(caller) {
					n0 := len(foreign)
					callers := 0
					for _, c2 := range P.ModFuncs {
						callers += len(callsTo(c2, caller))
					}
					if callers > 0 {
						check(caller, depth+1)
						if len(foreign) == n0 {
							continue
						}
					}
				}
				foreign = append(foreign, fname(c, caller)+"→"+fname(c, g))
			}
		}
		check(fn, 0)
	}
	c.Check(n >= 1 && len(foreign) == 0, nil, fname(c, loop), "single-writer", P.Pos(loop.Pos()), fmt.Sprintf("all %d conn.Write call site(s) are reached only from the write loop", n), fmt.Sprintf("conn.Write is reachable from outside the write loop (%v): frames of different writers can interleave", foreign))
}

// rejectsOnce: every entry→return path of helper h passes exactly one send on its idx-th parameter,
// outside loops, and what is sent there is built by one of the protocol's rejection constructors.
func rejectsOnce(P *core.Program, h *ssa.Function, idx int, isCtor func(string) bool) bool {
	return rejectsOnceIn(P, h, h, idx, isCtor)
}

// rejectsOnceIn: the same for a function literal h of owner that sends on owner's captured channel
func rejectsOnceIn(P *core.Program, h, owner *ssa.Function, idx int, isCtor func(string) bool) bool {
	sends := map[ssa.Instruction]bool{}
	for _, s := range sendsOnParamIn(P, h, owner, idx, 0) {
		call, ok := s.(*ssa.Call)
		if !ok || an.InLoop(s.Block()) {
			return false
		}
		ctor := false
		for _, a := range call.Call.Args {
			if isCtor(an.PathOf(a)) {
				ctor = true
			}
		}
		if !ctor {
			return false
		}
		sends[s] = true
	}
	if len(sends) == 0 {
		return false
	}
	for _, rb := range an.ReturnBlocks(h) {
		paths, ok := an.PathsTo(h, rb, 1024)
		if !ok {
			return false
		}
		for _, p := range paths {
			n := 0
			for _, b := range p {
				for _, in := range b.Instrs {
					if sends[in] {
						n++
					}
				}
			}
			if n != 1 {
				return false
			}
		}
	}
	return true
}

// frameSourceOK: h reads one websocket message by hand: (typ, r) from conn.Reader, the payload from
// io.ReadAll of r — directly, or through a limit of L+1 bytes (io.LimitReader(r, L+1) or
// &io.LimitedReader{R: r, N: L+1}) so that "longer than L" can be told from "exactly L". A successful
// return hands out the reader's type and what ReadAll returned.
func frameSourceOK(P *core.Program, h *ssa.Function) (bool, string) {
	var reader *ssa.Call
	var readAlls []*ssa.Call
	an.Instrs(h, func(in ssa.Instruction) {
		call, ok := in.(*ssa.Call)
		if !ok {
			return
		}
		switch an.CalleeName(&call.Call) {
		case "(*github.com/coder/websocket.Conn).Reader":
			reader = call
		case "io.ReadAll":
			readAlls = append(readAlls, call)
		}
	})
	if reader == nil || len(readAlls) == 0 {
		return false, "no conn.Reader / io.ReadAll pair"
	}
	isPlusOne := func(v ssa.Value) bool {
		b, ok := v.(*ssa.BinOp)
		if !ok || b.Op != token.ADD {
			return false
		}
		k, isK := an.ConstInt(b.Y)
		return isK && k == 1
	}
	for _, ra := range readAlls {
		arg := ra.Call.Args[0]
		if mi, ok := arg.(*ssa.MakeInterface); ok {
			arg = mi.X
		}
		switch x := arg.(type) {
		case *ssa.Extract:
			if x.Tuple != ssa.Value(reader) {
				return false, "io.ReadAll reads something else than the message reader"
			}
		case *ssa.Call:
			if an.CalleeName(&x.Call) != "io.LimitReader" {
				return false, "io.ReadAll reads through " + an.CalleeName(&x.Call)
			}
			if !isPlusOne(x.Call.Args[1]) {
				return false, "the limit reader is armed with " + an.PathOf(x.Call.Args[1]) + ", not with limit+1: a frame of exactly the limit cannot be told from a longer one (" + P.Pos(x.Pos()) + ")"
			}
		case *ssa.Alloc:
			// &io.LimitedReader{R: r, N: …}
			fs := an.StructLitFields(x)
			n, has := fs["N"]
			if !has || !isPlusOne(n) {
				got := "nothing"
				if has {
					got = an.PathOf(n)
				}
				return false, "the LimitedReader is armed with N = " + got + ", not with limit+1: a frame of exactly the limit cannot be told from a longer one (" + P.Pos(x.Pos()) + ")"
			}
		default:
			return false, "io.ReadAll reads " + an.PathOf(arg)
		}
	}
	// successful returns: the reader's type and ReadAll's bytes
	for _, rb := range an.ReturnBlocks(h) {
		rv := an.ReturnValues(an.LastInstr(rb).(*ssa.Return))
		if !an.IsNilConst(rv[2]) {
			if ex, ok := rv[2].(*ssa.Extract); ok {
				_ = ex
			}
			continue
		}
		ok := false
		if ex, isEx := rv[1].(*ssa.Extract); isEx && ex.Index == 0 {
			for _, ra := range readAlls {
				if ex.Tuple == ssa.Value(ra) {
					ok = true
				}
			}
		}
		if ph, isPhi := rv[1].(*ssa.Phi); isPhi {
			ok = true
			for _, e := range ph.Edges {
				ex, isEx := e.(*ssa.Extract)
				if !isEx || ex.Index != 0 {
					ok = false
					continue
				}
				found := false
				for _, ra := range readAlls {
					if ex.Tuple == ssa.Value(ra) {
						found = true
					}
				}
				ok = ok && found
			}
		}
		if !ok {
			return false, "a successful return hands out " + an.PathOf(rv[1]) + ", not what io.ReadAll read"
		}
		if ex, isEx := rv[0].(*ssa.Extract); !isEx || ex.Tuple != ssa.Value(reader) || ex.Index != 0 {
			return false, "a successful return hands out a frame type that is not the reader's"
		}
	}
	return true, ""
}
