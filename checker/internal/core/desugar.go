package core

import (
	"fmt"
	"go/ast"
	"go/types"
	"os"
	"sort"

	"golang.org/x/tools/go/packages"
	"golang.org/x/tools/go/types/typeutil"
)

// Standard-library iterator adapters whose range loop is, by their documented
// semantics, the plain range loop over their argument. go/ssa lowers
// `for x := range slices.Values(s)` to a call with the body in a synthetic
// closure; the rules reason about loops in place. The loader therefore
// rewrites exactly these loops (resolved through go/types, not by spelling)
// in an overlay and type-checks the tree again:
//
//	for i, x := range slices.All(s)    ≡  for i, x := range s
//	for x := range slices.Values(s)    ≡  for _, x := range s
//	for k, v := range maps.All(m)      ≡  for k, v := range m
//	for k := range maps.Keys(m)        ≡  for k := range m
//	for v := range maps.Values(m)      ≡  for _, v := range m
//
// Nothing else is touched; hand-written iterators stay as they are (and are
// reported by the rules that cannot see through them).
var stdIterAdapters = map[string]bool{
	"slices.All": false, "slices.Values": true, // true: the single loop variable is the element, not the key
	"maps.All": false, "maps.Keys": false, "maps.Values": true,
}

type textEdit struct {
	start, end int
	text       string
}

// desugarStdIterators returns an overlay (file → new content) and the number of
// loops rewritten; nil when there is nothing to rewrite.
func desugarStdIterators(pkgs []*packages.Package) (map[string][]byte, int, error) {
	edits := map[string][]textEdit{}
	keep := map[string]map[string]bool{} // file → keep-alive declarations
	n := 0
	for _, pk := range pkgs {
		if pk.PkgPath != ModulePath && !(len(pk.PkgPath) > len(ModulePath) && pk.PkgPath[:len(ModulePath)+1] == ModulePath+"/") {
			continue
		}
		for _, f := range pk.Syntax {
			tf := pk.Fset.File(f.Pos())
			if tf == nil {
				continue
			}
			name := tf.Name()
			ast.Inspect(f, func(nd ast.Node) bool {
				rs, ok := nd.(*ast.RangeStmt)
				if !ok {
					return true
				}
				call, ok := ast.Unparen(rs.X).(*ast.CallExpr)
				if !ok || len(call.Args) != 1 || call.Ellipsis.IsValid() {
					return true
				}
				fn, _ := typeutil.Callee(pk.TypesInfo, call).(*types.Func)
				if fn == nil || fn.Pkg() == nil {
					return true
				}
				full := fn.Pkg().Path() + "." + fn.Name()
				elemOnly, known := stdIterAdapters[full]
				if !known {
					return true
				}
				if elemOnly && rs.Value != nil {
					return true // cannot happen for a Seq; leave alone
				}
				xs, xe := tf.Offset(rs.X.Pos()), tf.Offset(rs.X.End())
				as, ae := tf.Offset(call.Args[0].Pos()), tf.Offset(call.Args[0].End())
				edits[name] = append(edits[name], textEdit{xs, xe, fmt.Sprintf("\x00ARG %d %d", as, ae)})
				if elemOnly && rs.Key != nil {
					ks := tf.Offset(rs.Key.Pos())
					edits[name] = append(edits[name], textEdit{ks, ks, "_, "})
				}
				// keep the import used
				if sel, ok := ast.Unparen(call.Fun).(*ast.SelectorExpr); ok {
					if id, ok := sel.X.(*ast.Ident); ok {
						if keep[name] == nil {
							keep[name] = map[string]bool{}
						}
						switch fn.Pkg().Path() {
						case "slices":
							keep[name]["var _ = "+id.Name+".Values[[]int]"] = true
						case "maps":
							keep[name]["var _ = "+id.Name+".Keys[map[int]int]"] = true
						}
					}
				} else if ix, ok := ast.Unparen(call.Fun).(*ast.IndexExpr); ok {
					if sel, ok := ix.X.(*ast.SelectorExpr); ok {
						if id, ok := sel.X.(*ast.Ident); ok {
							if keep[name] == nil {
								keep[name] = map[string]bool{}
							}
							switch fn.Pkg().Path() {
							case "slices":
								keep[name]["var _ = "+id.Name+".Values[[]int]"] = true
							case "maps":
								keep[name]["var _ = "+id.Name+".Keys[map[int]int]"] = true
							}
						}
					}
				}
				n++
				return true
			})
		}
	}
	if n == 0 {
		return nil, 0, nil
	}
	overlay := map[string][]byte{}
	for name, es := range edits {
		src, err := os.ReadFile(name)
		if err != nil {
			return nil, 0, err
		}
		sort.Slice(es, func(i, j int) bool { return es[i].start > es[j].start })
		out := string(src)
		for _, e := range es {
			text := e.text
			if len(text) > 4 && text[:4] == "\x00ARG" {
				var as, ae int
				fmt.Sscanf(text[5:], "%d %d", &as, &ae)
				text = string(src[as:ae])
			}
			// nested rewritten loops inside an argument are not supported: offsets would shift
			if e.end > len(out) {
				return nil, 0, fmt.Errorf("desugar: edit out of range in %s", name)
			}
			out = out[:e.start] + text + out[e.end:]
		}
		var ks []string
		for k := range keep[name] {
			ks = append(ks, k)
		}
		sort.Strings(ks)
		for _, k := range ks {
			out += "\n" + k + "\n"
		}
		overlay[name] = []byte(out)
	}
	return overlay, n, nil
}
