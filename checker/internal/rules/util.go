package rules

import (
	"go/token"
	"go/types"
	"strings"

	"golang.org/x/tools/go/ssa"

	"mocverif/internal/an"
	"mocverif/internal/core"
)

// calls lists the call instructions (Call, Go, Defer) of fn.
func calls(fn *ssa.Function) []ssa.CallInstruction {
	var out []ssa.CallInstruction
	an.Instrs(fn, func(in ssa.Instruction) {
		if c, ok := in.(ssa.CallInstruction); ok {
			out = append(out, c)
		}
	})
	return out
}

// callsNamed lists plain calls in fn whose callee name (an.CalleeName) has the suffix.
func callsNamed(fn *ssa.Function, name string) []*ssa.Call {
	var out []*ssa.Call
	an.Instrs(fn, func(in ssa.Instruction) {
		if c, ok := in.(*ssa.Call); ok && an.CalleeName(&c.Call) == name {
			out = append(out, c)
		}
	})
	return out
}

// callsTo lists plain calls in fn with static callee target.
func callsTo(fn *ssa.Function, target *ssa.Function) []*ssa.Call {
	var out []*ssa.Call
	an.Instrs(fn, func(in ssa.Instruction) {
		if c, ok := in.(*ssa.Call); ok {
			if sc := an.StaticCallee(&c.Call); sc != nil && sameFunc(sc, target) {
				out = append(out, c)
			}
		}
	})
	return out
}

func sameFunc(a, b *ssa.Function) bool {
	if a == b {
		return true
	}
	if a == nil || b == nil {
		return false
	}
	// calling a forwarder is calling what it forwards to (an.Follow) — not the other way round: a call
	// of the target is not a call of a helper that forwards to it with some arguments fixed
	if origEq(a, b) {
		return true
	}
	a = an.Follow(a)
	return origEq(a, b)
}

func origEq(a, b *ssa.Function) bool {
	if a == b {
		return true
	}
	oa, ob := a, b
	if o := a.Origin(); o != nil {
		oa = o
	}
	if o := b.Origin(); o != nil {
		ob = o
	}
	return oa == ob
}

// fname is the short printable function name used in obligation keys.
func fname(c *core.Ctx, fn *ssa.Function) string { return c.P.FuncName(fn) }

// isConstBool reports whether v is the bool constant b.
func isConstBool(v ssa.Value, b bool) bool {
	k, ok := v.(*ssa.Const)
	if !ok {
		return false
	}
	if k.Value == nil {
		// zero value of bool is false
		if bt, ok := k.Type().Underlying().(*types.Basic); ok && bt.Kind() == types.Bool {
			return !b
		}
		return false
	}
	return k.Value.String() == map[bool]string{true: "true", false: "false"}[b]
}

// nilTest: cond is "x == nil" / "x != nil" with x's path == ap. Returns
// (isTest, polarityMeaningNonNil given the cond evaluates to true).
func nilTest(cond ssa.Value, ap string) (bool, bool) {
	b, ok := cond.(*ssa.BinOp)
	if !ok || (b.Op != token.EQL && b.Op != token.NEQ) {
		return false, false
	}
	var other ssa.Value
	if an.IsNilConst(b.Y) {
		other = b.X
	} else if an.IsNilConst(b.X) {
		other = b.Y
	} else {
		return false, false
	}
	if an.PathOf(other) != ap {
		return false, false
	}
	return true, b.Op == token.NEQ
}

// nonNilOnPath keeps paths on which the pointer with access path ap was
// tested non-nil.
func nonNilOnPath(ap string) an.PathKeep {
	return func(p an.Path) bool {
		for _, c := range p.Conds() {
			if is, nonNilWhenTrue := nilTest(c.V, ap); is && c.True == nonNilWhenTrue {
				return true
			}
		}
		return false
	}
}

// onlyNilTestsOf reports whether every opaque cond is a nil test of one of the paths.
func describeConds(cs []an.Cond) string {
	set := map[string]bool{}
	for _, c := range cs {
		set[an.PathOf(c.V)] = true
	}
	var ks []string
	for k := range set {
		ks = append(ks, k)
	}
	return strings.Join(ks, "; ")
}

// methodsNamed returns all module methods with the given name (any receiver).
func methodsNamed(p *core.Program, pkg *ssa.Package, name string) []*ssa.Function {
	var out []*ssa.Function
	for _, fn := range p.ModFuncs {
		if fn.Name() == name && fn.Signature.Recv() != nil && fn.Pkg == pkg && fn.Parent() == nil {
			out = append(out, fn)
		}
	}
	return out
}

// recvTypeName returns the receiver's named type name of a method.
func recvTypeName(fn *ssa.Function) string {
	r := fn.Signature.Recv()
	if r == nil {
		return ""
	}
	t := r.Type()
	if p, ok := t.(*types.Pointer); ok {
		t = p.Elem()
	}
	if n, ok := t.(*types.Named); ok {
		return an.TypeNameHook(n.Obj())
	}
	return ""
}

// derefNamed strips pointers and returns the named type, if any.
func derefNamed(t types.Type) *types.Named {
	for {
		if p, ok := t.(*types.Pointer); ok {
			t = p.Elem()
			continue
		}
		break
	}
	n, _ := t.(*types.Named)
	return n
}

func typeNameOf(t types.Type) string {
	if n := derefNamed(t); n != nil {
		return an.TypeNameHook(n.Obj())
	}
	return types.TypeString(t, nil)
}

// occCallsTo: the calls to target in fn's region (fn and the private helpers
// it calls, except those for which stop is true).
func occCallsTo(fn, target *ssa.Function, stop func(*ssa.Function) bool) []an.Occ {
	var out []an.Occ
	an.Region(fn, func(g *ssa.Function) bool { return sameFunc(g, target) || (stop != nil && stop(g)) }, func(o an.Occ) {
		if call, ok := o.In.(*ssa.Call); ok {
			if sc := an.StaticCallee(&call.Call); sc != nil && sameFunc(sc, target) {
				out = append(out, o)
			}
		}
	})
	return out
}

// occArg: access path, in the region root's terms, of argument i of the call at o.
func occArg(o an.Occ, i int) string {
	return o.Path(o.In.(*ssa.Call).Call.Args[i])
}

// ownerTypes: the (canonical) receiver type a function belongs to — its own,
// or, for a free function, those of the module functions calling it (three
// levels up). Used to attribute a construct to a component without looking
// at file names, which change when code is moved.
func ownerTypes(c *core.Ctx, fn *ssa.Function) map[string]bool {
	callers := callerIndex(c)
	out := map[string]bool{}
	seen := map[*ssa.Function]bool{}
	var walk func(f *ssa.Function, depth int)
	walk = func(f *ssa.Function, depth int) {
		for f.Parent() != nil {
			f = f.Parent()
		}
		if o := f.Origin(); o != nil {
			f = o
		}
		if seen[f] || depth > 3 {
			return
		}
		seen[f] = true
		if t := recvTypeName(f); t != "" {
			out[t] = true
			return
		}
		for _, g := range callers[f] {
			walk(g, depth+1)
		}
	}
	walk(fn, 0)
	return out
}

var callerIdx = map[*core.Program]map[*ssa.Function][]*ssa.Function{}

func callerIndex(c *core.Ctx) map[*ssa.Function][]*ssa.Function {
	if idx, ok := callerIdx[c.P]; ok {
		return idx
	}
	idx := map[*ssa.Function][]*ssa.Function{}
	for _, f := range c.P.ModFuncs {
		for _, ci := range calls(f) {
			if g := an.StaticCallee(ci.Common()); g != nil && c.P.InModule(g) {
				if o := g.Origin(); o != nil {
					g = o
				}
				idx[g] = append(idx[g], f)
			}
		}
		// function values handed on (method values, helpers passed to slices.*Func)
		an.Instrs(f, func(in ssa.Instruction) {
			for _, op := range in.Operands(nil) {
				if op == nil || *op == nil {
					continue
				}
				if g, ok := (*op).(*ssa.Function); ok && c.P.InModule(g) {
					if _, isCall := in.(ssa.CallInstruction); isCall && an.StaticCallee(in.(ssa.CallInstruction).Common()) == g {
						continue
					}
					idx[g] = append(idx[g], f)
				}
			}
		})
	}
	callerIdx[c.P] = idx
	return idx
}

// nilArgPath: the path is the one taken when a pointer argument of fn is nil (`if event == nil {
// return … }` at the door): there is no event / message / filter on it, so a property about events,
// messages or filters says nothing about it.
func nilArgPath(fn *ssa.Function, conds []an.Cond) bool {
	for _, cd := range conds {
		cd = an.NormCond(cd)
		b, ok := cd.V.(*ssa.BinOp)
		if !ok || (b.Op != token.EQL && b.Op != token.NEQ) || (b.Op == token.EQL) != cd.True {
			continue
		}
		x, y := b.X, b.Y
		if an.IsNilConst(x) {
			x, y = y, x
		}
		if !an.IsNilConst(y) {
			continue
		}
		par, ok := x.(*ssa.Parameter)
		if !ok || par.Parent() != fn {
			continue
		}
		if fn.Signature.Recv() != nil && len(fn.Params) > 0 && fn.Params[0] == par {
			continue
		}
		if _, isPtr := par.Type().Underlying().(*types.Pointer); isPtr {
			return true
		}
	}
	return false
}

// invalidMsgGuarded: block b of fn is reached only when the message at msgPath failed its own
// Valid() (`if !msg.Valid() { return reject }`).
func invalidMsgGuarded(fn *ssa.Function, b *ssa.BasicBlock, msgPath string) bool {
	for _, g := range an.Guards(fn, b) {
		call, ok := g.V.(*ssa.Call)
		if !ok || g.True {
			continue
		}
		sc := an.StaticCallee(&call.Call)
		if sc == nil || sc.Name() != "Valid" || sc.Signature.Recv() == nil || len(call.Call.Args) != 1 {
			continue
		}
		if an.PathOf(call.Call.Args[0]) == msgPath {
			return true
		}
	}
	return false
}

// nilEventCond: the condition holds exactly when the Event field of a message is nil
// (`msg.Event == nil` taken true / `msg.Event != nil` taken false): there is no event on that path.
func nilEventCond(cd an.Cond) bool {
	cd = an.NormCond(cd)
	b, ok := cd.V.(*ssa.BinOp)
	if !ok || (b.Op != token.EQL && b.Op != token.NEQ) || (b.Op == token.EQL) != cd.True {
		return false
	}
	x, y := b.X, b.Y
	if an.IsNilConst(x) {
		x, y = y, x
	}
	return an.IsNilConst(y) && typeNameOf(x.Type()) == "Event" && strings.HasSuffix(an.PathOf(x), ".Event")
}

// callRecv: the receiver of a method call, whether called directly or through an interface.
func callRecv(cc *ssa.CallCommon) ssa.Value {
	if cc.IsInvoke() {
		return cc.Value
	}
	if len(cc.Args) > 0 {
		return cc.Args[0]
	}
	return nil
}
