package rules

import (
	"fmt"
	"go/types"
	"path/filepath"
	"sort"
	"strings"

	"golang.org/x/tools/go/ssa"

	"mocverif/internal/an"
	"mocverif/internal/core"
)

func init() {
	reg(&core.RuleInfo{Name: "TAG-ARITY", Props: []string{"C02", "C03", "C04", "C05", "C06"}, Engine: "INT", Floor: 6, Confirmed: 11,
		Doc: "reads of tag[1] execute exactly under len(tag) >= 2", Run: runTagArity})
}

// fileOf returns the base name of the file fn is declared in.
func fileOf(c *core.Ctx, fn *ssa.Function) string {
	f := fn
	for f.Parent() != nil {
		f = f.Parent()
	}
	return filepath.Base(c.P.Fset.Position(f.Pos()).Filename)
}

// tagAttribution: which properties a tag read in this function belongs to.
func tagAttribution(c *core.Ctx, fn *ssa.Function) []string {
	pkg := c.P.PkgOf(fn)
	if strings.HasSuffix(pkg, "/handler/sqlite") {
		return []string{"C06"}
	}
	root := fn
	for root.Parent() != nil {
		root = root.Parent()
	}
	owners := ownerTypes(c, fn)
	has := func(sub string) bool {
		for o := range owners {
			if strings.Contains(o, sub) {
				return true
			}
		}
		return false
	}
	name := an.ShortName(root)
	switch {
	case has("Matcher") || strings.Contains(name, "Matcher"):
		return []string{"C02"}
	case has("eventCacheEvsIndex") || strings.Contains(name, "keysFrom"):
		return []string{"C03"}
	case has("EventCache"):
		if strings.Contains(name, "Kind5") {
			return []string{"C05"}
		}
		return []string{"C04", "C05"}
	}
	return []string{"C05"}
}

func isTagType(t types.Type) bool {
	n, ok := t.(*types.Named)
	if !ok {
		return false
	}
	return n.Obj().Name() == "Tag" && n.Obj().Pkg() != nil && n.Obj().Pkg().Path() == core.ModulePath
}

func runTagArity(c *core.Ctx) {
	P := c.P
	type group struct {
		fn    *ssa.Function
		subj  string
		union an.Set
		each  []string
		pos   string
		bad   bool
		paths int
		gave  bool
	}
	groups := map[string]*group{}
	var order []string
	for _, fn := range P.ModFuncs {
		c.CountFuncs(1)
		an.Instrs(fn, func(in ssa.Instruction) {
			var x, idx ssa.Value
			switch v := in.(type) {
			case *ssa.IndexAddr:
				x, idx = v.X, v.Index
			case *ssa.Index:
				x, idx = v.X, v.Index
			default:
				return
			}
			if !isTagType(x.Type()) {
				return
			}
			k, ok := an.ConstInt(idx)
			if !ok || k != 1 {
				return
			}
			c.CountSites(1)
			subj := "len(" + an.PathOf(x) + ")"
			key := fname(c, fn) + "|" + subj
			g := groups[key]
			if g == nil {
				g = &group{fn: fn, subj: subj, union: an.Empty(), pos: P.Pos(in.Pos())}
				groups[key] = g
				order = append(order, key)
			}
			fr := an.ConstFrame(subj)
			set, n, ok := fr.ReachSet(fn, in.Block(), nil, nil)
			g.paths += n
			if !ok {
				g.gave = true
				return
			}
			g.union = g.union.Union(set)
			g.each = append(g.each, fmt.Sprintf("%s:%s", P.Pos(in.Pos()), set))
		})
	}
	sort.Strings(order)
	want := an.Range(2, an.PosInf)
	for _, key := range order {
		g := groups[key]
		props := tagAttribution(c, g.fn)
		c.CountPaths(g.paths)
		construct := "read tag[1] of " + strings.TrimSuffix(strings.TrimPrefix(g.subj, "len("), ")")
		if g.gave {
			c.Unknown(props, fname(c, g.fn), construct, g.pos, "path enumeration gave up")
			continue
		}
		switch {
		case g.union.Equal(want):
			c.OK(props, fname(c, g.fn), construct, g.pos, "executes exactly when "+g.subj+" ∈ "+g.union.String()+" ("+strings.Join(g.each, ", ")+")")
		case !g.union.Subset(want):
			c.Bad(props, fname(c, g.fn), construct, g.pos, "may execute with "+g.subj+" ∈ "+g.union.String()+": a one-element tag makes the read panic (want [2,+∞))")
		default:
			c.Bad(props, fname(c, g.fn), construct, g.pos, "executes only when "+g.subj+" ∈ "+g.union.String()+": tags with extra elements (e.g. a relay hint as third element) are ignored (want [2,+∞))")
		}
	}
}
