#!/usr/bin/env python3-vt
import json, glob, sys
import jsonschema
jsonschema.validate(json.load(open('/verif/MANIFEST.json')), json.load(open('/root/.vp/MANIFEST.schema.json')))
print('manifest valid')
s = json.load(open('/root/.vp/EVIDENCE.schema.json'))
m = json.load(open('/verif/MANIFEST.json'))
for c in m['checks']:
    f = c['evidence_file']
    jsonschema.validate(json.load(open(f)), s)
    print('ok', f)
