#!/usr/bin/env python3
"""Regenerates /verif/MANIFEST.json from the rule catalogue (bin/mocverif -list)
and the CLAIMED table below. Properties not in CLAIMED go to not_applicable."""
import json, subprocess, sys

CLAIMED = {
 # id: (technique, level text)
}
NOT_YET = "check not built yet (framework under construction; see DESIGN.md section 9)"

def main():
    allc = json.load(open('/verif/tools/claimed.json'))
    claimed = {k: v for k, v in allc.items() if v.get('ready')}
    props = [json.loads(l) for l in open('/verif/properties.jsonl')]
    out = subprocess.run(['/verif/bin/mocverif', '-list'], capture_output=True, text=True, check=True).stdout
    rules = {}
    for line in out.splitlines():
        parts = line.split()
        name, engine = parts[0], parts[1]
        ps = line[line.index('[')+1:line.index(']')].split()
        for p in ps:
            rules.setdefault(p, []).append((name, engine))
    checks, na = [], []
    for p in props:
        pid = p['id']
        if pid in claimed:
            c = claimed[pid]
            rl = sorted(set(n for n, _ in rules.get(pid, [])))
            checks.append({
                "property_id": pid,
                "quick_cmd": "bin/mocverif -property %s -tier quick" % pid,
                "thorough_cmd": "bin/mocverif -property %s -tier thorough" % pid,
                "evidence_file": "/verif/evidence/%s.json" % pid,
                "replay_cmd_template": "cat {path}",
                "engine": "mocverif",
                "level_claimed": {
                    "category": "other",
                    "text": c["text"],
                    "design_ref": "DESIGN.md §5 " + pid,
                },
                "level_note": c["note"],
                "technique": "static analysis (go/types + go/ssa + call graph): " + c["technique"] + "; rules: " + ", ".join(rl),
            })
        else:
            na.append({"property_id": pid, "reason": NOT_YET})
    m = {
        "version": 1,
        "setup_cmd": "cd /verif/checker && GOFLAGS=-mod=vendor GOPROXY=off GOSUMDB=off GOTOOLCHAIN=local GOWORK=off go build -o /verif/bin/mocverif ./cmd/mocverif",
        "hooks": {
            "guard": "verif",
            "enable": "none needed: the checker only reads /repo's source; no hook commits exist",
            "baseline_off_cmd": "cd /repo && go test -vet=off -count=1 -timeout 25m ./...",
            "source_commits": [],
            "add_only": True,
        },
        "engines": [{
            "name": "mocverif",
            "path": "/verif/checker",
            "serves_properties": sorted(claimed.keys()),
            "kind_free_text": "repository-specific static analyser: go/packages load of /repo on every run, go/ssa, CHA/VTA call graphs; engines E-CFG (dominance, edge-dominance, path enumeration), E-PROV (access paths), E-INT (interval sets of integer predicates), E-CHAN, E-LOCK, E-TAB, E-CG; obligations keyed rule/function/construct; known findings matched by key",
        }],
        "checks": checks,
        "not_applicable": na,
        "notes": "Every check decides structural necessary conditions (S-clauses) of its property from source; the behavioural remainder (B-clauses) is listed per property in DESIGN.md §5 and in each evidence file under coverage.not_decided. 13 fix: commits in /repo repair the 12 genuine defects the rules exposed (known_findings.json, kind=fixed).",
    }
    json.dump(m, open('/verif/MANIFEST.json', 'w'), indent=1)
    print("claimed", len(checks), "not_applicable", len(na))

main()
