package rules

import (
	"fmt"
	"go/constant"
	"go/token"
	"go/types"
	"sort"
	"strings"

	"golang.org/x/tools/go/ssa"

	"mocverif/internal/an"
	"mocverif/internal/core"
)

func init() {
	reg(&core.RuleInfo{Name: "KIND-PART", Props: []string{"C04", "C06", "C14"}, Engine: "INT", Floor: 4, Confirmed: 4,
		Doc: "Event.EventType partitions the integers as the statement's table", Run: runKindPart})
	reg(&core.RuleInfo{Name: "KEY-CLASS", Props: []string{"C04", "C05", "C06"}, Engine: "PROV", Floor: 6, Confirmed: 8,
		Doc: "storage keys carry id / kind+pubkey(+d); ephemeral never stored", Run: runKeyClass})
	reg(&core.RuleInfo{Name: "NEWEST-WINS", Props: []string{"C04"}, Engine: "INT", Floor: 2, Confirmed: 3,
		Doc: "strictly older never displaces, strictly newer always does, displaced version removed first", Run: runNewestWins})
	reg(&core.RuleInfo{Name: "CAP-GUARD", Props: []string{"C04"}, Engine: "INT", Floor: 3, Confirmed: 3,
		Doc: "len > Cap test on every path to 'return true', evicts from the oldest end", Run: runCapGuard})
	reg(&core.RuleInfo{Name: "ADD-FLAG", Props: []string{"C04", "C16"}, Engine: "CFG", Floor: 1, Confirmed: 1,
		Doc: "Add returns false only on suppression or failed insertion", Run: runAddFlag})
}

type classInfo struct {
	name string
	val  int64
}

// eventClasses reads the EventType constants from the package scope.
func eventClasses(P *core.Program) (map[string]int64, bool) {
	out := map[string]int64{}
	for _, n := range []string{"EventTypeUnknown", "EventTypeRegular", "EventTypeReplaceable", "EventTypeEphemeral", "EventTypeParamReplaceable"} {
		obj, ok := P.Root.Pkg.Scope().Lookup(n).(*types.Const)
		if !ok {
			return nil, false
		}
		v, _ := constant.Int64Val(obj.Val())
		out[strings.TrimPrefix(n, "EventType")] = v
	}
	return out, true
}

var kindTable = map[string]an.Set{
	"Replaceable":      an.Range(0, 0).Union(an.Range(3, 3)).Union(an.Range(10000, 19999)),
	"Ephemeral":        an.Range(20000, 29999),
	"ParamReplaceable": an.Range(30000, 39999),
}

func runKindPart(c *core.Ctx) {
	P := c.P
	et := P.Method(P.Root, "Event", "EventType")
	cls, ok := eventClasses(P)
	if et == nil || !ok {
		c.NoAnchor(nil, "Event.EventType / EventType constants")
		return
	}
	c.CountFuncs(1)
	subject := "recv.Kind"
	// the classification may be delegated to a helper that is handed the kind
	for depth := 0; depth < 3; depth++ {
		rbs := an.ReturnBlocks(et)
		if len(rbs) != 1 {
			break
		}
		call, ok := an.Unwrap(an.ReturnValues(an.LastInstr(rbs[0]).(*ssa.Return))[0]).(*ssa.Call)
		if !ok {
			break
		}
		g := an.StaticCallee(&call.Call)
		if !an.InModuleFn(g) || len(g.Params) != len(call.Call.Args) {
			break
		}
		pi := -1
		for i, a := range call.Call.Args {
			if an.PathOf(a) == subject {
				pi = i
			}
		}
		if pi < 0 {
			break
		}
		et, subject = g, "p:"+g.Params[pi].Name()
		c.CountFuncs(1)
	}
	fr := an.ConstFrame(subject)
	got := map[int64]an.Set{}
	for _, rb := range an.ReturnBlocks(et) {
		r := an.LastInstr(rb).(*ssa.Return)
		k, ok := an.ConstInt(r.Results[0])
		if !ok {
			c.Unknown(nil, fname(c, et), "return", P.Pos(r.Pos()), "EventType returns a non-constant: "+an.PathOf(r.Results[0]))
			return
		}
		var opq []an.Cond
		s, n, ok := fr.ReachSet(et, rb, nil, &opq)
		c.CountPaths(n)
		if !ok || len(opq) > 0 {
			c.Unknown(nil, fname(c, et), "return", P.Pos(r.Pos()), "classification depends on conditions outside the interval fragment: "+describeConds(opq))
			return
		}
		got[k] = got[k].Union(s)
	}
	rest := an.Full()
	for _, name := range []string{"Replaceable", "Ephemeral", "ParamReplaceable"} {
		want := kindTable[name]
		rest = rest.Intersect(want.Complement())
		g := got[cls[name]]
		c.Check(g.Equal(want), nil, fname(c, et), "class:"+name, P.Pos(et.Pos()), name+" ⇔ kind ∈ "+g.String(), name+" ⇔ kind ∈ "+g.String()+", want "+want.String())
	}
	g := got[cls["Regular"]]
	c.Check(g.Equal(rest), nil, fname(c, et), "class:Regular", P.Pos(et.Pos()), "Regular ⇔ kind ∈ "+g.String(), "Regular ⇔ kind ∈ "+g.String()+", want "+rest.String())
}

// ---------------------------------------------------------------- cache anchors

type cacheAnchors struct {
	add     *ssa.Function // exported EventCache.Add
	ins     *ssa.Function // helper with the map insert on evs
	del     *ssa.Function // helper with the builtin delete on evs
	keyFn   *ssa.Function // key function used by Add
	insCall *ssa.Call     // call of ins in Add
	// entry / entryCall: the exported Add and its call that leads to the insertion. They
	// differ from add / insCall when Add is a thin wrapper (`if ephemeral { return true };
	// return c.addLocked(key, event)`): then add is the wrapped body.
	entry     *ssa.Function
	entryCall *ssa.Call
}

// cacheStmt: a statement on the retained map as seen from a role function: the statement itself
// (in `at`, the function holding it — the role function, or a method of the struct the containers
// were regrouped into) and `site`, the instruction of the role function it happens at (the statement,
// or the call that leads to it).
type cacheStmt struct {
	mu   *ssa.MapUpdate
	del  *ssa.Call
	at   *ssa.Function
	site ssa.Instruction
}

func viaGroupOnly(g *ssa.Function) bool { return an.RecvOwnerHook(g) != "recv" }

func cacheStmts(fn *ssa.Function, deletes bool) []cacheStmt {
	var out []cacheStmt
	an.Region(fn, viaGroupOnly, func(o an.Occ) {
		site := o.In
		if len(o.Chain) > 0 {
			site = o.Chain[0]
		}
		switch x := o.In.(type) {
		case *ssa.MapUpdate:
			if !deletes && o.Path(x.Map) == "recv.evs" {
				out = append(out, cacheStmt{mu: x, at: x.Parent(), site: site})
			}
		case *ssa.Call:
			if b, ok := x.Call.Value.(*ssa.Builtin); deletes && ok && b.Name() == "delete" && len(x.Call.Args) == 2 && o.Path(x.Call.Args[0]) == "recv.evs" {
				out = append(out, cacheStmt{del: x, at: x.Parent(), site: site})
			}
		}
	})
	return out
}

func mapUpdatesOn(fn *ssa.Function, suffix string) []*ssa.MapUpdate {
	var out []*ssa.MapUpdate
	an.Instrs(fn, func(in ssa.Instruction) {
		if mu, ok := in.(*ssa.MapUpdate); ok && strings.HasSuffix(an.PathOf(mu.Map), suffix) {
			out = append(out, mu)
		}
	})
	return out
}

func mapDeletesOn(fn *ssa.Function, suffix string) []*ssa.Call {
	var out []*ssa.Call
	an.Instrs(fn, func(in ssa.Instruction) {
		if call, ok := in.(*ssa.Call); ok {
			if b, ok := call.Call.Value.(*ssa.Builtin); ok && b.Name() == "delete" && strings.HasSuffix(an.PathOf(call.Call.Args[0]), suffix) {
				out = append(out, call)
			}
		}
	})
	return out
}

// stop: the cache's role functions are anchors of their own; a region does
// not descend into them.
func (a *cacheAnchors) stop(g *ssa.Function) bool {
	for _, r := range []*ssa.Function{a.add, a.ins, a.del, a.keyFn} {
		if r != nil && sameFunc(g, r) {
			return true
		}
	}
	return false
}

func resolveCache(c *core.Ctx) *cacheAnchors {
	P := c.P
	a := &cacheAnchors{add: P.Method(P.Root, "EventCache", "Add")}
	if a.add == nil {
		return nil
	}
	for _, fn := range P.ModFuncs {
		if recvTypeName(fn) != "EventCache" || fn.Parent() != nil {
			continue
		}
		if len(mapUpdatesOn(fn, "recv.evs")) > 0 {
			a.ins = fn
		}
		if len(mapDeletesOn(fn, "recv.evs")) > 0 {
			a.del = fn
		}
	}
	if a.ins == nil || a.del == nil {
		// the three containers regrouped into a small struct of their own (`store eventCacheStore` with
		// put / remove): the role functions are the cache's methods that update them through that
		// struct's methods, which are read as part of their callers
		for _, fn := range P.ModFuncs {
			if recvTypeName(fn) != "EventCache" || fn.Parent() != nil {
				continue
			}
			if a.ins == nil && len(cacheStmts(fn, false)) > 0 {
				a.ins = fn
			}
			if a.del == nil && len(cacheStmts(fn, true)) > 0 {
				a.del = fn
			}
		}
	}
	if a.ins == nil || a.del == nil {
		return nil
	}
	a.entry = a.add
	if a.ins == a.add {
		// insertion inlined into Add: key is the map index
		return a
	}
	if len(callsTo(a.add, a.ins)) == 0 {
		// Add as a thin wrapper around the body that inserts
		if body, call := wrappedBody(c, a.add, a.ins); body != nil {
			a.add, a.entryCall = body, call
		}
	}
	for _, call := range callsTo(a.add, a.ins) {
		a.insCall = call
		for _, arg := range call.Call.Args[1:] {
			// (the storage key is a string; other precomputed arguments — index keys handed in as a
			// slice — are not the key function's result)
			if bt, isB := arg.Type().Underlying().(*types.Basic); !isB || bt.Kind() != types.String {
				continue
			}
			if cc := an.CallOf(arg); cc != nil {
				if k := an.StaticCallee(&cc.Call); k != nil && c.P.InModule(k) {
					a.keyFn = k
				}
			}
		}
	}
	if a.entryCall == nil {
		a.entryCall = a.insCall
	} else if a.keyFn == nil && a.insCall != nil {
		// the key is computed by the wrapper and handed to the body as a parameter
		for _, arg := range a.insCall.Call.Args[1:] {
			if p, isP := arg.(*ssa.Parameter); isP {
				for i, q := range a.add.Params {
					if q == p && i < len(a.entryCall.Call.Args) {
						if cc := an.CallOf(a.entryCall.Call.Args[i]); cc != nil {
							if k := an.StaticCallee(&cc.Call); k != nil && c.P.InModule(k) {
								a.keyFn = k
							}
						}
					}
				}
			}
		}
	}
	if a.insCall == nil || a.keyFn == nil {
		return nil
	}
	return a
}

// delArg: whom a removal is requested for, spelled "lit{EventKey=K,Pubkey=P}" whatever the removal
// helper's signature: one key struct (as on the baseline), or the storage key and the author as
// two strings.
func (a *cacheAnchors) delArg(o an.Occ) string {
	call, ok := o.In.(*ssa.Call)
	if !ok || a.del == nil {
		return ""
	}
	if len(call.Call.Args) != 3 {
		return occArg(o, 1)
	}
	ki := a.delKeyParam()
	if ki != 1 && ki != 2 {
		return occArg(o, 1)
	}
	return "lit{EventKey=" + o.Path(call.Call.Args[ki]) + ",Pubkey=" + o.Path(call.Call.Args[3-ki]) + "}"
}

// delKeyParam: for a removal helper taking (key, pubkey string), the index of the parameter
// that is the storage key (the one evs is indexed with); 0 otherwise.
func (a *cacheAnchors) delKeyParam() int {
	if a.del == nil || len(a.del.Params) != 3 {
		return 0
	}
	for i := 1; i <= 2; i++ {
		if bt, ok := a.del.Params[i].Type().Underlying().(*types.Basic); !ok || bt.Kind() != types.String {
			return 0
		}
	}
	for _, d := range cacheStmts(a.del, true) {
		for i := 1; i <= 2; i++ {
			if an.PathOf(d.del.Call.Args[1]) == "p:"+a.del.Params[i].Name() {
				return i
			}
		}
	}
	return 0
}

// evParam: the access path of fn's *Event parameter (the event being added).
func evParamOf(fn *ssa.Function) string {
	for _, p := range fn.Params[1:] {
		if typeNameOf(p.Type()) == "Event" {
			return "p:" + p.Name()
		}
	}
	if len(fn.Params) > 1 {
		return "p:" + fn.Params[1].Name()
	}
	return ""
}

// inEntryTerms: an access path of the body whose root is a parameter the wrapper computes
// (`eventKey`) is rewritten to what the wrapper passes for it.
func (a *cacheAnchors) inEntryTerms(path string) string {
	if a.entry == a.add || a.entryCall == nil {
		return path
	}
	for i, q := range a.add.Params {
		pp := "p:" + q.Name()
		if i < len(a.entryCall.Call.Args) && (path == pp || strings.HasPrefix(path, pp+".") || strings.HasPrefix(path, pp+"[")) {
			arg := a.entryCall.Call.Args[i]
			if _, isParam := arg.(*ssa.Parameter); isParam {
				return path // handed through unchanged
			}
			return an.PathOf(arg) + strings.TrimPrefix(path, pp)
		}
	}
	return path
}

// wrappedBody: entry is `[if ephemeral { return true }] return recv.body(…)`: one call of a
// private method that calls ins, whose result is what entry returns; every other return of
// entry is the constant true behind the ephemeral test. Anything else is not a wrapper.
func wrappedBody(c *core.Ctx, entry, ins *ssa.Function) (*ssa.Function, *ssa.Call) {
	var body *ssa.Function
	var call *ssa.Call
	n := 0
	for _, ci := range calls(entry) {
		cc, ok := ci.(*ssa.Call)
		if !ok {
			continue
		}
		g := an.StaticCallee(&cc.Call)
		if g == nil || !c.P.InModule(g) || recvTypeName(g) != "EventCache" || len(callsTo(g, ins)) == 0 {
			continue
		}
		body, call = g, cc
		n++
	}
	if n != 1 || an.InLoop(call.Block()) {
		return nil, nil
	}
	subj := eventTypeSubject(entry)
	for _, rb := range an.ReturnBlocks(entry) {
		rv := an.ReturnValues(an.LastInstr(rb).(*ssa.Return))[0]
		if an.Unwrap(rv) == ssa.Value(call) || blockLocal(rv) == ssa.Value(call) {
			continue
		}
		// (the body may report more than the verdict — what it evicted, for a hook run outside the lock)
		if ex, isEx := an.Unwrap(rv).(*ssa.Extract); isEx && ex.Index == 0 && ex.Tuple == ssa.Value(call) {
			continue
		}
		if !isConstBool(rv, true) || subj == "" {
			return nil, nil
		}
		eph := false
		for _, g := range an.Guards(entry, rb) {
			if b, isB := g.V.(*ssa.BinOp); isB && (b.Op == token.EQL) == g.True && an.PathOf(b.X) == subj {
				eph = true // which class it is compared with is KEY-CLASS's business
			}
		}
		if !eph {
			return nil, nil
		}
	}
	return body, call
}

// eventTypeSubject finds the access path of the EventType() call on the
// function's *Event parameter.
func eventTypeSubject(fn *ssa.Function) string {
	var s string
	an.Instrs(fn, func(in ssa.Instruction) {
		if call, ok := in.(*ssa.Call); ok && strings.HasSuffix(an.CalleeName(&call.Call), "mocrelay.Event).EventType") {
			s = an.PathOf(call)
		}
	})
	return s
}

func attrsOf(path string) map[string]bool {
	out := map[string]bool{}
	for _, a := range []string{"ID", "Pubkey", "Kind", "Tags", "CreatedAt"} {
		if strings.Contains(path, "."+a) {
			out[a] = true
		}
	}
	return out
}

func attrList(m map[string]bool) string {
	var ks []string
	for k := range m {
		ks = append(ks, k)
	}
	sort.Strings(ks)
	return "{" + strings.Join(ks, ",") + "}"
}

var keyRequired = map[string][]string{
	"Regular":          {"ID"},
	"Replaceable":      {"Kind", "Pubkey"},
	"ParamReplaceable": {"Kind", "Pubkey", "Tags"},
}

func runKeyClass(c *core.Ctx) {
	P := c.P
	cls, ok := eventClasses(P)
	if !ok {
		c.NoAnchor(nil, "EventType constants")
		return
	}
	classNames := []string{"Regular", "Replaceable", "Ephemeral", "ParamReplaceable"}
	// ---- cache
	if a := resolveCache(c); a == nil || a.keyFn == nil {
		c.NoAnchor([]string{"C04", "C05"}, "EventCache.Add → insertion helper → key function")
	} else {
		c.CountFuncs(3)
		props := []string{"C04", "C05"}
		// which classes reach the store? Read along every way from an exported method down to the
		// insertion helper: on each level (the method, the helpers in between) the event classes that can
		// arrive at the next call; a class is stored through a way when no level excludes it
		classesReaching := func(m *ssa.Function) (an.Set, int, []string) {
			out := an.Empty()
			nOcc := 0
			var sites []string
			an.Region(m, func(g *ssa.Function) bool { return sameFunc(g, a.ins) }, func(o an.Occ) {
				call, ok := o.In.(*ssa.Call)
				if !ok {
					return
				}
				if sc := an.StaticCallee(&call.Call); sc == nil || !sameFunc(sc, a.ins) {
					return
				}
				nOcc++
				type level struct {
					fn *ssa.Function
					b  *ssa.BasicBlock
				}
				var levels []level
				cur := m
				for _, cs := range o.Chain {
					levels = append(levels, level{cur, cs.Block()})
					cur = an.StaticCallee(&cs.Call)
				}
				levels = append(levels, level{call.Parent(), call.Block()})
				way := an.Full()
				for _, lv := range levels {
					subj := eventTypeSubject(lv.fn)
					if subj == "" {
						continue
					}
					set, n, okSet := an.ConstFrame(subj).ReachSet(lv.fn, lv.b, nil, nil)
					c.CountPaths(n)
					if okSet {
						way = way.Intersect(set)
					}
				}
				if way.Contains(cls["Ephemeral"]) {
					sites = append(sites, P.Pos(o.Site().Pos()))
				}
				out = out.Union(way)
			})
			return out, nOcc, sites
		}
		stored := map[string]bool{}
		for _, n := range classNames {
			stored[n] = true
		}
		if set, nOcc, _ := classesReaching(a.entry); nOcc > 0 {
			for _, cn := range classNames {
				stored[cn] = set.Contains(cls[cn])
			}
		}
		c.Check(!stored["Ephemeral"], []string{"C04"}, fname(c, a.entry), "class:Ephemeral/stored", P.Pos(a.insCall.Pos()),
			"ephemeral events never reach the insertion", "ephemeral events reach the insertion helper and are retained and served (Add(kind 20001) then Find([{}]) returns it)")
		// (a method that only forwards to an injectable key function stands for its default)
		checkKeyFunc(c, an.Follow(a.keyFn), 0, -1, props, stored, cls, classNames)
		// … and by no other door: every exported method of the cache from which the insertion helper can be
		// reached (a bulk variant, a restore path) keeps ephemeral events out on the way — by a test of its
		// own, or because the test sits in what it shares with Add
		for _, m := range P.ModFuncs {
			if recvTypeName(m) != "EventCache" || m.Parent() != nil || m == a.entry {
				continue
			}
			if obj, _ := m.Object().(*types.Func); obj == nil || !obj.Exported() {
				continue
			}
			_, nOcc, through := classesReaching(m)
			if nOcc == 0 {
				continue
			}
			c.CountSites(nOcc)
			c.Check(len(through) == 0, []string{"C04"}, fname(c, m), "class:Ephemeral/stored", P.Pos(m.Pos()),
				fmt.Sprintf("ephemeral events never reach the insertion through %s either (%d way(s) down, each behind the class test)", m.Name(), nOcc),
				"ephemeral events reach the insertion helper through "+m.Name()+" ("+strings.Join(through, ", ")+") without passing the class test that Add applies: they are retained and served")
		}
	}
	// ---- sqlite
	ins := P.Func(P.Sqlite, "insertEvents")
	var keyFn *ssa.Function
	if ins != nil {
		// the key function: called (transitively) with the event, returns (int64, bool)
		for _, fn := range an.RefClosure([]*ssa.Function{ins}, P.InModule) {
			if fn.Signature.Results().Len() == 2 && eventTypeSubject(fn) != "" {
				// (key, ok): an integer and a bool — not any two-result function that looks at an event type
				r0, ok0 := fn.Signature.Results().At(0).Type().Underlying().(*types.Basic)
				r1, ok1 := fn.Signature.Results().At(1).Type().Underlying().(*types.Basic)
				if ok0 && ok1 && r0.Info()&types.IsInteger != 0 && r1.Kind() == types.Bool {
					keyFn = fn
				}
				// … or (key, err): "no key" reported with a reason
				if ok0 && r0.Info()&types.IsInteger != 0 && types.Identical(fn.Signature.Results().At(1).Type(), types.Universe.Lookup("error").Type()) && keyFn == nil {
					keyFn = fn
				}
			}
		}
	}
	if keyFn == nil {
		c.NoAnchor([]string{"C06"}, "sqlite key function (reachable from insertEvents, switches on EventType)")
		return
	}
	c.CountFuncs(1)
	stored := map[string]bool{"Regular": true, "Replaceable": true, "Ephemeral": true, "ParamReplaceable": true}
	checkKeyFunc(c, keyFn, 0, 1, []string{"C06"}, stored, cls, classNames)
}

// checkKeyFunc: per return of the key function, the classes that reach it
// and the event attributes feeding the key. okIdx >= 0: result #okIdx is the
// "has a key" flag (false = not stored).
func checkKeyFunc(c *core.Ctx, k *ssa.Function, keyIdx, okIdx int, props []string, stored map[string]bool, cls map[string]int64, classNames []string) {
	P := c.P
	subj := eventTypeSubject(k)
	if subj == "" {
		c.Unknown(props, fname(c, k), "class-switch", P.Pos(k.Pos()), "key function does not switch on EventType()")
		return
	}
	fr := an.ConstFrame(subj)
	type acc struct {
		seen    bool
		bad     []string
		good    []string
		pos     string
		dropped bool
	}
	per := map[string]*acc{}
	for _, n := range classNames {
		per[n] = &acc{}
	}
	for _, rb := range an.ReturnBlocks(k) {
		r := an.LastInstr(rb).(*ssa.Return)
		s, n, ok := fr.ReachSet(k, rb, nil, nil)
		c.CountPaths(n)
		if !ok {
			c.Unknown(props, fname(c, k), "class-switch", P.Pos(r.Pos()), "too many paths")
			return
		}
		kp := an.PathOf(r.Results[keyIdx])
		attrs := attrsOf(kp)
		// values hashed into the key through a stateful writer: io.WriteString(x, v)
		// calls dominating the return contribute their argument
		for _, ci := range calls(k) {
			call, ok := ci.(*ssa.Call)
			if !ok || an.CalleeName(&call.Call) != "io.WriteString" {
				continue
			}
			if call.Block() == rb || call.Block().Dominates(rb) {
				for a := range attrsOf(an.PathOf(call.Call.Args[1])) {
					attrs[a] = true
				}
			}
		}
		notStored := okIdx >= 0 && (isConstBool(r.Results[okIdx], false) ||
			// (the presence of a key reported as an error: a non-nil error is "no key")
			(types.Identical(r.Results[okIdx].Type(), types.Universe.Lookup("error").Type()) && definitelyError(r.Results[okIdx])))
		for _, cn := range classNames {
			if !s.Contains(cls[cn]) {
				continue
			}
			a := per[cn]
			a.seen = true
			a.pos = P.Pos(r.Pos())
			if notStored {
				a.dropped = true
				a.good = append(a.good, "not stored")
				continue
			}
			if !stored[cn] {
				a.good = append(a.good, "class never reaches the store")
				continue
			}
			miss := []string{}
			for _, req := range keyRequired[cn] {
				if !attrs[req] {
					miss = append(miss, req)
				}
			}
			if cn == "Ephemeral" {
				a.bad = append(a.bad, "ephemeral event gets a storage key "+attrList(attrs))
				continue
			}
			if len(miss) > 0 {
				a.bad = append(a.bad, fmt.Sprintf("a return (%s) builds the key from %s, missing %v: events of different authors share one key and replace each other", P.Pos(r.Pos()), attrList(attrs), miss))
			} else {
				a.good = append(a.good, "key ⊇ "+attrList(attrs))
			}
		}
	}
	for _, cn := range classNames {
		a := per[cn]
		construct := "class:" + cn + "/key"
		switch {
		case !a.seen:
			c.Unknown(props, fname(c, k), construct, P.Pos(k.Pos()), "no return reachable for this class")
		case len(a.bad) > 0:
			c.Bad(props, fname(c, k), construct, a.pos, strings.Join(a.bad, "; "))
		default:
			c.OK(props, fname(c, k), construct, a.pos, strings.Join(a.good, "; "))
		}
	}
}

// ---------------------------------------------------------------- NEWEST-WINS

func runNewestWins(c *core.Ctx) {
	P := c.P
	a := resolveCache(c)
	if a == nil {
		c.NoAnchor(nil, "EventCache insertion helper")
		return
	}
	ins := a.ins
	c.CountFuncs(1)
	mus := cacheStmts(ins, false)
	mu, muSite := mus[0].mu, mus[0].site
	keyPath := an.PathOf(mu.Key)
	evPath := an.PathOf(mu.Value)
	oldPath := "recv.evs[" + keyPath + "]"
	fr := an.SymFrame(evPath+".CreatedAt", oldPath+".CreatedAt")
	present := func(p an.Path) bool {
		for _, cd := range p.Conds() {
			cd = an.NormCond(cd) // `!exists` taken false is `exists` taken true
			if an.PathOf(cd.V) == "ok("+oldPath+")" && cd.True {
				return true
			}
		}
		return false
	}
	t, f, n, ok := fr.FuncBoolMeaning(ins, 0, present, nil)
	c.CountPaths(n)
	if !ok || n == 0 {
		c.Unknown(nil, fname(c, ins), "order(old,new)", P.Pos(ins.Pos()), fmt.Sprintf("no path tests presence of %s (paths=%d)", oldPath, n))
		return
	}
	older, newer := an.Range(an.NegInf, -1), an.Range(1, an.PosInf)
	c.Check(older.Intersect(t).IsEmpty() && older.Subset(f), nil, fname(c, ins), "order(old,new)/older", P.Pos(ins.Pos()),
		"with a retained version old: accepted when new.CreatedAt ∈ "+t.Format("old")+", refused ∈ "+f.Format("old")+": strictly older is always refused",
		"accepted when new.CreatedAt ∈ "+t.Format("old")+", refused ∈ "+f.Format("old")+": a strictly older version can displace the retained one")
	c.Check(newer.Intersect(f).IsEmpty() && newer.Subset(t), nil, fname(c, ins), "order(old,new)/newer", P.Pos(ins.Pos()),
		"strictly newer is always accepted (accepted ∈ "+t.Format("old")+")",
		"refused when new.CreatedAt ∈ "+f.Format("old")+": a strictly newer version does not always displace the retained one")
	// displaced version removed before the store: every kept path to the map
	// update passes a call of the removal helper with the same key
	paths, _ := an.PathsTo(ins, muSite.Block(), 4096)
	delOccs := occCallsTo(ins, a.del, a.stop)
	okRem := true
	cnt := 0
	seenArgs := map[string]bool{}
	for _, p := range paths {
		if !present(p) || !an.Feasible(p) {
			continue
		}
		cnt++
		found := false
		for _, o := range delOccs {
			if !p.Contains(o.Block()) {
				continue
			}
			arg := a.delArg(o)
			seenArgs[clip(arg, 160)] = true
			// removed under the key it is stored under: the insertion key itself, or the
			// key function applied to the retained version found under that key
			if strings.Contains(arg, "EventKey="+keyPath) || (a.keyFn != nil && (strings.Contains(arg, "EventKey=call:"+a.keyFn.String()+"(recv,"+oldPath+")") || strings.Contains(arg, "EventKey=call:"+an.FuncFullName(an.Follow(a.keyFn))+"("+oldPath+")"))) {
				found = true
			}
		}
		if !found {
			okRem = false
		}
	}
	var argList []string
	for k := range seenArgs {
		argList = append(argList, k)
	}
	sort.Strings(argList)
	c.Check(okRem && cnt > 0, nil, fname(c, ins), "displace/remove-old", P.Pos(mu.Pos()),
		fmt.Sprintf("on all %d displacing paths the retained version is removed (map, tree, index) under the same key before the store", cnt),
		fmt.Sprintf("a displacing path stores the new version without removing the old one from the tree/index (removals seen: %v)", argList))
}

// ---------------------------------------------------------------- CAP-GUARD

// calleeReturnPath: union of result #0 provenance of a module function.
func calleeReturnPath(fn *ssa.Function) string {
	set := map[string]bool{}
	for _, rb := range an.ReturnBlocks(fn) {
		r := an.LastInstr(rb).(*ssa.Return)
		if len(r.Results) > 0 {
			set[an.PathOf(r.Results[0])] = true
		}
	}
	var ks []string
	for k := range set {
		ks = append(ks, k)
	}
	sort.Strings(ks)
	return strings.Join(ks, "|")
}

func runCapGuard(c *core.Ctx) {
	P := c.P
	a := resolveCache(c)
	if a == nil || a.insCall == nil {
		c.NoAnchor(nil, "EventCache.Add / insertion call")
		return
	}
	add := a.add
	c.CountFuncs(1)
	// eviction call: call of the removal helper in Add (possibly through a private wrapper)
	var evo *an.Occ
	for _, o := range occCallsTo(add, a.del, a.stop) {
		o := o
		evo = &o
	}
	if evo == nil {
		c.Bad(nil, fname(c, add), "evict", P.Pos(add.Pos()), "Add never removes an event when the capacity is exceeded")
		return
	}
	ev := evo.Site()
	fr := an.SymFrame("len(recv.evs)", "recv.Cap")
	fr.Domain = nil
	s, n, ok := fr.OccReachSet(add, *evo)
	c.CountPaths(n)
	c.Check(ok && s.Equal(an.Range(1, an.PosInf)), nil, fname(c, add), "evict/guard", P.Pos(ev.Pos()),
		"eviction executes iff len(evs) ∈ "+s.Format("Cap"), "eviction executes when len(evs) ∈ "+s.Format("Cap")+", want (Cap,+∞): the store can exceed its capacity or evict too early")
	// the capacity test lies on every path from the insertion to a true return
	var capBlock *ssa.BasicBlock
	for _, g := range an.Guards(add, ev.Block()) {
		if _, ok := fr.Atom(g.V, g.True); ok {
			capBlock = g.At
		}
	}
	// the test may sit inside a private eviction helper: then passing the helper's call
	// site is passing the test
	if capBlock == nil && len(evo.Chain) > 0 {
		capBlock = ev.Block()
	}
	okDom := capBlock != nil
	if okDom {
		for _, rb := range an.ReturnBlocks(add) {
			paths, _ := an.PathsTo(add, rb, 4096)
			for _, p := range paths {
				if !p.Contains(a.insCall.Block()) {
					continue
				}
				rv := an.LastInstr(rb).(*ssa.Return).Results[0]
				tr, _ := an.NoSubject().BoolMeaning(resolveRet(rv, p), p, an.Full(), 0)
				if tr.IsEmpty() {
					continue // returns false
				}
				// path may return true after the insertion: must pass the capacity test…
				// unless it is the "insertion failed" path, which returns the helper's false
				failed := false
				for _, cd := range p.Conds() {
					if resolveRet(cd.V, p) == ssa.Value(a.insCall) {
						failed = !cd.True
					}
				}
				if failed {
					continue
				}
				if !p.Contains(capBlock) {
					okDom = false
				}
			}
		}
	}
	c.Check(okDom, nil, fname(c, add), "evict/on-every-success-path", P.Pos(ev.Pos()),
		"every path from a successful insertion to 'return true' passes the capacity test", "a path returns true after inserting without passing the capacity test")
	// victim is taken from the small (oldest) end of the creation-time tree
	vp := a.delArg(*evo)
	src := vp
	an.Instrs(add, func(in ssa.Instruction) {
		if call, ok := in.(*ssa.Call); ok {
			if sc := an.StaticCallee(&call.Call); sc != nil && c.P.InModule(sc) && strings.Contains(vp, an.PathOf(call)) && ssa.Instruction(call) != ev {
				src += " ← " + calleeReturnPath(sc)
			}
		}
	})
	c.Check(strings.Contains(src, ".Reverse") && strings.Contains(src, "evsCreatedAt"), nil, fname(c, add), "evict/victim", P.Pos(ev.Pos()),
		"victim comes from Reverse() of the creation-time tree (oldest end, see ORD-DESC)", "victim is not taken from the Reverse() end of the creation-time tree: "+src)
}

// resolveRet exposes the ival package's handling of spilled named results.
func resolveRet(v ssa.Value, p an.Path) ssa.Value { return an.ResolveRetVal(v, p) }

// ---------------------------------------------------------------- ADD-FLAG

// refusalHelper: call is a call of a private bool helper every 'true' way of which tests a hit in
// the deletion registry or that the stored version is at least as new as the offered one
func refusalHelper(call *ssa.Call) (registry, order, ok bool) {
	if call == nil {
		return false, false, false
	}
	h := an.StaticCallee(&call.Call)
	if h == nil || !an.PrivateHelper(h) || h.Signature.Results().Len() != 1 || h.Signature.Results().At(0).Type().String() != "bool" {
		return false, false, false
	}
	tps, okp := an.ResultPathsDeep(h, 0, true)
	if !okp || len(tps) == 0 {
		return false, false, false
	}
	for _, tp := range tps {
		good := false
		for _, cd := range tp.Conds {
			k := condKey(an.NormCond(cd))
			switch {
			case strings.Contains(k, ".deleted[") && (strings.HasPrefix(k, "const:nil != ") || strings.HasSuffix(k, " != const:nil")):
				good, registry = true, true
			case strings.Contains(k, ".CreatedAt <= recv.evs[") && strings.HasSuffix(k, "].CreatedAt"):
				good, order = true, true
			}
		}
		if !good {
			return false, false, false
		}
	}
	return registry, order, true
}

func runAddFlag(c *core.Ctx) {
	P := c.P
	a := resolveCache(c)
	if a == nil || a.insCall == nil {
		c.NoAnchor(nil, "EventCache.Add / insertion call")
		return
	}
	add := a.add
	c.CountFuncs(1)
	isRegistryLookup := func(v ssa.Value) bool {
		call := an.CallOf(v)
		if call == nil {
			return strings.Contains(an.PathOf(v), ".deleted[")
		}
		sc := an.StaticCallee(&call.Call)
		if sc == nil || !P.InModule(sc) {
			return false
		}
		return strings.Contains(calleeReturnPath(sc), ".deleted[")
	}
	nFalse, nTrue := 0, 0
	nReg, nRef := 0, 0
	preRejects := acceptedRejectBlocks(c, add)
	for _, rb := range an.ReturnBlocks(add) {
		paths, ok := an.PathsTo(add, rb, 4096)
		if !ok {
			c.Unknown(nil, fname(c, add), "returns", P.Pos(add.Pos()), "too many paths")
			return
		}
		c.CountPaths(len(paths))
		for _, p := range paths {
			if !an.Feasible(p) {
				continue
			}
			if nilArgPath(add, p.Conds()) {
				continue // `if event == nil { return false }`: no event, outside what the property speaks about
			}
			rv := resolveRet(an.LastInstr(rb).(*ssa.Return).Results[0], p)
			fr := an.NoSubject()
			// the insertion helper's result is false exactly on the path that took its false edge
			insTrue := true
			for _, cd := range p.Conds() {
				if resolveRet(cd.V, p) == ssa.Value(a.insCall) {
					insTrue = cd.True
				}
			}
			fr.Assume = map[ssa.Value]bool{ssa.Value(a.insCall): insTrue}
			t, f := fr.BoolMeaning(rv, p, an.Full(), 0)
			pos := P.Pos(an.LastInstr(rb).Pos())
			switch {
			case !t.IsEmpty() && !f.IsEmpty():
				c.Unknown(nil, fname(c, add), "return@"+an.PathOf(rv), pos, "result not a constant nor the insertion helper's verdict")
				return
			case f.IsEmpty():
				nTrue++
				if !insTrue && p.Contains(a.insCall.Block()) {
					c.Bad(nil, fname(c, add), "return-true-after-refusal", pos, "Add reports 'new' although the insertion helper refused the event (duplicate or older version)")
					return
				}
			default:
				nFalse++
				why := ""
				for _, cd := range p.Conds() {
					if cd.True && isRegistryLookup(cd.V) {
						why = "suppressed by the deletion registry"
					}
				}
				if why != "" {
					nReg++
				}
				if !insTrue && p.Contains(a.insCall.Block()) {
					why = "insertion helper refused (duplicate or older)"
					nRef++
				}
				// a private verdict helper that answers 'refuse' only for a registry hit or for a
				// stored version at least as new (`if c.isStale(eventKey, event) { return false }`)
				if why == "" {
					for _, cd := range p.Conds() {
						if !cd.True {
							continue
						}
						if reg, ord, ok := refusalHelper(an.CallOf(cd.V)); ok {
							why = "refused by a helper that answers only for registry hits / an at-least-as-new stored version"
							if reg {
								nReg++
							}
							if ord {
								nRef++
							}
						}
					}
				}
				if why == "" && preRejects[rb] {
					why = "rejected by a read-locked pre-check each of whose rejections has a counterpart in the write-locked section (ONE-CS)"
				}
				if why == "" {
					c.Bad(nil, fname(c, add), "return-false", pos, "Add reports 'not new' on a path that is neither a registry hit nor a refused insertion")
					return
				}
			}
		}
	}
	// the registry test moved into the insertion helper: its refusals then stand for both causes —
	// some way to 'false' tests a registry hit, some other way the stored version
	if nReg == 0 && nRef >= 1 && a.ins != a.add {
		if fps, okf := an.ResultPathsDeep(a.ins, 0, false); okf {
			reg, ord := 0, 0
			for _, fp := range fps {
				isReg, isOrd := false, false
				for _, cd := range fp.Conds {
					k := condKey(an.NormCond(cd))
					if strings.Contains(k, ".deleted[") && (strings.HasPrefix(k, "const:nil != ") || strings.HasSuffix(k, " != const:nil")) {
						isReg = true
					}
					if strings.Contains(k, ".CreatedAt <= recv.evs[") && strings.HasSuffix(k, "].CreatedAt") {
						isOrd = true
					}
				}
				if isReg {
					reg++
				} else if isOrd {
					ord++
				}
			}
			if reg >= 1 && ord >= 1 && reg+ord == len(fps) {
				nReg += reg
			}
		}
	}
	c.Check(nReg >= 1 && nRef >= 1 && nTrue >= 1, nil, fname(c, add), "return-false", P.Pos(add.Pos()),
		fmt.Sprintf("%d false paths (%d registry hit, %d refused insertion), %d true paths", nFalse, nReg, nRef, nTrue), fmt.Sprintf("expected 'not new' both for suppression and for a refused insertion; found %d registry paths, %d refusal paths, %d true paths", nReg, nRef, nTrue))
}
