package an

import (
	"fmt"
	"go/constant"
	"go/token"
	"go/types"
	"sort"
	"strings"

	"golang.org/x/tools/go/ssa"
)

// E-PROV: provenance of an SSA value as a canonical access path string.
// go/ssa performs no CSE, so two reads of msg.Event.ID are distinct values
// with the same access path; rules compare paths.

type provState struct {
	memo map[ssa.Value]string
	busy map[ssa.Value]bool
	// bind: inside an expanded accessor (see accessorResult) the callee's
	// parameters denote the caller's argument paths
	bind  map[*ssa.Parameter]string
	depth int
}

// ModulePrefix: import-path prefix of the analysed module (set by the
// loader); only its functions are expanded as accessors.
var ModulePrefix = "github.com/high-moctane/mocrelay"

// InModuleFn: fn (or, for an instantiation / anonymous function, its origin /
// enclosing function) is declared in the analysed module and has a body.
func InModuleFn(fn *ssa.Function) bool {
	if fn == nil || len(fn.Blocks) == 0 {
		return false
	}
	f := fn
	for f.Parent() != nil {
		f = f.Parent()
	}
	if o := f.Origin(); o != nil {
		f = o
	}
	if f.Pkg != nil {
		return strings.HasPrefix(f.Pkg.Pkg.Path(), ModulePrefix)
	}
	if obj := f.Object(); obj != nil && obj.Pkg() != nil {
		return strings.HasPrefix(obj.Pkg().Path(), ModulePrefix)
	}
	return false
}

// accessorResult: fn is a straight-line, effect-free function of its
// parameters with one result (`func (c *T) len() int { return len(c.evs) }`):
// calling it is the same as writing its body, so its call sites get the
// body's access path. Anything with a branch, a store, a non-builtin call or
// an allocation is not an accessor.
func accessorResult(fn *ssa.Function) ssa.Value {
	if !InModuleFn(fn) || len(fn.Blocks) != 1 {
		return nil
	}
	if fn.Signature.Results().Len() != 1 || len(fn.Blocks[0].Instrs) > 32 {
		return nil
	}
	// exported functions are API: their names are stable anchors, only private helpers
	// come and go with refactorings
	of := fn
	if o := fn.Origin(); o != nil {
		of = o
	}
	if o := of.Object(); o == nil || o.Exported() {
		return nil
	}
	var res ssa.Value
	for _, in := range fn.Blocks[0].Instrs {
		switch x := in.(type) {
		case *ssa.FieldAddr, *ssa.Field, *ssa.BinOp, *ssa.Convert, *ssa.ChangeType, *ssa.IndexAddr, *ssa.Index, *ssa.DebugRef,
			*ssa.MakeInterface, *ssa.Slice, *ssa.Alloc, *ssa.MakeClosure, *ssa.Extract, *ssa.TypeAssert, *ssa.ChangeInterface:
		case *ssa.Store:
			// building a composite literal in a local is part of the expression
			if ResolveAlloc(x.Addr) == nil {
				if fa, ok := x.Addr.(*ssa.FieldAddr); !ok || ResolveAlloc(fa.X) == nil {
					if ia, ok := x.Addr.(*ssa.IndexAddr); !ok || ResolveAlloc(ia.X) == nil {
						return nil
					}
				}
			}
		case *ssa.UnOp:
			if x.Op == token.ARROW {
				return nil
			}
		case *ssa.Lookup:
		case *ssa.Call:
			// `return other(args…)`: the wrapper's result is the inner call, written in the caller's terms
		case *ssa.Return:
			if len(x.Results) != 1 {
				return nil
			}
			res = x.Results[0]
		default:
			return nil
		}
	}
	return res
}

// PathOf returns the canonical access path of v.
func PathOf(v ssa.Value) string {
	st := &provState{memo: map[ssa.Value]string{}, busy: map[ssa.Value]bool{}}
	return st.path(v)
}

// helperResult: for a private helper with several blocks (error checks, early
// returns), result #idx read in the caller's terms — if every return that
// yields a non-zero value yields the same expression, and that expression
// does not hang on an object the helper mutates through other calls (a
// hasher, a builder). "" = no such reading.
func (st *provState) helperResult(c *ssa.CallCommon, idx int) string {
	fn := StaticCallee(c)
	if !(PrivateHelper(fn) || PureAccessor(fn)) || st.depth >= 2 || len(fn.Params) != len(c.Args) || len(fn.Blocks) > 12 {
		return ""
	}
	sub := &provState{memo: map[ssa.Value]string{}, busy: map[ssa.Value]bool{}, bind: map[*ssa.Parameter]string{}, depth: st.depth + 1}
	for i, p := range fn.Params {
		sub.bind[p] = st.path(c.Args[i])
	}
	// objects handed to two or more calls: their later products depend on earlier calls
	uses := map[ssa.Value]int{}
	Instrs(fn, func(in ssa.Instruction) {
		if ci, ok := in.(ssa.CallInstruction); ok {
			seen := map[ssa.Value]bool{}
			for _, a := range ci.Common().Args {
				a = Unwrap(a)
				switch a.(type) {
				case *ssa.Call, *ssa.Alloc, *ssa.Extract, *ssa.MakeMap, *ssa.MakeSlice:
					if !seen[a] {
						seen[a] = true
						uses[a]++
					}
				}
			}
			if ci.Common().IsInvoke() {
				uses[Unwrap(ci.Common().Value)]++
			}
		}
	})
	visited := map[ssa.Value]bool{}
	var dependsOnStateful func(v ssa.Value, depth int) bool
	dependsOnStateful = func(v ssa.Value, depth int) bool {
		if v == nil || depth > 24 || visited[v] {
			return false
		}
		visited[v] = true
		if uses[Unwrap(v)] >= 2 {
			return true
		}
		// a local whose address was handed to a call is written behind our back
		if a, isAlloc := v.(*ssa.Alloc); isAlloc {
			if uses[a] >= 1 {
				return true
			}
			if refs := a.Referrers(); refs != nil {
				for _, r := range *refs {
					switch x := r.(type) {
					case *ssa.MakeInterface:
						return true
					case *ssa.Store:
						if x.Val == ssa.Value(a) {
							return true
						}
					}
				}
			}
		}
		in, ok := v.(ssa.Instruction)
		if !ok {
			return false
		}
		for _, op := range in.Operands(nil) {
			if op != nil && *op != nil && dependsOnStateful(*op, depth+1) {
				return true
			}
		}
		return false
	}
	out := ""
	for _, rb := range ReturnBlocks(fn) {
		rv := ReturnValues(LastInstr(rb).(*ssa.Return))
		if idx >= len(rv) {
			return ""
		}
		v := rv[idx]
		if k, isK := v.(*ssa.Const); isK && (k.Value == nil || k.Value.ExactString() == "0" || k.Value.ExactString() == `""` || k.Value.ExactString() == "false") {
			continue
		}
		if _, isK := v.(*ssa.Const); isK || dependsOnStateful(v, 0) {
			return "" // a verdict / code chosen per path is not an expression of the arguments
		}
		p := sub.path(v)
		if out != "" && p != out {
			return ""
		}
		out = p
	}
	return out
}

// PureAccessor: an (exported) module method of a handful of blocks that only reads — no store, map
// update, send, goroutine, defer, and no call other than a builtin (`func (t Tag) Value() string {
// if len(t) < 2 { return "" }; return t[1] }`): what it returns is an expression of its receiver.
func PureAccessor(fn *ssa.Function) bool {
	if fn == nil || !InModuleFn(fn) || fn.Parent() != nil || fn.Signature.Recv() == nil || len(fn.Blocks) == 0 || len(fn.Blocks) > 4 || len(fn.Params) != 1 {
		return false
	}
	pure := true
	Instrs(fn, func(in ssa.Instruction) {
		switch x := in.(type) {
		case *ssa.Store, *ssa.MapUpdate, *ssa.Send, *ssa.Go, *ssa.Defer, *ssa.Select:
			pure = false
		case *ssa.Call:
			if _, isB := x.Call.Value.(*ssa.Builtin); !isB {
				pure = false
			}
		}
	})
	return pure
}

// PathOfIn: access path of a value of a callee, written in the caller's
// terms: the callee's parameters are replaced by the access paths of the
// call's arguments.
func PathOfIn(v ssa.Value, call *ssa.CallCommon) string {
	fn := StaticCallee(call)
	st := &provState{memo: map[ssa.Value]string{}, busy: map[ssa.Value]bool{}, bind: map[*ssa.Parameter]string{}, depth: 1}
	if fn != nil && len(fn.Params) == len(call.Args) {
		for i, p := range fn.Params {
			st.bind[p] = PathOf(call.Args[i])
		}
	}
	if fn = InvokeDefault(call); fn != nil && len(fn.Params) == len(call.Args)+1 {
		for i, p := range fn.Params[1:] {
			st.bind[p] = PathOf(call.Args[i])
		}
	}
	return st.path(v)
}

// transparent callees: the result carries the same information as arg 0.
var transparent = map[string]bool{
	"strings.Clone": true,
}

// IdentityHelper: a one-argument helper of the module whose result equals its argument on every way
// out: it returns the parameter, a transparent copy of it (strings.Clone), or a value it has just
// compared equal to the parameter (an interning hook: `if r := (*f)(s); r == s { return r };
// return strings.Clone(s)`). Whatever it calls on the way cannot change what is handed back.
var identMemo = map[*ssa.Function]bool{}

func IdentityHelper(fn *ssa.Function) bool {
	if fn == nil || len(fn.Blocks) == 0 || len(fn.Params) != 1 || fn.Signature.Results().Len() != 1 || fn.Signature.Recv() != nil || !InModuleFn(fn) {
		return false
	}
	if v, ok := identMemo[fn]; ok {
		return v
	}
	identMemo[fn] = false
	p := fn.Params[0]
	if !types.Identical(p.Type(), fn.Signature.Results().At(0).Type()) {
		return false
	}
	if b, isB := p.Type().Underlying().(*types.Basic); !isB || b.Info()&(types.IsString|types.IsInteger) == 0 {
		return false
	}
	n := 0
	for _, b := range fn.Blocks {
		ret, isRet := b.Instrs[len(b.Instrs)-1].(*ssa.Return)
		if !isRet {
			continue
		}
		n++
		v := ret.Results[0]
		if v == ssa.Value(p) {
			continue
		}
		if cl, isC := v.(*ssa.Call); isC && len(cl.Call.Args) == 1 && cl.Call.Args[0] == ssa.Value(p) && transparent[CalleeName(&cl.Call)] {
			continue
		}
		eq := false
		for _, g := range Guards(fn, b) {
			g = NormCond(g)
			if bo, isBO := g.V.(*ssa.BinOp); isBO && (bo.Op == token.EQL) == g.True && (bo.Op == token.EQL || bo.Op == token.NEQ) &&
				((bo.X == v && bo.Y == ssa.Value(p)) || (bo.Y == v && bo.X == ssa.Value(p))) {
				eq = true
			}
		}
		if !eq {
			return false
		}
	}
	identMemo[fn] = n > 0
	return n > 0
}

// CalleeName gives a stable name of the static callee or invoked method.
func CalleeName(c *ssa.CallCommon) string {
	if c.IsInvoke() {
		if f := InvokeConcrete(c); f != nil {
			return FuncFullName(f)
		}
		recv := c.Value.Type()
		return "invoke:" + types.TypeString(recv, nil) + "." + c.Method.Name()
	}
	switch f := c.Value.(type) {
	case *ssa.Function:
		return FuncFullName(f)
	case *ssa.Builtin:
		return "builtin:" + f.Name()
	case *ssa.MakeClosure:
		if fn, ok := f.Fn.(*ssa.Function); ok {
			return FuncFullName(fn)
		}
	}
	// a call through an injectable field or a function parameter with one default: the default
	if f := StaticCallee(c); f != nil {
		return FuncFullName(f)
	}
	return "dynamic"
}

// Name hooks: the loader installs translations of unexported names to the
// names the rules know them by (core/canon.go). Identity by default.
var (
	FieldNameHook  = func(st *types.Struct, i int) string { return st.Field(i).Name() }
	TypeNameHook   = func(tn *types.TypeName) string { return tn.Name() }
	FuncNameHook   = func(f *types.Func) string { return f.Name() }
	GlobalNameHook = func(o types.Object) string { return o.Name() }
	// NewDeclHook: the function is declared in the analysed module but corresponds to no
	// declaration of the baseline — it was introduced by a later edit.
	NewDeclHook = func(f *types.Func) bool { return false }
	// RecvOwnerHook: how the receiver of fn is named when its type is a later-introduced
	// holder of one field of another struct ("recv.<field>", core.installOwner); "" otherwise.
	RecvOwnerHook = func(fn *ssa.Function) string { return "" }
)

// FuncFullName: "pkgpath.Name" or "(*pkgpath.T).Name", generic instances
// reported under their origin, unexported names in their canonical form.
func FuncFullName(f *ssa.Function) string {
	if f.Parent() != nil {
		// anonymous: parent's name + "$n"
		n := f.Name()
		if i := strings.LastIndex(n, "$"); i >= 0 {
			return FuncFullName(f.Parent()) + n[i:]
		}
		return f.String()
	}
	if o := f.Origin(); o != nil {
		f = o
	}
	s := f.String()
	obj, _ := f.Object().(*types.Func)
	if obj == nil {
		return s
	}
	if cn := FuncNameHook(obj); cn != obj.Name() && strings.HasSuffix(s, "."+obj.Name()) {
		s = strings.TrimSuffix(s, obj.Name()) + cn
	}
	if sig, ok := obj.Type().(*types.Signature); ok && sig.Recv() != nil {
		t := sig.Recv().Type()
		if p, isPtr := t.(*types.Pointer); isPtr {
			t = p.Elem()
		}
		if named, isNamed := t.(*types.Named); isNamed && named.Obj().Pkg() != nil {
			tn := named.Obj()
			if cn := TypeNameHook(tn); cn != tn.Name() {
				s = strings.Replace(s, tn.Pkg().Path()+"."+tn.Name(), tn.Pkg().Path()+"."+cn, 1)
			}
		}
	}
	return s
}

// ShortName: the (canonical) name of a function without package and receiver.
func ShortName(f *ssa.Function) string {
	if f.Parent() != nil {
		return f.Name()
	}
	o := f
	if oo := f.Origin(); oo != nil {
		o = oo
	}
	if obj, ok := o.Object().(*types.Func); ok && obj != nil {
		return FuncNameHook(obj)
	}
	return f.Name()
}

// StaticCallee returns the called function when statically known.
func StaticCallee(c *ssa.CallCommon) *ssa.Function {
	if c.IsInvoke() {
		return nil
	}
	switch f := c.Value.(type) {
	case *ssa.Function:
		return f
	case *ssa.MakeClosure:
		fn, _ := f.Fn.(*ssa.Function)
		return fn
	case *ssa.UnOp:
		// a call through an injectable field (`c.keyFn(event)`): with the default wiring it is the
		// one function the module itself ever puts there
		if f.Op == token.MUL {
			if fa, ok := f.X.(*ssa.FieldAddr); ok {
				return DefaultFieldFuncHook(fa.X.Type(), fa.Field)
			}
		}
	case *ssa.Phi:
		// `if src == nil { src = rand.Uint32 }`: the default, the other edges being what was handed in
		var def *ssa.Function
		for _, e := range f.Edges {
			for {
				ct, isCT := e.(*ssa.ChangeType)
				if !isCT {
					break
				}
				e = ct.X
			}
			switch y := e.(type) {
			case *ssa.Function:
				if def != nil && def != y {
					return nil
				}
				def = y
			case *ssa.Parameter:
				if d := FuncParamDefaultHook(y); d != nil {
					if def != nil && def != d {
						return nil
					}
					def = d
				}
			case *ssa.Const:
			default:
				return nil
			}
		}
		return def
	case *ssa.Parameter:
		// a function handed down as an argument (`setOrLoadXXHashSeed(ctx, db, opt.SeedSource)` …
		// `src()`): what every call site passes, if that is one function
		return FuncParamDefaultHook(f)
	}
	return nil
}

// SoleImplHook: the method `name` of the one type of the module that implements the module's
// interface t (nil when there are none or several). Installed by core.
var SoleImplHook = func(t types.Type, name string) *ssa.Function { return nil }

// InvokeDefault: the method an interface call runs under the module's default wiring — the
// interface is the module's own and exactly one of its types implements it.
func InvokeDefault(c *ssa.CallCommon) *ssa.Function {
	if !c.IsInvoke() {
		return nil
	}
	return SoleImplHook(c.Value.Type(), c.Method.Name())
}

// MethodOfHook: the method `name` of the concrete type t. Installed by core.
var MethodOfHook = func(t types.Type, pkg *types.Package, name string) *ssa.Function { return nil }

// ConcreteType: the one dynamic type an interface value can have — it was made from a value of that
// type here, or by the (statically known, or default-wired) function it was returned by, on every
// way out. nil when that cannot be told.
func ConcreteType(v ssa.Value) types.Type { return concreteType(v, 0) }

func concreteType(v ssa.Value, depth int) types.Type {
	if depth > 4 || v == nil {
		return nil
	}
	if _, isI := v.Type().Underlying().(*types.Interface); !isI {
		return v.Type()
	}
	switch x := v.(type) {
	case *ssa.MakeInterface:
		return x.X.Type()
	case *ssa.ChangeInterface:
		return concreteType(x.X, depth+1)
	case *ssa.Phi:
		var t types.Type
		for _, e := range x.Edges {
			if k, isK := e.(*ssa.Const); isK && k.IsNil() {
				continue
			}
			et := concreteType(e, depth+1)
			if et == nil || (t != nil && !types.Identical(t, et)) {
				return nil
			}
			t = et
		}
		return t
	case *ssa.Extract:
		if call, ok := x.Tuple.(*ssa.Call); ok {
			return resultType(call, x.Index, depth)
		}
	case *ssa.Call:
		return resultType(x, 0, depth)
	}
	return nil
}

func resultType(call *ssa.Call, idx, depth int) types.Type {
	f := StaticCallee(&call.Call)
	if f == nil || len(f.Blocks) == 0 || !InModuleFn(f) {
		return nil
	}
	var t types.Type
	n := 0
	for _, b := range f.Blocks {
		ret, ok := b.Instrs[len(b.Instrs)-1].(*ssa.Return)
		if !ok || idx >= len(ret.Results) {
			continue
		}
		n++
		if k, isK := ret.Results[idx].(*ssa.Const); isK && k.IsNil() {
			continue
		}
		et := concreteType(ret.Results[idx], depth+1)
		if et == nil || (t != nil && !types.Identical(t, et)) {
			return nil
		}
		t = et
	}
	if n == 0 {
		return nil
	}
	return t
}

// InvokeConcrete: the method an interface call runs when the receiver's dynamic type is known.
func InvokeConcrete(c *ssa.CallCommon) *ssa.Function {
	if !c.IsInvoke() {
		return nil
	}
	t := ConcreteType(c.Value)
	if t == nil {
		return nil
	}
	return MethodOfHook(t, c.Method.Pkg(), c.Method.Name())
}

// FuncParamDefaultHook: the function-typed parameter of an unexported module function receives the
// same function at every call site (a named function, or the default of an injectable field). nil
// otherwise. Installed by core.
var FuncParamDefaultHook = func(p *ssa.Parameter) *ssa.Function { return nil }

// Follow: a function that only forwards — one call of a module function (statically known, or the
// default of an injectable field) with its own parameters, constants or nil as arguments, whose
// results it returns as they are (`func (ev *Event) Verify() (bool, error) { return ev.VerifyWith(nil)
// }`, `func NewEventCache(n int) *EventCache { return NewEventCacheWithOptions(n) }`, `func (c
// *EventCache) getEventKey(ev *Event) string { return c.keyFn(ev) }`) stands for the function it
// forwards to: the rules read that one. Followed transitively (three levels).
func Follow(fn *ssa.Function) *ssa.Function {
	for i := 0; i < 3 && fn != nil; i++ {
		if t, ok := followMemo[fn]; ok {
			if t == nil {
				return fn
			}
			fn = t
			continue
		}
		t := forwardTarget(fn)
		followMemo[fn] = t
		if t == nil {
			return fn
		}
		fn = t
	}
	return fn
}

var followMemo = map[*ssa.Function]*ssa.Function{}

// ResetFollow forgets what Follow learnt (a new program was loaded).
func ResetFollow() { followMemo = map[*ssa.Function]*ssa.Function{} }

func forwardTarget(fn *ssa.Function) *ssa.Function {
	if fn == nil || len(fn.Blocks) == 0 || len(fn.Blocks) > 4 || !InModuleFn(fn) || fn.Parent() != nil {
		return nil
	}
	// arguments: own parameters, constants, nil
	isParam := func(v ssa.Value) bool {
		for {
			switch y := v.(type) {
			case *ssa.ChangeType:
				v = y.X
				continue
			case *ssa.MakeInterface:
				v = y.X
				continue
			case *ssa.ChangeInterface:
				v = y.X
				continue
			}
			break
		}
		switch y := v.(type) {
		case *ssa.Parameter:
			return y.Parent() == fn
		case *ssa.Const:
			return true
		}
		return false
	}
	var target *ssa.Function
	nRet := 0
	nCalls := 0
	var only *ssa.Call
	prefix := false // hands on all results of the target but its trailing error (`v, _ := tryX(a); return v`)
	for _, b := range fn.Blocks {
		// the way out for the dropped error: `if err != nil { panic(err.Error()) }`
		if _, isPanic := b.Instrs[len(b.Instrs)-1].(*ssa.Panic); isPanic {
			continue
		}
		var call *ssa.Call
		for _, in := range b.Instrs {
			switch x := in.(type) {
			case *ssa.Call:
				if _, isB := x.Call.Value.(*ssa.Builtin); isB || call != nil {
					return nil
				}
				call = x
				if nCalls++; nCalls == 1 {
					only = x
				} else {
					only = nil
				}
			case *ssa.Return:
				nRet++
				if call == nil && only != nil {
					call = only // (the one call of the function, made in a block in front of this one)
				}
				if call == nil {
					return nil
				}
				// results handed on as they are
				if len(x.Results) == 1 {
					if ex, isEx := x.Results[0].(*ssa.Extract); isEx && ex.Tuple == ssa.Value(call) && ex.Index == 0 {
						if tup, isT := call.Type().(*types.Tuple); isT && tup.Len() == 2 && types.Identical(tup.At(1).Type(), types.Universe.Lookup("error").Type()) {
							prefix = true
							continue
						}
					}
					if x.Results[0] != ssa.Value(call) {
						return nil
					}
				} else {
					for i, r := range x.Results {
						ex, ok := r.(*ssa.Extract)
						if !ok || ex.Tuple != ssa.Value(call) || ex.Index != i {
							return nil
						}
					}
				}
			case *ssa.BinOp:
				// only "is the injectable field set?" (`if c.keyFn == nil { return Default(ev) }`)
				if (x.Op != token.EQL && x.Op != token.NEQ) || !(IsNilConst(x.X) || IsNilConst(x.Y)) {
					return nil
				}
			case *ssa.FieldAddr, *ssa.UnOp, *ssa.Extract, *ssa.DebugRef, *ssa.ChangeType, *ssa.MakeInterface, *ssa.ChangeInterface, *ssa.If, *ssa.Jump:
			default:
				return nil
			}
		}
		if call == nil {
			continue
		}
		t := StaticCallee(&call.Call)
		if t == nil || t == fn || !InModuleFn(t) || len(t.Blocks) == 0 {
			return nil
		}
		if target != nil && target != t {
			return nil
		}
		target = t
		for _, a := range call.Call.Args {
			if !isParam(a) {
				return nil
			}
		}
	}
	if prefix {
		if target == nil || nRet == 0 || target.Signature.Results().Len() != fn.Signature.Results().Len()+1 {
			return nil
		}
		return target
	}
	if target == nil || nRet == 0 || target.Signature.Results().Len() != fn.Signature.Results().Len() {
		return nil
	}
	return target
}

// DefaultFieldFuncHook: field #i of the struct behind t has a function type and the module
// stores exactly one function of its own into it (the default a constructor installs); every other
// store hands on a value that came in from outside (an option's argument). nil otherwise.
// Installed by core. What an injected function does is outside what the rules decide: they
// read the default wiring.
var DefaultFieldFuncHook = func(t types.Type, i int) *ssa.Function { return nil }

func constString(c *ssa.Const) string {
	if c.Value == nil {
		// the zero value of a named struct type (a context key written `requestIDKey{}`) is not nil
		if n, ok := c.Type().(*types.Named); ok {
			if _, isStruct := n.Underlying().(*types.Struct); isStruct {
				return "zero:" + n.Obj().Name()
			}
		}
		return "const:nil"
	}
	if c.Value.Kind() == constant.String {
		return "const:" + fmt.Sprintf("%q", constant.StringVal(c.Value))
	}
	return "const:" + c.Value.ExactString()
}

// ResolveAlloc follows FreeVar bindings: if v denotes (the address of) a
// local variable, possibly captured by closures, return its Alloc.
func ResolveAlloc(v ssa.Value) *ssa.Alloc {
	for i := 0; i < 10; i++ {
		switch x := v.(type) {
		case *ssa.Alloc:
			return x
		case *ssa.FreeVar:
			b := FreeVarBinding(x)
			if b == nil {
				return nil
			}
			v = b
		default:
			return nil
		}
	}
	return nil
}

// FreeVarBinding returns the value bound to fv where its closure is made.
func FreeVarBinding(fv *ssa.FreeVar) ssa.Value {
	fn := fv.Parent()
	parent := fn.Parent()
	if parent == nil {
		return nil
	}
	idx := -1
	for i, f := range fn.FreeVars {
		if f == fv {
			idx = i
		}
	}
	if idx < 0 {
		return nil
	}
	var found ssa.Value
	Instrs(parent, func(in ssa.Instruction) {
		if mc, ok := in.(*ssa.MakeClosure); ok && mc.Fn == fn && idx < len(mc.Bindings) {
			found = mc.Bindings[idx]
		}
	})
	return found
}

// StoresTo lists all stores whose address resolves to alloc a, in a's
// function and in closures nested in it.
func StoresTo(a *ssa.Alloc) []*ssa.Store {
	var out []*ssa.Store
	for _, fn := range WithAnon(a.Parent()) {
		Instrs(fn, func(in ssa.Instruction) {
			if s, ok := in.(*ssa.Store); ok && ResolveAlloc(s.Addr) == a {
				out = append(out, s)
			}
		})
	}
	return out
}

func (st *provState) path(v ssa.Value) string {
	if v == nil {
		return "nil"
	}
	if s, ok := st.memo[v]; ok {
		return s
	}
	if st.busy[v] {
		return "…"
	}
	st.busy[v] = true
	s := st.compute(v)
	st.busy[v] = false
	st.memo[v] = s
	return s
}

func idxString(st *provState, idx ssa.Value) string {
	if c, ok := idx.(*ssa.Const); ok && c.Value != nil {
		return c.Value.ExactString()
	}
	return "*"
}

func fieldName(t types.Type, i int) string {
	if p, ok := t.Underlying().(*types.Pointer); ok {
		t = p.Elem()
	}
	if s, ok := t.Underlying().(*types.Struct); ok && i < s.NumFields() {
		return FieldNameHook(s, i)
	}
	return fmt.Sprintf("f%d", i)
}

// FieldName is the canonical name of field i of (pointer to) struct type t.
func FieldName(t types.Type, i int) string { return fieldName(t, i) }

func (st *provState) compute(v ssa.Value) string {
	switch x := v.(type) {
	case *ssa.Parameter:
		if p, ok := st.bind[x]; ok {
			return p
		}
		fn := x.Parent()
		if fn.Signature.Recv() != nil && len(fn.Params) > 0 && fn.Params[0] == x {
			if q := RecvOwnerHook(fn); q != "" {
				return q
			}
			return "recv"
		}
		if b := ParamBindHook(x); b != nil {
			return st.path(b)
		}
		return "p:" + x.Name()
	case *ssa.FreeVar:
		if b := FreeVarBinding(x); b != nil {
			return st.path(b)
		}
		return "fv:" + x.Name()
	case *ssa.Const:
		return constString(x)
	case *ssa.Global:
		if o := x.Object(); o != nil {
			return "global:" + GlobalNameHook(o)
		}
		return "global:" + x.Name()
	case *ssa.Function:
		return "func:" + FuncFullName(x)
	case *ssa.Builtin:
		return "builtin:" + x.Name()
	case *ssa.Alloc:
		// &T{…}: the literal's fields name the value, wherever it is built
		if x.Comment == "complit" && len(StoresTo(x)) == 0 && len(StructLitFields(x)) > 0 {
			return "&" + st.loadAlloc(x)
		}
		// the address of a local struct that is handed to its own methods as a per-call context
		// (`chk := check{ev: ev}; ok := chk.first(); … chk.second()`): the literal's fields, plus
		// the fields that exactly one method stores, once in the whole module, through its receiver
		if lit := st.contextStruct(x); lit != "" {
			return lit
		}
		return "alloc:" + x.Name() + "@" + x.Parent().Name() + ":" + x.Comment
	case *ssa.FieldAddr:
		if GroupFieldHook(x.X.Type(), x.Field) {
			// a field that only groups fields of its owner is transparent — unless the owner's
			// construction is in view: then it is the group value that was put there
			bp := st.path(x.X)
			if strings.HasPrefix(bp, "&lit{") {
				if v, ok := litField(bp[1:], fieldName(x.X.Type(), x.Field)); ok && (FieldWriteOnceHook(x.X.Type(), x.Field) || FieldSingleStoreHook(x.X.Type(), x.Field) != nil) {
					return v
				}
			}
			return bp
		}
		if a, ok := x.X.(*ssa.Alloc); ok {
			// a local struct that a private method fills in (`var stmts insertStmts; err = stmts.prepare(ctx, tx)`):
			// the field holds what that method stored, read in this function's terms
			if v := st.filledByCallee(a, x); v != "" {
				return v
			}
			// field of a local struct: a by-value parameter copy or a literal
			la := st.loadAlloc(a)
			// the spilled copy of a by-value parameter / receiver that is bound to a struct literal of the
			// caller (`w := connWriter{conn, opt.SendTimeout}; w.ping(ctx)` read inside ping): the field is
			// what the caller's literal put there
			if stores := StoresTo(a); len(stores) == 1 && st.boundLit(stores[0].Val) {
				if v, ok := litField(la, fieldName(x.X.Type(), x.Field)); ok {
					return v
				}
			}
			return la + "." + fieldName(x.X.Type(), x.Field)
		}
		bp := st.path(x.X)
		if st.boundLit(x.X) {
			if v, ok := litField(bp, fieldName(x.X.Type(), x.Field)); ok {
				if _, nested := x.X.(*ssa.FieldAddr); !nested || FieldWriteOnceHook(x.X.Type(), x.Field) {
					return v
				}
			}
		}
		// field of an object that a constructor just built (`ss := newSession(id); … ss.id …`): what
		// was put there, provided nobody assigns that field of that type anywhere else
		if strings.HasPrefix(bp, "&lit{") {
			if v, ok := litField(bp[1:], fieldName(x.X.Type(), x.Field)); ok && (FieldWriteOnceHook(x.X.Type(), x.Field) || FieldSingleStoreHook(x.X.Type(), x.Field) != nil) {
				return v
			}
		}
		return bp + "." + fieldName(x.X.Type(), x.Field)
	case *ssa.Field:
		if GroupFieldHook(x.X.Type(), x.Field) {
			return st.path(x.X)
		}
		bp := st.path(x.X)
		if st.boundLit(x.X) {
			if v, ok := litField(bp, fieldName(x.X.Type(), x.Field)); ok {
				return v
			}
		}
		return bp + "." + fieldName(x.X.Type(), x.Field)
	case *ssa.IndexAddr:
		return st.path(x.X) + "[" + idxString(st, x.Index) + "]"
	case *ssa.Index:
		return st.path(x.X) + "[" + idxString(st, x.Index) + "]"
	case *ssa.Lookup:
		if _, isMap := x.X.Type().Underlying().(*types.Map); isMap {
			return st.path(x.X) + "[" + st.path(x.Index) + "]"
		}
		return st.path(x.X) + "[" + idxString(st, x.Index) + "]"
	case *ssa.UnOp:
		switch x.Op {
		case token.MUL:
			if a := ResolveAlloc(x.X); a != nil {
				return st.loadAlloc(a)
			}
			return st.path(x.X)
		case token.NOT:
			return "!" + st.path(x.X)
		case token.SUB:
			return "-" + st.path(x.X)
		case token.ARROW:
			return "<-" + st.path(x.X)
		}
		return x.Op.String() + st.path(x.X)
	case *ssa.Phi:
		set := map[string]bool{}
		for _, e := range x.Edges {
			p := st.path(e)
			if p == "…" {
				continue
			}
			set[p] = true
		}
		return joinSet("phi", set)
	case *ssa.ChangeType:
		return st.path(x.X)
	case *ssa.Convert:
		return st.path(x.X)
	case *ssa.MakeInterface:
		return st.path(x.X)
	case *ssa.ChangeInterface:
		return st.path(x.X)
	case *ssa.SliceToArrayPointer:
		return st.path(x.X)
	case *ssa.TypeAssert:
		return st.path(x.X)
	case *ssa.Slice:
		if x.Low == nil && x.High == nil && x.Max == nil {
			// compiler-built variadic argument: new [n]T + stores + slice
			if _, isAlloc := x.X.(*ssa.Alloc); isAlloc {
				if elems, ok := VariadicElems(x); ok {
					var es []string
					for _, e := range elems {
						es = append(es, st.path(e))
					}
					return "[" + strings.Join(es, ",") + "]"
				}
				// whole-array local sliced (hash[:]): the stored array value
				if a := x.X.(*ssa.Alloc); len(StoresTo(a)) > 0 {
					return st.loadAlloc(a)
				}
			}
			return st.path(x.X)
		}
		lo, hi := "", ""
		if x.Low != nil {
			lo = st.path(x.Low)
		}
		if x.High != nil {
			hi = st.path(x.High)
		}
		return st.path(x.X) + "[" + lo + ":" + hi + "]"
	case *ssa.BinOp:
		return "(" + st.path(x.X) + " " + x.Op.String() + " " + st.path(x.Y) + ")"
	case *ssa.Call:
		r := st.call(&x.Call, x)
		if strings.HasPrefix(r, "&lit{") {
			r = st.withLaterFields(r, x)
		}
		return r
	case *ssa.Extract:
		switch t := x.Tuple.(type) {
		case *ssa.Call:
			if p := st.helperResult(&t.Call, x.Index); p != "" {
				return p
			}
		case *ssa.TypeAssert:
			if x.Index == 0 {
				return st.path(t.X)
			}
			return "ok(" + st.path(t.X) + " is " + types.TypeString(t.AssertedType, nil) + ")"
		case *ssa.Next:
			if r, ok := t.Iter.(*ssa.Range); ok {
				switch x.Index {
				case 1:
					return "rangekey(" + st.path(r.X) + ")"
				case 2:
					return "rangeval(" + st.path(r.X) + ")"
				}
				return "rangeok(" + st.path(r.X) + ")"
			}
		case *ssa.Lookup:
			if x.Index == 0 {
				return st.path(t)
			}
			return "ok(" + st.path(t) + ")"
		case *ssa.UnOp:
			if t.Op == token.ARROW {
				if x.Index == 0 {
					return "<-" + st.path(t.X)
				}
				return "ok(<-" + st.path(t.X) + ")"
			}
		case *ssa.Select:
			return fmt.Sprintf("select#%d", x.Index)
		}
		return st.path(x.Tuple) + fmt.Sprintf("#%d", x.Index)
	case *ssa.MakeClosure:
		if fn, ok := x.Fn.(*ssa.Function); ok {
			n := FuncFullName(fn)
			return "closure:" + n[strings.LastIndex(n, ".")+1:]
		}
		return "closure"
	case *ssa.MakeMap:
		return "make:map#" + x.Name() + "@" + x.Parent().Name()
	case *ssa.MakeSlice:
		return "make:slice#" + x.Name() + "@" + x.Parent().Name()
	case *ssa.MakeChan:
		return "make:chan#" + x.Name() + "@" + x.Parent().Name()
	case *ssa.Range:
		return "range(" + st.path(x.X) + ")"
	case *ssa.Next:
		return "next(" + st.path(x.Iter) + ")"
	}
	return fmt.Sprintf("?%T:%s", v, v.Name())
}

func joinSet(tag string, set map[string]bool) string {
	var ks []string
	for k := range set {
		ks = append(ks, k)
	}
	sort.Strings(ks)
	if len(ks) == 1 {
		return ks[0]
	}
	return tag + "{" + strings.Join(ks, "|") + "}"
}

// loadAlloc: value of a local variable = union of the values stored to it.
func (st *provState) loadAlloc(a *ssa.Alloc) string {
	stores := StoresTo(a)
	if len(stores) == 0 {
		// composite literal: stores to the FieldAddrs of a
		if fs := unconditionalLitFields(a); len(fs) > 0 {
			var names []string
			for n := range fs {
				names = append(names, n)
			}
			sort.Strings(names)
			var parts []string
			for _, n := range names {
				parts = append(parts, n+"="+st.path(fs[n]))
			}
			return "lit{" + strings.Join(parts, ",") + "}"
		}
		return "alloc:" + a.Name() + "@" + a.Parent().Name() + ":" + a.Comment
	}
	set := map[string]bool{}
	for _, s := range stores {
		p := st.path(s.Val)
		if p == "…" {
			continue
		}
		set[p] = true
	}
	return joinSet("var", set)
}

func (st *provState) call(c *ssa.CallCommon, v ssa.Value) string {
	name := CalleeName(c)
	if b, ok := c.Value.(*ssa.Builtin); ok {
		switch b.Name() {
		case "len", "cap":
			return b.Name() + "(" + st.path(c.Args[0]) + ")"
		case "min", "max":
			var as []string
			for _, a := range c.Args {
				as = append(as, st.path(a))
			}
			sort.Strings(as)
			return b.Name() + "(" + strings.Join(as, ",") + ")"
		case "append":
			var as []string
			for _, a := range c.Args {
				as = append(as, st.path(a))
			}
			return "append(" + strings.Join(as, ",") + ")"
		}
	}
	if transparent[name] && len(c.Args) == 1 {
		return st.path(c.Args[0])
	}
	if len(c.Args) == 1 && IdentityHelper(StaticCallee(c)) {
		return st.path(c.Args[0])
	}
	if fn := StaticCallee(c); fn != nil && st.depth < 3 {
		if res := accessorResult(fn); res != nil && len(fn.Params) == len(c.Args) {
			sub := &provState{memo: map[ssa.Value]string{}, busy: map[ssa.Value]bool{}, bind: map[*ssa.Parameter]string{}, depth: st.depth + 1}
			for i, p := range fn.Params {
				sub.bind[p] = st.path(c.Args[i])
			}
			// the body's value names the result only if everything the helper was given shows
			// in it (a helper that feeds an argument into a stateful object — a hasher, a
			// builder — and returns that object's product does not)
			exp := sub.path(res)
			complete := true
			for _, p := range fn.Params {
				if refs := p.Referrers(); refs != nil && len(*refs) > 0 && !strings.Contains(exp, sub.bind[p]) && !litPartShows(exp, sub.bind[p]) {
					complete = false
				}
			}
			if complete {
				return exp
			}
		} else if v != nil && fn.Signature.Results().Len() == 1 {
			// several blocks (a default plus a guarded value): the one expression its returns agree on
			if p := st.helperResult(c, 0); p != "" {
				return p
			}
		}
	}
	var as []string
	if c.IsInvoke() {
		as = append(as, st.path(c.Value))
	}
	for _, a := range c.Args {
		as = append(as, st.path(a))
	}
	return "call:" + name + "(" + strings.Join(as, ",") + ")"
}

// contextStruct renders the address of a local struct variable as `&lit{…}` when it is used as
// a per-call context: never assigned as a whole, at least one field set by its literal, its
// address only handed to private helpers. Fields stored exactly once in the whole module, by a
// helper this function calls on it, are included with the stored value in this function's terms.
func (st *provState) contextStruct(a *ssa.Alloc) string {
	pt, ok := a.Type().(*types.Pointer)
	if !ok || st.depth >= 2 || a.Referrers() == nil {
		return ""
	}
	stt, ok := pt.Elem().Underlying().(*types.Struct)
	if !ok || len(StoresTo(a)) != 0 {
		return ""
	}
	fs := StructLitFields(a)
	if len(fs) == 0 {
		return ""
	}
	var sites []*ssa.Call
	for _, ref := range *a.Referrers() {
		switch x := ref.(type) {
		case *ssa.FieldAddr, *ssa.DebugRef:
		case *ssa.Call:
			h := StaticCallee(&x.Call)
			if !PrivateHelper(h) || len(h.Params) != len(x.Call.Args) {
				return ""
			}
			sites = append(sites, x)
		default:
			return ""
		}
	}
	if len(sites) == 0 {
		return ""
	}
	parts := map[string]string{}
	for n, v := range fs {
		parts[n] = st.path(v)
	}
	for i := 0; i < stt.NumFields(); i++ {
		name := fieldName(a.Type(), i)
		if _, has := parts[name]; has {
			continue
		}
		s := FieldSingleStoreHook(a.Type(), i)
		if s == nil {
			continue
		}
		fa, ok := s.Addr.(*ssa.FieldAddr)
		if !ok {
			continue
		}
		par, ok := fa.X.(*ssa.Parameter)
		if !ok {
			continue
		}
		for _, site := range sites {
			h := StaticCallee(&site.Call)
			if h != par.Parent() {
				continue
			}
			bound := false
			for j, p := range h.Params {
				if p == par && site.Call.Args[j] == ssa.Value(a) {
					bound = true
				}
			}
			if !bound {
				continue
			}
			sub := &provState{memo: map[ssa.Value]string{}, busy: map[ssa.Value]bool{}, bind: map[*ssa.Parameter]string{}, depth: st.depth + 1}
			for j, p := range h.Params {
				if site.Call.Args[j] == ssa.Value(a) {
					// the context itself, as far as the literal names it (no recursion into this rendering)
					var lp []string
					for n, v := range fs {
						lp = append(lp, n+"="+st.path(v))
					}
					sort.Strings(lp)
					sub.bind[p] = "&lit{" + strings.Join(lp, ",") + "}"
				} else {
					sub.bind[p] = st.path(site.Call.Args[j])
				}
			}
			parts[name] = sub.path(s.Val)
		}
	}
	var ps []string
	for n, v := range parts {
		ps = append(ps, n+"="+v)
	}
	sort.Strings(ps)
	return "&lit{" + strings.Join(ps, ",") + "}"
}

// FieldSingleStoreHook: the one store instruction in the whole module that assigns field #i of
// the struct behind t (nil if there is none or more than one) — installed by the loader.
var FieldSingleStoreHook = func(t types.Type, i int) *ssa.Store { return nil }

// filledByCallee: field fa of the local struct a has no store in this function, the struct's
// address is handed (as receiver or argument) to exactly one call of a private helper before fa
// is used, and that helper stores the field exactly once, through that parameter: the stored
// value, in the caller's terms. "" otherwise.
func (st *provState) filledByCallee(a *ssa.Alloc, fa *ssa.FieldAddr) string {
	if st.depth >= 2 || a.Referrers() == nil {
		return ""
	}
	// no store to this field here
	for _, ref := range *a.Referrers() {
		if f2, ok := ref.(*ssa.FieldAddr); ok && f2.Field == fa.Field && f2.Referrers() != nil {
			for _, r2 := range *f2.Referrers() {
				if s, ok := r2.(*ssa.Store); ok && s.Addr == ssa.Value(f2) {
					return ""
				}
			}
		}
	}
	var found *ssa.Store
	var site *ssa.CallCommon
	for _, ref := range *a.Referrers() {
		call, ok := ref.(*ssa.Call)
		if !ok {
			continue
		}
		h := StaticCallee(&call.Call)
		if !PrivateHelper(h) || len(h.Params) != len(call.Call.Args) {
			continue
		}
		for i, arg := range call.Call.Args {
			if arg != ssa.Value(a) {
				continue
			}
			par := h.Params[i]
			if par.Referrers() == nil {
				continue
			}
			for _, pr := range *par.Referrers() {
				f2, ok := pr.(*ssa.FieldAddr)
				if !ok || f2.Field != fa.Field || f2.Referrers() == nil {
					continue
				}
				for _, r2 := range *f2.Referrers() {
					if s, ok := r2.(*ssa.Store); ok && s.Addr == ssa.Value(f2) {
						if found != nil || !InstrDominates(call, fa) || LoopHeaderOf(s.Block()) != nil {
							return ""
						}
						found, site = s, &call.Call
					}
				}
			}
		}
	}
	if found == nil {
		return ""
	}
	sub := &provState{memo: map[ssa.Value]string{}, busy: map[ssa.Value]bool{}, bind: map[*ssa.Parameter]string{}, depth: st.depth + 1}
	h := StaticCallee(site)
	for i, p := range h.Params {
		sub.bind[p] = st.path(site.Args[i])
	}
	return sub.path(found.Val)
}

// withLaterFields: lit is the rendering `&lit{…}` of what the constructor call v returned; fields
// the calling function fills in afterwards, once each and outside any loop (`ss.ch = make(…)`),
// are part of the object the rest of the function works with.
func (st *provState) withLaterFields(lit string, v *ssa.Call) string {
	if v.Referrers() == nil {
		return lit
	}
	extra := map[string]string{}
	for _, ref := range *v.Referrers() {
		fa, ok := ref.(*ssa.FieldAddr)
		if !ok || fa.Referrers() == nil {
			continue
		}
		var stores []*ssa.Store
		for _, r2 := range *fa.Referrers() {
			if s, ok := r2.(*ssa.Store); ok && s.Addr == ssa.Value(fa) {
				stores = append(stores, s)
			}
		}
		name := fieldName(fa.X.Type(), fa.Field)
		if len(stores) != 1 || LoopHeaderOf(stores[0].Block()) != nil {
			continue
		}
		if _, dup := extra[name]; dup {
			extra[name] = ""
			continue
		}
		if _, has := litField(lit[1:], name); has {
			continue
		}
		extra[name] = st.path(stores[0].Val)
	}
	if len(extra) == 0 {
		return lit
	}
	body := strings.TrimSuffix(strings.TrimPrefix(lit, "&lit{"), "}")
	parts := splitTop(body)
	for k, val := range extra {
		if val != "" {
			parts = append(parts, k+"="+val)
		}
	}
	sort.Strings(parts)
	return "&lit{" + strings.Join(parts, ",") + "}"
}

// litPartShows: bound is the rendering of an object whose construction is in view (`&lit{…}`) and
// exp contains what one of its fields holds — the field was read out of the object.
func litPartShows(exp, bound string) bool {
	b := strings.TrimPrefix(bound, "&")
	if !strings.HasPrefix(b, "lit{") || !strings.HasSuffix(b, "}") {
		return false
	}
	for _, part := range splitTop(b[4 : len(b)-1]) {
		if i := strings.Index(part, "="); i > 0 && part[i+1:] != "" && strings.Contains(exp, part[i+1:]) {
			return true
		}
	}
	return false
}

// LitFields parses a rendered struct literal `lit{a=…,b=…}` (or `&lit{…}`) into its fields.
func LitFields(lit string) (map[string]string, bool) {
	b := strings.TrimPrefix(lit, "&")
	if !strings.HasPrefix(b, "lit{") || !strings.HasSuffix(b, "}") {
		return nil, false
	}
	out := map[string]string{}
	for _, part := range splitTop(b[4 : len(b)-1]) {
		if i := strings.Index(part, "="); i > 0 {
			out[part[:i]] = part[i+1:]
		}
	}
	return out, true
}

// splitTop splits a literal's body at its top-level commas.
func splitTop(body string) []string {
	var parts []string
	depth, start := 0, 0
	for i, r := range body {
		switch r {
		case '{', '(', '[':
			depth++
		case '}', ')', ']':
			depth--
		case ',':
			if depth == 0 {
				parts = append(parts, body[start:i])
				start = i + 1
			}
		}
	}
	if start < len(body) {
		parts = append(parts, body[start:])
	}
	return parts
}

// litField: the value of field name in a rendered literal `lit{a=…,b=…}`.
func litField(lit, name string) (string, bool) {
	if !strings.HasPrefix(lit, "lit{") || !strings.HasSuffix(lit, "}") {
		return "", false
	}
	for _, part := range splitTop(lit[4 : len(lit)-1]) {
		if strings.HasPrefix(part, name+"=") {
			return part[len(name)+1:], true
		}
	}
	return "", false
}

// SimplifyLitFields rewrites every `lit{…,f=V,…}.f` in a rendered path to V: a field read
// from a struct value whose construction is in view.
func SimplifyLitFields(s string) string {
	for iter := 0; iter < 16; iter++ {
		changed := false
		for i := strings.Index(s, "lit{"); i >= 0; {
			// matching brace
			depth, end := 0, -1
			for j := i + 3; j < len(s); j++ {
				switch s[j] {
				case '{', '(', '[':
					depth++
				case '}', ')', ']':
					depth--
				}
				if depth == 0 {
					end = j
					break
				}
			}
			if end < 0 {
				break
			}
			if end+1 < len(s) && s[end+1] == '.' {
				k := end + 2
				for k < len(s) && (s[k] == '_' || s[k] >= '0' && s[k] <= '9' || s[k] >= 'a' && s[k] <= 'z' || s[k] >= 'A' && s[k] <= 'Z') {
					k++
				}
				if v, ok := litField(s[i:end+1], s[end+2:k]); ok && k > end+2 {
					start := i
					if start > 0 && s[start-1] == '&' {
						start--
					}
					s = s[:start] + v + s[k:]
					changed = true
					break
				}
			}
			next := strings.Index(s[i+4:], "lit{")
			if next < 0 {
				break
			}
			i = i + 4 + next
		}
		if !changed {
			break
		}
	}
	return s
}

// boundLit: v is a parameter that the current reading binds to a struct literal of the caller.
func (st *provState) boundLit(v ssa.Value) bool {
	switch x := v.(type) {
	case *ssa.Parameter:
		b, ok := st.bind[x]
		return ok && strings.HasPrefix(b, "lit{")
	case *ssa.Call:
		// … or what a private constructor returned by value (`cols := newEventCols(t)`)
		if h := StaticCallee(&x.Call); PrivateHelper(h) {
			// (every way out of the constructor returns a built value: a zero-value return, which the
			// rendering of helper results skips, would make the literal a guess)
			for _, rb := range ReturnBlocks(h) {
				for _, rv := range ReturnValues(LastInstr(rb).(*ssa.Return)) {
					if _, isConst := rv.(*ssa.Const); isConst {
						return false
					}
				}
			}
			return strings.HasPrefix(st.path(x), "lit{")
		}
	case *ssa.UnOp:
		if x.Op == token.MUL {
			if a, ok := x.X.(*ssa.Alloc); ok {
				if stores := StoresTo(a); len(stores) == 1 {
					return st.boundLit(stores[0].Val)
				}
			}
		}
	case *ssa.FieldAddr:
		// a struct-valued field (possibly embedded) of an object whose construction is in view
		return strings.HasPrefix(st.path(x.X), "&lit{") && strings.HasPrefix(st.path(x), "lit{")
	}
	return false
}

// GroupFieldHook: field #i of the struct behind t is a later-introduced struct that merely groups
// fields of its owner (core.installOwner); it does not show in access paths.
var GroupFieldHook = func(t types.Type, i int) bool { return false }

// ParamBindHook: the one argument a parameter of a grouping type's method is ever bound to — such a
// method, called from exactly one place, is the owner's statements moved (`c.store.put(eventKey, event)`),
// and its parameters are named as the caller names what it passes.
var ParamBindHook = func(p *ssa.Parameter) ssa.Value { return nil }

// FieldWriteOnceHook: field #i of the struct type behind t is assigned only where the object
// is being built (in a composite literal, or by the function that just got it from its
// constructor) — installed by the loader, which sees the whole module. Never by default.
var FieldWriteOnceHook = func(t types.Type, i int) bool { return false }

// unconditionalLitFields: StructLitFields without the fields that are only set on some paths
// (`w := &T{a: x}; if c { w.b = y }`): a field counts when its store sits in the allocation's
// own block or on every way to every return of the function.
func unconditionalLitFields(a *ssa.Alloc) map[string]ssa.Value {
	fs := StructLitFields(a)
	if len(fs) == 0 || a.Referrers() == nil {
		return fs
	}
	rbs := ReturnBlocks(a.Parent())
	for _, ref := range *a.Referrers() {
		fa, ok := ref.(*ssa.FieldAddr)
		if !ok || fa.Referrers() == nil {
			continue
		}
		name := fieldName(a.Type(), fa.Field)
		if _, has := fs[name]; !has {
			continue
		}
		for _, r2 := range *fa.Referrers() {
			s, ok := r2.(*ssa.Store)
			if !ok || s.Addr != ssa.Value(fa) || s.Block() == a.Block() {
				continue
			}
			for _, rb := range rbs {
				if !(s.Block() == rb || s.Block().Dominates(rb)) {
					delete(fs, name)
				}
			}
		}
	}
	return fs
}

// StructLitFields: for a local struct built field by field (composite
// literal), the value stored into each field (single store per field).
func StructLitFields(a *ssa.Alloc) map[string]ssa.Value {
	pt, ok := a.Type().(*types.Pointer)
	if !ok {
		return nil
	}
	if _, ok := pt.Elem().Underlying().(*types.Struct); !ok {
		return nil
	}
	out := map[string]ssa.Value{}
	if a.Referrers() == nil {
		return nil
	}
	for _, ref := range *a.Referrers() {
		fa, ok := ref.(*ssa.FieldAddr)
		if !ok || fa.Referrers() == nil {
			continue
		}
		name := fieldName(a.Type(), fa.Field)
		for _, r2 := range *fa.Referrers() {
			if s, ok := r2.(*ssa.Store); ok && s.Addr == ssa.Value(fa) {
				if _, dup := out[name]; dup {
					out[name] = nil
				} else {
					out[name] = s.Val
				}
			}
		}
	}
	for k, v := range out {
		if v == nil {
			delete(out, k)
		}
	}
	return out
}

// StructLit: one place where a struct value is filled field by field: a
// composite literal in a local (`k := T{…}`, base = the Alloc) or an element
// of an array/slice literal (`[]T{{…}, {…}}`, base = the element's address).
type StructLit struct {
	Base   ssa.Value
	Fields map[string]ssa.Value
	Pos    token.Pos
}

// StructLits: the literals of struct types accepted by keep that fn builds.
func StructLits(fn *ssa.Function, keep func(*types.Named) bool) []StructLit {
	byBase := map[ssa.Value]*StructLit{}
	var order []ssa.Value
	Instrs(fn, func(in ssa.Instruction) {
		fa, ok := in.(*ssa.FieldAddr)
		if !ok || fa.Referrers() == nil {
			return
		}
		switch fa.X.(type) {
		case *ssa.Alloc, *ssa.IndexAddr:
		default:
			return
		}
		pt, ok := fa.X.Type().Underlying().(*types.Pointer)
		if !ok {
			return
		}
		named, ok := pt.Elem().(*types.Named)
		if !ok || !keep(named) {
			return
		}
		for _, r := range *fa.Referrers() {
			st, ok := r.(*ssa.Store)
			if !ok || st.Addr != ssa.Value(fa) {
				continue
			}
			lit := byBase[fa.X]
			if lit == nil {
				lit = &StructLit{Base: fa.X, Fields: map[string]ssa.Value{}, Pos: fa.X.Pos()}
				if lit.Pos == token.NoPos {
					lit.Pos = fa.Pos()
				}
				byBase[fa.X] = lit
				order = append(order, fa.X)
			}
			lit.Fields[fieldName(fa.X.Type(), fa.Field)] = st.Val
		}
	})
	var out []StructLit
	for _, b := range order {
		out = append(out, *byBase[b])
	}
	return out
}

// VariadicElems: for a slice value built by the compiler for a variadic call
// (new [n]T; stores to IndexAddr; Slice), return the stored elements in order.
func VariadicElems(v ssa.Value) ([]ssa.Value, bool) {
	if c, ok := v.(*ssa.Const); ok && c.Value == nil {
		return nil, true // nil slice: no variadic args
	}
	sl, ok := v.(*ssa.Slice)
	if !ok {
		return nil, false
	}
	a, ok := sl.X.(*ssa.Alloc)
	if !ok {
		return nil, false
	}
	arr, ok := a.Type().(*types.Pointer).Elem().Underlying().(*types.Array)
	if !ok {
		return nil, false
	}
	out := make([]ssa.Value, arr.Len())
	for _, ref := range *a.Referrers() {
		ia, ok := ref.(*ssa.IndexAddr)
		if !ok {
			continue
		}
		c, ok := ia.Index.(*ssa.Const)
		if !ok {
			return nil, false
		}
		i, _ := constant.Int64Val(c.Value)
		for _, r2 := range *ia.Referrers() {
			if s, ok := r2.(*ssa.Store); ok && s.Addr == ia {
				out[i] = s.Val
			}
		}
	}
	for _, e := range out {
		if e == nil {
			return nil, false
		}
	}
	return out, true
}

// Unwrap strips conversions / interface boxing.
func Unwrap(v ssa.Value) ssa.Value {
	for {
		switch x := v.(type) {
		case *ssa.ChangeType:
			v = x.X
		case *ssa.Convert:
			v = x.X
		case *ssa.MakeInterface:
			v = x.X
		case *ssa.ChangeInterface:
			v = x.X
		default:
			return v
		}
	}
}

// CallOf returns the call instruction producing v (through Extract), if any.
func CallOf(v ssa.Value) *ssa.Call {
	v = Unwrap(v)
	if e, ok := v.(*ssa.Extract); ok {
		v = e.Tuple
	}
	c, _ := v.(*ssa.Call)
	return c
}

// LoadedValue: if v is a load of a local variable with exactly one store,
// return the stored value (looking through one level), else v.
func LoadedValue(v ssa.Value) ssa.Value {
	for i := 0; i < 8; i++ {
		u, ok := v.(*ssa.UnOp)
		if !ok || u.Op != token.MUL {
			return v
		}
		a := ResolveAlloc(u.X)
		if a == nil {
			return v
		}
		st := EffectiveStores(a)
		if len(st) != 1 {
			return v
		}
		v = st[0].Val
	}
	return v
}

// EffectiveStores: the stores to a, without those that write back what was
// just loaded from it (`return stat, f` with named results re-assigns stat to
// itself).
func EffectiveStores(a *ssa.Alloc) []*ssa.Store {
	var out []*ssa.Store
	for _, s := range StoresTo(a) {
		if u, ok := s.Val.(*ssa.UnOp); ok && u.Op == token.MUL && u.X == ssa.Value(a) {
			continue
		}
		out = append(out, s)
	}
	return out
}

// ConstInt returns the int64 value of a constant operand.
func ConstInt(v ssa.Value) (int64, bool) {
	v = Unwrap(v)
	c, ok := v.(*ssa.Const)
	if !ok || c.Value == nil {
		return 0, false
	}
	if c.Value.Kind() != constant.Int {
		return 0, false
	}
	return constant.Int64Val(c.Value)
}

// ConstStr returns the string value of a constant operand.
func ConstStr(v ssa.Value) (string, bool) {
	v = Unwrap(v)
	c, ok := v.(*ssa.Const)
	if !ok || c.Value == nil || c.Value.Kind() != constant.String {
		return "", false
	}
	return constant.StringVal(c.Value), true
}

// IsNilConst reports whether v is the nil constant.
func IsNilConst(v ssa.Value) bool {
	c, ok := v.(*ssa.Const)
	return ok && c.Value == nil
}

// ConstVal returns the int64 value of a types.Const.
func ConstVal(c *types.Const) (int64, bool) {
	return constant.Int64Val(c.Val())
}
