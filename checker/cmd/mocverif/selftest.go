package main

// selfTest is filled in by the seeded-mutant harness (thorough tier).
func selfTest(verif, repo, prop string) any { return nil }
