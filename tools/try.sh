#!/bin/sh
# usage: tools/try.sh refactors/R11 [property]  -- apply a stored patch to a scratch copy and show what the checker reports
d=/tmp/w/$(basename $1); rm -rf $d; mkdir -p /tmp/w; rsync -a --exclude .git /repo/ $d/ && patch -p1 -s -d $d -i /verif/$1/patch.diff && /verif/bin/mocverif -repo $d -property ${2:-all} -no-selftest -evidence /tmp/w/ev 2>&1 | grep -E "VIOLATED|UNDECIDED" | cut -c1-${3:-330}
