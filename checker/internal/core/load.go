// Package core holds the shared machinery of mocverif: loading /repo into
// typed syntax + SSA + call graph (E-LOAD), the obligation model, evidence
// and known-findings handling.
package core

import (
	"fmt"
	"go/ast"
	"go/token"
	"go/types"
	"mocverif/internal/an"
	"os"
	"sort"
	"strings"

	"golang.org/x/tools/go/callgraph"
	"golang.org/x/tools/go/callgraph/cha"
	"golang.org/x/tools/go/callgraph/vta"
	"golang.org/x/tools/go/packages"
	"golang.org/x/tools/go/ssa"
	"golang.org/x/tools/go/ssa/ssautil"
)

const ModulePath = "github.com/high-moctane/mocrelay"

// Program is the resolved form of the repository under analysis.
type Program struct {
	// Desugared: range loops over slices.All/Values, maps.All/Keys/Values analysed as plain range loops
	Desugared int

	Dir  string
	Fset *token.FileSet

	Initial []*packages.Package // the module's own packages
	ByPath  map[string]*packages.Package

	SSA     *ssa.Program
	SSAPkgs map[string]*ssa.Package

	Root, Sqlite, Prom, Cmd *ssa.Package

	// Canon: translation of unexported names to the names the rules use (canon.go)
	Canon *Canon

	// ModFuncs: every SSA function (incl. closures, instantiations, wrappers
	// excluded) whose source lies in the module, sorted by position.
	ModFuncs []*ssa.Function

	cgCHA *callgraph.Graph
	cgVTA *callgraph.Graph
	all   map[*ssa.Function]bool

	// enclosing AST per ssa function
	fileOf map[*token.File]*ast.File
}

// Load type-checks dir/... (non-test files) and builds SSA. Any load or type
// error is returned: a tree that does not compile is never "verified".
func Load(dir string) (*Program, error) {
	if os.Getenv("GOWORK") != "" && os.Getenv("GOWORK") != "off" {
		return nil, fmt.Errorf("GOWORK is set (%q); refuse to analyse through a workspace", os.Getenv("GOWORK"))
	}
	fset := token.NewFileSet()
	env := append(os.Environ(),
		"GOFLAGS=-mod=mod", "GOPROXY=off", "GOSUMDB=off", "GOTOOLCHAIN=local", "GOWORK=off", "CGO_ENABLED=1")
	cfg := &packages.Config{
		Mode:  packages.LoadAllSyntax,
		Dir:   dir,
		Fset:  fset,
		Env:   env,
		Tests: false,
	}
	pkgs, err := packages.Load(cfg, "./...")
	if err != nil {
		return nil, fmt.Errorf("packages.Load: %w", err)
	}
	desugared := 0
	if !hasErrors(pkgs) {
		overlay, n, derr := desugarStdIterators(pkgs)
		if derr != nil {
			return nil, derr
		}
		if n > 0 {
			// load again with the standard iterator adapters spelled as plain range loops (desugar.go)
			fset = token.NewFileSet()
			cfg.Fset = fset
			cfg.Overlay = overlay
			pkgs, err = packages.Load(cfg, "./...")
			if err != nil {
				return nil, fmt.Errorf("packages.Load (iterator overlay): %w", err)
			}
			desugared = n
		}
	}
	var errs []string
	packages.Visit(pkgs, nil, func(p *packages.Package) {
		for _, e := range p.Errors {
			errs = append(errs, e.Error())
		}
	})
	if len(errs) > 0 {
		sort.Strings(errs)
		if len(errs) > 10 {
			errs = errs[:10]
		}
		return nil, fmt.Errorf("type/load errors:\n  %s", strings.Join(errs, "\n  "))
	}
	p := &Program{Desugared: desugared, Dir: dir, Fset: fset, ByPath: map[string]*packages.Package{}, SSAPkgs: map[string]*ssa.Package{}, fileOf: map[*token.File]*ast.File{}}
	for _, pk := range pkgs {
		if pk.PkgPath == ModulePath || strings.HasPrefix(pk.PkgPath, ModulePath+"/") {
			p.Initial = append(p.Initial, pk)
			p.ByPath[pk.PkgPath] = pk
			for _, f := range pk.Syntax {
				p.fileOf[fset.File(f.Pos())] = f
			}
		}
	}
	sort.Slice(p.Initial, func(i, j int) bool { return p.Initial[i].PkgPath < p.Initial[j].PkgPath })
	for _, need := range []string{"", "/handler/sqlite", "/middleware/prometheus", "/cmd/mocrelay"} {
		if p.ByPath[ModulePath+need] == nil {
			return nil, fmt.Errorf("package %s%s not loaded (loaded %d module packages)", ModulePath, need, len(p.Initial))
		}
	}
	prog, _ := ssautil.AllPackages(pkgs, ssa.InstantiateGenerics)
	prog.Build()
	p.SSA = prog
	for _, sp := range prog.AllPackages() {
		p.SSAPkgs[sp.Pkg.Path()] = sp
	}
	p.Root = p.SSAPkgs[ModulePath]
	p.Sqlite = p.SSAPkgs[ModulePath+"/handler/sqlite"]
	p.Prom = p.SSAPkgs[ModulePath+"/middleware/prometheus"]
	p.Cmd = p.SSAPkgs[ModulePath+"/cmd/mocrelay"]
	if p.Root == nil || p.Sqlite == nil || p.Prom == nil || p.Cmd == nil {
		return nil, fmt.Errorf("ssa packages missing")
	}
	p.all = ssautil.AllFunctions(prog)
	for fn := range p.all {
		if p.InModule(fn) && fn.Synthetic == "" || (p.InModule(fn) && strings.HasPrefix(fn.Synthetic, "instance of")) {
			if len(fn.Blocks) > 0 {
				p.ModFuncs = append(p.ModFuncs, fn)
			}
		}
	}
	canon, err := p.buildCanon()
	if err != nil {
		return nil, err
	}
	p.Canon = canon
	p.installCanon()
	sort.Slice(p.ModFuncs, func(i, j int) bool {
		a, b := p.ModFuncs[i], p.ModFuncs[j]
		pa, pb := fset.Position(a.Pos()), fset.Position(b.Pos())
		if pa.Filename != pb.Filename {
			return pa.Filename < pb.Filename
		}
		if pa.Offset != pb.Offset {
			return pa.Offset < pb.Offset
		}
		return a.String() < b.String()
	})
	return p, nil
}

func hasErrors(pkgs []*packages.Package) bool {
	bad := false
	packages.Visit(pkgs, nil, func(p *packages.Package) {
		if len(p.Errors) > 0 {
			bad = true
		}
	})
	return bad
}

// InModule reports whether fn's source belongs to the module under analysis.
func (p *Program) InModule(fn *ssa.Function) bool {
	if fn == nil {
		return false
	}
	f := fn
	for f.Parent() != nil {
		f = f.Parent()
	}
	if o := f.Origin(); o != nil {
		f = o
	}
	if f.Pkg != nil {
		pp := f.Pkg.Pkg.Path()
		return pp == ModulePath || strings.HasPrefix(pp, ModulePath+"/")
	}
	if obj := f.Object(); obj != nil && obj.Pkg() != nil {
		pp := obj.Pkg().Path()
		return pp == ModulePath || strings.HasPrefix(pp, ModulePath+"/")
	}
	return false
}

// PkgOf returns the import path of the package fn's source lives in.
func (p *Program) PkgOf(fn *ssa.Function) string {
	f := fn
	for f.Parent() != nil {
		f = f.Parent()
	}
	if o := f.Origin(); o != nil {
		f = o
	}
	if f.Pkg != nil {
		return f.Pkg.Pkg.Path()
	}
	if obj := f.Object(); obj != nil && obj.Pkg() != nil {
		return obj.Pkg().Path()
	}
	return ""
}

// Func returns the package-level function known to the rules as pkg.name
// (canonical name, see canon.go), or nil.
func (p *Program) Func(pkg *ssa.Package, name string) *ssa.Function {
	if p.Canon != nil {
		if f, ok := p.Canon.funcByName[pkg.Pkg.Path()+".."+name]; ok {
			return an.Follow(p.SSA.FuncValue(f))
		}
		return nil
	}
	return an.Follow(pkg.Func(name))
}

// Method returns the method typ.name declared in pkg (pointer or value
// receiver), or nil.
func (p *Program) Method(pkg *ssa.Package, typ, name string) *ssa.Function {
	if p.Canon != nil {
		if f, ok := p.Canon.funcByName[pkg.Pkg.Path()+"."+typ+"."+name]; ok {
			return an.Follow(p.SSA.FuncValue(f))
		}
		return nil
	}
	obj := pkg.Pkg.Scope().Lookup(typ)
	if obj == nil {
		return nil
	}
	tn, ok := obj.(*types.TypeName)
	if !ok {
		return nil
	}
	named, ok := tn.Type().(*types.Named)
	if !ok {
		return nil
	}
	for i := 0; i < named.NumMethods(); i++ {
		m := named.Method(i)
		if m.Name() == name {
			return p.SSA.FuncValue(m)
		}
	}
	return nil
}

// NamedType looks up a named type in pkg.
func (p *Program) NamedType(pkg *ssa.Package, name string) *types.Named {
	if p.Canon != nil {
		if tn, ok := p.Canon.typeByName[pkg.Pkg.Path()+"."+name]; ok {
			n, _ := tn.Type().(*types.Named)
			return n
		}
		return nil
	}
	obj := pkg.Pkg.Scope().Lookup(name)
	if obj == nil {
		return nil
	}
	n, _ := obj.Type().(*types.Named)
	return n
}

// CallGraph returns the CHA (quick) or VTA-over-CHA (thorough) call graph.
func (p *Program) CallGraph(thorough bool) *callgraph.Graph {
	if p.cgCHA == nil {
		p.cgCHA = cha.CallGraph(p.SSA)
	}
	if !thorough {
		return p.cgCHA
	}
	if p.cgVTA == nil {
		p.cgVTA = vta.CallGraph(p.all, p.cgCHA)
	}
	return p.cgVTA
}

// Pos renders a position relative to the repo dir.
func (p *Program) Pos(pos token.Pos) string {
	if !pos.IsValid() {
		return "-"
	}
	ps := p.Fset.Position(pos)
	fn := strings.TrimPrefix(ps.Filename, p.Dir+"/")
	return fmt.Sprintf("%s:%d", fn, ps.Line)
}

// FuncName is a stable printable name: pkg-relative, with receiver.
func (p *Program) FuncName(fn *ssa.Function) string {
	// instances are reported under their generic origin, unexported names canonically
	s := an.FuncFullName(fn)
	s = strings.ReplaceAll(s, ModulePath+"/handler/", "")
	s = strings.ReplaceAll(s, ModulePath+"/middleware/", "")
	s = strings.ReplaceAll(s, ModulePath+"/cmd/", "cmd/")
	s = strings.ReplaceAll(s, ModulePath, "mocrelay")
	return s
}

// FileOf returns the AST file containing pos (module files only).
func (p *Program) FileOf(pos token.Pos) *ast.File {
	if !pos.IsValid() {
		return nil
	}
	return p.fileOf[p.Fset.File(pos)]
}

// TypesInfo returns the types.Info of the module package containing pos.
func (p *Program) TypesInfo(pos token.Pos) *types.Info {
	f := p.FileOf(pos)
	if f == nil {
		return nil
	}
	for _, pk := range p.Initial {
		for _, s := range pk.Syntax {
			if s == f {
				return pk.TypesInfo
			}
		}
	}
	return nil
}

// FuncDecl returns the *ast.FuncDecl or *ast.FuncLit for an SSA function.
func (p *Program) FuncSyntax(fn *ssa.Function) ast.Node {
	if o := fn.Origin(); o != nil {
		fn = o
	}
	return fn.Syntax()
}
