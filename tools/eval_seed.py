#!/usr/bin/env python3
"""Confirms a seeded change (from an independent sub-agent) and runs the checks against it.
usage: eval_seed.py <property> <seed_out dir> <name>
Steps (all in a scratch worktree under /tmp, removed afterwards; /repo is only touched by
`git apply` + `git checkout -- .` around the checker run):
  1. patch applies to a clean checkout of /repo HEAD; go build + go vet succeed
  2. the existing test suite passes with the patch
  3. the demonstration fails with the patch and passes without it
  4. the patch is applied to /repo, bin/mocverif -property all runs, /repo is restored
Writes /verif/seeded/<name>/{patch.diff, demo files, meta.json}."""
import json, os, shutil, subprocess, sys, glob
prop, src, name = sys.argv[1], sys.argv[2], sys.argv[3]
ENV = dict(os.environ, GOFLAGS="-mod=mod", GOPROXY="off", GOSUMDB="off", GOTOOLCHAIN="local", GOWORK="off")
def sh(cmd, cwd=None):
    return subprocess.run(cmd, cwd=cwd, env=ENV, shell=True, capture_output=True, text=True, errors="replace")
dst = "/verif/seeded/" + name
os.makedirs(dst, exist_ok=True)
for f in glob.glob(src + "/*"):
    if os.path.isdir(f):
        shutil.copytree(f, os.path.join(dst, os.path.basename(f)), dirs_exist_ok=True)
    else:
        shutil.copy(f, dst)
meta = json.load(open(dst + "/meta.json")) if os.path.exists(dst + "/meta.json") else {}
demo_cmd = ""
if os.path.exists(dst + "/demo_cmd.txt"):
    import re
    for line in open(dst + "/demo_cmd.txt").read().splitlines():
        if "go test" in line or "go run" in line:
            demo_cmd = line.strip().strip("`")
            if "go test" in demo_cmd:
                demo_cmd = demo_cmd[demo_cmd.index("go test"):]
            break
    # run it in the scratch worktree, not in the agent's directory
    demo_cmd = re.sub(r"cd /tmp/seed/C\d+\s*&&\s*", "", demo_cmd)
    demo_cmd = re.sub(r"export [^&]*&&\s*", "", demo_cmd)
    demo_cmd = re.sub(r"unset GOWORK\s*(&&|;)\s*", "", demo_cmd)
wt = "/tmp/evalseed_" + name
sh("git -C /repo worktree remove --force %s" % wt)
r = sh("git -C /repo worktree add --detach %s HEAD" % wt)
res = {}
try:
    a = sh("git apply --check %s/patch.diff && git apply %s/patch.diff" % (dst, dst), cwd=wt)
    res["patch_applies"] = a.returncode == 0
    if a.returncode != 0:
        res["apply_error"] = a.stderr[-300:]
    else:
        b = sh("go build ./... && go vet ./...", cwd=wt)
        res["compiles_and_vets"] = b.returncode == 0
        t = sh("go test -vet=off -count=1 ./...", cwd=wt)
        if t.returncode != 0 and "TestEventCreatedAtMiddleware" in t.stdout:
            # time-based test that also flakes on the unchanged tree: one retry
            res["existing_tests_retry"] = "TestEventCreatedAtMiddleware flaked (also flakes on the unchanged tree); retried once"
            t = sh("go test -vet=off -count=1 ./...", cwd=wt)
        res["existing_tests_pass_with_change"] = t.returncode == 0
        if t.returncode != 0:
            res["test_tail"] = t.stdout[-400:]
        # demo files
        demos = [f for f in glob.glob(dst + "/**/*", recursive=True) if f.endswith(("_test.go", "_test.go.txt")) or (f.endswith(".go") and "demo" in os.path.basename(f))]
        # place demo next to where demo_cmd runs it: try the packages named in the command, default root
        target = wt
        for tok in demo_cmd.split():
            if tok.startswith("./") and os.path.isdir(os.path.join(wt, tok)):
                target = os.path.join(wt, tok)
        for d in demos:
            shutil.copy(d, os.path.join(target, os.path.basename(d)[:-4] if d.endswith(".txt") else os.path.basename(d)))
        d1 = sh(demo_cmd, cwd=wt)
        res["demo_fails_with_change"] = d1.returncode != 0
        res["demo_output_with_change"] = (d1.stdout + d1.stderr)[-500:]
        sh("git apply -R %s/patch.diff" % dst, cwd=wt)
        d2 = sh(demo_cmd, cwd=wt)
        res["demo_passes_without_change"] = d2.returncode == 0
        if d2.returncode != 0:
            res["demo_output_without_change"] = (d2.stdout + d2.stderr)[-500:]
finally:
    sh("git -C /repo worktree remove --force %s" % wt)
    shutil.rmtree(wt, ignore_errors=True)
# checker run against a scratch copy of /repo's working tree with the patch applied
# (same as `git -C /repo apply; mocverif; git -C /repo checkout -- .`, without touching /repo,
# so that several evaluations and other experiments can run side by side)
ev = "/tmp/evalseed_ev_" + name
cp = "/tmp/evalseed_cp_" + name
try:
    shutil.rmtree(cp, ignore_errors=True)
    sh("rsync -a --exclude .git /repo/ %s/" % cp)
    a = sh("patch -p1 -s -d %s -i %s/patch.diff" % (cp, dst))
    c = sh("/verif/bin/mocverif -repo %s -property all -no-selftest -evidence %s" % (cp, ev))
finally:
    shutil.rmtree(cp, ignore_errors=True)
    shutil.rmtree(ev, ignore_errors=True)
fired, props = [], []
for line in c.stdout.splitlines():
    line = line.strip()
    if line.startswith(("VIOLATED", "UNDECIDED")):
        fired.append(line[:400])
    if line.startswith("VIOLATION"):
        props.append(line.split("property=")[1].split()[0])
res["checker_properties_failing"] = sorted(set(props))
res["checker_detects_on_target_property"] = prop in props
res["checker_reports"] = sorted(set(fired))[:12]
meta.update({"property": prop, "confirmation": res,
             "what_was_run": ["git apply --check + git apply in a scratch worktree of /repo HEAD", "go build ./... && go vet ./...", "go test -vet=off -count=1 ./... (existing suite, with the change)", demo_cmd + " (with the change, then with the change reverted)", "patch applied to a scratch copy of /repo; bin/mocverif -repo <copy> -property all"]})
json.dump(meta, open(dst + "/meta.json", "w"), indent=1)
ok = res.get("patch_applies") and res.get("compiles_and_vets") and res.get("existing_tests_pass_with_change") and res.get("demo_fails_with_change") and res.get("demo_passes_without_change")
print(name, "CONFIRMED" if ok else "NOT-CONFIRMED", "| detected on", prop, ":", res["checker_detects_on_target_property"], "| failing:", res["checker_properties_failing"])
for f in res["checker_reports"][:4]:
    print("   ", f[:300])
if not ok:
    print(json.dumps({k: v for k, v in res.items() if k not in ("checker_reports",)}, indent=1)[:1500])
