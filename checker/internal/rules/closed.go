package rules

import (
	"fmt"
	"go/token"
	"go/types"
	"sort"
	"strings"

	"golang.org/x/tools/go/ssa"

	"mocverif/internal/an"
	"mocverif/internal/core"
)

// Closed-world rules: instead of checking that a recognised construct has the
// right shape, these enumerate EVERY construct of a kind (appends to the hashed
// buffer, writes under a read lock, 'true' verdicts, callers of a state
// mutator, …) and require each to be of an allowed shape — so an added fast
// path or an extra caller is reported, not only a changed one.

func init() {
	reg(&core.RuleInfo{Name: "SER-CLOSED", Props: []string{"C01"}, Engine: "PROV", Floor: 2, Confirmed: 2,
		Doc: "every byte appended to the hashed buffer comes from a recognised source", Run: runSerClosed})
	reg(&core.RuleInfo{Name: "ONE-CS", Props: []string{"C15", "C03", "C05", "C07", "C19"}, Engine: "LOCK", Floor: 3, Confirmed: 9,
		Doc: "each exported operation of a guarded store is a single critical section", Run: runOneCS})
	reg(&core.RuleInfo{Name: "RD-PURE", Props: []string{"C03", "C15", "C07", "C16"}, Engine: "CG", Floor: 3, Confirmed: 8,
		Doc: "nothing reachable from a read-locked region mutates shared containers (alias-aware)", Run: runRdPure})
	reg(&core.RuleInfo{Name: "ADD-CLOSED", Props: []string{"C04", "C05"}, Engine: "CFG", Floor: 1, Confirmed: 1,
		Doc: "Add reports 'new' only after a successful insertion (or for an ephemeral event), and every such path runs the kind-5 step", Run: runAddClosed})
	reg(&core.RuleInfo{Name: "DEL-REQ-AUTH", Props: []string{"C05", "C04"}, Engine: "PROV", Floor: 1, Confirmed: 2,
		Doc: "deletion by reference always removes under the requesting author's pubkey", Run: runDelReqAuth})
	reg(&core.RuleInfo{Name: "SQL-DISTINCT", Props: []string{"C06"}, Engine: "CFG", Floor: 1, Confirmed: 1,
		Doc: "a sub-select that joins event_tags is DISTINCT on every path", Run: runSQLDistinct})
	reg(&core.RuleInfo{Name: "MERGE-CURSOR", Props: []string{"C08"}, Engine: "CFG", Floor: 1, Confirmed: 1,
		Doc: "the ordering cursor advances whenever the seen-set is reset", Run: runMergeCursor})
	reg(&core.RuleInfo{Name: "DEC-NILACC", Props: []string{"C10"}, Engine: "PROV", Floor: 1, Confirmed: 10,
		Doc: "decoded slices are not nil-started accumulators (empty ≠ null on re-encode)", Run: runDecNilAcc})
	reg(&core.RuleInfo{Name: "FRESH-ITER", Props: []string{"C02", "C03", "C10"}, Engine: "ALIAS", Floor: 1, Confirmed: 2,
		Doc: "a container stored per loop iteration into another container is allocated in that iteration (no entry shares a mutable set with another)", Run: runFreshIter})
	reg(&core.RuleInfo{Name: "ALL-KEYS", Props: []string{"C03", "C04", "C16", "C05"}, Engine: "CFG", Floor: 3, Confirmed: 5,
		Doc: "loops that maintain the cache's index / registry per key run over every key (no early exit)", Run: runAllKeys})
	reg(&core.RuleInfo{Name: "DROP-EMPTY", Props: []string{"C05", "C07", "C03", "C16"}, Engine: "INT", Floor: 2, Confirmed: 2,
		Doc: "an entry holding a nested set is dropped as a whole only when that set is empty", Run: runDropEmpty})
	reg(&core.RuleInfo{Name: "STATE-CALLERS", Props: []string{"C08", "C09"}, Engine: "CG", Floor: 6, Confirmed: 9,
		Doc: "each merge-state mutator is called only by the handler of its own message type", Run: runStateCallers})
}

// ---------------------------------------------------------------- SER-CLOSED

func runSerClosed(c *core.Ctx) {
	P := c.P
	ser := P.Method(P.Root, "Event", "Serialize")
	if ser == nil {
		c.NoAnchor(nil, "Event.Serialize")
		return
	}
	fns := an.RefClosure([]*ssa.Function{ser}, P.InModule)
	c.CountFuncs(len(fns))
	if len(callsNamed(ser, "encoding/json.Marshal")) > 0 {
		c.Trivial(nil, fname(c, ser), "appends", P.Pos(ser.Pos()), "encoder-based form: see SER-2")
		return
	}
	// the escaper: the callee that takes (buf, string) and returns buf
	var esc *ssa.Function
	for _, f := range fns {
		// (the escaper may also report an error: `([]byte, error)`)
		if f != ser && len(f.Params) == 2 && (f.Signature.Results().Len() == 1 || f.Signature.Results().Len() == 2 && types.Identical(f.Signature.Results().At(1).Type(), types.Universe.Lookup("error").Type())) {
			if bt, ok := f.Params[1].Type().Underlying().(*types.Basic); ok && bt.Kind() == types.String {
				esc = f
			}
		}
	}
	isBuf := func(v ssa.Value) bool {
		sl, ok := v.Type().Underlying().(*types.Slice)
		if !ok {
			return false
		}
		bt, ok := sl.Elem().Underlying().(*types.Basic)
		return ok && bt.Kind() == types.Uint8
	}
	var rc *runCopy
	allowedConst := map[string]bool{`const:"[0,"`: true, "global:nullJSON": true}
	punct := map[int64]bool{',': true, '[': true, ']': true, '"': true}
	for _, fn := range fns {
		var bad []string
		n := 0
		an.Instrs(fn, func(in ssa.Instruction) {
			call, ok := in.(*ssa.Call)
			if !ok {
				return
			}
			b, ok := call.Call.Value.(*ssa.Builtin)
			if !ok || b.Name() != "append" || len(call.Call.Args) != 2 || !isBuf(call.Call.Args[0]) {
				return
			}
			n++
			x := call.Call.Args[1]
			xp := an.PathOf(x)
			if allowedConst[xp] {
				return
			}
			if elems, ok := an.VariadicElems(x); ok {
				okAll := true
				for i, e := range elems {
					if k, isK := an.ConstInt(e); isK {
						if punct[k] || (len(elems) == 6 && i < 4) {
							continue
						}
						okAll = false
						continue
					}
					// a single input byte (verbatim branch) or a hex digit of it (\u00xx branch): SER-2 decides their ranges
					if fn == esc {
						continue
					}
					okAll = false
				}
				if okAll {
					return
				}
			}
			// the bytes of one decoded rune copied as they stand (`append(dst, s[i:i+size]...)`): SER-2's
			// rune-branch clause decides when that branch runs
			if fn == esc {
				if rb := runeBranchOf(esc); rb.ok && rb.copies[call] {
					return
				}
			}
			// a run of verbatim bytes flushed by a verified run-copying escaper
			if fn == esc {
				if _, isSlice := x.(*ssa.Slice); isSlice {
					if rc == nil {
						r := escaperRunCopy(esc)
						rc = &r
					}
					if rc.ok && rc.flushes[call] {
						return
					}
				}
			}
			// an entry of the escape table
			if fn == esc {
				if u, ok := x.(*ssa.UnOp); ok {
					if ia, ok := u.X.(*ssa.IndexAddr); ok {
						if _, ok := ia.X.(*ssa.Global); ok {
							return
						}
					}
				}
			}
			bad = append(bad, fmt.Sprintf("append(…, %s) at %s", clip(xp, 50), P.Pos(call.Pos())))
		})
		c.CountSites(n)
		if n == 0 {
			continue
		}
		c.Check(len(bad) == 0, nil, fname(c, fn), "appends", P.Pos(fn.Pos()), fmt.Sprintf("all %d appends to the hashed buffer are constant punctuation, escape-table entries, the \\u00xx form or a single checked byte", n),
			"bytes reach the hashed buffer outside the escaper's three branches: "+strings.Join(bad, "; ")+" — characters that NIP-01 requires escaped (or verbatim) are hashed in another form")
	}
	// Serialize hands strings to the buffer only through the escaper / AppendInt
	// (module helpers that Serialize splits its work into are part of the closure: every
	// append they perform was checked above, so only callees outside the module count)
	inClosure := map[*ssa.Function]bool{}
	for _, f := range fns {
		inClosure[f] = true
	}
	var bad []string
	for _, fn := range fns {
		for _, ci := range calls(fn) {
			call, ok := ci.(*ssa.Call)
			if !ok || len(call.Call.Args) == 0 || !isBuf(call.Call.Args[0]) {
				continue
			}
			if _, isBuiltin := call.Call.Value.(*ssa.Builtin); isBuiltin {
				continue
			}
			sc := an.StaticCallee(&call.Call)
			n := an.CalleeName(&call.Call)
			if (sc != nil && inClosure[sc]) || n == "strconv.AppendInt" {
				continue
			}
			// the escaper's own \u00xx branch written with the standard library (SER-2 decides which bytes reach it)
			if fn == esc && isU4xAppendf(call) {
				continue
			}
			bad = append(bad, n)
		}
	}
	c.Check(esc != nil && len(bad) == 0, nil, fname(c, ser), "writers", P.Pos(ser.Pos()), "the buffer is extended only by the escaper and strconv.AppendInt", fmt.Sprintf("the hashed buffer is extended by %v", bad))
}

// ---------------------------------------------------------------- RD-PURE

// nonLocalSources: sources of v that are not allocated in fn. Parameters
// are reported as such so that the caller's argument can decide.
func nonLocalSources(fn *ssa.Function, v ssa.Value) (descs []string, params []*ssa.Parameter) {
	for _, s := range an.Sources(fn, v) {
		if an.IsLocalRoot(s) {
			continue
		}
		// the nil a lazily allocated local container starts from is nobody's memory
		if k, isK := s.(*ssa.Const); isK && k.IsNil() {
			continue
		}
		// values freshly returned by calls are owned by the caller — for a module function
		// this is checked: what it returns (and the containers it put inside) must be its own
		if call, isCall := s.(*ssa.Call); isCall {
			if g := an.StaticCallee(&call.Call); an.InModuleFn(g) && !freshResult(g, 0) {
				descs = append(descs, "result of "+g.Name()+" (may alias shared state)")
			}
			continue
		}
		if e, isEx := s.(*ssa.Extract); isEx {
			if _, isCall := e.Tuple.(*ssa.Call); isCall {
				continue
			}
		}
		if p, isPar := s.(*ssa.Parameter); isPar {
			params = append(params, p)
			continue
		}
		descs = append(descs, an.PathOf(s))
	}
	return
}

// freshResult: everything g returns is allocated by g (or by module functions it
// calls that are fresh themselves), including containers stored as elements of a
// returned container.
func freshResult(g *ssa.Function, depth int) bool {
	if depth > 2 {
		return false
	}
	isContainer := func(t types.Type) bool {
		switch t.Underlying().(type) {
		case *types.Map, *types.Slice, *types.Pointer:
			return true
		}
		return false
	}
	local := func(v ssa.Value) bool {
		for _, s := range an.Sources(g, v) {
			if an.IsLocalRoot(s) {
				continue
			}
			if k, isK := s.(*ssa.Const); isK && k.Value == nil {
				continue
			}
			// (the first result of a `(value, error)` constructor)
			if ex, isEx := s.(*ssa.Extract); isEx {
				if ec, isC := ex.Tuple.(*ssa.Call); isC {
					s = ec
				}
			}
			if call, isCall := s.(*ssa.Call); isCall {
				if b, isB := call.Call.Value.(*ssa.Builtin); isB && b.Name() == "append" {
					continue
				}
				if h := an.StaticCallee(&call.Call); an.InModuleFn(h) && h != g && freshResult(h, depth+1) {
					continue
				}
				if h := an.StaticCallee(&call.Call); h != nil && !an.InModuleFn(h) {
					continue
				}
			}
			return false
		}
		return true
	}
	ok := true
	for _, rb := range an.ReturnBlocks(g) {
		for _, rv := range an.ReturnValues(an.LastInstr(rb).(*ssa.Return)) {
			if isContainer(rv.Type()) && !local(rv) {
				ok = false
			}
		}
	}
	// containers put into local containers of g
	an.Instrs(g, func(in ssa.Instruction) {
		switch x := in.(type) {
		case *ssa.Store:
			if _, isIA := x.Addr.(*ssa.IndexAddr); isIA && isContainer(x.Val.Type()) && !local(x.Val) {
				ok = false
			}
		case *ssa.MapUpdate:
			if isContainer(x.Value.Type()) && !local(x.Value) {
				if _, isLocalMap := an.Unwrap(x.Map).(*ssa.MakeMap); isLocalMap {
					ok = false
				}
			}
		case *ssa.Call:
			if b, isB := x.Call.Value.(*ssa.Builtin); isB && b.Name() == "append" && len(x.Call.Args) == 2 {
				if elems, okv := an.VariadicElems(x.Call.Args[1]); okv {
					for _, e := range elems {
						if isContainer(e.Type()) && !local(e) {
							ok = false
						}
					}
				}
			}
		}
	})
	return ok
}

type mutation struct {
	desc   string
	params []*ssa.Parameter // non-empty: shared only if a caller passes shared memory here
	hard   bool             // mutates memory that is non-local regardless of callers
}

// libInPlace: library functions that modify their first argument in place (round p:
// maps.DeleteFunc pruning a live index set under a read lock).
var libInPlace = map[string]string{
	"maps.DeleteFunc": "maps.DeleteFunc", "maps.Copy": "maps.Copy", "maps.Insert": "maps.Insert",
	"slices.Delete": "slices.Delete", "slices.DeleteFunc": "slices.DeleteFunc", "slices.Insert": "slices.Insert",
	"slices.Compact": "slices.Compact", "slices.CompactFunc": "slices.CompactFunc", "slices.Reverse": "slices.Reverse",
	"slices.Sort": "slices.Sort", "slices.SortFunc": "slices.SortFunc", "slices.SortStableFunc": "slices.SortStableFunc",
	"slices.Replace": "slices.Replace", "sort.Slice": "sort.Slice", "sort.SliceStable": "sort.SliceStable",
	"sort.Strings": "sort.Strings", "sort.Ints": "sort.Ints",
}

// mutationsOf lists mutations in fn of containers/objects it did not allocate.
func mutationsOf(c *core.Ctx, fn *ssa.Function) []mutation {
	var out []mutation
	rec := func(kind string, v ssa.Value, pos token.Pos) {
		ds, ps := nonLocalSources(fn, v)
		if len(ds) == 0 && len(ps) == 0 {
			return
		}
		what := strings.Join(ds, "|")
		if what == "" {
			what = "parameter " + ps[0].Name()
		}
		out = append(out, mutation{desc: fmt.Sprintf("%s: %s %s (%s)", fname(c, fn), kind, clip(what, 50), c.P.Pos(pos)), params: ps, hard: len(ds) > 0})
	}
	an.Instrs(fn, func(in ssa.Instruction) {
		switch x := in.(type) {
		case *ssa.MapUpdate:
			rec("map update on", x.Map, x.Pos())
		case *ssa.Call:
			if b, ok := x.Call.Value.(*ssa.Builtin); ok && b.Name() == "delete" {
				rec("delete from", x.Call.Args[0], x.Pos())
			}
			if b, ok := x.Call.Value.(*ssa.Builtin); ok && b.Name() == "clear" && len(x.Call.Args) == 1 {
				rec("clear of", x.Call.Args[0], x.Pos())
			}
			// the standard library's in-place container operations write the container
			// (or the backing array) handed to them as their first argument
			if name, ok := libInPlace[an.CalleeName(&x.Call)]; ok && len(x.Call.Args) > 0 {
				rec(name+" on", x.Call.Args[0], x.Pos())
			}
		case *ssa.Store:
			root, _ := rootOfAddr(x.Addr)
			if localRoot(root) {
				return
			}
			if p, ok := root.(*ssa.Parameter); ok {
				out = append(out, mutation{desc: fmt.Sprintf("%s: store to %s (%s)", fname(c, fn), clip(an.PathOf(x.Addr), 50), c.P.Pos(x.Pos())), params: []*ssa.Parameter{p}})
				return
			}
			out = append(out, mutation{desc: fmt.Sprintf("%s: store to %s (%s)", fname(c, fn), clip(an.PathOf(x.Addr), 50), c.P.Pos(x.Pos())), hard: true})
		}
	})
	return out
}

// sharedInRegion: mutations in the region that can touch memory the region's
// entry did not allocate: "hard" ones, and parameter-rooted ones for which
// some call site inside the region passes non-local memory.
func sharedInRegion(c *core.Ctx, entry *ssa.Function, region []*ssa.Function) []string {
	inRegion := map[*ssa.Function]bool{}
	for _, g := range region {
		inRegion[g] = true
	}
	var argShared func(g *ssa.Function, p *ssa.Parameter, depth int) bool
	argShared = func(g *ssa.Function, p *ssa.Parameter, depth int) bool {
		if g == entry || depth > 6 {
			return true // the entry's own parameters / receiver are shared by definition
		}
		pi := -1
		for i, q := range g.Params {
			if q == p {
				pi = i
			}
		}
		if pi < 0 {
			return true
		}
		sites := 0
		for _, caller := range region {
			for _, ci := range calls(caller) {
				sc := an.StaticCallee(ci.Common())
				var args []ssa.Value
				switch {
				case sc != nil && sameFunc(sc, g):
					args = ci.Common().Args
				case ci.Common().IsInvoke() && g.Signature.Recv() != nil && ci.Common().Method.Name() == g.Name() &&
					(an.InvokeConcrete(ci.Common()) == nil || sameFunc(an.InvokeConcrete(ci.Common()), g)):
					args = append([]ssa.Value{ci.Common().Value}, ci.Common().Args...)
				default:
					continue
				}
				if pi >= len(args) {
					return true
				}
				sites++
				ds, ps := nonLocalSources(caller, args[pi])
				if len(ds) > 0 {
					return true
				}
				for _, q := range ps {
					if argShared(caller, q, depth+1) {
						return true
					}
				}
			}
		}
		return sites == 0 && false
	}
	var out []string
	for _, g := range region {
		for _, m := range mutationsOf(c, g) {
			if m.hard {
				out = append(out, m.desc)
				continue
			}
			for _, p := range m.params {
				if argShared(g, p, 0) {
					out = append(out, m.desc)
					break
				}
			}
		}
	}
	return out
}

func runRdPure(c *core.Ctx) {
	P := c.P
	n := 0
	for _, fn := range libFuncs(c) {
		// read-locked entry: takes RLock (and no exclusive lock)
		rl, xl := false, false
		var muPath string
		for _, ci := range calls(fn) {
			switch an.CalleeName(ci.Common()) {
			case "(*sync.RWMutex).RLock":
				rl = true
				muPath = an.PathOf(ci.Common().Args[0])
			case "(*sync.RWMutex).Lock", "(*sync.Mutex).Lock":
				xl = true
			}
		}
		if !rl || xl {
			continue
		}
		n++
		region := moduleReach(c, fn)
		c.CountFuncs(len(region))
		bad := sharedInRegion(c, fn, region)
		sort.Strings(bad)
		props := []string{"C15"}
		switch {
		case strings.Contains(an.FuncFullName(fn), "EventCache"):
			props = []string{"C03", "C15", "C16"}
		case strings.Contains(an.FuncFullName(fn), "safeMap"):
			props = []string{"C07", "C15"}
		}
		c.Check(len(bad) == 0, props, fname(c, fn), "read-region/writes", P.Pos(fn.Pos()),
			fmt.Sprintf("%d module functions reachable while %s is read-locked: no store, map update or delete on memory the region did not allocate (containers read back from local slices, and objects passed down to helpers, included)", len(region), muPath),
			"a reader mutates shared state while holding only the read lock: "+clip(strings.Join(bad, "; "), 600)+" — concurrent readers race, and later queries see a corrupted index")
	}
	if n == 0 {
		c.NoAnchor(nil, "read-locked regions (functions calling RLock)")
	}
}

// ---------------------------------------------------------------- ADD-CLOSED

func runAddClosed(c *core.Ctx) {
	P := c.P
	a := resolveCache(c)
	if a == nil || a.insCall == nil {
		c.NoAnchor(nil, "EventCache.Add / insertion call")
		return
	}
	add := a.add
	c.CountFuncs(1)
	cls, _ := eventClasses(P)
	subj := eventTypeSubject(add)
	var bad []string
	nTrue := 0
	for _, rb := range an.ReturnBlocks(add) {
		paths, ok := an.PathsTo(add, rb, 4096)
		if !ok {
			c.Unknown(nil, fname(c, add), "true-paths", P.Pos(add.Pos()), "too many paths")
			return
		}
		c.CountPaths(len(paths))
		for _, p := range paths {
			if !an.Feasible(p) {
				continue
			}
			rv := resolveRet(an.LastInstr(rb).(*ssa.Return).Results[0], p)
			insTrue, passedIns := true, p.Contains(a.insCall.Block())
			for _, cd := range p.Conds() {
				if resolveRet(cd.V, p) == ssa.Value(a.insCall) {
					insTrue = cd.True
				}
			}
			fr := an.NoSubject()
			fr.Assume = map[ssa.Value]bool{ssa.Value(a.insCall): insTrue}
			t, _ := fr.BoolMeaning(rv, p, an.Full(), 0)
			if t.IsEmpty() {
				continue
			}
			nTrue++
			if passedIns && insTrue {
				// kind-5 step: every such path evaluates "Kind == 5" and, on its true edge, registers and deletes
				k5 := false
				for _, cd := range p.Conds() {
					if b, ok := cd.V.(*ssa.BinOp); ok && b.Op == token.EQL {
						if k, isK := an.ConstInt(b.Y); isK && k == 5 && strings.HasSuffix(an.PathOf(b.X), ".Kind") {
							k5 = true
						}
					}
				}
				if !k5 {
					bad = append(bad, "a successful insertion returns without the kind-5 (deletion request) step at "+P.Pos(an.LastInstr(rb).Pos()))
				}
				continue
			}
			// the only other 'new' verdict: an ephemeral event, decided before anything is stored
			eph := false
			if subj != "" {
				frE := an.ConstFrame(subj)
				s := frE.PathMeaning(p, nil)
				eph = s.Equal(an.Range(cls["Ephemeral"], cls["Ephemeral"]))
			}
			if !eph {
				var cs []string
				for _, cd := range p.Conds() {
					cs = append(cs, fmt.Sprintf("%s=%v", clip(an.PathOf(cd.V), 40), cd.True))
				}
				bad = append(bad, fmt.Sprintf("'true' at %s without a successful insertion (conditions: %s)", P.Pos(an.LastInstr(rb).Pos()), strings.Join(cs, ", ")))
			}
		}
	}
	uniq := map[string]bool{}
	var bs []string
	for _, b := range bad {
		if !uniq[b] {
			uniq[b] = true
			bs = append(bs, b)
		}
	}
	// the insertion helper itself: it answers "inserted" exactly on the paths that stored the
	// event (a shortcut that answers true without storing makes Add run the kind-5 step and
	// report 'new' for an event that is not retained; a store on a false path is reported 'not new')
	if a.ins != a.add {
		ins := a.ins
		stores := map[*ssa.BasicBlock]bool{}
		for _, st := range cacheStmts(ins, false) {
			if an.PathOf(st.mu.Value) == evParamOf(ins) {
				stores[st.site.Block()] = true
			}
		}
		var insBad []string
		nIns := 0
		for _, verdict := range []bool{true, false} {
			tps, ok := an.ResultPaths(ins, 0, verdict)
			if !ok {
				c.Unknown(nil, fname(c, ins), "stored-iff-true", P.Pos(ins.Pos()), "too many paths")
				return
			}
			c.CountPaths(len(tps))
			for _, tp := range tps {
				stored := false
				for b := range stores {
					if tp.Visits(b) {
						stored = true
					}
				}
				nIns++
				if stored != verdict {
					last := tp.Path[len(tp.Path)-1]
					insBad = append(insBad, fmt.Sprintf("answers %v at %s on a path that stored=%v", verdict, P.Pos(an.LastInstr(last).Pos()), stored))
				}
			}
		}
		uq := map[string]bool{}
		var ib []string
		for _, b := range insBad {
			if !uq[b] {
				uq[b] = true
				ib = append(ib, b)
			}
		}
		c.Check(len(ib) == 0 && len(stores) > 0, nil, fname(c, ins), "stored-iff-true", P.Pos(ins.Pos()), fmt.Sprintf("the insertion helper answers 'inserted' exactly on the paths that put the event into the store (%d paths)", nIns),
			"the insertion helper's verdict and the store disagree: "+strings.Join(ib, "; ")+" — Add then reports an event as new (and applies its deletion request) although it is not retained, or the reverse")
	}
	c.Check(len(bs) == 0 && nTrue > 0, nil, fname(c, add), "true-paths", P.Pos(add.Pos()), fmt.Sprintf("all %d paths reporting 'new' either stored the event (and ran the kind-5 step) or are the ephemeral early return", nTrue),
		"Add reports an event as new on a path that does not store it: "+strings.Join(bs, "; ")+" — an older version / a duplicate is reported new, or a deletion request is acknowledged without taking effect")
}

// ---------------------------------------------------------------- DEL-REQ-AUTH

func runDelReqAuth(c *core.Ctx) {
	P := c.P
	a := resolveCache(c)
	if a == nil {
		c.NoAnchor(nil, "EventCache.Add and helpers")
		return
	}
	var delRef *ssa.Function
	var delRefCall *ssa.Call
	for _, ci := range calls(a.add) {
		call, ok := ci.(*ssa.Call)
		if !ok {
			continue
		}
		sc := an.StaticCallee(&call.Call)
		if sc == nil || !P.InModule(sc) || sameFunc(sc, a.del) {
			continue
		}
		if _, g := kind5Guard(a.add, call.Block()); g && reachesFunc(P, sc, a.del) {
			delRef, delRefCall = sc, call
		}
	}
	if delRef == nil {
		c.NoAnchor(nil, "delete-by-reference function")
		return
	}
	c.CountFuncs(1)
	req := "p:" + delRef.Params[1].Name() + ".Pubkey"
	// the request handed over as a small record built from the event (`d := newDeletion(event)`,
	// author: event.Pubkey): the requesting author is the field of that record which, at the call in
	// Add, reads as the added event's Pubkey
	if typeNameOf(delRef.Params[1].Type()) != "Event" && delRefCall != nil && len(delRefCall.Call.Args) > 1 {
		req = ""
		if stt := structUnder(delRef.Params[1].Type()); stt != nil {
			arg := an.PathOf(delRefCall.Call.Args[1])
			for i := 0; i < stt.NumFields(); i++ {
				f := an.FieldName(delRef.Params[1].Type(), i)
				if an.FieldWriteOnceHook(delRef.Params[1].Type(), i) && an.SimplifyLitFields(arg+"."+f) == evParamOf(a.add)+".Pubkey" {
					req = "p:" + delRef.Params[1].Name() + "." + f
				}
			}
		}
		if req == "" {
			c.Unknown(nil, fname(c, delRef), "removal-author", P.Pos(delRef.Pos()), "the deletion request reaches "+delRef.Name()+" as "+an.PathOf(delRefCall.Call.Args[1])+": which part of it is the requesting author is not recognised")
			return
		}
	}
	var bad []string
	n := 0
	for _, f := range an.WithAnon(delRef) {
		for _, o := range occCallsTo(f, a.del, a.stop) {
			n++
			kp := a.delArg(o)
			if !strings.Contains(kp, "Pubkey="+req+"}") && !strings.HasSuffix(kp, "Pubkey="+req) {
				bad = append(bad, fmt.Sprintf("%s at %s", clip(kp, 90), P.Pos(o.Site().Pos())))
			}
		}
	}
	c.CountSites(n)
	c.Check(n > 0 && len(bad) == 0, nil, fname(c, delRef), "removal-author", P.Pos(delRef.Pos()), fmt.Sprintf("all %d removals triggered by a deletion request are made under the request author's pubkey (%s)", n, req),
		"a removal triggered by a deletion request is not made under the requesting author's pubkey: "+strings.Join(bad, "; ")+" — the author check of the removal helper compares the target with itself, so any author can delete it")
}

// ---------------------------------------------------------------- SQL-DISTINCT

func runSQLDistinct(c *core.Ctx) {
	P := c.P
	build := P.Func(P.Sqlite, "buildEventQuery")
	if build == nil {
		c.NoAnchor(nil, "sqlite.buildEventQuery")
		return
	}
	c.CountFuncs(1)
	// (joins may be written through a private helper: the place that counts is the call
	// site in the builder)
	var distinct []ssa.Instruction
	var tagJoins []ssa.Instruction
	flows := map[ssa.Instruction]bool{} // the joined dataset descends from a Distinct() result
	viaEmptyEdge := map[ssa.Instruction]bool{}
	joinMap := "" // access path of the map whose entries the loop around the current join walks
	var upstream func(v ssa.Value, chain []*ssa.Call, seen map[ssa.Value]bool) bool
	upstream = func(v ssa.Value, chain []*ssa.Call, seen map[ssa.Value]bool) bool {
		v = an.Unwrap(v)
		if v == nil {
			return false
		}
		if seen[v] {
			return true // around a loop: decided by the other edges
		}
		seen[v] = true
		switch x := v.(type) {
		case *ssa.Call:
			n := an.CalleeName(&x.Call)
			if strings.HasSuffix(n, "SelectDataset).Distinct") {
				return true
			}
			if strings.Contains(n, "SelectDataset).") && len(x.Call.Args) > 0 {
				return upstream(x.Call.Args[0], chain, seen) // goqu datasets are immutable: a method answers a new one built from its receiver
			}
			// a private helper that hands the dataset on
			if h := an.StaticCallee(&x.Call); an.PrivateHelper(h) {
				okAll := len(an.ReturnBlocks(h)) > 0
				for _, rb := range an.ReturnBlocks(h) {
					rv := an.ReturnValues(an.LastInstr(rb).(*ssa.Return))
					if len(rv) == 0 || !upstream(rv[0], append(append([]*ssa.Call(nil), chain...), x), seen) {
						okAll = false
					}
				}
				return okAll
			}
		case *ssa.Phi:
			for i, e := range x.Edges {
				if !upstream(e, chain, seen) {
					// an edge taken only when the condition map is empty (`if len(f.Tags) > 0 { sub =
					// sub.Distinct() }` in front of the loop that joins per entry): no entry, no join
					if joinMap != "" && i < len(x.Block().Preds) && emptyMapEdge(x.Block().Preds[i], x.Block(), joinMap) {
						continue
					}
					return false
				}
			}
			return true
		case *ssa.Parameter:
			if len(chain) == 0 {
				return false
			}
			site := chain[len(chain)-1]
			if g := an.StaticCallee(&site.Call); g != nil {
				for i, gp := range g.Params {
					if gp == x && i < len(site.Call.Args) {
						return upstream(site.Call.Args[i], chain[:len(chain)-1], seen)
					}
				}
			}
		case *ssa.UnOp:
			if lv := an.LoadedValue(x); lv != ssa.Value(x) {
				return upstream(lv, chain, seen)
			}
		}
		return false
	}
	an.Region(build, nil, func(o an.Occ) {
		call, ok := o.In.(*ssa.Call)
		if !ok {
			return
		}
		n := an.CalleeName(&call.Call)
		if strings.HasSuffix(n, "SelectDataset).Distinct") {
			distinct = append(distinct, o.Site())
		}
		if strings.HasSuffix(n, "SelectDataset).Join") && strings.Contains(o.Path(call.Call.Args[1]), `const:"event_tags"`) {
			tagJoins = append(tagJoins, o.Site())
			joinMap = rangedMapOf(o.Site())
			if upstream(call.Call.Args[0], o.Chain, map[ssa.Value]bool{}) {
				flows[o.Site()] = true
			}
			if joinMap != "" && flows[o.Site()] {
				viaEmptyEdge[o.Site()] = true
			}
			joinMap = ""
		}
	})
	if len(tagJoins) == 0 {
		c.Unknown(nil, fname(c, build), "distinct", P.Pos(build.Pos()), "no join with event_tags found")
		return
	}
	good := true
	for _, j := range tagJoins {
		dom := false
		for _, d := range distinct {
			if an.InstrDominates(d, j) {
				dom = true
			}
		}
		// … and the dataset that is joined is the one Distinct() answered (a bare `b.Distinct()`
		// whose result is dropped changes nothing)
		// (a Distinct() behind "the condition map has entries" does not dominate the per-entry loop,
		// but every dataset reaching the join has passed it: flows says so)
		if !(dom || viaEmptyEdge[j]) || !flows[j] {
			good = false
		}
	}
	c.CountSites(len(tagJoins))
	c.Check(good, nil, fname(c, build), "distinct", P.Pos(tagJoins[0].Pos()), "every join with event_tags is dominated by Distinct(): an event carrying several listed values of one tag yields one row, so the limit counts events",
		"a sub-select joins event_tags on a path without Distinct(): an event with two listed values of one #x condition yields two rows, which eat the filter's limit and push older matches out")
}

// rangedMapOf: the access path of the map whose entries the loop around instruction in walks ("" if none)
func rangedMapOf(in ssa.Instruction) string {
	for h := an.LoopHeaderOf(in.Block()); h != nil; {
		for _, hi := range h.Instrs {
			if nx, ok := hi.(*ssa.Next); ok {
				if r, isR := nx.Iter.(*ssa.Range); isR {
					if _, isMap := r.X.Type().Underlying().(*types.Map); isMap {
						return an.PathOf(r.X)
					}
				}
			}
		}
		break
	}
	return ""
}

// emptyMapEdge: the edge pred→to is taken only when the map at path m has no entry (it is nil or
// its length is 0)
func emptyMapEdge(pred, to *ssa.BasicBlock, m string) bool {
	iff, ok := an.LastInstr(pred).(*ssa.If)
	if !ok || len(pred.Succs) != 2 || pred.Succs[0] == pred.Succs[1] {
		return false
	}
	k := condKey(an.NormCond(an.Cond{V: iff.Cond, True: pred.Succs[0] == to, At: pred}))
	switch k {
	case "len(" + m + ") <= const:0", "const:0 == len(" + m + ")", "len(" + m + ") == const:0", "const:nil == " + m, m + " == const:nil":
		return true
	}
	return false
}

// ---------------------------------------------------------------- MERGE-CURSOR

func runMergeCursor(c *core.Ctx) {
	P := c.P
	fn := P.Method(P.Root, "mergeHandlerSessionReqState", "IsSendableEventMsg")
	if fn == nil {
		c.NoAnchor(nil, "mergeHandlerSessionReqState.IsSendableEventMsg")
		return
	}
	c.CountFuncs(1)
	var cursor []*ssa.BasicBlock
	var resets []ssa.Instruction
	msg := ""
	for _, p := range fn.Params {
		if typeNameOf(p.Type()) == "ServerEventMsg" {
			msg = "p:" + p.Name()
		}
	}
	// (the bookkeeping may sit in a private helper of the state: then cursor and reset
	// are related inside that helper)
	host := fn
	an.Region(fn, nil, func(o an.Occ) {
		// (the seen-set emptied in place: `clear(stat.seen[subID])`)
		if call, isCall := o.In.(*ssa.Call); isCall {
			if b, isB := call.Call.Value.(*ssa.Builtin); isB && b.Name() == "clear" && len(call.Call.Args) == 1 && strings.HasPrefix(o.Path(call.Call.Args[0]), "recv.seen[") {
				resets = append(resets, call)
			}
			return
		}
		mu, ok := o.In.(*ssa.MapUpdate)
		if !ok {
			return
		}
		mp := o.Path(mu.Map)
		if mp == "recv.lastEvent" && o.Path(mu.Value) == msg {
			cursor = append(cursor, mu.Block())
			host = mu.Parent()
		}
		if mp == "recv.seen" && strings.HasPrefix(o.Path(mu.Value), "make:map") {
			resets = append(resets, mu)
		}
	})
	if len(cursor) == 0 || len(resets) == 0 {
		c.Bad(nil, fname(c, fn), "cursor", P.Pos(fn.Pos()), fmt.Sprintf("cursor updates: %d, seen-set resets: %d — the order/duplicate state is not maintained", len(cursor), len(resets)))
		return
	}
	avoid := map[*ssa.BasicBlock]bool{}
	for _, b := range cursor {
		avoid[b] = true
	}
	good := true
	for _, r := range resets {
		if avoid[r.Block()] {
			continue
		}
		if r.Parent() != host {
			good = false // reset and cursor in different functions: not related here
			continue
		}
		for _, rb := range an.ReturnBlocks(host) {
			if an.Reachable(r.Block(), rb, nil, avoid) {
				good = false
			}
		}
	}
	// and every path that passes the order guard advances the cursor before any later verdict
	c.Check(good, nil, fname(c, fn), "cursor", P.Pos(resets[0].Pos()), "whenever the seen-set is reset for a new (older) timestamp, lastEvent is set to that message before the function returns, on every path",
		"the seen-set can be reset without the ordering cursor (lastEvent) advancing to the same message: a later duplicate at the previous timestamp passes both the order guard and the emptied seen-set and is forwarded twice")
}

// ---------------------------------------------------------------- DEC-NILACC

func runDecNilAcc(c *core.Ctx) {
	P := c.P
	fns := decoderFuncs(c)
	c.CountFuncs(len(fns))
	for _, fn := range fns {
		an.Instrs(fn, func(in ssa.Instruction) {
			st, ok := in.(*ssa.Store)
			if !ok {
				return
			}
			if _, isSlice := st.Val.Type().Underlying().(*types.Slice); !isSlice {
				return
			}
			// stores into the decoded result (a field or element of a local result value)
			switch st.Addr.(type) {
			case *ssa.FieldAddr, *ssa.IndexAddr:
			default:
				return
			}
			c.CountSites(1)
			v := st.Val
			if ct, ok := v.(*ssa.ChangeType); ok {
				v = ct.X
			}
			ph, isPhi := v.(*ssa.Phi)
			nilAcc := false
			// the element itself as accumulator: `tags[i] = append(tags[i], s)` on a slot of a freshly
			// made container starts from the slot's zero value — nil when nothing is appended
			if ac, isCall := v.(*ssa.Call); isCall {
				if b, isB := ac.Call.Value.(*ssa.Builtin); isB && b.Name() == "append" {
					if ld, isLd := an.Unwrap(ac.Call.Args[0]).(*ssa.UnOp); isLd && ld.Op == token.MUL {
						if src, isIA := ld.X.(*ssa.IndexAddr); isIA {
							if dst, isIA2 := st.Addr.(*ssa.IndexAddr); isIA2 && an.PathOf(src.X) == an.PathOf(dst.X) && an.PathOf(src.Index) == an.PathOf(dst.Index) {
								if _, fresh := an.Unwrap(dst.X).(*ssa.MakeSlice); fresh {
									initialised := false
									an.Instrs(fn, func(in2 ssa.Instruction) {
										if s2, isSt := in2.(*ssa.Store); isSt && s2 != st {
											if d2, isIA3 := s2.Addr.(*ssa.IndexAddr); isIA3 && an.PathOf(d2.X) == an.PathOf(dst.X) && an.InstrDominates(s2, st) {
												if _, mk := an.Unwrap(s2.Val).(*ssa.MakeSlice); mk {
													initialised = true
												}
											}
										}
									})
									if !initialised {
										nilAcc = true
									}
								}
							}
						}
					}
				}
			}
			if isPhi {
				hasNil, hasAppend := false, false
				for _, e := range ph.Edges {
					if an.IsNilConst(e) {
						hasNil = true
					}
					if call, ok := e.(*ssa.Call); ok {
						if b, ok := call.Call.Value.(*ssa.Builtin); ok && b.Name() == "append" {
							hasAppend = true
						}
					}
					if p2, ok := e.(*ssa.Phi); ok {
						for _, e2 := range p2.Edges {
							if an.IsNilConst(e2) {
								hasNil = true
							}
							if call, ok := e2.(*ssa.Call); ok {
								if b, ok := call.Call.Value.(*ssa.Builtin); ok && b.Name() == "append" {
									hasAppend = true
								}
							}
						}
					}
				}
				nilAcc = nilAcc || (hasNil && hasAppend)
			}
			construct := "store " + clip(addrSuffixGeneric(st.Addr), 40)
			c.Check(!nilAcc, nil, fname(c, fn), construct, P.Pos(st.Pos()), "decoded slice ← "+clip(an.PathOf(st.Val), 60),
				"a decoded slice is a nil-started append accumulator: an empty JSON array decodes to a nil slice, which the encoders write as null — and null is refused on re-decode, so decode-encode-decode differs from decode")
		})
	}
}

func addrSuffixGeneric(v ssa.Value) string {
	switch x := v.(type) {
	case *ssa.FieldAddr:
		return "." + fieldNameOf(x)
	case *ssa.IndexAddr:
		return addrSuffixGeneric(x.X) + "[*]"
	case *ssa.UnOp:
		return addrSuffixGeneric(x.X)
	}
	return ""
}

// ---------------------------------------------------------------- STATE-CALLERS

func runStateCallers(c *core.Ctx) {
	P := c.P
	out := outboundHandlers(c)
	// inbound handlers by client message type: mergeHandlerSession methods taking *ClientXMsg
	in := map[string]*ssa.Function{}
	for _, fn := range sessionFuncs(c) {
		if fn.Parent() != nil || len(fn.Params) < 2 || len(fn.Params) > 3 {
			continue
		}
		// (the typed message, possibly next to the session context)
		for _, q := range fn.Params[1:] {
			t := typeNameOf(q.Type())
			if strings.HasPrefix(t, "Client") && t != "ClientMsg" && strings.HasSuffix(t, "Msg") {
				in[t] = fn
			}
		}
	}
	type want struct{ alloc, fill, release []*ssa.Function }
	table := map[string]want{
		"mergeHandlerSessionOKState":    {alloc: []*ssa.Function{in["ClientEventMsg"]}, fill: []*ssa.Function{out["ServerOKMsg"]}, release: []*ssa.Function{out["ServerOKMsg"]}},
		"mergeHandlerSessionCountState": {alloc: []*ssa.Function{in["ClientCountMsg"]}, fill: []*ssa.Function{out["ServerCountMsg"]}, release: []*ssa.Function{out["ServerCountMsg"]}},
		"mergeHandlerSessionReqState":   {alloc: []*ssa.Function{in["ClientReqMsg"]}, fill: []*ssa.Function{out["ServerEOSEMsg"], out["ServerEventMsg"]}, release: []*ssa.Function{in["ClientCloseMsg"], out["ServerEOSEMsg"], out["ServerEventMsg"]}},
	}
	for _, st := range mergeStates {
		w := table[st]
		for _, m := range P.ModFuncs {
			if recvTypeName(m) != st || m.Parent() != nil {
				continue
			}
			// effect kind of the method (own body and same-type callees)
			kind := ""
			for _, g := range an.RefClosure([]*ssa.Function{m}, func(f *ssa.Function) bool {
				// the state's own methods and the private helpers they delegate to (e.g. the methods of an embedded slot table)
				return P.InModule(f) && (f == m || recvTypeName(f) == st || (an.PrivateHelper(f) && f.Signature.Recv() != nil))
			}) {
				an.Instrs(g, func(ins ssa.Instruction) {
					switch x := ins.(type) {
					case *ssa.MapUpdate:
						if strings.HasPrefix(an.PathOf(x.Map), "recv.") && strings.Count(an.PathOf(x.Map), ".") == 1 && kind == "" {
							kind = "alloc"
						}
						if strings.HasPrefix(an.PathOf(x.Map), "recv.") && strings.Contains(an.PathOf(x.Map), "[") && kind == "" {
							kind = "fill"
						}
					case *ssa.Store:
						if strings.HasPrefix(an.PathOf(x.Addr), "recv.") && kind == "" {
							kind = "fill"
						}
					case *ssa.Call:
						if b, ok := x.Call.Value.(*ssa.Builtin); ok && b.Name() == "delete" && strings.HasPrefix(an.PathOf(x.Call.Args[0]), "recv.") {
							kind = "release"
						}
					}
				})
			}
			if kind == "" {
				continue // pure query
			}
			var allowed []*ssa.Function
			switch kind {
			case "alloc":
				allowed = w.alloc
			case "fill":
				allowed = w.fill
			case "release":
				allowed = w.release
			}
			// a method that both allocates and (on completion) releases is judged as release
			var callers, bad []string
			own := 0
			for _, fn := range libFuncs(c) {
				root := fn
				for root.Parent() != nil {
					root = root.Parent()
				}
				if recvTypeName(root) == st {
					// the state's own methods: a private helper of the state is judged through
					// the methods that use it (their effect kind includes the helper's)
					own += len(callsTo(fn, m))
					continue
				}
				if len(callsTo(fn, m)) == 0 {
					continue
				}
				callers = append(callers, fname(c, root))
				ok := false
				for _, a := range allowed {
					if a != nil && root == a {
						ok = true
					}
					// a private helper of the session that only an allowed handler calls (`ss.setEOSE(id, idx)`,
					// the EOSE handler's decision moved out) acts for that handler
					if a != nil && an.PrivateHelper(root) && recvTypeName(root) == recvTypeName(a) {
						cs := callerIndex(c)[root]
						only := len(cs) > 0
						for _, cf := range cs {
							cr := cf
							for cr.Parent() != nil {
								cr = cr.Parent()
							}
							if cr != a {
								only = false
							}
						}
						if only {
							ok = true
						}
					}
				}
				if !ok {
					bad = append(bad, fname(c, root))
				}
			}
			if len(callers) == 0 && own > 0 {
				continue
			}
			c.CountSites(1)
			c.Check(len(bad) == 0 && len(callers) > 0, nil, fname(c, m), "callers("+kind+")", P.Pos(m.Pos()), fmt.Sprintf("%s state %s is called only by %v", kind, m.Name(), callers),
				fmt.Sprintf("%s (%s the %s) is also called by %v: a message of another type creates or destroys the pending slots of requests in flight (e.g. a CLOSE discarding an unanswered COUNT), so that request gets no or a second reply", m.Name(), kind+"s", st, bad))
		}
	}
}

// ---------------------------------------------------------------- ONE-CS

// acquisitionPoints: instructions of fn at which the receiver's mutex is
// acquired: direct Lock/RLock calls and calls of same-receiver methods that
// (transitively) acquire it.
func acquisitionPoints(c *core.Ctx, fn *ssa.Function, depth int) []ssa.Instruction {
	var out []ssa.Instruction
	if depth > 6 {
		return nil
	}
	for _, ci := range calls(fn) {
		n := an.CalleeName(ci.Common())
		switch n {
		case "(*sync.RWMutex).Lock", "(*sync.Mutex).Lock", "(*sync.RWMutex).RLock":
			if _, isDefer := ci.(*ssa.Defer); !isDefer && strings.HasPrefix(an.PathOf(ci.Common().Args[0]), "recv.") {
				out = append(out, ci)
			}
			continue
		}
		if sc := an.StaticCallee(ci.Common()); sc != nil && sc != fn && c.P.InModule(sc) && sc.Signature.Recv() != nil && len(ci.Common().Args) > 0 && an.PathOf(ci.Common().Args[0]) == "recv" {
			if len(acquisitionPoints(c, sc, depth+1)) > 0 {
				out = append(out, ci)
			}
		}
	}
	return out
}

// multiSection: fn itself passes through two critical sections on one path (or acquires in a loop).
func multiSection(c *core.Ctx, fn *ssa.Function, depth int) (bool, string) {
	if depth > 6 {
		return false, ""
	}
	pts := acquisitionPoints(c, fn, depth)
	for _, a := range pts {
		if an.InLoop(a.Block()) {
			return true, c.P.Pos(a.Pos()) + " (in a loop)"
		}
		for _, b := range pts {
			if a != b && (before(a, b) || (a.Block() != b.Block() && an.Reachable(a.Block(), b.Block(), nil, nil))) {
				if pc := preCheckAt(c, fn, a, b); pc != nil && pc.why == "" {
					continue // an accepted read-locked pre-check
				}
				return true, c.P.Pos(a.Pos()) + " then " + c.P.Pos(b.Pos())
			}
		}
		if ci, ok := a.(ssa.CallInstruction); ok {
			if sc := an.StaticCallee(ci.Common()); sc != nil && c.P.InModule(sc) && sc != fn {
				switch an.CalleeName(ci.Common()) {
				case "(*sync.RWMutex).Lock", "(*sync.Mutex).Lock", "(*sync.RWMutex).RLock":
					continue
				}
				if m, w := multiSection(c, sc, depth+1); m {
					return true, w
				}
			}
		}
	}
	return false, ""
}

func runOneCS(c *core.Ctx) {
	P := c.P
	for _, fn := range libFuncs(c) {
		if fn.Parent() != nil || fn.Signature.Recv() == nil {
			continue
		}
		t := recvTypeName(fn)
		if _, guarded := guardTable[t]; !guarded {
			continue
		}
		if !isExported(fn) && t == "EventCache" {
			continue
		}
		touches := false
		for _, g := range an.RefClosure([]*ssa.Function{fn}, func(f *ssa.Function) bool {
			return P.InModule(f) && (f == fn || recvTypeName(f) == t || f.Parent() != nil)
		}) {
			if len(guardedAccesses(c, g)) > 0 {
				touches = true
			}
		}
		if !touches {
			continue
		}
		c.CountFuncs(1)
		pts := acquisitionPoints(c, fn, 0)
		// a private method without an acquisition of its own is part of its callers'
		// critical sections — provided every caller holds a lock when calling it
		if len(pts) == 0 && !isExported(fn) {
			sites, held := 0, 0
			for _, caller := range libFuncs(c) {
				hc := heldAtCalls(caller)
				for _, site := range callsTo(caller, fn) {
					sites++
					for _, h := range hc {
						if h.call == site && len(h.locks) > 0 {
							held++
						}
					}
				}
			}
			c.Check(sites > 0 && held == sites, guardProps(t), fname(c, fn), "critical-sections", P.Pos(fn.Pos()), fmt.Sprintf("no acquisition of its own; all %d call site(s) hold a lock: it runs inside the caller's critical section", sites),
				fmt.Sprintf("the method touches guarded state without acquiring the lock, and only %d of its %d call sites hold one", held, sites))
			continue
		}
		// two acquisitions on one path (or one inside a loop) = two critical sections
		var twice []string
		preNote := ""
		// … also when they sit inside a method of the same receiver this one calls
		for _, a := range pts {
			if _, isLock := map[string]bool{"(*sync.RWMutex).Lock": true, "(*sync.Mutex).Lock": true, "(*sync.RWMutex).RLock": true}[an.CalleeName(a.(ssa.CallInstruction).Common())]; isLock {
				continue
			}
			if sc := an.StaticCallee(a.(ssa.CallInstruction).Common()); sc != nil {
				if multi, where := multiSection(c, sc, 1); multi {
					twice = append(twice, "inside "+fname(c, sc)+": "+where)
				}
			}
		}
		for _, a := range pts {
			for _, b := range pts {
				if a == b {
					if an.InLoop(a.Block()) {
						twice = append(twice, P.Pos(a.Pos())+" (in a loop)")
					}
					continue
				}
				if before(a, b) || (a.Block() != b.Block() && an.Reachable(a.Block(), b.Block(), nil, nil)) {
					// a read-locked pre-check that only rejects what the second section rejects
					pc := preCheckAt(c, fn, a, b)
					if pc != nil && pc.why == "" {
						preNote = fmt.Sprintf("; the acquisition at %s is a read-locked pre-check whose every rejection has a counterpart in the section that follows", P.Pos(a.Pos()))
						continue
					}
					note := ""
					if pc != nil {
						note = " [not a harmless pre-check: " + pc.why + "]"
					}
					twice = append(twice, P.Pos(a.Pos())+" then "+P.Pos(b.Pos())+note)
				}
			}
		}
		c.Check(len(pts) >= 1 && len(twice) == 0, guardProps(t), fname(c, fn), "critical-sections", P.Pos(fn.Pos()), fmt.Sprintf("%d acquisition point(s), at most one on any path: the whole operation is one critical section%s", len(pts), preNote),
			fmt.Sprintf("the operation can pass through two critical sections on one path (%s): a check made under one and acted upon under the next is not atomic — a concurrent operation can run in between, so results need not correspond to any sequential order", strings.Join(twice, "; ")))
	}
}

// ---------------------------------------------------------------- FRESH-ITER

// FRESH-ITER: inside a loop, a map/slice value stored as an element of
// another container (m[k] = set, xs[i] = set, xs = append(xs, set)) must not
// be a container that was allocated OUTSIDE the loop and is filled INSIDE it:
// every entry would then share one growing set (the per-tag value sets of a
// filter, the per-condition candidate sets of the index, the decoded tag
// lists of an event).
func runFreshIter(c *core.Ctx) {
	P := c.P
	propOf := func(fn *ssa.Function) []string {
		file := P.Pos(fn.Pos())
		switch {
		case strings.HasPrefix(file, "event_matcher.go"):
			return []string{"C02"}
		case strings.HasPrefix(file, "event_cache.go"):
			return []string{"C03"}
		case strings.HasPrefix(file, "message.go"):
			return []string{"C10"}
		}
		return nil
	}
	isContainer := func(t types.Type) bool {
		switch t.Underlying().(type) {
		case *types.Map, *types.Slice:
			return true
		}
		return false
	}
	n := 0
	for _, fn := range P.ModFuncs {
		props := propOf(fn)
		if props == nil || len(fn.Blocks) == 0 {
			continue
		}
		// containers of fn that are written to, by block
		mutatedIn := map[ssa.Value][]*ssa.BasicBlock{}
		an.Instrs(fn, func(in ssa.Instruction) {
			var target ssa.Value
			switch x := in.(type) {
			case *ssa.MapUpdate:
				target = x.Map
			case *ssa.Store:
				if ia, ok := x.Addr.(*ssa.IndexAddr); ok {
					target = ia.X
				}
			}
			if target == nil {
				return
			}
			for _, src := range an.Sources(fn, target) {
				if an.IsLocalRoot(src) {
					mutatedIn[src] = append(mutatedIn[src], in.Block())
				}
			}
		})
		check := func(in ssa.Instruction, stored ssa.Value, what string) {
			if !isContainer(stored.Type()) {
				return
			}
			h := an.LoopHeaderOf(in.Block())
			if h == nil {
				return
			}
			loop := an.LoopBlocks(h)
			n++
			c.CountSites(1)
			var shared []string
			for _, src := range an.Sources(fn, stored) {
				alloc, ok := src.(ssa.Instruction)
				if !ok || !an.IsLocalRoot(src) || loop[alloc.Block()] {
					continue
				}
				for _, mb := range mutatedIn[src] {
					if loop[mb] {
						shared = append(shared, fmt.Sprintf("%s allocated at %s outside the loop and filled inside it", an.PathOf(src), P.Pos(alloc.Pos())))
						break
					}
				}
			}
			c.Check(len(shared) == 0, props, fname(c, fn), what, P.Pos(in.Pos()), "the stored container is allocated in the iteration that stores it",
				"every iteration stores the same container: "+strings.Join(shared, "; ")+" — all entries alias one set, so a value listed for one key is accepted for every key")
		}
		an.Instrs(fn, func(in ssa.Instruction) {
			switch x := in.(type) {
			case *ssa.MapUpdate:
				check(in, x.Value, "map-entry "+clip(an.PathOf(x.Map), 40))
			case *ssa.Store:
				if ia, ok := x.Addr.(*ssa.IndexAddr); ok {
					check(in, x.Val, "element "+clip(an.PathOf(ia.X), 40))
				}
			}
		})
	}
	if n == 0 {
		c.NoAnchor(nil, "containers stored into containers inside loops (matcher constructor, index, decoders)")
	}
}

// ---------------------------------------------------------------- ALL-KEYS

// ALL-KEYS: the write path of the event cache keeps several structures in
// step by looping over the keys of an event (index keys, referenced targets
// of a deletion request). Such a loop must treat every key: it may skip a key
// (continue) but never leave early (return / break), or the remaining keys
// keep stale entries — an event that left the cache is still found through
// the keys that were not visited.
func runAllKeys(c *core.Ctx) {
	P := c.P
	add := P.Method(P.Root, "EventCache", "Add")
	if add == nil {
		c.NoAnchor(nil, "EventCache.Add")
		return
	}
	n := 0
	for _, fn := range an.RefClosure([]*ssa.Function{add}, P.InModule) {
		if !strings.HasPrefix(P.Pos(fn.Pos()), "event_cache.go") {
			continue
		}
		seen := map[*ssa.BasicBlock]bool{}
		for _, b := range fn.Blocks {
			h := an.LoopHeaderOf(b)
			if h == nil || seen[h] {
				continue
			}
			seen[h] = true
			loop := an.LoopBlocks(h)
			// does the loop maintain receiver state (directly or through a module callee)?
			mutates := false
			for lb := range loop {
				for _, in := range lb.Instrs {
					switch x := in.(type) {
					case *ssa.MapUpdate:
						mutates = mutates || strings.HasPrefix(an.PathOf(x.Map), "recv.")
					case *ssa.Call:
						if bi, ok := x.Call.Value.(*ssa.Builtin); ok && bi.Name() == "delete" {
							mutates = true
						} else if g := an.StaticCallee(&x.Call); g != nil && P.InModule(g) && g.Signature.Recv() != nil {
							if len(x.Call.Args) > 0 && an.PathOf(x.Call.Args[0]) == "recv" {
								mutates = true
							}
						}
					}
				}
			}
			if !mutates {
				continue
			}
			n++
			c.CountSites(1)
			var exits []string
			for lb := range loop {
				if lb == h {
					continue
				}
				for i, sc := range lb.Succs {
					if !loop[sc] && !an.DeadEdge(lb, i) {
						exits = append(exits, P.Pos(an.LastInstr(lb).Pos()))
					}
				}
				if _, isRet := an.LastInstr(lb).(*ssa.Return); isRet {
					exits = append(exits, P.Pos(an.LastInstr(lb).Pos()))
				}
			}
			sort.Strings(exits)
			hpos := "-"
			for _, lb := range fn.Blocks {
				if !loop[lb] || hpos != "-" {
					continue
				}
				for _, in := range lb.Instrs {
					if in.Pos().IsValid() {
						hpos = P.Pos(in.Pos())
						break
					}
				}
			}
			c.Check(len(exits) == 0, nil, fname(c, fn), "state-loop", hpos, "the loop leaves only when its keys are exhausted",
				"the loop that keeps the cache's structures in step can stop before all keys are treated (early exit at "+strings.Join(exits, ", ")+"): entries under the remaining keys go stale, so a removed event is still found through them")
		}
	}
	if n == 0 {
		c.NoAnchor(nil, "state-maintaining loops on the cache's write path")
	}
}

// ---------------------------------------------------------------- DROP-EMPTY

// DROP-EMPTY: maps of sets (deletion registry: target -> ids of the requests
// naming it; index: key -> events; subscriptions: connection -> its
// subscriptions) remove one member and then drop the whole entry when nothing
// is left. Where the whole-entry removal is guarded by a size test of the
// nested set, that test must admit size 0 only: "at most one left" also drops
// a member that belongs to somebody else (another retained deletion request,
// another subscription of the connection).
func runDropEmpty(c *core.Ctx) {
	P := c.P
	isNested := func(t types.Type) bool {
		switch u := t.Underlying().(type) {
		case *types.Map:
			switch e := u.Elem().Underlying().(type) {
			case *types.Map, *types.Slice:
				return true
			case *types.Pointer:
				return strings.Contains(e.Elem().String(), "safeMap")
			}
		}
		return false
	}
	n := 0
	for _, fn := range libFuncs(c) {
		if len(fn.Blocks) == 0 {
			continue
		}
		// (the merge state's per-request slot arrays are not sets shared with other parties: an entry is one
		// request's replies and is released whole — SLOT-RELEASE / REQ-COUPD decide when)
		if r := fn.Signature.Recv(); r != nil && isMergeState(r.Type()) {
			continue
		}
		for _, ci := range calls(fn) {
			call, ok := ci.(*ssa.Call)
			if !ok || len(call.Call.Args) < 2 {
				continue
			}
			outer := call.Call.Args[0]
			if b, isB := call.Call.Value.(*ssa.Builtin); isB {
				if b.Name() != "delete" || !isNested(outer.Type()) {
					continue
				}
			} else {
				name := an.CalleeName(&call.Call)
				if !strings.Contains(name, "safeMap") || !strings.HasSuffix(name, ").Delete") {
					continue
				}
				// a safeMap whose values are themselves safeMaps
				if !strings.Contains(strings.SplitN(outer.Type().String(), "safeMap", 2)[1], "safeMap") {
					continue
				}
			}
			op := an.PathOf(outer)
			paths, okp := an.PathsTo(fn, call.Block(), 2048)
			if !okp {
				c.Unknown(nil, fname(c, fn), "drop "+clip(op, 40), P.Pos(call.Pos()), "too many paths")
				continue
			}
			// size-like subjects tested on the way
			subj := map[string]bool{}
			for _, p := range paths {
				for _, cd := range p.Conds() {
					cd = an.NormCond(cd)
					bin, isBin := cd.V.(*ssa.BinOp)
					if !isBin {
						continue
					}
					// the removal is governed by this test only if one of its branches gets past the
					// removal (`if len(x) == 0 { panic(…) }` before an unconditional delete governs nothing)
					if cd.At != nil && len(cd.At.Succs) == 2 {
						// within the current iteration: not around the enclosing loops' back edges
						avoid := map[*ssa.BasicBlock]bool{}
						for h := an.LoopHeaderOf(cd.At); h != nil; h = an.LoopHeaderOf2(h) {
							if h != cd.At { // a loop's own exit test does not "get past" what follows the loop
								avoid[h] = true
							}
						}
						gets := func(s *ssa.BasicBlock) bool {
							return s == call.Block() || (!avoid[s] && an.Reachable(s, call.Block(), nil, avoid))
						}
						if gets(cd.At.Succs[0]) && gets(cd.At.Succs[1]) {
							continue
						}
					}
					for _, side := range []ssa.Value{bin.X, bin.Y} {
						sc, isCall := side.(*ssa.Call)
						if !isCall {
							continue
						}
						sizeLike := false
						if b, isB := sc.Call.Value.(*ssa.Builtin); isB && b.Name() == "len" {
							sizeLike = true
						} else if g := an.StaticCallee(&sc.Call); g != nil && (g.Name() == "Len" || g.Name() == "len" || strings.HasPrefix(g.Name(), "Len[")) {
							sizeLike = true
						}
						if sp := an.PathOf(side); sizeLike && strings.Contains(sp, op) {
							subj[sp] = true
						}
					}
				}
			}
			if len(subj) == 0 {
				continue // unconditional removal of the whole entry (CLOSE of a connection, …)
			}
			n++
			c.CountSites(1)
			props := []string{"C07"}
			switch {
			case strings.Contains(op, ".deleted"):
				props = []string{"C05"}
			case strings.Contains(op, ".idx"):
				props = []string{"C03", "C16"} // C16: a REQ on the cache handler is answered through this index
			}
			for sp := range subj {
				fr := an.ConstFrame(sp)
				fr.Domain = an.Range(0, an.PosInf)
				set, np, _ := fr.ReachSet(fn, call.Block(), nil, nil)
				c.CountPaths(np)
				c.Check(set.Subset(an.Range(0, 0)), props, fname(c, fn), "drop "+clip(op, 40), P.Pos(call.Pos()),
					"the whole entry is dropped only when its nested set is empty ("+clip(sp, 50)+" ∈ "+set.String()+")",
					"the whole entry of "+op+" is dropped while its nested set may still hold members ("+clip(sp, 60)+" ∈ "+set.String()+", want [0,0]): a member that belongs to another request / subscription is discarded with it")
			}
		}
	}
	if n == 0 {
		c.NoAnchor(nil, "size-guarded whole-entry removals from maps of sets")
	}
}

func structUnder(t types.Type) *types.Struct {
	if pt, ok := t.Underlying().(*types.Pointer); ok {
		t = pt.Elem()
	}
	st, _ := t.Underlying().(*types.Struct)
	return st
}
