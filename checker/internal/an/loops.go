package an

import (
	"golang.org/x/tools/go/ssa"
)

// LoopHeaderOf returns the innermost natural-loop header whose loop contains
// b (nil if b is not in a loop).
func LoopHeaderOf(b *ssa.BasicBlock) *ssa.BasicBlock {
	for h := b; h != nil; h = h.Idom() {
		if len(Latches(h)) > 0 && LoopBlocks(h)[b] {
			return h
		}
	}
	return nil
}

// Latches returns the sources of back edges into header h.
func Latches(h *ssa.BasicBlock) []*ssa.BasicBlock {
	var out []*ssa.BasicBlock
	for _, p := range h.Preds {
		if h.Dominates(p) {
			out = append(out, p)
		}
	}
	return out
}

// LoopBlocks returns the natural loop of header h.
func LoopBlocks(h *ssa.BasicBlock) map[*ssa.BasicBlock]bool {
	in := map[*ssa.BasicBlock]bool{h: true}
	var work []*ssa.BasicBlock
	for _, l := range Latches(h) {
		if !in[l] {
			in[l] = true
			work = append(work, l)
		}
	}
	for len(work) > 0 {
		b := work[len(work)-1]
		work = work[:len(work)-1]
		for _, p := range b.Preds {
			if !in[p] {
				in[p] = true
				work = append(work, p)
			}
		}
	}
	return in
}

// RefClosure: functions transitively referenced (called statically, passed
// as values, or made into closures) from the roots, restricted by keep.
// Dynamic dispatch through interfaces is not followed.
func RefClosure(roots []*ssa.Function, keep func(*ssa.Function) bool) []*ssa.Function {
	seen := map[*ssa.Function]bool{}
	var order []*ssa.Function
	var visit func(f *ssa.Function)
	visit = func(f *ssa.Function) {
		if f == nil || seen[f] || !keep(f) {
			return
		}
		seen[f] = true
		order = append(order, f)
		Instrs(f, func(in ssa.Instruction) {
			for _, op := range in.Operands(nil) {
				if op == nil || *op == nil {
					continue
				}
				switch x := (*op).(type) {
				case *ssa.Function:
					visit(x)
				case *ssa.MakeClosure:
					if fn, ok := x.Fn.(*ssa.Function); ok {
						visit(fn)
					}
				}
			}
		})
	}
	for _, r := range roots {
		visit(r)
	}
	return order
}

// IterPaths enumerates the simple paths that start at loop header h and end
// either back at h (one full iteration; the path's last element is h again)
// or at a block satisfying stop (typically a return block: the loop ran out
// or the body left early). ok=false if more than max paths exist.
func IterPaths(h *ssa.BasicBlock, stop func(*ssa.BasicBlock) bool, max int) (paths []Path, ok bool) {
	ok = true
	on := map[*ssa.BasicBlock]bool{}
	var cur Path
	var walk func(b *ssa.BasicBlock)
	walk = func(b *ssa.BasicBlock) {
		if !ok {
			return
		}
		cur = append(cur, b)
		on[b] = true
		defer func() {
			cur = cur[:len(cur)-1]
			on[b] = false
		}()
		if b != h && stop(b) {
			if len(paths) >= max {
				ok = false
				return
			}
			paths = append(paths, append(Path(nil), cur...))
			return
		}
		for i, s := range b.Succs {
			if (i == 1 && b.Succs[0] == s) || DeadEdge(b, i) {
				continue
			}
			if s == h {
				if len(paths) >= max {
					ok = false
					return
				}
				paths = append(paths, append(append(Path(nil), cur...), h))
				continue
			}
			if !on[s] {
				walk(s)
			}
		}
	}
	walk(h)
	return
}

// LoopHeaderOf2: the header of the loop enclosing the loop headed by h (nil if none).
func LoopHeaderOf2(h *ssa.BasicBlock) *ssa.BasicBlock {
	for d := h.Idom(); d != nil; d = d.Idom() {
		if len(Latches(d)) > 0 && LoopBlocks(d)[h] {
			return d
		}
	}
	return nil
}
