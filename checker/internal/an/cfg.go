// Package an holds the analysis engines shared by the rules: E-CFG (this
// file), E-PROV (prov.go), E-INT (ival.go), E-CHAN (chan.go), E-LOCK
// (lock.go), E-CG (cg.go).
package an

import (
	"golang.org/x/tools/go/ssa"
)

// Edge is a CFG edge between two blocks of one function.
type Edge struct{ From, To *ssa.BasicBlock }

// DeadEdge: the i-th successor edge of b is never taken because b branches
// on a boolean constant ("if x && false", "if false").
func DeadEdge(b *ssa.BasicBlock, i int) bool {
	iff, ok := lastInstr(b).(*ssa.If)
	if !ok {
		return false
	}
	k, ok := iff.Cond.(*ssa.Const)
	if !ok || k.Value == nil {
		return false
	}
	isTrue := k.Value.String() == "true"
	return (i == 0 && !isTrue) || (i == 1 && isTrue)
}

// Reachable reports whether 'to' can be reached from 'from' without using
// any edge in cut and without passing through a block in avoid.
func Reachable(from, to *ssa.BasicBlock, cut []Edge, avoid map[*ssa.BasicBlock]bool) bool {
	if from == to {
		return true
	}
	seen := map[*ssa.BasicBlock]bool{from: true}
	work := []*ssa.BasicBlock{from}
	isCut := func(a, b *ssa.BasicBlock) bool {
		for _, e := range cut {
			if e.From == a && e.To == b {
				return true
			}
		}
		return false
	}
	for len(work) > 0 {
		b := work[len(work)-1]
		work = work[:len(work)-1]
		for i, s := range b.Succs {
			if seen[s] || isCut(b, s) || avoid[s] || DeadEdge(b, i) {
				continue
			}
			if s == to {
				return true
			}
			seen[s] = true
			work = append(work, s)
		}
	}
	return false
}

// Live reports whether b can execute at all (reachable from the entry when
// branches on boolean constants are resolved).
func Live(b *ssa.BasicBlock) bool {
	return Reachable(b.Parent().Blocks[0], b, nil, nil)
}

// EdgeDominates: every path entry→target uses edge e (and target is reachable).
func EdgeDominates(fn *ssa.Function, e Edge, target *ssa.BasicBlock) bool {
	entry := fn.Blocks[0]
	if !Reachable(entry, target, nil, nil) {
		return false
	}
	if e.From.Succs[0] == e.To && len(e.From.Succs) == 2 && e.From.Succs[1] == e.To {
		return false // both branches go to the same block: the edge says nothing
	}
	return !Reachable(entry, target, []Edge{e}, nil)
}

// Cond is one branch condition with the polarity under which it was taken.
type Cond struct {
	V    ssa.Value // the If operand
	True bool      // edge taken: true branch
	At   *ssa.BasicBlock
	Idx  int // position of At on the path the condition was read from (Path.Conds)
	// Chain: the condition was tested inside a private helper reached through these call
	// sites (outermost first); its values are read in the outer function's terms with Path.
	Chain []*ssa.Call
}

// Path: access path of a value of the function that tested the condition, in
// the terms of the function the condition list belongs to.
func (c Cond) Path(v ssa.Value) string {
	if len(c.Chain) > 0 {
		return PathOfChain(v, c.Chain)
	}
	return PathOf(v)
}

// Guards returns the branch conditions that necessarily hold when target is
// reached (conjunctive approximation: those whose edge edge-dominates target).
func Guards(fn *ssa.Function, target *ssa.BasicBlock) []Cond {
	var out []Cond
	for _, b := range fn.Blocks {
		iff, ok := lastInstr(b).(*ssa.If)
		if !ok || len(b.Succs) != 2 || b.Succs[0] == b.Succs[1] {
			continue
		}
		for i, s := range b.Succs {
			if s == target && len(s.Preds) == 1 || EdgeDominates(fn, Edge{b, s}, target) {
				out = append(out, NormCond(Cond{V: iff.Cond, True: i == 0, At: b}))
			}
		}
	}
	return out
}

func lastInstr(b *ssa.BasicBlock) ssa.Instruction {
	if len(b.Instrs) == 0 {
		return nil
	}
	return b.Instrs[len(b.Instrs)-1]
}

// LastInstr is the terminator of b.
func LastInstr(b *ssa.BasicBlock) ssa.Instruction { return lastInstr(b) }

// Path is a simple path of blocks from the function entry.
type Path []*ssa.BasicBlock

// Conds lists the branch conditions taken along the path.
func (p Path) Conds() []Cond {
	var out []Cond
	for i := 0; i+1 < len(p); i++ {
		b := p[i]
		iff, ok := lastInstr(b).(*ssa.If)
		if !ok || len(b.Succs) != 2 || b.Succs[0] == b.Succs[1] {
			continue
		}
		out = append(out, NormCond(Cond{V: iff.Cond, True: b.Succs[0] == p[i+1], At: b, Idx: i}))
	}
	return out
}

// upTo: the prefix of the path that ends with the block testing c.
func (p Path) upTo(c Cond) Path {
	if c.Idx >= 0 && c.Idx < len(p) && p[c.Idx] == c.At {
		return p[:c.Idx+1]
	}
	return p
}

// Pred returns the block preceding the LAST occurrence of b on the path (nil
// if none): a path may pass a loop header twice (one iteration), and a value
// of the header is then the one of its most recent execution.
func (p Path) Pred(b *ssa.BasicBlock) *ssa.BasicBlock {
	for i := len(p) - 1; i >= 1; i-- {
		if p[i] == b {
			return p[i-1]
		}
	}
	return nil
}

func (p Path) Contains(b *ssa.BasicBlock) bool {
	for _, x := range p {
		if x == b {
			return true
		}
	}
	return false
}

// LoopUnroll: paths may pass each loop header twice.
var LoopUnroll = true

// SimplePaths enumerates the simple (no block repeated) paths from 'from' to
// any block satisfying isTarget, up to max paths. A path ends at the first
// target it meets. ok=false if the cap was hit.
// PathCapFactor scales the path caps of 1024 and above (see SimplePaths).
var PathCapFactor = 8

func SimplePaths(from *ssa.BasicBlock, isTarget func(*ssa.BasicBlock) bool, max int) (paths []Path, ok bool) {
	ok = true
	// the callers' caps were chosen when the functions at hand had a few dozen paths; a function
	// with a dozen sequential early-return checks and two loops has tens of thousands, and giving
	// up there is a (false) alarm. Enumeration is cheap; allow eight times the stated cap.
	if max >= 1024 {
		max *= PathCapFactor
	}
	// a loop header may be passed twice (zero or one iteration of every loop is
	// explored: values assigned in a loop body reach the code behind the loop);
	// every other block at most once
	onPath := map[*ssa.BasicBlock]int{}
	isHeader := map[*ssa.BasicBlock]int{} // 0 unknown 1 yes 2 no
	header := func(b *ssa.BasicBlock) bool {
		if v := isHeader[b]; v != 0 {
			return v == 1
		}
		isHeader[b] = 2
		if LoopUnroll && len(Latches(b)) > 0 {
			isHeader[b] = 1
		}
		return isHeader[b] == 1
	}
	var cur Path
	// prune: only walk into blocks from which some target is reachable
	canReach := map[*ssa.BasicBlock]int{} // 0 unknown 1 yes 2 no
	var reaches func(b *ssa.BasicBlock) bool
	reaches = func(b *ssa.BasicBlock) bool {
		if v := canReach[b]; v != 0 {
			return v == 1
		}
		seen := map[*ssa.BasicBlock]bool{b: true}
		work := []*ssa.BasicBlock{b}
		res := false
		for len(work) > 0 && !res {
			x := work[len(work)-1]
			work = work[:len(work)-1]
			if isTarget(x) {
				res = true
				break
			}
			for i, s := range x.Succs {
				if !seen[s] && !DeadEdge(x, i) {
					seen[s] = true
					work = append(work, s)
				}
			}
		}
		if res {
			canReach[b] = 1
		} else {
			canReach[b] = 2
		}
		return res
	}
	var walk func(b *ssa.BasicBlock)
	walk = func(b *ssa.BasicBlock) {
		if !ok {
			return
		}
		cur = append(cur, b)
		onPath[b]++
		defer func() {
			cur = cur[:len(cur)-1]
			onPath[b]--
		}()
		if isTarget(b) {
			if len(paths) >= max {
				ok = false
				return
			}
			paths = append(paths, append(Path(nil), cur...))
			return
		}
		for i, s := range b.Succs {
			if i == 1 && b.Succs[0] == s {
				continue
			}
			if DeadEdge(b, i) {
				continue
			}
			if (onPath[s] > 0 && !(header(s) && onPath[s] < 2)) || !reaches(s) {
				continue
			}
			walk(s)
		}
	}
	walk(from)
	return
}

// PathsTo enumerates simple paths from the entry of fn to block target.
func PathsTo(fn *ssa.Function, target *ssa.BasicBlock, max int) ([]Path, bool) {
	return SimplePaths(fn.Blocks[0], func(b *ssa.BasicBlock) bool { return b == target }, max)
}

// ReturnBlocks lists blocks ending in Return.
func ReturnBlocks(fn *ssa.Function) []*ssa.BasicBlock {
	var out []*ssa.BasicBlock
	for _, b := range fn.Blocks {
		if b == fn.Recover {
			continue // runs only after a recovered panic
		}
		if !Live(b) {
			continue // behind a branch on a constant
		}
		if _, ok := lastInstr(b).(*ssa.Return); ok {
			out = append(out, b)
		}
	}
	return out
}

// ExitBlocks lists blocks ending in Return or Panic.
func ExitBlocks(fn *ssa.Function) []*ssa.BasicBlock {
	var out []*ssa.BasicBlock
	for _, b := range fn.Blocks {
		switch lastInstr(b).(type) {
		case *ssa.Return, *ssa.Panic:
			out = append(out, b)
		}
	}
	return out
}

// PostDominates: every path from a to a Return passes through b.
// (Panic exits are ignored: they do not produce a result.)
func PostDominates(fn *ssa.Function, b, a *ssa.BasicBlock) bool {
	if a == b {
		return true
	}
	rets := ReturnBlocks(fn)
	avoid := map[*ssa.BasicBlock]bool{b: true}
	anyRet := false
	for _, r := range rets {
		if r == b {
			continue
		}
		if Reachable(a, r, nil, avoid) {
			return false
		}
	}
	for _, r := range rets {
		if Reachable(a, r, nil, nil) {
			anyRet = true
		}
	}
	return anyRet
}

// InLoop reports whether b lies on a CFG cycle.
func InLoop(b *ssa.BasicBlock) bool {
	for _, s := range b.Succs {
		if Reachable(s, b, nil, nil) {
			return true
		}
	}
	return false
}

// Instrs calls f for each instruction of fn that can execute (blocks behind
// a branch on a boolean constant are skipped).
func Instrs(fn *ssa.Function, f func(ssa.Instruction)) {
	if len(fn.Blocks) == 0 {
		return
	}
	live := map[*ssa.BasicBlock]bool{fn.Blocks[0]: true}
	work := []*ssa.BasicBlock{fn.Blocks[0]}
	for len(work) > 0 {
		b := work[len(work)-1]
		work = work[:len(work)-1]
		for i, s := range b.Succs {
			if !live[s] && !DeadEdge(b, i) {
				live[s] = true
				work = append(work, s)
			}
		}
	}
	if fn.Recover != nil {
		live[fn.Recover] = true
	}
	for _, b := range fn.Blocks {
		if !live[b] {
			continue
		}
		for _, in := range b.Instrs {
			f(in)
		}
	}
}

// InstrDominates: instruction a executes before b on every path reaching b.
func InstrDominates(a, b ssa.Instruction) bool {
	ba, bb := a.Block(), b.Block()
	if ba == bb {
		for _, in := range ba.Instrs {
			if in == a {
				return true
			}
			if in == b {
				return false
			}
		}
		return false
	}
	return ba.Dominates(bb)
}

// WithAnon returns fn and, transitively, its anonymous functions.
func WithAnon(fn *ssa.Function) []*ssa.Function {
	out := []*ssa.Function{fn}
	for _, a := range fn.AnonFuncs {
		out = append(out, WithAnon(a)...)
	}
	return out
}

// ReturnValues resolves the operands of a Return: in functions with defers
// go/ssa spills results to local slots ("*t0 = v; rundefers; t = *t0; return
// t"); the value stored last in the return's own block is reported.
func ReturnValues(r *ssa.Return) []ssa.Value {
	out := make([]ssa.Value, len(r.Results))
	for i, v := range r.Results {
		out[i] = v
		u, ok := v.(*ssa.UnOp)
		if !ok {
			continue
		}
		a, ok := u.X.(*ssa.Alloc)
		if !ok {
			continue
		}
		for _, in := range r.Block().Instrs {
			if in == ssa.Instruction(u) {
				break
			}
			if s, ok := in.(*ssa.Store); ok && s.Addr == ssa.Value(a) {
				out[i] = s.Val
			}
		}
	}
	return out
}
