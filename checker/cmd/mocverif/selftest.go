package main

import (
	"encoding/json"
	"fmt"
	"os"
	"os/exec"
	"path/filepath"
	"sort"
	"strings"
	"sync"
)

// Seeded-mutant self-test (thorough tier). Every patch registered for the
// property in <verif>/mutants/index.json is applied to a scratch copy of the
// repository's CURRENT working tree (under $TMPDIR, removed immediately), the
// checker is re-run on the copy (one process per mutant: many variants in
// one process exhaust memory) and must report the seeded rule. The result is
// evidence about the CHECKER; it never changes the verdict about /repo.

type mutantEntry struct {
	ID       string `json:"id"`
	Property string `json:"property"`
	Rule     string `json:"rule"`
	File     string `json:"file"`
	Survives *bool  `json:"survives_repo_tests"`
}

type mutantIndex struct {
	Mutants  []mutantEntry `json:"mutants"`
	Negative []string      `json:"negative_controls"`
}

type mutantResult struct {
	ID            string   `json:"id"`
	Rule          string   `json:"rule_expected"`
	Status        string   `json:"status"` // detected | missed | stale | error
	Fired         []string `json:"rules_fired,omitempty"`
	SurvivesTests *bool    `json:"survives_repo_tests,omitempty"`
}

func selfTest(verif, repo, prop string) any {
	b, err := os.ReadFile(filepath.Join(verif, "mutants", "index.json"))
	if err != nil {
		return map[string]any{"error": err.Error()}
	}
	var idx mutantIndex
	if err := json.Unmarshal(b, &idx); err != nil {
		return map[string]any{"error": err.Error()}
	}
	self, err := os.Executable()
	if err != nil {
		return map[string]any{"error": err.Error()}
	}
	type job struct {
		e   mutantEntry
		neg bool
	}
	var jobs []job
	for _, e := range idx.Mutants {
		if e.Property == prop {
			jobs = append(jobs, job{e: e})
		}
	}
	// negative controls are cheap insurance against false alarms: run them with C01
	// (once per full thorough sweep) and with whichever property they would trip
	if prop == "C01" {
		for _, id := range idx.Negative {
			jobs = append(jobs, job{e: mutantEntry{ID: id, Property: "all", Rule: "-"}, neg: true})
		}
	}
	// independent experiments (DESIGN §8.3–§8.5): the seeded changes written against this
	// property must make it fail; the behaviour-preserving refactorings must leave every
	// property silent (spread over the 20 properties so that a full sweep runs each once)
	if seeds, _ := filepath.Glob(filepath.Join(verif, "seeded", prop+"-*", "patch.diff")); len(seeds) > 0 {
		for _, sp := range seeds {
			jobs = append(jobs, job{e: mutantEntry{ID: "seed:" + filepath.Base(filepath.Dir(sp)), Property: prop, Rule: "*", File: sp}})
		}
	}
	if refs, _ := filepath.Glob(filepath.Join(verif, "refactors", "R*", "patch.diff")); len(refs) > 0 {
		sort.Strings(refs)
		for i, rp := range refs {
			if fmt.Sprintf("C%02d", i%20+1) == prop {
				jobs = append(jobs, job{e: mutantEntry{ID: "refactor:" + filepath.Base(filepath.Dir(rp)), Property: "all", Rule: "-", File: rp}, neg: true})
			}
		}
	}
	base := filepath.Join(os.TempDir(), fmt.Sprintf("mocverif-selftest-%d", os.Getpid()))
	defer os.RemoveAll(base)
	results := make([]mutantResult, len(jobs))
	sem := make(chan struct{}, 6)
	var wg sync.WaitGroup
	for i, j := range jobs {
		wg.Add(1)
		go func(i int, j job) {
			defer wg.Done()
			sem <- struct{}{}
			defer func() { <-sem }()
			results[i] = runMutant(self, verif, repo, base, j.e, j.neg)
		}(i, j)
	}
	wg.Wait()
	sort.Slice(results, func(a, b int) bool { return results[a].ID < results[b].ID })
	det, missed, stale, falseAlarms := 0, 0, 0, 0
	for _, r := range results {
		switch r.Status {
		case "detected", "silent":
			det++
		case "missed":
			missed++
			fmt.Printf("WARN selftest: seeded mutant %s not detected by %s (fired: %v)\n", r.ID, r.Rule, r.Fired)
		case "false-alarm":
			falseAlarms++
			fmt.Printf("WARN selftest: negative control %s raised %v\n", r.ID, r.Fired)
		default:
			stale++
			fmt.Printf("WARN selftest: seeded mutant %s is %s\n", r.ID, r.Status)
		}
	}
	return map[string]any{
		"seeded":       len(jobs),
		"detected":     det,
		"missed":       missed,
		"stale":        stale,
		"false_alarms": falseAlarms,
		"results":      results,
		"note":         "own mutants (mutants/), independent seeded changes (seeded/<property>-*) and independent behaviour-preserving refactorings (refactors/, as negative controls); each patch is applied to a scratch copy of the repository's current working tree and the rules are re-run on the copy; 'detected' = the named rule reported the seeded construct; negative controls (behaviour-preserving rewrites) must stay silent",
	}
}

func runMutant(self, verif, repo, base string, e mutantEntry, neg bool) mutantResult {
	res := mutantResult{ID: e.ID, Rule: e.Rule, SurvivesTests: e.Survives}
	safe := strings.ReplaceAll(e.ID, ":", "_")
	dir := filepath.Join(base, safe)
	ev := filepath.Join(base, "ev-"+safe)
	defer os.RemoveAll(dir)
	defer os.RemoveAll(ev)
	if err := os.MkdirAll(dir, 0o755); err != nil {
		res.Status = "error: " + err.Error()
		return res
	}
	if out, err := exec.Command("rsync", "-a", "--exclude", ".git", repo+"/", dir+"/").CombinedOutput(); err != nil {
		res.Status = "error: copy: " + strings.TrimSpace(string(out))
		return res
	}
	patch := filepath.Join(verif, "mutants", "patches", e.ID+".patch")
	if strings.HasPrefix(e.ID, "seed:") || strings.HasPrefix(e.ID, "refactor:") {
		patch = e.File
	}
	if out, err := exec.Command("patch", "-p1", "-s", "-d", dir, "-i", patch).CombinedOutput(); err != nil {
		res.Status = "stale (patch does not apply: " + strings.TrimSpace(string(out)) + ")"
		return res
	}
	prop := e.Property
	cmd := exec.Command(self, "-repo", dir, "-property", prop, "-tier", "quick", "-evidence", ev, "-verif", verif)
	out, _ := cmd.CombinedOutput()
	fired := map[string]bool{}
	violated := false
	for _, line := range strings.Split(string(out), "\n") {
		line = strings.TrimSpace(line)
		if strings.HasPrefix(line, "VIOLATED") || strings.HasPrefix(line, "UNDECIDED") {
			if i, j := strings.Index(line, "["), strings.Index(line, "]"); i >= 0 && j > i {
				fired[line[i+1:j]] = true
			}
		}
		if strings.HasPrefix(line, "VIOLATION") {
			violated = true
		}
	}
	for r := range fired {
		res.Fired = append(res.Fired, r)
	}
	sort.Strings(res.Fired)
	switch {
	case neg && !violated:
		res.Status = "silent"
	case neg:
		res.Status = "false-alarm"
	case fired[e.Rule] || (e.Rule == "*" && violated):
		res.Status = "detected"
	default:
		res.Status = "missed"
	}
	return res
}
