#!/usr/bin/env python3
"""Runs the checker against independent patches, each applied to a scratch copy of /repo's
current working tree (under $TMPDIR, removed afterwards; /repo itself is not touched).
  refactors/*/patch.diff : behaviour-preserving rewrites by independent sub-agents -> must stay silent
  seeded/*/patch.diff    : property-breaking changes by independent sub-agents     -> target property must fail
usage: check_patches.py [refactors|seeded|all] [name ...]"""
import concurrent.futures as cf, glob, json, os, shutil, subprocess, sys, tempfile
V = "/verif"
which = sys.argv[1] if len(sys.argv) > 1 else "all"
only = set(sys.argv[2:])
TMP = tempfile.mkdtemp(prefix="mocpatch")
def run(kind, d):
    name = os.path.basename(d)
    w, ev = os.path.join(TMP, name), os.path.join(TMP, "ev-" + name)
    try:
        subprocess.run(["rsync", "-a", "--exclude", ".git", "/repo/", w + "/"], check=True)
        p = subprocess.run(["patch", "-p1", "-s", "-d", w, "-i", os.path.join(d, "patch.diff")], capture_output=True, text=True)
        if p.returncode != 0:
            return kind, name, "STALE", [], []
        r = subprocess.run([V + "/bin/mocverif", "-repo", w, "-property", "all", "-no-selftest", "-evidence", ev, "-verif", V], capture_output=True, text=True, errors="replace")
        fired, props = [], set()
        for line in r.stdout.splitlines():
            line = line.strip()
            if line.startswith(("VIOLATED", "UNDECIDED")):
                fired.append(line[:330])
            if line.startswith("VIOLATION"):
                props.add(line.split("property=")[1].split()[0])
        return kind, name, "", sorted(props), fired
    finally:
        shutil.rmtree(w, ignore_errors=True); shutil.rmtree(ev, ignore_errors=True)
jobs = []
if which in ("refactors", "all"):
    jobs += [("refactor", d) for d in sorted(glob.glob(V + "/refactors/*")) if os.path.exists(d + "/patch.diff")]
if which in ("seeded", "all"):
    jobs += [("seed", d) for d in sorted(glob.glob(V + "/seeded/*")) if os.path.exists(d + "/patch.diff")]
if only:
    jobs = [j for j in jobs if os.path.basename(j[1]) in only]
bad = 0
with cf.ThreadPoolExecutor(max_workers=5) as ex:
    for kind, name, err, props, fired in ex.map(lambda j: run(*j), jobs):
        if err:
            bad += 1; print("%-9s %-8s %s" % (kind, name, err)); continue
        if kind == "refactor":
            if props:
                bad += 1; print("FALSE-ALARM %-8s %s" % (name, props))
                for f in fired[:12]: print("     ", f)
            else:
                print("silent      %-8s" % name)
        else:
            target = name.split("-")[0]
            if target in props:
                rules = sorted({f.split("[")[1].split("]")[0] for f in fired if "[" in f and ("["+target+"]" in f or True)})
                print("detected    %-8s %s rules=%s" % (name, props, ",".join(rules)))
            else:
                bad += 1; print("MISSED      %-8s (failing: %s)" % (name, props))
print("%d patches, %d problems" % (len(jobs), bad))
shutil.rmtree(TMP, ignore_errors=True)
sys.exit(1 if bad else 0)
