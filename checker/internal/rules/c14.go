package rules

import (
	"fmt"
	"go/token"
	"go/types"
	"sort"
	"strconv"
	"strings"

	"golang.org/x/tools/go/ssa"

	"mocverif/internal/an"
	"mocverif/internal/core"
)

func init() {
	reg(&core.RuleInfo{Name: "TX-1", Props: []string{"C14", "C06"}, Engine: "CFG", Floor: 1, Confirmed: 1,
		Doc: "deferred closure right after BeginTx: rollback on error, commit otherwise", Run: runTx1})
	reg(&core.RuleInfo{Name: "TX-2", Props: []string{"C14"}, Engine: "PROV", Floor: 5, Confirmed: 6,
		Doc: "inside the transaction only tx-prepared statements are executed", Run: runTx2})
	reg(&core.RuleInfo{Name: "TX-3", Props: []string{"C14"}, Engine: "CFG", Floor: 10, Confirmed: 12,
		Doc: "every database call's error is tested and its failing edge returns non-nil", Run: runTx3})
	reg(&core.RuleInfo{Name: "TX-4", Props: []string{"C14", "C06"}, Engine: "CFG", Floor: 5, Confirmed: 7,
		Doc: "dependent inserts guarded by RowsAffected != 0; tombstones idempotent", Run: runTx4})
	reg(&core.RuleInfo{Name: "TX-BATCH", Props: []string{"C14"}, Engine: "CG", Floor: 1, Confirmed: 2,
		Doc: "a batch reaches the transaction function whole: no caller splits it over several transactions", Run: runTxBatch})
	reg(&core.RuleInfo{Name: "BATCH-ALL", Props: []string{"C06", "C14", "C05"}, Engine: "CFG", Floor: 1, Confirmed: 1,
		Doc: "an event of a batch is skipped only for the recognised reasons (not stored kind, unencodable)", Run: runBatchAll})
	reg(&core.RuleInfo{Name: "TX-5", Props: []string{"C14", "C06"}, Engine: "PROV", Floor: 2, Confirmed: 3,
		Doc: "the hash seed returned is the seed persisted; the handler's seed comes only from there", Run: runTx5})
}

// blockLocal: if v is a load of a local slot, the value stored last before
// the load in the same block.
func blockLocal(v ssa.Value) ssa.Value {
	u, ok := v.(*ssa.UnOp)
	if !ok || u.Op != token.MUL {
		return v
	}
	a, ok := u.X.(*ssa.Alloc)
	if !ok {
		return v
	}
	var last ssa.Value
	for _, in := range u.Block().Instrs {
		if in == ssa.Instruction(u) {
			break
		}
		if s, ok := in.(*ssa.Store); ok && s.Addr == ssa.Value(a) {
			last = s.Val
		}
	}
	if last == nil {
		return v
	}
	return last
}

func txFunc(c *core.Ctx) (*ssa.Function, *ssa.Call) {
	for _, fn := range sqliteFuncs(c) {
		for _, call := range callsNamed(fn, "(*database/sql.DB).BeginTx") {
			return fn, call
		}
	}
	return nil, nil
}

func isSQLMethod(name, typ string) bool {
	return strings.HasPrefix(name, "(*database/sql."+typ+").") || strings.HasPrefix(name, "(database/sql."+typ+").")
}

func runTx1(c *core.Ctx) {
	P := c.P
	fn, begin := txFunc(c)
	if fn == nil {
		c.NoAnchor(nil, "the function calling (*sql.DB).BeginTx")
		return
	}
	c.CountFuncs(1)
	// the named error result slot: what the returns load
	var slot *ssa.Alloc
	for _, rb := range an.ReturnBlocks(fn) {
		r := an.LastInstr(rb).(*ssa.Return)
		if u, ok := r.Results[len(r.Results)-1].(*ssa.UnOp); ok {
			if a, ok := u.X.(*ssa.Alloc); ok {
				slot = a
			}
		}
	}
	var d *ssa.Defer
	var cl *ssa.Function
	an.Instrs(fn, func(in ssa.Instruction) {
		df, ok := in.(*ssa.Defer)
		if !ok {
			return
		}
		mc, ok := df.Call.Value.(*ssa.MakeClosure)
		if !ok {
			return
		}
		f := mc.Fn.(*ssa.Function)
		if len(callsNamed(f, "(*database/sql.Tx).Rollback"))+len(callsNamed(f, "(*database/sql.Tx).Commit")) > 0 && d == nil {
			d, cl = df, f
		}
	})
	// the other common spelling: a deferred Rollback (unconditional, or on the named result) and an
	// explicit Commit whose error is the result on every successful way out
	if d == nil || slot == nil || len(callsNamed(cl, "(*database/sql.Tx).Commit")) == 0 {
		if dpos, problems, ok := tx1Explicit(c, fn, begin, slot); ok {
			c.Check(len(problems) == 0, nil, fname(c, fn), "defer commit-or-rollback", P.Pos(dpos),
				"a Rollback is deferred right after BeginTx succeeds, before any statement; every way out either returns the error of the one explicit Commit or returns a non-nil error without having committed",
				strings.Join(problems, "; ")+": after a failure at some statement the database does not answer as before the batch")
			return
		}
	}
	if d == nil || slot == nil {
		c.Bad(nil, fname(c, fn), "defer commit-or-rollback", P.Pos(begin.Pos()), "no deferred closure that commits or rolls back the transaction (or the error result is not a named result the closure can see): a failing batch is left open or half-applied")
		return
	}
	var problems []string
	if !an.InstrDominates(begin, d) {
		problems = append(problems, "the defer is not dominated by BeginTx")
	}
	// every other tx / stmt call is dominated by the defer
	an.Instrs(fn, func(in ssa.Instruction) {
		ci, ok := in.(ssa.CallInstruction)
		if !ok || in == ssa.Instruction(d) {
			return
		}
		n := an.CalleeName(ci.Common())
		if (isSQLMethod(n, "Tx") || isSQLMethod(n, "Stmt")) && !an.InstrDominates(d, in) {
			problems = append(problems, n+" at "+P.Pos(in.Pos())+" runs before the defer is registered")
		}
	})
	// closure shape
	isSlotNil := func(v ssa.Value) (bool, bool) { // (is test of named err, polarity meaning non-nil when true)
		b, ok := v.(*ssa.BinOp)
		if !ok || !an.IsNilConst(b.Y) || (b.Op != token.NEQ && b.Op != token.EQL) {
			return false, false
		}
		u, ok := b.X.(*ssa.UnOp)
		if !ok || an.ResolveAlloc(u.X) != slot {
			return false, false
		}
		return true, b.Op == token.NEQ
	}
	rb, cm := callsNamed(cl, "(*database/sql.Tx).Rollback"), callsNamed(cl, "(*database/sql.Tx).Commit")
	okRb, okCm := false, false
	txOK := func(call *ssa.Call) bool {
		v := an.LoadedValue(resolveFree(call.Call.Args[0]))
		e, ok := v.(*ssa.Extract)
		return ok && e.Tuple == ssa.Value(begin) && e.Index == 0
	}
	for _, call := range rb {
		for _, g := range an.Guards(cl, call.Block()) {
			if is, nn := isSlotNil(g.V); is && g.True == nn && txOK(call) {
				okRb = true
			}
		}
	}
	for _, call := range cm {
		for _, g := range an.Guards(cl, call.Block()) {
			if is, nn := isSlotNil(g.V); is && g.True != nn && txOK(call) {
				// commit's error becomes the result
				if call.Referrers() != nil {
					for _, r := range *call.Referrers() {
						if st, ok := r.(*ssa.Store); ok && an.ResolveAlloc(st.Addr) == slot {
							okCm = true
						}
						// … wrapped: `if cmErr := tx.Commit(); cmErr != nil { err = fmt.Errorf("…: %w", cmErr) }` —
						// behind the failed-commit test the result is set to an error that cannot be nil
						if bo, ok := r.(*ssa.BinOp); ok && an.IsNilConst(bo.Y) && (bo.Op == token.NEQ || bo.Op == token.EQL) {
							an.Instrs(cl, func(in ssa.Instruction) {
								st, isSt := in.(*ssa.Store)
								if !isSt || an.ResolveAlloc(st.Addr) != slot || !definitelyError(st.Val) {
									return
								}
								for _, g2 := range an.Guards(cl, st.Block()) {
									if g2.V == ssa.Value(bo) && g2.True == (bo.Op == token.NEQ) {
										okCm = true
									}
								}
							})
						}
					}
				}
			}
		}
	}
	// what the transaction function itself puts into the named result once the transaction is open is the
	// failure of a step of this transaction — not a report made before it began (`return skipped`, the
	// second result of the row builder): the closure would roll back a batch whose statements all succeeded
	an.Instrs(fn, func(in ssa.Instruction) {
		st, ok := in.(*ssa.Store)
		if !ok || an.ResolveAlloc(st.Addr) != slot || !an.InstrDominates(d, st) {
			return
		}
		var leaves []ssa.Instruction
		var walk func(v ssa.Value, depth int)
		walk = func(v ssa.Value, depth int) {
			if depth > 5 {
				return
			}
			switch x := v.(type) {
			case *ssa.Extract:
				if call, isC := x.Tuple.(*ssa.Call); isC {
					leaves = append(leaves, call)
				}
			case *ssa.Phi:
				for _, e := range x.Edges {
					walk(e, depth+1)
				}
			case *ssa.ChangeInterface:
				walk(x.X, depth+1)
			case *ssa.Call:
				n := an.CalleeName(&x.Call)
				if n == "fmt.Errorf" || n == "errors.Join" {
					leaves = append(leaves, x) // (made where this call stands)
					args := x.Call.Args
					if n == "fmt.Errorf" {
						args = args[1:]
					}
					for _, a := range args {
						if elems, okE := an.VariadicElems(a); okE {
							for _, el := range elems {
								if ci, isCI := el.(*ssa.ChangeInterface); isCI {
									walk(ci.X, depth+1)
								} else {
									walk(el, depth+1)
								}
							}
						}
					}
					return
				}
				leaves = append(leaves, x)
			}
		}
		walk(st.Val, 0)
		for _, li := range leaves {
			if li.Parent() == fn && !an.InstrDominates(d, li) {
				problems = append(problems, "the named result is set to "+clip(an.PathOf(st.Val), 60)+" ("+P.Pos(st.Pos())+"), computed before the transaction was opened: a batch whose statements all succeeded returns it non-nil and is rolled back")
			}
		}
	})
	if !okRb {
		problems = append(problems, "Rollback is not called on the 'named result != nil' edge of this transaction")
	}
	if !okCm {
		problems = append(problems, "Commit is not called on the 'named result == nil' edge with its error becoming the result")
	}
	c.Check(len(problems) == 0, nil, fname(c, fn), "defer commit-or-rollback", P.Pos(d.Pos()),
		"registered right after BeginTx succeeds, before any statement: rolls back iff the named result is non-nil, otherwise commits and returns Commit's error",
		strings.Join(problems, "; ")+": after a failure at some statement the database does not answer as before the batch")
}

func runTx2(c *core.Ctx) {
	P := c.P
	fn, begin := txFunc(c)
	if fn == nil {
		c.NoAnchor(nil, "the function calling (*sql.DB).BeginTx")
		return
	}
	fns := an.RefClosure([]*ssa.Function{fn}, func(f *ssa.Function) bool { return P.InModule(f) })
	c.CountFuncs(len(fns))
	var dbCalls []string
	for _, f := range fns {
		for _, ci := range calls(f) {
			n := an.CalleeName(ci.Common())
			if isSQLMethod(n, "DB") && n != "(*database/sql.DB).BeginTx" {
				dbCalls = append(dbCalls, n+" at "+P.Pos(ci.Pos()))
			}
		}
	}
	c.Check(len(dbCalls) == 0, nil, fname(c, fn), "no-db-bypass", P.Pos(begin.Pos()), "between begin and return nothing talks to *sql.DB directly", "statements bypass the transaction: "+strings.Join(dbCalls, "; ")+" — they are not rolled back with the batch")
	// every Exec is on a statement prepared on this tx
	for _, o := range an.RegionCalls(fn, nil, "(*database/sql.Stmt).ExecContext") {
		call := o.In.(*ssa.Call)
		c.CountSites(1)
		q, ok := stmtQuery(o.Resolve(call.Call.Args[0]), begin)
		tbl := sqlTable(q)
		c.Check(ok, nil, fname(c, fn), "exec["+tbl+"]", P.Pos(call.Pos()), "executed on a statement prepared with tx.PrepareContext ("+tbl+")", "ExecContext on a statement that was not prepared on this transaction: "+o.Path(call.Call.Args[0]))
	}
}

// stmtQuery: v is result #0 of tx.PrepareContext(ctx, const) with tx from begin.
func stmtQuery(v ssa.Value, begin *ssa.Call) (string, bool) {
	if q, ok := stmtQueryValue(v, begin); ok {
		return q, true
	}
	// the statement kept in a field of a local struct that a private method fills
	// (`stmts.prepare(ctx, tx)`; `stmts.events.ExecContext(…)`): read by its access path
	return stmtQueryPath(an.PathOf(v), begin)
}

// stmtQueryPath: path is `call:(*sql.Tx).PrepareContext(<tx of begin>,ctx,const:"query")#0`.
func stmtQueryPath(path string, begin *ssa.Call) (string, bool) {
	prefix := "call:(*database/sql.Tx).PrepareContext(" + an.PathOf(begin) + "#0,"
	if !strings.HasPrefix(path, prefix) || !strings.HasSuffix(path, ")#0") {
		return "", false
	}
	i := strings.Index(path, ",const:\"")
	if i < 0 {
		return "", false
	}
	quoted := path[i+len(",const:") : len(path)-len(")#0")]
	q, err := strconv.Unquote(quoted)
	if err != nil {
		return "", false
	}
	return q, true
}

func stmtQueryValue(v ssa.Value, begin *ssa.Call) (string, bool) {
	e, ok := v.(*ssa.Extract)
	if !ok || e.Index != 0 {
		return "", false
	}
	prep, ok := e.Tuple.(*ssa.Call)
	if !ok || an.CalleeName(&prep.Call) != "(*database/sql.Tx).PrepareContext" {
		return "", false
	}
	tx := an.LoadedValue(prep.Call.Args[0])
	te, ok := tx.(*ssa.Extract)
	if !ok || te.Tuple != ssa.Value(begin) {
		return "", false
	}
	q, ok := an.ConstStr(prep.Call.Args[2])
	return q, ok
}

func sqlTable(q string) string {
	f := strings.Fields(q)
	for i := 0; i+2 < len(f); i++ {
		if strings.EqualFold(f[i], "insert") && strings.EqualFold(f[i+1], "into") {
			return f[i+2]
		}
	}
	return "?"
}

func runTx3(c *core.Ctx) {
	P := c.P
	fn, _ := txFunc(c)
	if fn == nil {
		c.NoAnchor(nil, "the function calling (*sql.DB).BeginTx")
		return
	}
	c.CountFuncs(1)
	// the error of a call is propagated: tested, and the failing edge returns a non-nil error
	// from the function the call sits in
	var propagatedRec func(host *ssa.Function, call *ssa.Call) bool
	propagated := func(host *ssa.Function, call *ssa.Call) bool {
		var errV ssa.Value
		if tup, isTuple := call.Type().(*types.Tuple); isTuple {
			if call.Referrers() != nil {
				for _, r := range *call.Referrers() {
					if e, ok := r.(*ssa.Extract); ok && e.Index == tup.Len()-1 {
						errV = e
					}
				}
			}
		} else {
			errV = call
		}
		if errV == nil {
			return false
		}
		good := false
		an.Instrs(host, func(in ssa.Instruction) {
			iff, ok := in.(*ssa.If)
			if !ok {
				return
			}
			cd := an.NormCond(an.Cond{V: iff.Cond, True: true})
			b, ok := cd.V.(*ssa.BinOp)
			if !ok || (b.Op != token.NEQ && b.Op != token.EQL) || !an.IsNilConst(b.Y) {
				return
			}
			if b.X != errV && blockLocal(b.X) != errV {
				return
			}
			failSucc := 0
			if (b.Op == token.NEQ) != cd.True {
				failSucc = 1
			}
			t := iff.Block().Succs[failSucc]
			if r, ok := an.LastInstr(t).(*ssa.Return); ok {
				rv := an.ReturnValues(r)
				if !an.IsNilConst(rv[len(rv)-1]) {
					good = true
				}
			}
		})
		// gathered: `_, err := stmt.Exec(…); errs.add("tags", err)` … `if err := errs.join(); err != nil { return … }`
		if !good && errV.Referrers() != nil {
			for _, r := range *errV.Referrers() {
				add, isCall := r.(*ssa.Call)
				if !isCall {
					continue
				}
				if join := collectorJoin(host, add, errV); join != nil && propagatedRec(host, join) {
					// no successful way out between the gathering and the test of what was gathered
					escapes := false
					for _, rb := range an.ReturnBlocks(host) {
						rv := an.ReturnValues(an.LastInstr(rb).(*ssa.Return))
						if len(rv) == 0 || !an.IsNilConst(rv[len(rv)-1]) {
							continue
						}
						if rb != join.Block() && an.Reachable(add.Block(), rb, nil, map[*ssa.BasicBlock]bool{join.Block(): true}) {
							escapes = true
						}
					}
					if !escapes {
						good = true
					}
				}
			}
		}
		// `return helper(...)`: the error is handed on as it is
		if !good {
			for _, rb := range an.ReturnBlocks(host) {
				rv := an.ReturnValues(an.LastInstr(rb).(*ssa.Return))
				if len(rv) > 0 && (rv[len(rv)-1] == errV || blockLocal(rv[len(rv)-1]) == errV) {
					good = true
				}
			}
		}
		return good
	}
	propagatedRec = propagated
	an.Region(fn, nil, func(o an.Occ) {
		call, ok := o.In.(*ssa.Call)
		if !ok {
			return
		}
		n := an.CalleeName(&call.Call)
		if !(isSQLMethod(n, "Tx") || isSQLMethod(n, "Stmt") || isSQLMethod(n, "DB") || n == "invoke:database/sql.Result.RowsAffected") {
			return
		}
		short := n[strings.LastIndex(n, ".")+1:]
		if short == "Close" {
			return
		}
		c.CountSites(1)
		construct := "error-of:" + short
		if short == "ExecContext" {
			if e, isEx := an.Unwrap(o.Resolve(call.Call.Args[0])).(*ssa.Extract); isEx {
				if prep, isCall := e.Tuple.(*ssa.Call); isCall && len(prep.Call.Args) >= 3 {
					if q, ok := an.ConstStr(prep.Call.Args[2]); ok {
						construct += "[" + sqlTable(q) + "]"
					}
				}
			}
		}
		if short == "PrepareContext" {
			if q, ok := an.ConstStr(call.Call.Args[2]); ok {
				construct += "[" + sqlTable(q) + "]"
			}
		}
		good := propagated(call.Parent(), call)
		// … and up through every helper level to the transaction function
		for i := len(o.Chain) - 1; i >= 0 && good; i-- {
			good = propagated(o.Chain[i].Parent(), o.Chain[i])
		}
		c.Check(good, nil, fname(c, fn), construct, P.Pos(call.Pos()), "error tested; the failing edge returns a non-nil error (so the deferred closure rolls back)", "the error of "+short+" is not tested with a failing edge that returns it: the batch continues and commits after a failed statement")
	})
}

// prepArg: for stmt.ExecContext, the query constant of the PrepareContext that made stmt.
func prepArg(exec *ssa.Call) ssa.Value {
	if e, ok := exec.Call.Args[0].(*ssa.Extract); ok {
		if prep, ok := e.Tuple.(*ssa.Call); ok && len(prep.Call.Args) >= 3 {
			return prep.Call.Args[2]
		}
	}
	return exec.Call.Args[0]
}

func runTx4(c *core.Ctx) {
	P := c.P
	fn, begin := txFunc(c)
	if fn == nil {
		c.NoAnchor(nil, "the function calling (*sql.DB).BeginTx")
		return
	}
	c.CountFuncs(1)
	var upsert *ssa.Call
	type ex struct {
		call *ssa.Call
		q    string
		at   *ssa.BasicBlock // the place in the transaction function (call site of a helper)
	}
	var others []ex
	for _, o := range an.RegionCalls(fn, nil, "(*database/sql.Stmt).ExecContext") {
		call := o.In.(*ssa.Call)
		q, ok := stmtQuery(o.Resolve(call.Call.Args[0]), begin)
		if !ok {
			continue
		}
		if strings.Contains(q, "do update") && len(o.Chain) == 0 {
			upsert = call
		} else {
			others = append(others, ex{call, q, o.Block()})
		}
	}
	if upsert == nil {
		c.Unknown(nil, fname(c, fn), "upsert", P.Pos(fn.Pos()), "no 'on conflict … do update' statement executed in the transaction")
		return
	}
	// affected = RowsAffected(res) with res = upsert #0
	var affected ssa.Value
	an.Instrs(fn, func(in ssa.Instruction) {
		call, ok := in.(*ssa.Call)
		if !ok || an.CalleeName(&call.Call) != "invoke:database/sql.Result.RowsAffected" {
			return
		}
		if e, ok := call.Call.Value.(*ssa.Extract); ok && e.Tuple == ssa.Value(upsert) && e.Index == 0 {
			if call.Referrers() != nil {
				for _, r := range *call.Referrers() {
					if e2, ok := r.(*ssa.Extract); ok && e2.Index == 0 {
						affected = e2
					}
				}
			}
		}
	})
	for _, o := range others {
		c.CountSites(1)
		tbl := sqlTable(o.q)
		good := false
		for _, g := range an.Guards(fn, o.at) {
			b, ok := g.V.(*ssa.BinOp)
			if !ok || affected == nil || b.X != affected {
				continue
			}
			if k, isK := an.ConstInt(b.Y); isK && k == 0 && ((b.Op == token.EQL && !g.True) || (b.Op == token.NEQ && g.True)) {
				good = true
			}
		}
		c.Check(good, nil, fname(c, fn), "guard["+tbl+"]", P.Pos(o.call.Pos()), "executed only when the upsert changed a row (RowsAffected != 0)", "insert into "+tbl+" is not guarded by the upsert's RowsAffected != 0: re-inserting a duplicate or an older version writes payload/tag/tombstone rows again (primary-key failure aborts the batch, or stale rows accumulate)")
		if strings.HasPrefix(tbl, "deleted_") {
			c.Check(strings.Contains(o.q, "do nothing"), nil, fname(c, fn), "idempotent["+tbl+"]", P.Pos(o.call.Pos()), "tombstone insert is 'on conflict … do nothing'", "tombstone insert into "+tbl+" lacks 'on conflict … do nothing': a second deletion request for the same target fails the whole batch")
		}
	}
	c.Check(len(others) == 4, nil, fname(c, fn), "statements", P.Pos(fn.Pos()), "4 dependent statements (payload, tags, 2 tombstone kinds) follow the upsert", fmt.Sprintf("%d dependent statements found, want 4 (payload, tags, deleted keys, deleted ids)", len(others)))
}

func runTx5(c *core.Ctx) {
	P := c.P
	var seedFn *ssa.Function
	for _, fn := range sqliteFuncs(c) {
		if len(callsNamed(fn, "math/rand.Uint32")) > 0 || len(callsNamed(fn, "math/rand/v2.Uint32")) > 0 {
			seedFn = fn
		}
	}
	if seedFn == nil {
		c.NoAnchor(nil, "the function creating the hash seed (calls rand.Uint32)")
		return
	}
	c.CountFuncs(1)
	// insert into xxhash_seed … with the value that is returned
	var ins *ssa.Call
	insSQL, inTx := "", false
	for _, ci := range calls(seedFn) {
		if call, ok := ci.(*ssa.Call); ok && (strings.HasSuffix(an.CalleeName(&call.Call), "sql.DB).ExecContext") || strings.HasSuffix(an.CalleeName(&call.Call), "sql.Tx).ExecContext")) {
			if q, ok := an.ConstStr(call.Call.Args[2]); ok && strings.Contains(q, "into xxhash_seed") && strings.Contains(q, "insert") {
				ins = call
				insSQL = strings.Join(strings.Fields(strings.ToLower(q)), " ")
				inTx = strings.HasSuffix(an.CalleeName(&call.Call), "sql.Tx).ExecContext")
			}
		}
	}
	// an insert that is conditional on the table being empty, decided by the statement itself
	onlyIfEmpty := strings.Contains(insSQL, "where not exists (select") && strings.Count(insSQL, "xxhash_seed") >= 2
	if ins == nil {
		c.Bad(nil, fname(c, seedFn), "persist-seed", P.Pos(seedFn.Pos()), "a fresh seed is generated but never inserted into xxhash_seed: after a restart a different seed is drawn and every stored event key stops matching (replacement and deletion silently stop working)")
	} else {
		elems, _ := an.VariadicElems(ins.Call.Args[3])
		bound := ""
		if len(elems) == 1 {
			bound = an.PathOf(elems[0])
		}
		// the stored seed read back: the destination of the Scan on the seed table
		loaded := ""
		var loadedVar *ssa.Alloc
		var readBack *ssa.Call // a Scan of the seed table that runs after the insert
		loadOf := func(v ssa.Value) *ssa.Alloc {
			if mi, isMI := v.(*ssa.MakeInterface); isMI {
				v = mi.X
			}
			if u, isU := v.(*ssa.UnOp); isU && u.Op == token.MUL {
				a, _ := u.X.(*ssa.Alloc)
				return a
			}
			return nil
		}
		for _, ci := range calls(seedFn) {
			if call, ok := ci.(*ssa.Call); ok && strings.HasSuffix(an.CalleeName(&call.Call), "sql.Row).Scan") {
				if dst, _ := an.VariadicElems(call.Call.Args[len(call.Call.Args)-1]); len(dst) == 1 {
					loaded = an.PathOf(dst[0])
					if mi, isMI := dst[0].(*ssa.MakeInterface); isMI {
						loadedVar, _ = mi.X.(*ssa.Alloc)
					} else {
						loadedVar, _ = dst[0].(*ssa.Alloc)
					}
					if an.InstrDominates(ins, call) && strings.Contains(an.PathOf(call.Call.Args[0]), "select seed from xxhash_seed") {
						readBack = call
					}
				}
			}
		}
		var rets []string
		okRet := true
		nSuccess := 0
		for _, rb := range an.ReturnBlocks(seedFn) {
			r := an.LastInstr(rb).(*ssa.Return)
			if an.IsNilConst(spilledResult(r, 1)) {
				nSuccess++
				p := an.PathOf(r.Results[0])
				rets = append(rets, p)
				afterInsert := ins.Block() == rb || ins.Block().Dominates(rb)
				switch {
				case afterInsert && p == bound:
					// a fresh seed: the one that was just persisted
				case !afterInsert && !an.Reachable(ins.Block(), rb, nil, nil) && loaded != "" && p == loaded:
					// no insert on this way out: the seed read from the table
				case loadedVar != nil && loadOf(r.Results[0]) == loadedVar && len(elems) == 1 && loadOf(elems[0]) == loadedVar:
					// one variable for both (read back, or drawn and persisted)
				case !afterInsert && !an.Reachable(ins.Block(), rb, nil, nil) && loadedVar != nil && loadOf(r.Results[0]) == loadedVar && holdsScanned(seedFn, loadedVar, rb, nil):
					// no insert on this way out: the variable the seed was scanned into (a named result)
				case !afterInsert && !an.Reachable(ins.Block(), rb, nil, nil) && seedFromLoader(seedFn, resolveRet(r.Results[0], nil), rb):
					// no insert on this way out: the stored seed, read by a loader helper that says whether
					// there was one (`seed, ok, err := LoadSeed(ctx, db); … if ok { return seed, nil }`)
				case !afterInsert && !an.Reachable(ins.Block(), rb, nil, nil) && seedFromLoader2(seedFn, resolveRet(r.Results[0], nil), rb) != nil:
					// no insert on this way out: the stored seed through a `(seed, err)` loader whose error is
					// the Scan's own (`seed, err := loadSeed(ctx, db); if err == nil { return seed, nil }`)
				case afterInsert && onlyIfEmpty && !inTx && func() bool {
					lc := seedFromLoader2(seedFn, resolveRet(r.Results[0], nil), rb)
					return lc != nil && an.InstrDominates(ins, lc)
				}():
					// insert-if-empty, then the stored seed read back through the same loader
					bound = an.PathOf(elems[0])
				case afterInsert && onlyIfEmpty && readBack != nil && loadedVar != nil && loadOf(r.Results[0]) == loadedVar && holdsScanned(seedFn, loadedVar, rb, readBack) && (!inTx || seedTxCommitted(seedFn, rb)):
					// insert-if-empty, then the stored seed read back (and, in a transaction, committed):
					// whoever inserted, the value returned is the one row of the table
					bound = an.PathOf(elems[0])
				default:
					okRet = false
				}
			}
		}
		// error of the insert aborts
		errTested := false
		if ins.Referrers() != nil {
			for _, r := range *ins.Referrers() {
				if e, ok := r.(*ssa.Extract); ok && e.Index == 1 && e.Referrers() != nil && len(*e.Referrers()) > 0 {
					errTested = true
				}
			}
		}
		if nSuccess == 0 {
			okRet = false
			rets = append(rets, "no successful return recognised")
		}
		c.Check(okRet && bound != "" && errTested, nil, fname(c, seedFn), "persist-seed", P.Pos(ins.Pos()), "the seed bound into 'insert into xxhash_seed' ("+bound+") is the value returned on success, and a failed insert is an error",
			fmt.Sprintf("seed persisted ← %s, returned ← %v, insert error tested: %v%s", bound, rets, errTested, seedReadBackNote(readBack != nil, onlyIfEmpty)))
	}
	// the handler's seed field is only ever set from that function
	n, bad := 0, []string{}
	for _, fn := range sqliteFuncs(c) {
		an.Instrs(fn, func(in ssa.Instruction) {
			st, ok := in.(*ssa.Store)
			if !ok {
				return
			}
			fa, ok := st.Addr.(*ssa.FieldAddr)
			// (the handler's own field, or that of a store object the handler keeps its database and seed in)
			if !ok || fieldNameOf(fa) != "seed" || !isUint32(st.Val.Type()) {
				return
			}
			n++
			fromSeedFn := false
			if ex, isEx := st.Val.(*ssa.Extract); isEx && ex.Index == 0 {
				if cl, isC := ex.Tuple.(*ssa.Call); isC && sameFunc(an.StaticCallee(&cl.Call), seedFn) {
					fromSeedFn = true
				}
			}
			if !fromSeedFn && !strings.HasPrefix(an.PathOf(st.Val), "call:"+an.FuncFullName(seedFn)+"(") {
				bad = append(bad, an.PathOf(st.Val)+" at "+P.Pos(st.Pos()))
			}
		})
	}
	c.Check(n >= 1 && len(bad) == 0, nil, "simpleSQLiteHandler", "seed-source", "-", fmt.Sprintf("%d assignment(s) of the handler's seed, all from %s", n, seedFn.Name()), "the handler's seed is assigned from "+strings.Join(bad, "; ")+": keys computed after a restart differ from the stored ones")
}

// holdsScanned: at the return in rb the variable v still holds what a Scan of the seed table
// put there: such a Scan (the given one, or any) dominates rb, and v is otherwise assigned
// only in other returning blocks (the spilled `return 0, err`) or by itself.
func holdsScanned(fn *ssa.Function, v *ssa.Alloc, rb *ssa.BasicBlock, scan *ssa.Call) bool {
	dominated := false
	for _, ci := range calls(fn) {
		call, ok := ci.(*ssa.Call)
		if !ok || !strings.HasSuffix(an.CalleeName(&call.Call), "sql.Row).Scan") || scan != nil && call != scan {
			continue
		}
		dst, _ := an.VariadicElems(call.Call.Args[len(call.Call.Args)-1])
		if len(dst) != 1 {
			continue
		}
		d := dst[0]
		if mi, isMI := d.(*ssa.MakeInterface); isMI {
			d = mi.X
		}
		if d == ssa.Value(v) && (call.Block() == rb || call.Block().Dominates(rb)) {
			dominated = true
		}
	}
	if !dominated {
		return false
	}
	ok := true
	an.Instrs(fn, func(in ssa.Instruction) {
		st, isSt := in.(*ssa.Store)
		if !isSt || st.Addr != ssa.Value(v) {
			return
		}
		if u, isLoad := st.Val.(*ssa.UnOp); isLoad && u.X == ssa.Value(v) {
			return
		}
		_, returns := an.LastInstr(st.Block()).(*ssa.Return)
		if st.Block() == rb || !returns {
			// the zero initialisation of a result variable in the entry block is harmless:
			// the dominating Scan comes after it
			if st.Block() == fn.Blocks[0] && !an.Reachable(rb, st.Block(), nil, nil) {
				if k, isK := st.Val.(*ssa.Const); isK && k.Value != nil && k.Value.String() == "0" {
					return
				}
			}
			ok = false
		}
	})
	return ok
}

func seedReadBackNote(readBack, onlyIfEmpty bool) string {
	if readBack && !onlyIfEmpty {
		return "; the stored seed is read back after an insert that is not conditional on the table being empty (`where not exists (select … from xxhash_seed)`): the seed column is its own primary key, so a conflict clause never fires, every open adds a row, and the row that is read back — hence every event key — can change across a restart"
	}
	return ""
}

// spilledResult: result i of a return; in a function with named results and a defer go/ssa
// returns loads of the result variables — then the value stored into that variable in the
// returning block (`return seed, nil` is `*err = nil; rundefers; return *seed, *err`).
func spilledResult(r *ssa.Return, i int) ssa.Value {
	v := r.Results[i]
	u, ok := v.(*ssa.UnOp)
	if !ok {
		return v
	}
	a, ok := u.X.(*ssa.Alloc)
	if !ok {
		return v
	}
	var last ssa.Value
	for _, in := range r.Block().Instrs {
		if st, ok := in.(*ssa.Store); ok && st.Addr == ssa.Value(a) {
			last = st.Val
		}
	}
	if last != nil {
		return last
	}
	return v
}

// seedTxCommitted: the success return in rb is reached only with the transaction committed:
// an explicit Commit whose error is tested dominates it, or a deferred closure commits and
// hands the commit error to the function's named error result.
func seedTxCommitted(fn *ssa.Function, rb *ssa.BasicBlock) bool {
	for _, g := range closureFamily(fn) {
		for _, ci := range calls(g) {
			call, ok := ci.(*ssa.Call)
			if !ok || !strings.HasSuffix(an.CalleeName(&call.Call), "sql.Tx).Commit") {
				continue
			}
			if g == fn {
				if (call.Block() == rb || call.Block().Dominates(rb)) && call.Referrers() != nil && len(*call.Referrers()) > 0 {
					return true
				}
				continue
			}
			// inside a deferred closure: its result must reach a captured variable (the named result)
			deferred := false
			an.Instrs(fn, func(in ssa.Instruction) {
				if d, ok := in.(*ssa.Defer); ok {
					if mc, ok := d.Call.Value.(*ssa.MakeClosure); ok && mc.Fn == ssa.Value(g) {
						deferred = true
					}
				}
			})
			if !deferred || call.Referrers() == nil {
				continue
			}
			for _, r := range *call.Referrers() {
				if st, ok := r.(*ssa.Store); ok {
					if _, isFree := st.Addr.(*ssa.FreeVar); isFree {
						return true
					}
				}
			}
		}
	}
	return false
}

func init() {
	reg(&core.RuleInfo{Name: "DDL-IDEMP", Props: []string{"C14"}, Engine: "TAB", Floor: 3, Confirmed: 3,
		Doc: "schema statements are re-runnable on reopen; replacement triggers clean dependent rows", Run: runDDLIdemp})
}

func runDDLIdemp(c *core.Ctx) {
	P := c.P
	mig := P.Func(P.Sqlite, "Migrate")
	if mig == nil {
		c.NoAnchor(nil, "sqlite.Migrate")
		return
	}
	c.CountFuncs(1)
	var ddls []string
	an.Instrs(mig, func(in ssa.Instruction) {
		if st, ok := in.(*ssa.Store); ok {
			if s, ok := an.ConstStr(st.Val); ok && strings.Contains(strings.ToLower(s), "create ") {
				ddls = append(ddls, s)
			}
		}
	})
	c.CountSites(len(ddls))
	var notIdem []string
	norm := func(s string) string { return strings.Join(strings.Fields(strings.ToLower(s)), " ") }
	for _, d := range ddls {
		n := norm(d)
		if !(strings.HasPrefix(n, "create table if not exists") || strings.HasPrefix(n, "create index if not exists") || strings.HasPrefix(n, "create unique index if not exists") || strings.HasPrefix(n, "create trigger if not exists")) {
			notIdem = append(notIdem, clip(n, 50))
		}
	}
	c.Check(len(ddls) >= 8 && len(notIdem) == 0, nil, fname(c, mig), "ddl/if-not-exists", P.Pos(mig.Pos()), fmt.Sprintf("all %d schema statements are 'create … if not exists': reopening keeps the data", len(ddls)),
		fmt.Sprintf("%d schema statements, not re-runnable: %v — reopening an existing database fails or recreates objects", len(ddls), notIdem))
	// triggers: after update on events → delete dependent payload / tag rows of the old key
	for _, tbl := range []string{"event_payloads", "event_tags"} {
		found := false
		for _, d := range ddls {
			n := norm(d)
			if strings.HasPrefix(n, "create trigger") && strings.Contains(n, "after update on events") && strings.Contains(n, "delete from "+tbl+" where event_key = old.event_key") {
				found = true
			}
		}
		c.Check(found, nil, fname(c, mig), "trigger["+tbl+"]", P.Pos(mig.Pos()), "replacing a version deletes its "+tbl+" rows (trigger after update on events)", "no trigger removes the "+tbl+" rows of a replaced version: the newer version's insert into "+tbl+" collides or stale rows answer queries")
	}
	// DDL errors abort
	okErr := false
	an.Region(mig, nil, func(o an.Occ) {
		if call, ok := o.In.(*ssa.Call); ok && strings.HasSuffix(an.CalleeName(&call.Call), "sql.DB).ExecContext") && call.Referrers() != nil {
			for _, r := range *call.Referrers() {
				if e, ok := r.(*ssa.Extract); ok && e.Index == 1 && e.Referrers() != nil && len(*e.Referrers()) > 0 {
					okErr = true
				}
			}
		}
	})
	c.Check(okErr, nil, fname(c, mig), "ddl/error", P.Pos(mig.Pos()), "a failing schema statement is reported", "errors of schema statements are ignored")
}

// TX-BATCH (who-may-call, closed world): "one batch = one transaction" needs
// the batch to arrive at the function that opens the transaction unsplit. At
// every call site on the way up, the batch argument is either the caller's own
// batch parameter passed on whole, or a batch that originates there (a local
// accumulation); a part of a batch parameter (a sub-slice, the element of a
// chunk iteration) means several transactions per batch: a failure in a later
// part leaves the earlier parts committed.
func runTxBatch(c *core.Ctx) {
	P := c.P
	tx, _ := txFunc(c)
	if tx == nil {
		c.NoAnchor(nil, "the function calling (*sql.DB).BeginTx")
		return
	}
	isBatch := func(t types.Type) bool {
		sl, ok := t.Underlying().(*types.Slice)
		return ok && strings.HasSuffix(sl.Elem().String(), "mocrelay.Event")
	}
	batchParam := func(fn *ssa.Function) int {
		for i, p := range fn.Params {
			if isBatch(p.Type()) {
				return i
			}
		}
		return -1
	}
	if batchParam(tx) < 0 {
		c.Unknown(nil, fname(c, tx), "batch-param", P.Pos(tx.Pos()), "the transaction function takes no batch of events")
		return
	}
	seen := map[*ssa.Function]bool{}
	var walk func(callee *ssa.Function, depth int)
	n := 0
	walk = func(callee *ssa.Function, depth int) {
		if seen[callee] || depth > 6 {
			return
		}
		seen[callee] = true
		bp := batchParam(callee)
		for _, g := range sqliteFuncs(c) {
			for _, call := range callsTo(g, callee) {
				n++
				c.CountSites(1)
				arg := call.Call.Args[bp]
				ap := an.PathOf(arg)
				// is the argument a part of a batch parameter of g or of a function g is nested in?
				encl := g
				partOf := ""
				for encl != nil {
					if i := batchParam(encl); i >= 0 {
						root := "p:" + encl.Params[i].Name()
						whole := encl == g && ap == root
						if whole {
							partOf = ""
							break
						}
						if encl != g || strings.HasPrefix(ap, root) {
							partOf = fname(c, encl) + "'s batch " + root
						}
					}
					encl = encl.Parent()
				}
				c.Check(partOf == "", nil, fname(c, g), "batch→"+callee.Name(), P.Pos(call.Pos()), "the batch is handed on whole ("+clip(ap, 40)+")",
					"the transaction function receives a part of "+partOf+" ("+clip(ap, 40)+"): one batch is written in several transactions, so a failure part-way leaves the earlier parts committed")
				if i := batchParam(g); i >= 0 && ap == "p:"+g.Params[i].Name() {
					walk(g, depth+1)
				}
			}
		}
	}
	walk(tx, 0)
	if n == 0 {
		c.NoAnchor(nil, "callers of the transaction function")
	}
}

// BATCH-ALL (closed world): building the rows of a batch visits every event;
// an event contributes no rows only if it has no storage key (ephemeral /
// d-less addressable) or cannot be encoded. Any other reason to skip — e.g.
// "its key was already seen in this batch" — silently drops a version that the
// upsert was meant to arbitrate.
func runBatchAll(c *core.Ctx) {
	P := c.P
	var fn *ssa.Function
	var emit *ssa.BasicBlock
	for _, f := range sqliteFuncs(c) {
		an.Instrs(f, func(in ssa.Instruction) {
			call, ok := in.(*ssa.Call)
			if !ok {
				return
			}
			if b, isB := call.Call.Value.(*ssa.Builtin); isB && b.Name() == "append" && an.InLoop(call.Block()) {
				if sl, ok := call.Type().Underlying().(*types.Slice); ok && typeNameOf(sl.Elem()) == "insertEventsParams" {
					fn, emit = f, call.Block()
				}
			}
		})
	}
	if fn == nil {
		c.NoAnchor(nil, "the loop appending insertEventsParams per event")
		return
	}
	c.CountFuncs(1)
	h := an.LoopHeaderOf(emit)
	paths, ok := an.IterPaths(h, func(b *ssa.BasicBlock) bool { _, r := an.LastInstr(b).(*ssa.Return); return r }, 1024)
	if !ok {
		c.Unknown(nil, fname(c, fn), "skips", P.Pos(fn.Pos()), "too many paths")
		return
	}
	loop := an.LoopBlocks(h)
	var bad []string
	nskip := 0
	for _, p := range paths {
		if len(p) < 2 || !loop[p[1]] || p[len(p)-1] != h || p.Contains(emit) {
			continue
		}
		nskip++
		reason := false
		var why []string
		for _, cd := range p[:len(p)].Conds() {
			cd = an.NormCond(cd)
			cp := an.PathOf(cd.V)
			why = append(why, fmt.Sprintf("%s=%v", clip(cp, 60), cd.True))
			// no storage key
			if strings.HasPrefix(cp, "call:") && strings.Contains(cp, "getEventKey(") && strings.HasSuffix(cp, "#1") && !cd.True {
				reason = true
			}
			// behind a switch that is off unless asked for: `if cutoff != 0 { … continue }` on a parameter for
			// which the plain entry point passes the constant 0 (`insertEvents` delegating to `insertEventsAt(…, 0)`)
			if b, isBin := cd.V.(*ssa.BinOp); isBin && (b.Op == token.NEQ) == cd.True && (b.Op == token.NEQ || b.Op == token.EQL) {
				if k, isK := an.ConstInt(b.Y); isK && k == 0 {
					if par, isPar := b.X.(*ssa.Parameter); isPar && defaultOffParam(c, par, 0) {
						reason = true
					}
				}
			}
			// the element is nil: there is no event to store (`if event == nil { continue }`)
			if b, isBin := cd.V.(*ssa.BinOp); isBin && an.IsNilConst(b.Y) && (b.Op == token.EQL) == cd.True && strings.HasSuffix(cp, "[*] == const:nil)") && typeNameOf(b.X.Type()) == "Event" {
				reason = true
			}
			// no storage key, told as an error with a reason (`case errors.Is(err, errEphemeralEvent): continue`,
			// err being what the key function returned)
			if ic, isC := cd.V.(*ssa.Call); isC && cd.True && an.CalleeName(&ic.Call) == "errors.Is" && len(ic.Call.Args) == 2 {
				if ex, isEx := ic.Call.Args[0].(*ssa.Extract); isEx {
					if kc, isKC := ex.Tuple.(*ssa.Call); isKC && strings.Contains(an.CalleeName(&kc.Call), "getEventKey") {
						reason = true
					}
				}
			}
			// a builder failed
			if b, isBin := cd.V.(*ssa.BinOp); isBin && an.IsNilConst(b.Y) && (b.Op == token.NEQ) == cd.True {
				if ex, isEx := b.X.(*ssa.Extract); isEx {
					if _, isCall := ex.Tuple.(*ssa.Call); isCall && types.Identical(ex.Type(), types.Universe.Lookup("error").Type()) {
						reason = true
					}
				}
			}
		}
		if !reason {
			bad = append(bad, strings.Join(why, " ∧ "))
		}
	}
	// … and a row builder fails only over the event's own fields: an error it hands out is the error of
	// one call made once per event (a failed decode of the id, the pubkey, the signature; a failed
	// marshal), never something gathered or met while walking the event's tags — one malformed
	// reference would then leave the whole event (a deletion request and its other references) out
	builders := map[*ssa.Function]bool{}
	for _, p := range paths {
		if len(p) < 2 || !loop[p[1]] || p[len(p)-1] != h || p.Contains(emit) {
			continue
		}
		for _, cd := range p.Conds() {
			cd = an.NormCond(cd)
			b, isBin := cd.V.(*ssa.BinOp)
			if !isBin || !an.IsNilConst(b.Y) || (b.Op == token.NEQ) != cd.True {
				continue
			}
			if ex, isEx := b.X.(*ssa.Extract); isEx {
				if call, isCall := ex.Tuple.(*ssa.Call); isCall && types.Identical(ex.Type(), types.Universe.Lookup("error").Type()) {
					if g := an.StaticCallee(&call.Call); g != nil && P.InModule(g) && len(g.Blocks) > 0 {
						builders[g] = true
					}
				}
			}
		}
	}
	var gs []*ssa.Function
	for g := range builders {
		gs = append(gs, g)
	}
	sort.Slice(gs, func(i, j int) bool { return gs[i].Pos() < gs[j].Pos() })
	for _, g := range gs {
		c.CountFuncs(1)
		var probs []string
		for _, rb := range an.ReturnBlocks(g) {
			rvs := an.ReturnValues(an.LastInstr(rb).(*ssa.Return))
			if len(rvs) == 0 {
				continue
			}
			e := rvs[len(rvs)-1]
			if !types.Identical(e.Type(), types.Universe.Lookup("error").Type()) {
				continue
			}
			if why := perEventError(g, e, 0); why != "" {
				probs = append(probs, why+" at "+P.Pos(an.LastInstr(rb).Pos()))
			}
		}
		var bprops []string
		if strings.Contains(an.ShortName(g), "Deleted") {
			// (the builders of the tombstone rows: a deletion request left out is C05's concern too)
			bprops = []string{"C05", "C06", "C14"}
		}
		c.Check(len(probs) == 0, bprops, fname(c, g), "builder-error", P.Pos(g.Pos()), "the builder fails only with the error of a step made once per event",
			"a row builder whose failure leaves the event out of the batch can fail over a single tag: "+strings.Join(uniq(probs), "; ")+" — one malformed reference and the whole event (a deletion request with its other references) is not stored")
	}
	c.CountPaths(len(paths))
	c.Check(len(bad) == 0 && nskip > 0, nil, fname(c, fn), "skips", P.Pos(fn.Pos()), fmt.Sprintf("all %d ways an event contributes no rows: it has no storage key, or a row builder failed", nskip),
		"an event of the batch is skipped for another reason ("+strings.Join(bad, " | ")+"): a later version of an address in the same batch never reaches the upsert")
}

// tx1Explicit: the transaction protocol spelled with an explicit Commit:
//
//	tx, err := db.BeginTx(…); defer tx.Rollback()   // or: defer func() { if err != nil { tx.Rollback() } }()
//	…
//	return tx.Commit()                              // or: err = tx.Commit(); return err
//
// ok=false when the function has no deferred Rollback of this transaction or
// no explicit Commit (the idiom does not apply).
func tx1Explicit(c *core.Ctx, fn *ssa.Function, begin *ssa.Call, slot *ssa.Alloc) (pos token.Pos, problems []string, ok bool) {
	P := c.P
	isTx := func(v ssa.Value) bool {
		e, isE := an.LoadedValue(resolveFree(v)).(*ssa.Extract)
		return isE && e.Tuple == ssa.Value(begin) && e.Index == 0
	}
	var d *ssa.Defer
	conditional := false // the deferred Rollback runs only when the named result is non-nil
	an.Instrs(fn, func(in ssa.Instruction) {
		df, isD := in.(*ssa.Defer)
		if !isD || d != nil {
			return
		}
		if an.CalleeName(&df.Call) == "(*database/sql.Tx).Rollback" && isTx(df.Call.Args[0]) {
			d = df
			return
		}
		mc, isMC := df.Call.Value.(*ssa.MakeClosure)
		if !isMC {
			return
		}
		cl := mc.Fn.(*ssa.Function)
		for _, call := range callsNamed(cl, "(*database/sql.Tx).Rollback") {
			if !isTx(call.Call.Args[0]) {
				continue
			}
			gs := an.Guards(cl, call.Block())
			switch {
			case len(gs) == 0:
				d = df
			case len(gs) == 1 && slot != nil:
				if b, isB := gs[0].V.(*ssa.BinOp); isB && an.IsNilConst(b.Y) && (b.Op == token.NEQ) == gs[0].True {
					if u, isU := b.X.(*ssa.UnOp); isU && an.ResolveAlloc(u.X) == slot {
						d, conditional = df, true
					}
				}
			}
		}
	})
	var commits []*ssa.Call
	for _, call := range callsNamed(fn, "(*database/sql.Tx).Commit") {
		if isTx(call.Call.Args[0]) {
			commits = append(commits, call)
		}
	}
	if d == nil || len(commits) == 0 {
		return token.NoPos, nil, false
	}
	pos, ok = d.Pos(), true
	if !an.InstrDominates(begin, d) {
		problems = append(problems, "the defer is not dominated by BeginTx")
	}
	an.Instrs(fn, func(in ssa.Instruction) {
		ci, isCI := in.(ssa.CallInstruction)
		if !isCI || in == ssa.Instruction(d) {
			return
		}
		n := an.CalleeName(ci.Common())
		if (isSQLMethod(n, "Tx") || isSQLMethod(n, "Stmt")) && !an.InstrDominates(d, in) {
			problems = append(problems, n+" at "+P.Pos(in.Pos())+" runs before the defer is registered")
		}
	})
	if len(commits) != 1 {
		problems = append(problems, fmt.Sprintf("%d Commit calls", len(commits)))
		return
	}
	commit := commits[0]
	if an.InLoop(commit.Block()) {
		problems = append(problems, "Commit inside a loop")
	}
	nonNil := func(rb *ssa.BasicBlock, v ssa.Value) bool {
		v = blockLocal(v)
		if mi, isMI := v.(*ssa.MakeInterface); isMI {
			v = mi.X
		}
		if call, isCall := v.(*ssa.Call); isCall {
			switch an.CalleeName(&call.Call) {
			case "fmt.Errorf", "errors.New":
				return true
			}
		}
		for _, g := range an.Guards(fn, rb) {
			if b, isB := g.V.(*ssa.BinOp); isB && an.IsNilConst(b.Y) && (b.Op == token.NEQ) == g.True && (b.X == v || blockLocal(b.X) == v) {
				return true
			}
		}
		return false
	}
	for _, rb := range an.ReturnBlocks(fn) {
		if !(d.Block() == rb || d.Block().Dominates(rb)) {
			continue // before the transaction exists
		}
		rv := an.ReturnValues(an.LastInstr(rb).(*ssa.Return))
		last := rv[len(rv)-1]
		afterCommit := commit.Block() == rb || commit.Block().Dominates(rb)
		mayFollowCommit := afterCommit || an.Reachable(commit.Block(), rb, nil, nil)
		switch {
		case afterCommit:
			// the result is Commit's error, or nil behind "Commit's error == nil", or a non-nil wrap of it
			v := blockLocal(last)
			if v == ssa.Value(commit) {
				continue
			}
			if an.IsNilConst(v) {
				okNil := false
				for _, g := range an.Guards(fn, rb) {
					if b, isB := g.V.(*ssa.BinOp); isB && an.IsNilConst(b.Y) && (b.Op == token.EQL) == g.True && (b.X == ssa.Value(commit) || blockLocal(b.X) == ssa.Value(commit)) {
						okNil = true
					}
				}
				if okNil {
					continue
				}
				problems = append(problems, "success is reported at "+P.Pos(an.LastInstr(rb).Pos())+" without Commit's error having been tested")
				continue
			}
			if nonNil(rb, last) {
				continue
			}
			problems = append(problems, "the result after Commit at "+P.Pos(an.LastInstr(rb).Pos())+" is not Commit's error")
		case mayFollowCommit:
			problems = append(problems, "a return at "+P.Pos(an.LastInstr(rb).Pos())+" is reached both with and without the Commit")
		default:
			// not committed: the batch must be reported as failed (and, with a conditional rollback, that is what triggers it)
			if !nonNil(rb, last) {
				what := "reports success"
				if conditional {
					what = "leaves the named result nil, so the deferred Rollback does not run"
				}
				problems = append(problems, "a way out without Commit at "+P.Pos(an.LastInstr(rb).Pos())+" "+what)
			}
		}
	}
	return
}

func isUint32(t types.Type) bool {
	b, ok := t.Underlying().(*types.Basic)
	return ok && b.Kind() == types.Uint32
}

// defaultOffParam: some call site of the parameter's function in the module passes the constant 0 for
// it — directly, or by handing on a parameter of its own for which that holds (three levels).
func defaultOffParam(c *core.Ctx, par *ssa.Parameter, depth int) bool {
	if depth > 3 {
		return false
	}
	fn := par.Parent()
	idx := -1
	for i, q := range fn.Params {
		if q == par {
			idx = i
		}
	}
	if idx < 0 {
		return false
	}
	for _, caller := range callerIndex(c)[fn] {
		for _, call := range callsTo(caller, fn) {
			if idx >= len(call.Call.Args) {
				continue
			}
			a := call.Call.Args[idx]
			if k, ok := an.ConstInt(a); ok && k == 0 {
				return true
			}
			if p2, ok := a.(*ssa.Parameter); ok && defaultOffParam(c, p2, depth+1) {
				return true
			}
		}
	}
	return false
}

// seedFromLoader: v, returned from block rb of fn, is result #0 of a loader helper (seed, ok, err) —
// and rb is reached only with ok true and err nil — whose every (·, true, nil) return hands out the
// variable the seed table's row was scanned into, on paths where that Scan succeeded. Presence is
// told by the bool, never by the seed's value (0 is a seed like any other).
// seedFromLoader2: v is result #0 of a call (in fn) of a private helper `(seed, err)` that is nothing
// but `QueryRow("select seed from xxhash_seed").Scan(&seed); return seed, err` — the error handed out
// is the Scan's own — and rb is reached only with that error nil. Returns the call.
func seedFromLoader2(fn *ssa.Function, v ssa.Value, rb *ssa.BasicBlock) *ssa.Call {
	ex, ok := v.(*ssa.Extract)
	if !ok || ex.Index != 0 {
		return nil
	}
	call, ok := ex.Tuple.(*ssa.Call)
	if !ok {
		return nil
	}
	g := an.StaticCallee(&call.Call)
	if !an.PrivateHelper(g) || g.Signature.Results().Len() != 2 || len(g.Blocks) != 1 {
		return nil
	}
	errNil := false
	for _, gd := range an.Guards(fn, rb) {
		gd = an.NormCond(gd)
		if b, isB := gd.V.(*ssa.BinOp); isB && an.IsNilConst(b.Y) && (b.Op == token.EQL) == gd.True {
			if e, isE := b.X.(*ssa.Extract); isE && e.Tuple == ssa.Value(call) && e.Index == 1 {
				errNil = true
			}
		}
	}
	if !errNil {
		return nil
	}
	var scan *ssa.Call
	for _, ci := range calls(g) {
		if c2, isC := ci.(*ssa.Call); isC && strings.HasSuffix(an.CalleeName(&c2.Call), "sql.Row).Scan") && strings.Contains(an.PathOf(c2.Call.Args[0]), "select seed from xxhash_seed") {
			scan = c2
		}
	}
	if scan == nil {
		return nil
	}
	dst, _ := an.VariadicElems(scan.Call.Args[len(scan.Call.Args)-1])
	if len(dst) != 1 {
		return nil
	}
	d := dst[0]
	if mi, isMI := d.(*ssa.MakeInterface); isMI {
		d = mi.X
	}
	loaded, _ := d.(*ssa.Alloc)
	ret, isRet := an.LastInstr(g.Blocks[0]).(*ssa.Return)
	if loaded == nil || !isRet || len(ret.Results) != 2 {
		return nil
	}
	ld, isLd := ret.Results[0].(*ssa.UnOp)
	if !isLd || ld.Op != token.MUL || ld.X != ssa.Value(loaded) || ret.Results[1] != ssa.Value(scan) {
		return nil
	}
	return call
}

func seedFromLoader(fn *ssa.Function, v ssa.Value, rb *ssa.BasicBlock) bool {
	ex, ok := v.(*ssa.Extract)
	if !ok || ex.Index != 0 {
		return false
	}
	call, ok := ex.Tuple.(*ssa.Call)
	if !ok {
		return false
	}
	g := an.StaticCallee(&call.Call)
	if !an.PrivateHelper(g) || g.Signature.Results().Len() != 3 {
		return false
	}
	// reached only with ok == true and err == nil
	okTrue, errNil := false, false
	for _, gd := range an.Guards(fn, rb) {
		gd = an.NormCond(gd)
		if e, isE := gd.V.(*ssa.Extract); isE && e.Tuple == ssa.Value(call) && e.Index == 1 && gd.True {
			okTrue = true
		}
		if b, isB := gd.V.(*ssa.BinOp); isB && an.IsNilConst(b.Y) && (b.Op == token.EQL) == gd.True {
			if e, isE := b.X.(*ssa.Extract); isE && e.Tuple == ssa.Value(call) && e.Index == 2 {
				errNil = true
			}
		}
	}
	if !okTrue || !errNil {
		return false
	}
	// the loader
	var scan *ssa.Call
	for _, ci := range calls(g) {
		if c2, isC := ci.(*ssa.Call); isC && strings.HasSuffix(an.CalleeName(&c2.Call), "sql.Row).Scan") && strings.Contains(an.PathOf(c2.Call.Args[0]), "select seed from xxhash_seed") {
			scan = c2
		}
	}
	if scan == nil {
		return false
	}
	dst, _ := an.VariadicElems(scan.Call.Args[len(scan.Call.Args)-1])
	if len(dst) != 1 {
		return false
	}
	d := dst[0]
	if mi, isMI := d.(*ssa.MakeInterface); isMI {
		d = mi.X
	}
	loaded, _ := d.(*ssa.Alloc)
	if loaded == nil {
		return false
	}
	n := 0
	for _, grb := range an.ReturnBlocks(g) {
		ps, okP := an.PathsTo(g, grb, 256)
		if !okP {
			return false
		}
		ret := an.LastInstr(grb).(*ssa.Return)
		for _, p := range ps {
			if !an.Feasible(p) {
				continue
			}
			rvs := an.ReturnValues(ret)
			present := resolveRet(rvs[1], p)
			k, isK := present.(*ssa.Const)
			if !isK || k.Value == nil {
				return false
			}
			if k.Value.String() != "true" {
				continue
			}
			n++
			// (seed variable, true, nil) with the Scan's error found nil on the way
			if !an.IsNilConst(resolveRet(rvs[2], p)) {
				return false
			}
			// (a named result is spilled and reloaded on the way out: any stage of that is a read of the variable)
			fromVar := false
			for v0, i := rvs[0], 0; i < 4; i++ {
				if u, isU := v0.(*ssa.UnOp); isU && u.Op == token.MUL && u.X == ssa.Value(loaded) {
					fromVar = true
					break
				}
				nv := resolveRet(v0, p)
				if nv == v0 {
					break
				}
				v0 = nv
			}
			if !fromVar {
				return false
			}
			scanOK := false
			for _, cd := range p.Conds() {
				cd = an.NormCond(cd)
				if b, isB := cd.V.(*ssa.BinOp); isB && an.IsNilConst(b.Y) && (b.Op == token.EQL) == cd.True && resolveRet(b.X, p) == ssa.Value(scan) {
					scanOK = true
				}
			}
			if !scanOK {
				return false
			}
		}
	}
	return n > 0
}

// perEventError: "" when the error value e of builder g is nil or made (possibly wrapped) from the
// error results of calls executed at most once per call of g; otherwise what it is made from.
func perEventError(g *ssa.Function, e ssa.Value, depth int) string {
	if depth > 6 {
		return "an error of unknown origin"
	}
	switch x := e.(type) {
	case *ssa.Const:
		return ""
	case *ssa.Phi:
		for _, ed := range x.Edges {
			if why := perEventError(g, ed, depth+1); why != "" {
				return why
			}
		}
		return ""
	case *ssa.Extract:
		if call, ok := x.Tuple.(*ssa.Call); ok {
			if an.InLoop(call.Block()) {
				return "the error of " + an.CalleeName(&call.Call) + ", called once per tag"
			}
			return ""
		}
	case *ssa.MakeInterface:
		return ""
	case *ssa.UnOp:
		if x.Op == token.MUL {
			// one of the package's error variables, handed out outside the tag loop
			if _, isG := x.X.(*ssa.Global); isG {
				if an.InLoop(x.Block()) {
					return "a sentinel error returned from inside the tag loop"
				}
				return ""
			}
			if a := an.ResolveAlloc(x.X); a != nil {
				for _, st := range an.StoresTo(a) {
					if why := perEventError(g, st.Val, depth+1); why != "" {
						return why
					}
				}
				return ""
			}
		}
	case *ssa.Call:
		name := an.CalleeName(&x.Call)
		switch name {
		case "fmt.Errorf", "errors.Join":
			args := x.Call.Args
			if name == "fmt.Errorf" {
				args = args[1:]
			}
			for _, a := range args {
				elems, ok := an.VariadicElems(a)
				if !ok {
					return "errors gathered in " + clip(an.PathOf(a), 40)
				}
				for _, el := range elems {
					if mi, isMI := el.(*ssa.MakeInterface); isMI {
						el = mi.X
					}
					if ci, isCI := el.(*ssa.ChangeInterface); isCI {
						el = ci.X
					}
					if !types.Identical(el.Type(), types.Universe.Lookup("error").Type()) {
						continue
					}
					if why := perEventError(g, el, depth+1); why != "" {
						return why
					}
				}
			}
			return ""
		case "errors.New":
			if an.InLoop(x.Block()) {
				return "an error made inside the tag loop"
			}
			return ""
		}
		if an.InLoop(x.Block()) {
			return "the error of " + name + ", called once per tag"
		}
		return ""
	}
	return "an error of unknown origin (" + clip(an.PathOf(e), 40) + ")"
}

// collectorJoin: add is `c.add(…, errV, …)` on a local collector value c — a method with a
// POINTER receiver that, whenever the error it is handed is non-nil, appends to a slice field of
// the receiver — and the result is the later call `c.join()` of a pointer-receiver method of the
// same object that returns errors.Join of that field. nil otherwise (a value receiver appends to
// a copy: what was gathered is lost).
func collectorJoin(host *ssa.Function, add *ssa.Call, errV ssa.Value) *ssa.Call {
	m := an.StaticCallee(&add.Call)
	if m == nil || !an.InModuleFn(m) || m.Signature.Recv() == nil || len(add.Call.Args) < 2 {
		return nil
	}
	if _, isPtr := m.Signature.Recv().Type().(*types.Pointer); !isPtr {
		return nil
	}
	obj := an.ResolveAlloc(add.Call.Args[0])
	if obj == nil {
		return nil
	}
	pi := -1
	for i, a := range add.Call.Args {
		if a == errV {
			pi = i
		}
	}
	if pi < 1 || pi >= len(m.Params) {
		return nil
	}
	// the method's store into a field of its receiver, of append(that field, …)
	field := -1
	var store *ssa.Store
	an.Instrs(m, func(in ssa.Instruction) {
		st, ok := in.(*ssa.Store)
		if !ok {
			return
		}
		fa, ok := st.Addr.(*ssa.FieldAddr)
		if !ok || fa.X != ssa.Value(m.Params[0]) {
			return
		}
		if strings.HasPrefix(an.PathOf(st.Val), "append(recv."+fieldNameOf(fa)) {
			field, store = fa.Field, st
		}
	})
	if store == nil {
		return nil
	}
	// … on every way through the method on which the error is non-nil
	paths, ok := an.PathsTo(m, an.ReturnBlocks(m)[0], 256)
	if !ok || len(an.ReturnBlocks(m)) != 1 {
		// several returns: each path that does not pass the store must have found the error nil
		paths = nil
		for _, rb := range an.ReturnBlocks(m) {
			ps, okp := an.PathsTo(m, rb, 256)
			if !okp {
				return nil
			}
			paths = append(paths, ps...)
		}
	}
	for _, p := range paths {
		if !an.Feasible(p) || p.Contains(store.Block()) {
			continue
		}
		foundNil := false
		for _, cd := range p.Conds() {
			cd = an.NormCond(cd)
			if bo, isB := cd.V.(*ssa.BinOp); isB && an.IsNilConst(bo.Y) && bo.X == ssa.Value(m.Params[pi]) && (bo.Op == token.EQL) == cd.True && (bo.Op == token.EQL || bo.Op == token.NEQ) {
				foundNil = true
			}
		}
		if !foundNil {
			return nil
		}
	}
	// the joining call on the same object
	var join *ssa.Call
	an.Instrs(host, func(in ssa.Instruction) {
		call, ok := in.(*ssa.Call)
		if !ok || call == add || len(call.Call.Args) != 1 || an.ResolveAlloc(call.Call.Args[0]) != obj {
			return
		}
		j := an.StaticCallee(&call.Call)
		if j == nil || !an.InModuleFn(j) || j.Signature.Recv() == nil || !types.Identical(call.Type(), types.Universe.Lookup("error").Type()) {
			return
		}
		if _, isPtr := j.Signature.Recv().Type().(*types.Pointer); !isPtr {
			return
		}
		okJ := len(an.ReturnBlocks(j)) > 0
		for _, rb := range an.ReturnBlocks(j) {
			rv := an.ReturnValues(an.LastInstr(rb).(*ssa.Return))
			jc, isC := rv[0].(*ssa.Call)
			if !isC || an.CalleeName(&jc.Call) != "errors.Join" || len(jc.Call.Args) != 1 {
				okJ = false
				continue
			}
			u, isU := jc.Call.Args[0].(*ssa.UnOp)
			if !isU {
				okJ = false
				continue
			}
			fa, isFA := u.X.(*ssa.FieldAddr)
			if !isFA || fa.X != ssa.Value(j.Params[0]) || fa.Field != field {
				okJ = false
			}
		}
		if okJ && an.Reachable(add.Block(), call.Block(), nil, nil) {
			join = call
		}
	})
	return join
}
