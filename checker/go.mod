module mocverif

go 1.23

require golang.org/x/tools v0.29.0
