package rules

import (
	"fmt"
	"go/token"
	"go/types"
	"math"
	"sort"
	"strings"

	"golang.org/x/tools/go/ssa"

	"mocverif/internal/an"
	"mocverif/internal/core"
)

func init() {
	reg(&core.RuleInfo{Name: "FLT-EXH", Props: []string{"C02", "C03", "C06"}, Engine: "PROV", Floor: 3, Confirmed: 4,
		Doc: "every ReqFilter field is consumed by each consumer (matcher, index, SQL builder)", Run: runFltExh})
	reg(&core.RuleInfo{Name: "FLT-NIL", Props: []string{"C02", "C03", "C06", "C16"}, Engine: "TAB", Floor: 12, Confirmed: 20,
		Doc: "presence of a list condition is its nil-ness, never its length", Run: runFltNil})
	reg(&core.RuleInfo{Name: "FLT-BND", Props: []string{"C02", "C06"}, Engine: "INT", Floor: 4, Confirmed: 4,
		Doc: "since/until are inclusive bounds", Run: runFltBnd})
	reg(&core.RuleInfo{Name: "LIM-DONE", Props: []string{"C02"}, Engine: "INT", Floor: 3, Confirmed: 3,
		Doc: "Done ≡ limit present ∧ cnt ≥ limit; cnt advances by one per match only", Run: runLimDone})
	reg(&core.RuleInfo{Name: "OR-NOSC", Props: []string{"C02"}, Engine: "CFG", Floor: 1, Confirmed: 1,
		Doc: "the OR over filters calls every member's counting matcher on every iteration", Run: runOrNosc})
}

var filterFields = []string{"IDs", "Authors", "Kinds", "Tags", "Since", "Until", "Limit"}
var listFields = []string{"IDs", "Authors", "Kinds", "Tags"}

// fieldsReadOf: fields of a *ReqFilter-typed base read in the given functions.
func reqFilterFieldsRead(fns []*ssa.Function) map[string]bool {
	out := map[string]bool{}
	for _, fn := range fns {
		an.Instrs(fn, func(in ssa.Instruction) {
			fa, ok := in.(*ssa.FieldAddr)
			if !ok {
				return
			}
			if n, s := structOf(fa); n != nil && n.Obj().Name() == "ReqFilter" {
				// reads only: a FieldAddr that is only stored to (building a filter literal) does not count
				isRead := false
				if fa.Referrers() != nil {
					for _, r := range *fa.Referrers() {
						if u, ok := r.(*ssa.UnOp); ok && u.Op == token.MUL {
							isRead = true
						}
					}
				}
				if isRead && !freshBase(fa) {
					out[an.FieldNameHook(s, fa.Field)] = true
				}
			}
		})
	}
	return out
}

func missing(got map[string]bool, want []string) []string {
	var m []string
	for _, w := range want {
		if !got[w] {
			m = append(m, w)
		}
	}
	return m
}

func setList(m map[string]bool) string {
	var ks []string
	for k := range m {
		ks = append(ks, k)
	}
	sort.Strings(ks)
	return strings.Join(ks, ",")
}

// setBuilderKeys: the call's static callee (a module function) returns a map
// it made itself; the access paths of every key it stores into that map,
// written in the caller's terms (`newSet(filter.IDs)` ↦ ["p:filter.IDs[*]"]).
func setBuilderKeys(c *core.Ctx, call *ssa.Call) []string {
	g := an.StaticCallee(&call.Call)
	if g == nil || !c.P.InModule(g) || len(g.Blocks) == 0 {
		return nil
	}
	made := map[ssa.Value]bool{}
	var keys []string
	for _, rb := range an.ReturnBlocks(g) {
		for _, rv := range an.ReturnValues(an.LastInstr(rb).(*ssa.Return)) {
			for _, src := range an.Sources(g, rv) {
				if _, isMake := src.(*ssa.MakeMap); isMake {
					made[src] = true
				}
				// the set is built one level further down: `return newSet(keys)`
				if inner, isCall := src.(*ssa.Call); isCall && inner != call {
					for _, k := range setBuilderKeys(c, inner) {
						// k is in g's terms: rewrite g's parameters into the caller's arguments
						for i, par := range g.Params {
							root := "p:" + par.Name()
							if i == 0 && g.Signature.Recv() != nil {
								root = "recv"
							}
							if i < len(call.Call.Args) && strings.HasPrefix(k, root) {
								k = an.PathOf(call.Call.Args[i]) + strings.TrimPrefix(k, root)
							}
						}
						keys = append(keys, k)
					}
				}
			}
		}
	}
	an.Instrs(g, func(in ssa.Instruction) {
		if mu, ok := in.(*ssa.MapUpdate); ok {
			for _, src := range an.Sources(g, mu.Map) {
				if made[src] {
					keys = append(keys, an.PathOfIn(mu.Key, &call.Call))
				}
			}
		}
	})
	return keys
}

func runFltExh(c *core.Ctx) {
	P := c.P
	// (1) matcher: constructor reads all 7; Match/LimitMatch/Done read all 7 private copies
	ctor := P.Func(P.Root, "NewReqFilterMatcher")
	match := P.Method(P.Root, "ReqFilterEventLimitMatcher", "Match")
	done := P.Method(P.Root, "ReqFilterEventLimitMatcher", "Done")
	lm := P.Method(P.Root, "ReqFilterEventLimitMatcher", "LimitMatch")
	if ctor == nil || match == nil || done == nil || lm == nil {
		c.NoAnchor([]string{"C02"}, "NewReqFilterMatcher / ReqFilterEventLimitMatcher.Match/Done/LimitMatch")
	} else {
		c.CountFuncs(4)
		got := reqFilterFieldsRead([]*ssa.Function{ctor})
		miss := missing(got, filterFields)
		c.Check(len(miss) == 0, []string{"C02"}, fname(c, ctor), "filter-fields-read", P.Pos(ctor.Pos()), "the matcher is built from all 7 filter fields ("+setList(got)+")", fmt.Sprintf("the matcher constructor never reads filter field(s) %v: that condition is silently ignored", miss))
		// private copies: which recv.f.X are read by Match ∪ LimitMatch ∪ Done
		copies := map[string]bool{}
		for _, fn := range []*ssa.Function{match, done, lm} {
			an.Region(fn, nil, func(o an.Occ) {
				if u, ok := o.In.(*ssa.UnOp); ok && u.Op == token.MUL {
					p := o.Path(u)
					if strings.HasPrefix(p, "recv.f.") && strings.Count(p, ".") == 2 && !strings.ContainsAny(p, "[(") {
						copies[strings.TrimPrefix(p, "recv.f.")] = true
					} else if strings.HasPrefix(p, "recv.") && strings.Count(p, ".") >= 1 && !strings.ContainsAny(p, "[(") {
						// the copies regrouped into sub-structs of the matcher (`m.lim.limit`): like-named
						// up to the capital letter an unexported field loses
						last := p[strings.LastIndex(p, ".")+1:]
						for _, f := range filterFields {
							if strings.EqualFold(last, f) {
								copies[f] = true
							}
						}
					}
				}
			})
		}
		miss = missing(copies, filterFields)
		c.Check(len(miss) == 0, []string{"C02"}, fname(c, match), "matcher-fields-read", P.Pos(match.Pos()), "Match/Done consult all 7 conditions ("+setList(copies)+")", fmt.Sprintf("Match/LimitMatch/Done never consult condition(s) %v", miss))
		// each copy is built from the like-named filter field: the value stored into the
		// matcher's field is the filter field itself, a set built from its elements by a
		// helper, or a map (filled directly or through a local variable) keyed by them
		var wrong []string
		for _, f := range filterFields {
			ok := false
			fromField := func(k string) bool { return strings.Contains(k, ctor.Params[0].Name()+"."+f) }
			// the containers that end up in .f.F
			var targets []ssa.Value
			an.Instrs(ctor, func(in ssa.Instruction) {
				st, isStore := in.(*ssa.Store)
				if !isStore || !(strings.HasSuffix(an.PathOf(st.Addr), ".f."+f) || matcherCopyAddr(an.PathOf(st.Addr), f)) {
					return
				}
				if an.PathOf(st.Val) == "p:"+ctor.Params[0].Name()+"."+f {
					ok = true
				}
				// a private copy of the pointed-to value (`cloneInt64(filter.Since)`: nil stays nil, otherwise
				// a fresh pointer to the same number)
				if call := an.CallOf(st.Val); call != nil && len(call.Call.Args) == 1 && an.PathOf(call.Call.Args[0]) == "p:"+ctor.Params[0].Name()+"."+f && ptrCloneHelper(an.StaticCallee(&call.Call)) {
					ok = true
				}
				if call := an.CallOf(st.Val); call != nil {
					for _, k := range setBuilderKeys(c, call) {
						if fromField(k) {
							ok = true
						}
					}
				}
				targets = append(targets, an.Sources(ctor, st.Val)...)
			})
			an.Instrs(ctor, func(in ssa.Instruction) {
				mu, isMU := in.(*ssa.MapUpdate)
				if !isMU || !fromField(an.PathOf(mu.Key)) {
					return
				}
				if mp := an.PathOf(mu.Map); strings.Contains(mp, ".f."+f) || matcherCopyAddr(mp, f) {
					ok = true
				}
				for _, src := range an.Sources(ctor, mu.Map) {
					for _, t := range targets {
						if src == t {
							ok = true
						}
					}
				}
			})
			if !ok && matcherCopyOf(c, f) != "" {
				ok = true // stored as part of a struct value (`ret.limit = limitCounter{limit: filter.Limit}`)
			}
			if !ok {
				wrong = append(wrong, f)
			}
		}
		c.Check(len(wrong) == 0, []string{"C02"}, fname(c, ctor), "copy-provenance", P.Pos(ctor.Pos()), "each matcher condition is built from the like-named filter field", fmt.Sprintf("matcher condition(s) %v are not built from the like-named filter field", wrong))
	}
	// (2) index path
	find := P.Method(P.Root, "eventCacheEvsIndex", "Find")
	if find == nil {
		c.NoAnchor([]string{"C03"}, "eventCacheEvsIndex.Find")
	} else {
		fns := an.RefClosure([]*ssa.Function{find}, func(f *ssa.Function) bool {
			return P.InModule(f) && (f == find || recvTypeName(f) == "eventCacheEvsIndex" || f.Parent() != nil)
		})
		c.CountFuncs(len(fns))
		got := reqFilterFieldsRead(fns)
		miss := missing(got, filterFields)
		c.Check(len(miss) == 0, []string{"C03"}, fname(c, find), "filter-fields-read", P.Pos(find.Pos()), "the index path consumes all 7 filter fields ("+setList(got)+")", fmt.Sprintf("the index path never reads filter field(s) %v: the indexed and the scanning access path answer differently", miss))
	}
	// (3) SQL builder
	build := P.Func(P.Sqlite, "buildEventQuery")
	if build == nil {
		c.NoAnchor([]string{"C06"}, "sqlite.buildEventQuery")
	} else {
		fns := an.RefClosure([]*ssa.Function{build}, func(f *ssa.Function) bool { return P.InModule(f) && strings.HasSuffix(P.PkgOf(f), "/handler/sqlite") })
		c.CountFuncs(len(fns))
		got := reqFilterFieldsRead(fns)
		miss := missing(got, filterFields)
		c.Check(len(miss) == 0, []string{"C06"}, fname(c, build), "filter-fields-read", P.Pos(build.Pos()), "the query builder consumes all 7 filter fields ("+setList(got)+")", fmt.Sprintf("the query builder never reads filter field(s) %v", miss))
	}
}

// sqliteQueryBuilder: the function of the SQLite package that turns filters
// into a query (it reads the list fields of a ReqFilter and calls the SQL
// builder's Select).
func sqliteQueryBuilder(c *core.Ctx) *ssa.Function {
	if f := c.P.Func(c.P.Sqlite, "buildEventQuery"); f != nil {
		return f
	}
	for _, fn := range sqliteFuncs(c) {
		if fn.Parent() != nil {
			continue
		}
		got := reqFilterFieldsRead([]*ssa.Function{fn})
		if got["IDs"] && got["Authors"] && got["Kinds"] && got["Tags"] {
			return fn
		}
	}
	return nil
}

func runFltNil(c *core.Ctx) {
	P := c.P
	type site struct {
		fn    *ssa.Function
		props []string
		base  func(p string) (string, bool) // path → field name if it denotes a list field of a filter
	}
	filterField := func(p string) (string, bool) {
		for _, f := range listFields {
			if strings.HasSuffix(p, "."+f) && !strings.Contains(p, "Event") && !strings.Contains(p, "event") {
				return f, true
			}
		}
		return "", false
	}
	var sites []site
	add := func(fn *ssa.Function, props ...string) {
		if fn != nil {
			sites = append(sites, site{fn, props, filterField})
		}
	}
	// the consumers of a filter, each with the private helpers it delegates to
	add(P.Func(P.Root, "NewReqFilterMatcher"), "C02")
	add(P.Method(P.Root, "ReqFilterEventLimitMatcher", "Match"), "C02")
	add(P.Method(P.Root, "eventCacheEvsIndex", "Find"), "C03", "C16") // C16: a REQ on the cache handler is answered with exactly these matches
	add(sqliteQueryBuilder(c), "C06", "C16")
	if len(sites) < 4 {
		c.NoAnchor(nil, "filter consumers (matcher constructor, Match, index Find, SQL query builder)")
	}
	for _, s := range sites {
		c.CountFuncs(1)
		nilTests := map[string]int{}
		lenTests := map[string][]string{}
		ranged := map[string]bool{}
		var groupLenTests []string
		for _, rf := range an.RefClosure([]*ssa.Function{s.fn}, P.InModule) {
			an.Instrs(rf, func(in0 ssa.Instruction) {
				// the keys built from one condition, dropped or skipped when there are none (`len(keys) == 0`):
				// the same confusion one step later — a condition that is present with an empty list has an
				// empty key group and must empty the intersection, not vanish from it
				if b, isB := in0.(*ssa.BinOp); isB {
					for _, side := range []ssa.Value{b.X, b.Y} {
						other := b.Y
						if side == b.Y {
							other = b.X
						}
						lc, isCall := side.(*ssa.Call)
						if !isCall || len(lc.Call.Args) != 1 {
							continue
						}
						if bi, isBI := lc.Call.Value.(*ssa.Builtin); !isBI || bi.Name() != "len" {
							continue
						}
						if sl, isSl := lc.Call.Args[0].Type().Underlying().(*types.Slice); isSl && typeNameOf(sl.Elem()) == "eventCacheEvsIndexKey" {
							if k, isK := an.ConstInt(other); isK && k == 0 {
								groupLenTests = append(groupLenTests, P.Pos(b.Pos()))
							}
						}
					}
				}
			})
		}
		if len(groupLenTests) > 0 {
			c.Bad(s.props, fname(c, s.fn), "presence(key-group)", groupLenTests[0], "the key group of one condition is tested by its length: a condition that is present with an empty list ({\"authors\":[]}, must match nothing) is dropped like an absent one, and the remaining conditions alone decide")
		}
		an.Region(s.fn, nil, func(o an.Occ) {
			if r, isR := o.In.(*ssa.Range); isR {
				if f, okF := s.base(o.Path(r.X)); okF {
					ranged[f] = true
				}
			}
			b, ok := o.In.(*ssa.BinOp)
			if !ok {
				return
			}
			// only values that steer control (directly or through && / ||)
			for _, side := range []ssa.Value{b.X, b.Y} {
				other := b.Y
				if side == b.Y {
					other = b.X
				}
				sp := o.Path(side)
				if f, ok := s.base(sp); ok && an.IsNilConst(other) && (b.Op == token.EQL || b.Op == token.NEQ) {
					nilTests[f]++
				}
				if strings.HasPrefix(sp, "len(") {
					if f, ok := s.base(strings.TrimSuffix(strings.TrimPrefix(sp, "len("), ")")); ok {
						if k, isK := an.ConstInt(other); isK && k == 0 {
							// `x != nil && len(x) == 0` asks "present but empty", which is what the rule wants told
							// apart from absent: not a presence test by length
							presentKnown := false
							for _, g := range an.Guards(b.Parent(), b.Block()) {
								g = an.NormCond(g)
								if nb, isBin := g.V.(*ssa.BinOp); isBin && an.IsNilConst(nb.Y) && (nb.Op == token.NEQ) == g.True {
									if f2, ok2 := s.base(o.Path(nb.X)); ok2 && f2 == f {
										presentKnown = true
									}
								}
							}
							if !presentKnown {
								lenTests[f] = append(lenTests[f], P.Pos(b.Pos()))
							}
						}
					}
				}
			}
		})
		for _, f := range listFields {
			c.CountSites(1)
			construct := "presence(" + f + ")"
			switch {
			case f == "Tags" && ranged[f] && nilTests[f] == 0:
				// the condition *map* is walked entry by entry: an empty map has no entry and so, like an
				// absent one, no condition (a length test of the map asks the same as a nil test) — it is
				// the per-entry value lists whose emptiness matters
				c.OK(s.props, fname(c, s.fn), construct, P.Pos(s.fn.Pos()), "the #x conditions are ranged over: an empty map contributes none, like an absent one")
			case len(lenTests[f]) > 0:
				c.Bad(s.props, fname(c, s.fn), construct, lenTests[f][0], "presence of "+f+" is tested by its length: {\""+strings.ToLower(f)+"\":[]} (present but empty, must match nothing) is treated like an absent condition")
			case nilTests[f] > 0:
				c.OK(s.props, fname(c, s.fn), construct, P.Pos(s.fn.Pos()), fmt.Sprintf("%d nil test(s), no length test", nilTests[f]))
			case f == "Tags" && ranged[f]:
				// the condition *map* is walked entry by entry: an empty map has no entry and so, like an
				// absent one, no condition — it is the per-entry value lists whose emptiness matters
				c.OK(s.props, fname(c, s.fn), construct, P.Pos(s.fn.Pos()), "the #x conditions are ranged over: an empty map contributes none, like an absent one")
			default:
				c.Bad(s.props, fname(c, s.fn), construct, P.Pos(s.fn.Pos()), "no presence test of "+f+" at all: an absent condition and an empty list are not distinguished")
			}
		}
	}
}

func runFltBnd(c *core.Ctx) {
	P := c.P
	match := P.Method(P.Root, "ReqFilterEventLimitMatcher", "Match")
	if match == nil {
		c.NoAnchor([]string{"C02"}, "ReqFilterEventLimitMatcher.Match")
	} else {
		c.CountFuncs(1)
		subj := "p:" + match.Params[1].Name() + ".CreatedAt"
		for _, row := range []struct {
			field string
			want  an.Set
			txt   string
		}{{"Since", an.Range(0, an.PosInf), "[since,+∞)"}, {"Until", an.Range(an.NegInf, 0), "(-∞,until]"}} {
			sym := "recv.f." + row.field
			if cp := matcherCopyOf(c, row.field); cp != "" {
				sym = cp // regrouped: `m.f.Created.since`
			}
			// with the bound present (wherever its presence is tested: in Match or in a
			// predicate helper Match delegates to)
			fr := an.SymFrame(subj, sym).AssumePresent(sym)
			t, _, n, ok := fr.FuncBoolMeaning(match, 0, nil, nil)
			c.CountPaths(n)
			if !ok || n == 0 {
				c.Unknown([]string{"C02"}, fname(c, match), "bound("+row.field+")", P.Pos(match.Pos()), "too many paths")
				continue
			}
			c.Check(t.Equal(row.want), []string{"C02"}, fname(c, match), "bound("+row.field+")", P.Pos(match.Pos()),
				"with "+row.field+" present an event can match iff created_at ∈ "+t.Format(strings.ToLower(row.field)), "with "+row.field+" present an event can match when created_at ∈ "+t.Format(strings.ToLower(row.field))+", want "+row.txt+" (bounds are inclusive)")
		}
	}
	// SQL: since ↦ Gte, until ↦ Lte
	build := P.Func(P.Sqlite, "buildEventQuery")
	if build == nil {
		c.NoAnchor([]string{"C06"}, "sqlite.buildEventQuery")
		return
	}
	for _, row := range []struct{ field, want string }{{"Since", "Gte"}, {"Until", "Lte"}} {
		var helper *ssa.Function
		pi := -1
		for _, ci := range calls(build) {
			call, ok := ci.(*ssa.Call)
			if !ok {
				continue
			}
			for i, a := range call.Call.Args {
				if strings.HasSuffix(an.PathOf(a), "."+row.field) && strings.HasPrefix(an.PathOf(a), "p:") {
					helper, pi = an.StaticCallee(&call.Call), i
				}
			}
		}
		var cmps []string
		host := build
		argPath := ""
		if helper != nil && P.InModule(helper) {
			host = helper
			argPath = "p:" + helper.Params[pi].Name()
		}
		c.CountFuncs(1)
		for _, ci := range calls(host) {
			com := ci.Common()
			if !com.IsInvoke() {
				continue
			}
			m := com.Method.Name()
			switch m {
			case "Gt", "Gte", "Lt", "Lte", "Eq", "Neq":
				if len(com.Args) == 1 && (argPath == "" && strings.HasSuffix(an.PathOf(com.Args[0]), "."+row.field) || argPath != "" && an.PathOf(com.Args[0]) == argPath) {
					cmps = append(cmps, m)
				}
			}
		}
		c.Check(len(cmps) == 1 && cmps[0] == row.want, []string{"C06"}, fname(c, host), "bound("+row.field+")", P.Pos(host.Pos()),
			"created_at "+row.want+" *"+row.field, fmt.Sprintf("the %s condition is translated with %v, want exactly %s (inclusive bound)", row.field, cmps, row.want))
	}
}

func runLimDone(c *core.Ctx) {
	P := c.P
	done := P.Method(P.Root, "ReqFilterEventLimitMatcher", "Done")
	lm := P.Method(P.Root, "ReqFilterEventLimitMatcher", "LimitMatch")
	match := P.Method(P.Root, "ReqFilterEventLimitMatcher", "Match")
	if done == nil || lm == nil || match == nil {
		c.NoAnchor(nil, "ReqFilterEventLimitMatcher.Done / LimitMatch / Match")
		return
	}
	c.CountFuncs(2)
	// where the matcher keeps its limit and its counter: `recv.f.Limit` / `recv.cnt` on the pinned
	// tree; read off the constructor (the field filter.Limit is copied into) and off LimitMatch
	// (the integer field of the receiver it stores into) when the struct was regrouped
	limitPath, cntPath := "recv.f.Limit", "recv.cnt"
	if cp := matcherCopyOf(c, "Limit"); cp != "" {
		limitPath = cp
	}
	an.Region(lm, nil, func(o an.Occ) {
		if st, ok := o.In.(*ssa.Store); ok {
			if bt, isB := st.Val.Type().Underlying().(*types.Basic); isB && bt.Info()&types.IsInteger != 0 && !storeToParamCopy(st) {
				if ap := o.Path(st.Addr); strings.HasPrefix(ap, "recv.") && !strings.ContainsAny(ap, "[(") {
					cntPath = ap
				}
			}
		}
	})
	// Done may hand the question to a method of the sub-struct that holds limit and counter
	// (`return m.lim.done()`): that method's own paths carry the same names (its receiver is the
	// field it lives in), so it is read in Done's place
	for i := 0; i < 2; i++ {
		rbs := an.ReturnBlocks(done)
		if len(rbs) != 1 || len(done.Blocks) != 1 {
			break
		}
		rv := an.ReturnValues(an.LastInstr(rbs[0]).(*ssa.Return))
		if len(rv) != 1 {
			break
		}
		call, isCall := rv[0].(*ssa.Call)
		if !isCall {
			break
		}
		h := an.StaticCallee(&call.Call)
		if h == nil || !P.InModule(h) || h.Signature.Recv() == nil || len(call.Call.Args) != 1 || an.RecvOwnerHook(h) == "" || an.RecvOwnerHook(h) != an.PathOf(call.Call.Args[0]) {
			break
		}
		done = h
	}
	fr := an.SymFrame(cntPath, limitPath)
	t, _, n, ok := fr.FuncBoolMeaning(done, 0, nonNilOnPath(limitPath), nil)
	c.CountPaths(n)
	c.Check(ok && n > 0 && t.Equal(an.Range(0, an.PosInf)), nil, fname(c, done), "done(limit present)", P.Pos(done.Pos()),
		"with a limit: Done ⇔ cnt ∈ "+t.Format("limit"), "with a limit Done holds when cnt ∈ "+t.Format("limit")+", want [limit,+∞): exhausted exactly when at least limit events matched")
	// without a limit never done
	absent := func(p an.Path) bool {
		for _, cd := range p.Conds() {
			if is, nonNilWhenTrue := nilTest(cd.V, limitPath); is && cd.True != nonNilWhenTrue {
				return true
			}
		}
		return false
	}
	t2, _, n2, ok2 := an.NoSubject().FuncBoolMeaning(done, 0, absent, nil)
	c.CountPaths(n2)
	c.Check(ok2 && n2 > 0 && t2.IsEmpty(), nil, fname(c, done), "done(no limit)", P.Pos(done.Pos()), "without a limit Done is false", "a matcher without limit can report Done")
	// … on whatever way: every path on which Done answers true has found the limit present (an early
	// `return true` for a matcher that "can never match anyway" reports a filter without limit as exhausted)
	if tps, okT := an.ResultPaths(done, 0, true); okT {
		var noLimit []string
		for _, tp := range tps {
			present := false
			for _, cd := range tp.Conds {
				if is, nonNilWhenTrue := nilTest(cd.V, limitPath); is && cd.True == nonNilWhenTrue {
					present = true
				}
			}
			if !present {
				var cs []string
				for _, cd := range tp.Conds {
					cs = append(cs, fmt.Sprintf("%s=%v", clip(an.PathOf(cd.V), 40), cd.True))
				}
				noLimit = append(noLimit, strings.Join(cs, " ∧ "))
			}
		}
		c.CountPaths(len(tps))
		c.Check(len(noLimit) == 0 && len(tps) > 0, nil, fname(c, done), "done(only with limit)", P.Pos(done.Pos()), fmt.Sprintf("all %d ways Done answers true have tested the limit present", len(tps)),
			"Done answers true without having found a limit ("+strings.Join(noLimit, " | ")+"): a filter without limit, or with an unreached one, is reported exhausted, so a filter list reports Done although not every filter has reached its limit")
	}
	// LimitMatch: cnt += 1 exactly on Match() == true
	var st *ssa.Store
	var stOcc an.Occ
	an.Region(lm, nil, func(o an.Occ) {
		if s, ok := o.In.(*ssa.Store); ok && o.Path(s.Addr) == cntPath && !storeToParamCopy(s) {
			st, stOcc = s, o
		}
	})
	good := false
	detail := "LimitMatch never advances the counter"
	if st != nil {
		b, isBin := st.Val.(*ssa.BinOp)
		k := int64(0)
		if isBin {
			k, _ = an.ConstInt(b.Y)
		}
		// (a store inside a counter method the matcher calls: the guards that count are those of the call in LimitMatch)
		gs := an.Guards(lm, stOcc.Site().Block())
		if len(stOcc.Chain) > 0 && len(an.Guards(st.Parent(), st.Block())) > 0 {
			gs = append(gs, an.Guards(st.Parent(), st.Block())...)
		}
		isMatch := func(v ssa.Value) bool {
			call, isCall := v.(*ssa.Call)
			return isCall && sameFunc(an.StaticCallee(&call.Call), match) && an.PathOf(call.Call.Args[0]) == "recv" && an.PathOf(call.Call.Args[1]) == "p:"+lm.Params[1].Name()
		}
		// a saturation guard (`match && cnt < math.MaxInt64`) only keeps the counter from wrapping: it
		// cannot fail before 2^63-1 matches, and limit <= cnt is then true for every int64 limit anyway
		{
			var kept []an.Cond
			for _, g := range gs {
				gn := an.NormCond(g)
				if sb, isB := gn.V.(*ssa.BinOp); isB && gn.True && sb.Op == token.LSS && stOcc.Path(sb.X) == cntPath {
					if kk, isK := an.ConstInt(sb.Y); isK && kk == math.MaxInt64 {
						continue
					}
				}
				kept = append(kept, g)
			}
			gs = kept
		}
		onlyMatch := len(gs) == 1
		if onlyMatch {
			v, pol := stripNot(gs[0].V, gs[0].True)
			onlyMatch = pol && isMatch(v)
		}
		good = isBin && b.Op == token.ADD && stOcc.Path(b.X) == cntPath && k == 1 && onlyMatch
		detail = fmt.Sprintf("counter update %s under %d guard(s); want cnt+1 exactly on Match(event) == true", an.PathOf(st.Val), len(gs))
		// result is the Match verdict: the call's value, or a constant on the edge that fixes the verdict
		for _, rb := range an.ReturnBlocks(lm) {
			rv := an.LastInstr(rb).(*ssa.Return).Results[0]
			if isMatch(rv) {
				continue
			}
			okConst := false
			for _, want := range []bool{true, false} {
				if !isConstBool(rv, want) {
					continue
				}
				for _, g := range an.Guards(lm, rb) {
					v, pol := stripNot(g.V, g.True)
					if isMatch(v) && pol == want {
						okConst = true
					}
				}
			}
			if ph, isPhi := rv.(*ssa.Phi); isPhi {
				// phi of the verdict with itself (match = Match(); if match {…}; return match)
				okConst = true
				for _, e := range ph.Edges {
					if !isMatch(e) {
						okConst = false
					}
				}
			}
			if !okConst {
				good = false
				detail = "LimitMatch does not return Match's verdict (" + an.PathOf(rv) + ")"
			}
		}
	}
	c.Check(good, nil, fname(c, lm), "count", P.Pos(lm.Pos()), "cnt advances by exactly one, exactly when Match(event) is true, and that verdict is returned", detail)
}

// matcherCtorCopies: what NewReqFilterMatcher stores where, field by field, in the matcher's own
// terms: "recv.f.Since" → "p:filter.Since". A store of a whole struct value (a literal, or what a
// small constructor returns: `ret.f.Created = newTimeRange(filter.Since, filter.Until)`,
// `ret.limit = limitCounter{limit: filter.Limit}`) is taken apart into its fields.
func matcherCtorCopies(c *core.Ctx) map[string]string {
	out := map[string]string{}
	ctor := c.P.Func(c.P.Root, "NewReqFilterMatcher")
	if ctor == nil {
		return out
	}
	var put func(addr, val string, depth int)
	put = func(addr, val string, depth int) {
		if fs, ok := an.LitFields(val); ok && depth < 4 {
			for f, v := range fs {
				put(addr+"."+f, v, depth+1)
			}
			return
		}
		out[addr] = val
	}
	an.Instrs(ctor, func(in ssa.Instruction) {
		st, ok := in.(*ssa.Store)
		if !ok {
			return
		}
		// the field chain from the matcher that is being built down to the stored field
		suffix := ""
		base := st.Addr
		for {
			fa, ok := base.(*ssa.FieldAddr)
			if !ok {
				break
			}
			_, stt := structOf(fa)
			if stt == nil {
				// an anonymous struct (the matcher's `f`)
				t := fa.X.Type()
				if pt, isPtr := t.Underlying().(*types.Pointer); isPtr {
					t = pt.Elem()
				}
				stt, _ = t.Underlying().(*types.Struct)
			}
			if stt == nil {
				return
			}
			if !an.GroupFieldHook(fa.X.Type(), fa.Field) {
				suffix = "." + an.FieldNameHook(stt, fa.Field) + suffix
			}
			base = fa.X
		}
		a, isAlloc := base.(*ssa.Alloc)
		if !isAlloc || typeNameOf(a.Type()) != "ReqFilterEventLimitMatcher" {
			return
		}
		vp := an.PathOf(st.Val)
		if _, isLit := an.LitFields(vp); suffix == "" && !isLit {
			return
		}
		put("recv"+suffix, vp, 0)
	})
	return out
}

// matcherCopyOf: where the matcher keeps its copy of filter field f ("" if it is not a plain copy).
func matcherCopyOf(c *core.Ctx, f string) string {
	ctor := c.P.Func(c.P.Root, "NewReqFilterMatcher")
	if ctor == nil || len(ctor.Params) == 0 {
		return ""
	}
	want := "p:" + ctor.Params[0].Name() + "." + f
	best := ""
	for k, v := range matcherCtorCopies(c) {
		if v == want && (best == "" || k < best) {
			best = k
		}
	}
	return best
}

// storeToParamCopy: the store goes into (a field of) the local copy go/ssa makes of a by-value
// parameter or receiver (`func (l limitCounter) add() { l.cnt++ }`): the caller never sees it.
func storeToParamCopy(st *ssa.Store) bool {
	base := st.Addr
	for {
		switch x := base.(type) {
		case *ssa.FieldAddr:
			base = x.X
			continue
		case *ssa.IndexAddr:
			// an element of an array held by value inside the copy
			if _, isArr := x.X.Type().Underlying().(*types.Pointer); isArr {
				base = x.X
				continue
			}
		}
		break
	}
	a, ok := base.(*ssa.Alloc)
	if !ok || a.Heap {
		return false
	}
	stores := an.StoresTo(a)
	if len(stores) == 0 {
		return false
	}
	for _, s := range stores {
		if _, isParam := s.Val.(*ssa.Parameter); !isParam {
			return false
		}
	}
	return true
}

// matcherCopyAddr: path (a store target / map in the matcher's constructor) is a field of the
// freshly allocated matcher whose name is the filter field's, up to the capital letter.
func matcherCopyAddr(path, field string) bool {
	if !strings.HasPrefix(path, "alloc:") || strings.ContainsAny(path, "[(") {
		return false
	}
	i := strings.LastIndex(path, ".")
	return i >= 0 && strings.EqualFold(path[i+1:], field)
}

func runOrNosc(c *core.Ctx) {
	P := c.P
	// EventLimitMatchers[T].LimitMatch (any instantiation)
	var fn *ssa.Function
	for _, f := range libFuncs(c) {
		if f.Name() != "" && strings.HasPrefix(f.Name(), "LimitMatch") && strings.Contains(f.String(), "EventLimitMatchers") && f.Parent() == nil {
			fn = f
		}
	}
	if fn == nil {
		c.NoAnchor(nil, "EventLimitMatchers.LimitMatch")
		return
	}
	c.CountFuncs(1)
	_, call := foldTarget(fn, "LimitMatch")
	if call == nil {
		c.Bad(nil, fname(c, fn), "member-call", P.Pos(fn.Pos()), "the OR over filters does not call the members' counting matcher (LimitMatch): per-filter counters never advance")
		return
	}
	h := an.LoopHeaderOf(call.Block())
	good := h != nil
	if good {
		for _, l := range an.Latches(h) {
			if !(call.Block() == l || call.Block().Dominates(l)) {
				good = false
			}
		}
	}
	c.Check(good, nil, fname(c, fn), "member-call", P.Pos(call.Pos()), "every iteration calls the member's LimitMatch (its block dominates the loop latch): no short-circuit on the accumulated verdict",
		"the member's LimitMatch is skipped on some iterations (short-circuit on the accumulated verdict): once one filter matched, later filters' counters stop advancing and Done is wrong")
}

func init() {
	reg(&core.RuleInfo{Name: "MATCH-PAIR", Props: []string{"C02", "C07", "C08"}, Engine: "PROV", Floor: 5, Confirmed: 6,
		Doc: "each condition is tested against its own event attribute and a miss forces 'no match'", Run: runMatchPair})
}

// memberVal: the value that says "the key is in the set" — the looked-up bool
// of a map[K]bool, the ok of a comma-ok lookup (map[K]struct{} sets).
func memberVal(l *ssa.Lookup) ssa.Value {
	if !l.CommaOk || l.Referrers() == nil {
		return l
	}
	for _, r := range *l.Referrers() {
		if ex, ok := r.(*ssa.Extract); ok && ex.Index == 1 {
			return ex
		}
	}
	return l
}

// localMapSites: v is a function-local map variable — a MakeMap, or a phi of nil and MakeMaps
// (allocated on first use); the allocation sites, empty when v may be anything else.
func localMapSites(v ssa.Value) map[*ssa.MakeMap]bool {
	out := map[*ssa.MakeMap]bool{}
	seen := map[ssa.Value]bool{}
	ok := true
	var walk func(v ssa.Value)
	walk = func(v ssa.Value) {
		v = an.Unwrap(v)
		if v == nil || seen[v] {
			return
		}
		seen[v] = true
		switch x := v.(type) {
		case *ssa.MakeMap:
			out[x] = true
		case *ssa.Phi:
			for _, e := range x.Edges {
				walk(e)
			}
		case *ssa.Const:
			if !x.IsNil() {
				ok = false
			}
		default:
			ok = false
		}
	}
	walk(v)
	if !ok {
		return nil
	}
	return out
}

func runMatchPair(c *core.Ctx) {
	P := c.P
	match := P.Method(P.Root, "ReqFilterEventLimitMatcher", "Match")
	if match == nil {
		c.NoAnchor(nil, "ReqFilterEventLimitMatcher.Match")
		return
	}
	c.CountFuncs(1)
	ev := "p:" + match.Params[1].Name()
	for _, row := range []struct{ cond, attr string }{{"IDs", "ID"}, {"Kinds", "Kind"}, {"Authors", "Pubkey"}} {
		var lk *ssa.Lookup
		var wrong []string
		an.Instrs(match, func(in ssa.Instruction) {
			l, ok := in.(*ssa.Lookup)
			if !ok || an.PathOf(l.X) != "recv.f."+row.cond {
				return
			}
			if an.PathOf(l.Index) == ev+"."+row.attr {
				lk = l
			} else {
				wrong = append(wrong, an.PathOf(l.Index))
			}
		})
		c.CountSites(1)
		if lk == nil {
			c.Bad(nil, fname(c, match), "pair("+row.cond+")", P.Pos(match.Pos()), fmt.Sprintf("the %s condition is not looked up with the event's %s (looked up with %v)", row.cond, row.attr, wrong))
			continue
		}
		ok, why := impliesFalse(c, match, memberVal(lk))
		c.Check(ok && len(wrong) == 0, nil, fname(c, match), "pair("+row.cond+")", P.Pos(lk.Pos()), row.cond+"[event."+row.attr+"] false ⇒ no match", "a miss in "+row.cond+" does not force 'no match': "+why)
	}
	// tags: Tags[tag[0]][tag[1] or ""] marks tag[0] as found; fewer found names than conditions ⇒ no match.
	// The tag phase may live in Match or in a private helper it delegates to (host).
	var inner *ssa.Lookup
	var innerOcc an.Occ
	an.Region(match, nil, func(o an.Occ) {
		l, ok := o.In.(*ssa.Lookup)
		if !ok {
			return
		}
		outerSet := l.X
		if ex, isEx := outerSet.(*ssa.Extract); isEx && ex.Index == 0 {
			outerSet = ex.Tuple // `vals, ok := Tags[name]; …; vals[v]`
		}
		if lk, ok := outerSet.(*ssa.Lookup); ok && o.Path(lk.X) == "recv.f.Tags" && o.Path(lk.Index) == ev+".Tags[*][0]" {
			inner, innerOcc = l, o
		}
	})
	c.CountSites(2)
	if inner == nil {
		// the other way round: for every #x condition of the filter, some tag of the event has that
		// name and a listed value (`for name, vals := range m.f.Tags { if !hasListedTag(tags, name, vals) { return false } }`)
		if ok, why := conditionMajorTags(c, match, ev); ok {
			c.OK(nil, fname(c, match), "pair(Tags)", P.Pos(match.Pos()), "a condition counts as satisfied iff some tag has its name and a value its list contains (tag[1], or \"\" for a one-element tag)")
			c.OK(nil, fname(c, match), "all-tag-conditions", P.Pos(match.Pos()), "no match as soon as one #x condition is not satisfied; a match only after all were looked at")
			return
		} else if why != "" {
			c.Bad(nil, fname(c, match), "pair(Tags)", P.Pos(match.Pos()), "tag conditions are walked one by one, but "+why)
			return
		}
		c.Bad(nil, fname(c, match), "pair(Tags)", P.Pos(match.Pos()), "tag conditions are not looked up by the event tag's name (tag[0])")
		return
	}
	host := inner.Parent()
	tr := innerOcc.Path
	vp := tr(inner.Index)
	valOK := strings.Contains(vp, ev+".Tags[*][1]") && strings.Contains(vp, `const:""`) || vp == ev+".Tags[*][1]"
	// the found-set update is guarded by the lookup and keyed by the tag name
	var mu *ssa.MapUpdate
	an.Instrs(host, func(in ssa.Instruction) {
		if m, ok := in.(*ssa.MapUpdate); ok && tr(m.Key) == ev+".Tags[*][0]" {
			if len(localMapSites(m.Map)) > 0 {
				mu = m
			}
		}
	})
	guarded := false
	if mu != nil {
		for _, g := range an.Guards(host, mu.Block()) {
			if g.V == memberVal(inner) && g.True {
				guarded = true
			}
		}
	}
	c.Check(valOK && guarded, nil, fname(c, match), "pair(Tags)", P.Pos(innerOcc.Site().Pos()), "a tag name counts as found iff Tags[name] lists the tag's value (tag[1], or \"\" for a one-element tag)",
		fmt.Sprintf("tag lookup value ← %s (ok=%v); found-set update guarded by the lookup: %v", vp, valOK, guarded))
	// all conditions: the host answers "no match" iff len(found) < len(Tags) …
	okCount := false
	detail := "no comparison of the number of found tag names with the number of tag conditions"
	if mu != nil {
		// the number of conditions, named in the host's own terms (the host may be a helper
		// that is handed the condition map as a parameter)
		condMap := "recv.f.Tags"
		if lk, ok := inner.X.(*ssa.Lookup); ok {
			condMap = an.PathOf(lk.X)
		}
		fr := an.SymFrame("len("+an.PathOf(mu.Map)+")", "len("+condMap+")").AssumePresent(condMap)
		fr.Domain = nil
		// the found set may be allocated lazily (`var found map…; … if found == nil { found = make(…) }`):
		// the subject is len() of any value of that local variable
		sites := localMapSites(mu.Map)
		fr.IsSubject = func(v ssa.Value) bool {
			call, ok := v.(*ssa.Call)
			if !ok {
				return false
			}
			if b, isB := call.Call.Value.(*ssa.Builtin); !isB || b.Name() != "len" {
				return false
			}
			got := localMapSites(call.Call.Args[0])
			if len(got) == 0 || len(got) != len(sites) {
				return false
			}
			for k := range got {
				if !sites[k] {
					return false
				}
			}
			return true
		}
		// (read off the paths on which the host's verdict may be true: the count must be ≥ #conditions)
		if tps, ok := an.ResultPaths(host, 0, true); ok && len(tps) > 0 {
			acc := an.Empty()
			for _, tp := range tps {
				if tp.Path.Contains(mu.Block()) || an.Reachable(host.Blocks[0], mu.Block(), nil, nil) {
					acc = acc.Union(tp.Meaning(fr))
				}
			}
			detail = "a match is possible when #found ∈ " + acc.Format("#conditions")
			okCount = acc.Equal(an.Range(0, an.PosInf))
			// a name enters the found set only where the condition map lists it (the one update, behind
			// the lookup): there are never more found names than conditions, so "exactly as many" says
			// the same as "at least as many"
			if !okCount && guarded && valOK {
				only := true
				an.Instrs(host, func(in ssa.Instruction) {
					if m, isMU := in.(*ssa.MapUpdate); isMU && m != mu {
						for k := range localMapSites(m.Map) {
							if sites[k] {
								only = false
							}
						}
					}
				})
				if only && acc.Intersect(an.Range(an.NegInf, 0)).Equal(an.Range(0, 0)) {
					okCount = true
				}
			}
		}
	}
	// … and that verdict forces Match's, through every helper level
	if okCount && host != match {
		for i := len(innerOcc.Chain) - 1; i >= 0 && okCount; i-- {
			ok, why := impliesFalse(c, innerOcc.Chain[i].Parent(), innerOcc.Chain[i])
			if !ok {
				okCount = false
				detail = "the tag phase's verdict does not force Match's: " + why
			}
		}
	}
	c.Check(okCount, nil, fname(c, match), "all-tag-conditions", P.Pos(match.Pos()), "no match iff fewer tag names were found than there are #x conditions (every #x must hold)", detail+", want [#conditions,+∞)")
}

func init() {
	reg(&core.RuleInfo{Name: "COMB-TAB", Props: []string{"C02", "C07", "C08"}, Engine: "CFG", Floor: 3, Confirmed: 4,
		Doc: "a filter list matches when ANY member matches and is Done when ALL members are", Run: runCombTab})
}

// foldTarget: where the loop over the members is and which call in it consults
// a member: in fn itself (`mm.Match(e)`), or — when fn hands the per-member
// action to a private iteration helper as a function value,
// `m.matchAny(func(mm T) bool { return mm.Match(e) })` — in that helper, at
// the call of its function parameter.
func foldTarget(fn *ssa.Function, member string) (*ssa.Function, *ssa.Call) {
	isMember := func(ci ssa.CallInstruction) bool {
		n := an.CalleeName(ci.Common())
		return strings.HasSuffix(n, ")."+member) || strings.HasSuffix(n, "."+member)
	}
	for _, ci := range calls(fn) {
		if cc, isCall := ci.(*ssa.Call); isCall && isMember(ci) {
			return fn, cc
		}
	}
	for _, ci := range calls(fn) {
		hc, isCall := ci.(*ssa.Call)
		if !isCall {
			continue
		}
		h := an.StaticCallee(&hc.Call)
		if !an.PrivateHelper(h) || len(h.Params) != len(hc.Call.Args) {
			continue
		}
		for i, a := range hc.Call.Args {
			cl := funcValue(a)
			if cl == nil || len(cl.Blocks) != 1 {
				continue
			}
			// the closure is exactly "return member(arg)"
			consults := false
			for _, cci := range calls(cl) {
				if isMember(cci) {
					consults = true
				}
			}
			if !consults {
				continue
			}
			for _, hci := range calls(h) {
				if cc, isCall := hci.(*ssa.Call); isCall && an.Unwrap(cc.Call.Value) == ssa.Value(h.Params[i]) {
					return h, cc
				}
			}
		}
	}
	return fn, nil
}

// foldCell: what one loop iteration does for (accumulator value, member verdict).
type foldCell struct {
	out       string // "cont:T" "cont:F" "ret:T" "ret:F" "cont" "?"
	consulted bool   // the member is called on every feasible path of the iteration
}

type foldSem struct {
	hasAcc bool
	init   string               // value of the accumulator at loop entry ("T"/"F"/"?")
	cells  map[[2]bool]foldCell // (acc, member) -> effect; without an accumulator only acc = false rows, meaning "still in the loop"
	exit   map[bool]string      // value returned when the loop runs out, per accumulator value
}

// foldSemantics decides, by evaluating every path of one loop iteration under
// each assumption (accumulator, member verdict) ∈ {F,T}², what the loop over
// the members computes. Both the accumulator form (`acc = f(m) || acc`, `if
// f(m) { acc = true }`) and the early-return form (`if !f(m) { return false }`)
// are covered: an iteration either continues with a new accumulator value or
// returns a value.
func foldSemantics(fn *ssa.Function, member string) (sem foldSem, ok bool) {
	fn, call := foldTarget(fn, member)
	if call == nil {
		return sem, false
	}
	h := an.LoopHeaderOf(call.Block())
	if h == nil {
		return sem, false
	}
	loop := an.LoopBlocks(h)
	var acc *ssa.Phi
	for _, in := range h.Instrs {
		if ph, isPhi := in.(*ssa.Phi); isPhi {
			if bt, isB := ph.Type().Underlying().(*types.Basic); isB && bt.Kind() == types.Bool {
				if acc != nil {
					return sem, false // two boolean loop variables: not a fold this rule understands
				}
				acc = ph
			}
		}
	}
	tf := func(t, f, known bool) string {
		switch {
		case !known:
			return "?"
		case t && !f:
			return "T"
		case f && !t:
			return "F"
		}
		return "?"
	}
	sem.hasAcc = acc != nil
	sem.init = "?"
	if acc != nil {
		for i, pb := range h.Preds {
			if !h.Dominates(pb) {
				if k, isK := acc.Edges[i].(*ssa.Const); isK && k.Value != nil {
					sem.init = map[bool]string{true: "T", false: "F"}[k.Value.String() == "true"]
				}
			}
		}
	}
	isRet := map[*ssa.BasicBlock]bool{}
	for _, rb := range an.ReturnBlocks(fn) {
		isRet[rb] = true
	}
	paths, okp := an.IterPaths(h, func(b *ssa.BasicBlock) bool { return isRet[b] }, 512)
	if !okp {
		return sem, false
	}
	sem.cells = map[[2]bool]foldCell{}
	sem.exit = map[bool]string{}
	olds := []bool{false, true}
	if acc == nil {
		olds = []bool{false}
	}
	for _, old := range olds {
		for _, mv := range []bool{false, true} {
			fr := an.NoSubject()
			fr.Assume = map[ssa.Value]bool{ssa.Value(call): mv}
			if acc != nil {
				fr.Assume[acc] = old
			}
			outs := map[string]bool{}
			consulted := true
			for _, p := range paths {
				last := p[len(p)-1]
				q := p
				feasible := true
				for _, cd := range q.Conds() {
					t, f, known := fr.EvalBool(cd.V, q)
					if known && ((cd.True && !t) || (!cd.True && !f)) {
						feasible = false
					}
				}
				if !feasible {
					continue
				}
				inLoop := len(p) > 1 && loop[p[1]]
				// leaving through the loop condition — possibly a compound one (`for i := 0; acc && i < n; i++`):
				// every loop block on the path only evaluates the condition, i.e. dominates the member call
				if inLoop && !p.Contains(call.Block()) && isRet[last] {
					condOnly := true
					for _, b := range p[:len(p)-1] {
						if loop[b] && !(b.Dominates(call.Block()) && b != call.Block()) {
							condOnly = false
						}
					}
					if condOnly {
						inLoop = false
					}
				}
				if !inLoop {
					// the loop ran out
					if isRet[last] {
						rv := an.ReturnValues(an.LastInstr(last).(*ssa.Return))
						if len(rv) > 0 {
							t, f, known := fr.EvalBool(an.ResolveRetVal(rv[0], q), q)
							if prev, seen := sem.exit[old]; seen && prev != tf(t, f, known) {
								sem.exit[old] = "?"
							} else {
								sem.exit[old] = tf(t, f, known)
							}
						}
					}
					continue
				}
				if !p.Contains(call.Block()) {
					consulted = false
				}
				switch {
				case isRet[last]:
					rv := an.ReturnValues(an.LastInstr(last).(*ssa.Return))
					if len(rv) == 0 {
						outs["?"] = true
						continue
					}
					t, f, known := fr.EvalBool(an.ResolveRetVal(rv[0], q), q)
					outs["ret:"+tf(t, f, known)] = true
				case acc == nil:
					outs["cont"] = true
				default:
					var next ssa.Value
					for i, pb := range h.Preds {
						if pb == p[len(p)-2] {
							next = acc.Edges[i]
						}
					}
					t, f, known := fr.EvalBool(next, q)
					outs["cont:"+tf(t, f, known)] = true
				}
			}
			cell := foldCell{out: "?", consulted: consulted}
			if len(outs) == 1 {
				for o := range outs {
					cell.out = o
				}
			}
			// with this accumulator value the loop condition lets no further iteration start: the
			// fold ends here with the value the loop's exit yields
			if len(outs) == 0 {
				if ev, has := sem.exit[old]; has && ev != "?" {
					cell.out = "ret:" + ev
					cell.consulted = false
				}
			}
			sem.cells[[2]bool{old, mv}] = cell
		}
	}
	return sem, true
}

// quantForm: fn returns a standard-library quantifier over its receiver whose predicate is one
// method of the element called with fn's own arguments. Returns "any" / "all" and the method name.
func quantForm(fn *ssa.Function) (quant, member string, ok bool) {
	rbs := an.ReturnBlocks(fn)
	if len(rbs) != 1 || len(fn.Params) == 0 {
		return "", "", false
	}
	rv := an.ReturnValues(an.LastInstr(rbs[0]).(*ssa.Return))
	if len(rv) != 1 {
		return "", "", false
	}
	return quantOver(rv[0], ssa.Value(fn.Params[0]))
}

// quantOver: v is a standard-library quantifier over list whose predicate is one method (or one
// field) of the element: "any" / "all" and the member's name.
func quantOver(v0 ssa.Value, list0 ssa.Value) (quant, member string, ok bool) {
	// atom: a closure `func(m T) bool { return [!] m.Member(args…) }` or `func(v T) bool { return [!] f(v) }`
	// with f bound (through the helper's parameter) to such a closure
	var predOf func(v ssa.Value, bind map[*ssa.Parameter]ssa.Value, depth int) (string, bool, bool)
	predOf = func(v ssa.Value, bind map[*ssa.Parameter]ssa.Value, depth int) (string, bool, bool) {
		if depth > 4 {
			return "", false, false
		}
		if pm, isP := v.(*ssa.Parameter); isP {
			if b, has := bind[pm]; has {
				return predOf(b, nil, depth+1)
			}
			return "", false, false
		}
		var cl *ssa.Function
		var mc *ssa.MakeClosure
		switch x := v.(type) {
		case *ssa.MakeClosure:
			cl, _ = x.Fn.(*ssa.Function)
			mc = x
		case *ssa.Function:
			cl = x
		}
		if cl == nil || len(cl.Params) != 1 {
			return "", false, false
		}
		crb := an.ReturnBlocks(cl)
		if len(crb) != 1 || len(cl.Blocks) != 1 {
			return "", false, false
		}
		r := an.ReturnValues(an.LastInstr(crb[0]).(*ssa.Return))[0]
		neg := false
		if u, isU := r.(*ssa.UnOp); isU && u.Op == token.NOT {
			neg, r = true, u.X
		}
		// a field of the element (`func(m *ServerOKMsg) bool { return m.Accepted }`)
		if ld, isLd := r.(*ssa.UnOp); isLd && ld.Op == token.MUL {
			if fa, isFA := ld.X.(*ssa.FieldAddr); isFA && fa.X == ssa.Value(cl.Params[0]) {
				return an.FieldName(fa.X.Type(), fa.Field), neg, true
			}
		}
		call, isCall := r.(*ssa.Call)
		if !isCall {
			return "", false, false
		}
		// m.Member(…) on the closure's own parameter
		if call != nil && call.Call.IsInvoke() && call.Call.Value == ssa.Value(cl.Params[0]) {
			return call.Call.Method.Name(), neg, true
		}
		if sc := an.StaticCallee(&call.Call); sc != nil && len(call.Call.Args) > 0 && call.Call.Args[0] == ssa.Value(cl.Params[0]) && sc.Signature.Recv() != nil {
			return sc.Name(), neg, true
		}
		// f(v) with f a captured function value (by value, or — the usual lowering — through the
		// cell the enclosing function spilled its parameter into)
		callee := call.Call.Value
		if ld, isLd := callee.(*ssa.UnOp); isLd && ld.Op == token.MUL {
			callee = ld.X
		}
		if fv, isFV := callee.(*ssa.FreeVar); isFV && mc != nil && len(call.Call.Args) == 1 && call.Call.Args[0] == ssa.Value(cl.Params[0]) {
			for i, f := range cl.FreeVars {
				if f == fv && i < len(mc.Bindings) {
					b := mc.Bindings[i]
					if a, isA := b.(*ssa.Alloc); isA {
						if st := an.StoresTo(a); len(st) == 1 {
							b = st[0].Val
						}
					}
					m, n2, ok2 := predOf(b, bind, depth+1)
					return m, neg != n2, ok2
				}
			}
		}
		return "", false, false
	}
	var eval func(v ssa.Value, list ssa.Value, bind map[*ssa.Parameter]ssa.Value, depth int) (string, string, bool)
	eval = func(v ssa.Value, list ssa.Value, bind map[*ssa.Parameter]ssa.Value, depth int) (string, string, bool) {
		if depth > 4 {
			return "", "", false
		}
		if u, isU := v.(*ssa.UnOp); isU && u.Op == token.NOT {
			q, m, ok := eval(u.X, list, bind, depth+1)
			if !ok {
				return "", "", false
			}
			// !any(p) = all(!p): the atom's polarity is carried in a leading '!'
			nq := map[string]string{"any": "all", "all": "any"}[q]
			if strings.HasPrefix(m, "!") {
				return nq, m[1:], true
			}
			return nq, "!" + m, true
		}
		call, isCall := v.(*ssa.Call)
		if !isCall || len(call.Call.Args) != 2 {
			return "", "", false
		}
		arg0 := call.Call.Args[0]
		if ct, isCT := arg0.(*ssa.ChangeType); isCT {
			arg0 = ct.X
		}
		if pm, isP := arg0.(*ssa.Parameter); isP {
			if b, has := bind[pm]; has {
				arg0 = b
			}
		}
		if arg0 != list {
			return "", "", false
		}
		if strings.HasPrefix(an.CalleeName(&call.Call), "slices.ContainsFunc") {
			m, neg, ok := predOf(call.Call.Args[1], bind, 0)
			if !ok {
				return "", "", false
			}
			if neg {
				m = "!" + m
			}
			return "any", m, true
		}
		// a one-line module helper over (list, predicate)
		h := bodyOf(an.StaticCallee(&call.Call))
		if h == nil || len(h.Blocks) != 1 || len(h.Params) != 2 {
			return "", "", false
		}
		hrv := an.ReturnValues(an.LastInstr(h.Blocks[0]).(*ssa.Return))
		if len(hrv) != 1 {
			return "", "", false
		}
		nb := map[*ssa.Parameter]ssa.Value{h.Params[0]: list, h.Params[1]: call.Call.Args[1]}
		return eval(hrv[0], list, nb, depth+1)
	}
	q, m, okq := eval(v0, list0, nil, 0)
	if !okq || strings.HasPrefix(m, "!") {
		return "", "", false
	}
	return q, m, true
}

func runCombTab(c *core.Ctx) {
	P := c.P
	want := map[string]struct {
		init bool
		op   func(a, b bool) bool
		txt  string
	}{
		"Match":      {false, func(a, b bool) bool { return a || b }, "any member matches"},
		"LimitMatch": {false, func(a, b bool) bool { return a || b }, "any member matches"},
		"Done":       {true, func(a, b bool) bool { return a && b }, "all members are done"},
	}
	for _, name := range []string{"Done", "LimitMatch", "Match"} {
		var fn *ssa.Function
		for _, f := range libFuncs(c) {
			if strings.HasPrefix(f.Name(), name) && strings.Contains(f.String(), "EventLimitMatchers") && f.Parent() == nil && (f.Name() == name || strings.HasPrefix(f.Name(), name+"[")) {
				fn = f
			}
		}
		if fn == nil {
			c.NoAnchor(nil, "EventLimitMatchers."+name)
			continue
		}
		c.CountFuncs(1)
		// the combinator written with the standard library: `slices.ContainsFunc(mm, func(m T) bool {
		// return m.Match(event) })` is "any member", `!slices.ContainsFunc(mm, func(m T) bool { return
		// !m.Done() })` (directly or through a one-line generic helper) is "all members". Both stop at
		// the first decisive member, which LimitMatch (it counts per member) must not do.
		if q, member, okq := quantForm(fn); okq {
			w := want[name]
			wantQ := map[bool]string{false: "any", true: "all"}[w.init]
			c.Check(q == wantQ && member == name && name != "LimitMatch", nil, fname(c, fn), "truth-table", P.Pos(fn.Pos()),
				fmt.Sprintf("%s member answers %s (standard-library quantifier over the receiver): %s", q, member, w.txt),
				fmt.Sprintf("the combinator is '%s member answers %s' (short-circuiting); want '%s' of %s%s", q, member, w.txt, name, map[bool]string{true: ", consulting every member (each counts its own matches)", false: ""}[name == "LimitMatch"]))
			continue
		}
		sem, ok := foldSemantics(fn, name)
		if !ok {
			c.Unknown(nil, fname(c, fn), "truth-table", P.Pos(fn.Pos()), "loop over the members not recognised")
			continue
		}
		w := want[name]
		absorbing := !w.init // OR: true, AND: false
		bs := map[bool]string{true: "T", false: "F"}
		good := true
		var cells []string
		if sem.hasAcc {
			good = sem.init == bs[w.init]
			for _, old := range []bool{false, true} {
				for _, mv := range []bool{false, true} {
					cell := sem.cells[[2]bool{old, mv}]
					e := w.op(old, mv)
					cells = append(cells, fmt.Sprintf("(%v,%v)→%s", old, mv, cell.out))
					switch cell.out {
					case "cont:" + bs[e]:
					case "ret:" + bs[e]:
						// leaving early is sound only once the result is fixed, and only if the
						// remaining members need not be consulted (LimitMatch counts per member)
						if e != absorbing || name == "LimitMatch" {
							good = false
						}
					default:
						good = false
					}
					if name == "LimitMatch" && !cell.consulted {
						good = false
						cells = append(cells, "(member not consulted)")
					}
				}
				if sem.exit[old] != bs[old] {
					good = false
					cells = append(cells, fmt.Sprintf("exit(%v)→%s", old, sem.exit[old]))
				}
			}
		} else {
			// no accumulator: staying in the loop means "identity so far"; the loop's
			// end returns the identity, an absorbing member verdict returns at once
			for _, mv := range []bool{false, true} {
				cell := sem.cells[[2]bool{false, mv}]
				cells = append(cells, fmt.Sprintf("(in-loop,%v)→%s", mv, cell.out))
				if mv == absorbing {
					if cell.out != "ret:"+bs[absorbing] || name == "LimitMatch" {
						good = false
					}
				} else if cell.out != "cont" {
					good = false
				}
			}
			cells = append(cells, "exit→"+sem.exit[false])
			if sem.exit[false] != bs[w.init] {
				good = false
			}
		}
		init := sem.init
		if !sem.hasAcc {
			init = sem.exit[false]
		}
		c.Check(good, nil, fname(c, fn), "truth-table", P.Pos(fn.Pos()), fmt.Sprintf("starts %v; (acc, member) ↦ %s: %s", init, strings.Join(cells, " "), w.txt),
			fmt.Sprintf("combinator starts %v and maps (acc, member) ↦ %s; want start %v and '%s'", init, strings.Join(cells, " "), bs[w.init], w.txt))
	}
	// one member per filter, in order
	ctor := P.Func(P.Root, "NewReqFiltersEventLimitMatcher")
	if ctor == nil {
		c.NoAnchor(nil, "NewReqFiltersEventLimitMatcher")
		return
	}
	// (the constructor may delegate to a variant with more parameters, handing its filter list on as
	// the first argument: `return NewReqFiltersEventLimitMatcherWithLimits(filters, ReqFilterLimits{})`)
	ctor = listCtorBody(P, ctor)
	okCtor := false
	an.Instrs(ctor, func(in ssa.Instruction) {
		st, isSt := in.(*ssa.Store)
		if !isSt {
			return
		}
		ia, isIA := st.Addr.(*ssa.IndexAddr)
		if !isIA {
			return
		}
		call := an.CallOf(st.Val)
		if call == nil || !isMemberCtor(P, call) {
			return
		}
		// ret[i] = NewReqFilterMatcher(filters[i]) with the same range counter
		arg := call.Call.Args[0]
		if u, isU := arg.(*ssa.UnOp); isU {
			if ia2, isIA2 := u.X.(*ssa.IndexAddr); isIA2 && ia2.Index == ia.Index && an.PathOf(ia2.X) == "p:"+ctor.Params[0].Name() {
				if ms, isMS := ia.X.(*ssa.MakeSlice); isMS && an.PathOf(ms.Len) == "len(p:"+ctor.Params[0].Name()+")" {
					okCtor = true
				}
			}
		}
	})
	if !okCtor {
		// built by appending inside a loop over all filters: ret = append(ret, NewReqFilterMatcher(f))
		for _, rb := range an.ReturnBlocks(ctor) {
			rv := an.ReturnValues(an.LastInstr(rb).(*ssa.Return))[0]
			elems, ok := sliceLiteral(rv, 0)
			if !ok || len(elems) != 1 || !elems[0].inLoop || elems[0].spread {
				continue
			}
			call := an.CallOf(elems[0].val)
			if call == nil || !isMemberCtor(P, call) {
				continue
			}
			arg := call.Call.Args[0]
			if u, isU := arg.(*ssa.UnOp); isU {
				if ia, isIA := u.X.(*ssa.IndexAddr); isIA && an.PathOf(ia.X) == "p:"+ctor.Params[0].Name() {
					if all, _ := forAllLoopAt(arg, call.Block()); all {
						okCtor = true
					}
				}
			}
		}
	}
	// a member's limit adjusted after construction (`ret[i].f.Limit = limits.apply(f.Limit)`, relay-side
	// default / maximum): an explicit limit stays a limit — the adjusting function answers nil ("no
	// limit") only for a filter that has none; turning an explicit 0 into nil makes the filter, and with
	// it the list, never exhausted
	an.Instrs(ctor, func(in ssa.Instruction) {
		st, isSt := in.(*ssa.Store)
		if !isSt || !strings.HasSuffix(an.PathOf(st.Addr), ".f.Limit") {
			return
		}
		c.CountSites(1)
		call := an.CallOf(st.Val)
		var h *ssa.Function
		pi := -1
		if call != nil {
			h = an.StaticCallee(&call.Call)
			for i, a := range call.Call.Args {
				if strings.HasSuffix(an.PathOf(a), ".Limit") {
					pi = i
				}
			}
		}
		if h == nil || !P.InModule(h) || pi < 0 || pi >= len(h.Params) {
			c.Bad(nil, fname(c, ctor), "limit-kept", P.Pos(st.Pos()), "a member's limit is overwritten with "+clip(an.PathOf(st.Val), 80)+", which is not derived from the filter's own limit")
			return
		}
		par := h.Params[pi]
		var bad []string
		for _, rb := range an.ReturnBlocks(h) {
			ret := an.LastInstr(rb).(*ssa.Return)
			paths, okP := an.PathsTo(h, rb, 512)
			if !okP {
				bad = append(bad, "too many paths")
				break
			}
			for _, p := range paths {
				if !an.Feasible(p) || !an.IsNilConst(resolveRet(an.ReturnValues(ret)[0], p)) {
					continue
				}
				argNil := false
				for _, cd := range p.Conds() {
					cd = an.NormCond(cd)
					if b, isB := cd.V.(*ssa.BinOp); isB && b.X == ssa.Value(par) && an.IsNilConst(b.Y) && (b.Op == token.EQL) == cd.True {
						argNil = true
					}
				}
				if !argNil {
					bad = append(bad, "returns nil at "+P.Pos(ret.Pos())+" on a path that has not found the filter's limit absent")
				}
			}
		}
		c.Check(len(bad) == 0, nil, fname(c, h), "limit-kept", P.Pos(h.Pos()), "the adjusted limit is nil only for a filter without limit", h.Name()+" can turn an explicit limit into 'no limit': "+strings.Join(bad, "; ")+" — a filter with \"limit\":0 is then never exhausted, and neither is a list containing it")
	})
	c.Check(okCtor, nil, fname(c, ctor), "one-per-filter", P.Pos(ctor.Pos()), "member i is built from filter i, for every filter", "the list matcher is not built with exactly one member per filter (member i from filter i)")
}

// ptrCloneHelper: g(p *T) *T answers nil for nil and otherwise a pointer to a fresh variable that
// holds *p — a private copy of an optional scalar.
func ptrCloneHelper(g *ssa.Function) bool {
	if !an.PrivateHelper(g) || len(g.Params) != 1 || g.Signature.Results().Len() != 1 || len(g.Blocks) == 0 {
		return false
	}
	par := g.Params[0]
	if _, isPtr := par.Type().Underlying().(*types.Pointer); !isPtr || !types.Identical(par.Type(), g.Signature.Results().At(0).Type()) {
		return false
	}
	n := 0
	for _, rb := range an.ReturnBlocks(g) {
		rv := an.ReturnValues(an.LastInstr(rb).(*ssa.Return))[0]
		if an.IsNilConst(rv) {
			// only when the argument is nil
			okNil := false
			for _, gd := range an.Guards(g, rb) {
				gd = an.NormCond(gd)
				if b, ok := gd.V.(*ssa.BinOp); ok && b.X == ssa.Value(par) && an.IsNilConst(b.Y) && (b.Op == token.EQL) == gd.True {
					okNil = true
				}
			}
			if !okNil {
				return false
			}
			continue
		}
		a, ok := rv.(*ssa.Alloc)
		if !ok {
			return false
		}
		sts := an.StoresTo(a)
		if len(sts) != 1 {
			return false
		}
		u, ok := sts[0].Val.(*ssa.UnOp)
		if !ok || u.Op != token.MUL || u.X != ssa.Value(par) {
			return false
		}
		n++
	}
	return n > 0
}

// listCtorBody: fn, or — when fn does nothing but return the result of one module function called
// with fn's first parameter as first argument — that function.
func listCtorBody(P *core.Program, fn *ssa.Function) *ssa.Function {
	for depth := 0; depth < 2; depth++ {
		rbs := an.ReturnBlocks(fn)
		if len(rbs) != 1 || len(fn.Params) == 0 {
			return fn
		}
		rv := an.ReturnValues(an.LastInstr(rbs[0]).(*ssa.Return))
		if len(rv) != 1 {
			return fn
		}
		call, ok := an.Unwrap(rv[0]).(*ssa.Call)
		if !ok {
			return fn
		}
		g := an.StaticCallee(&call.Call)
		if g == nil || !P.InModule(g) || len(call.Call.Args) == 0 || call.Call.Args[0] != ssa.Value(fn.Params[0]) || len(g.Params) == 0 {
			return fn
		}
		fn = g
	}
	return fn
}

// conditionMajorTags: the tag phase written condition by condition. In Match's region a range over
// the filter's condition map (name → listed values) calls, per condition, a private helper with the
// event's tags, the name and the values; the helper answers true only on paths that found a tag whose
// name equals the condition's and whose value the list contains; a false answer forces Match false
// through every level; and the ranging function answers true only after the range was exhausted.
// why != "": the form was recognised but an obligation fails.
func conditionMajorTags(c *core.Ctx, match *ssa.Function, ev string) (bool, string) {
	var rng *ssa.Range
	var rngOcc an.Occ
	an.Region(match, nil, func(o an.Occ) {
		if r, ok := o.In.(*ssa.Range); ok && o.Path(r.X) == "recv.f.Tags" {
			rng, rngOcc = r, o
		}
	})
	if rng == nil || rng.Referrers() == nil {
		return false, ""
	}
	host := rng.Parent()
	var next *ssa.Next
	for _, r := range *rng.Referrers() {
		if n, ok := r.(*ssa.Next); ok {
			next = n
		}
	}
	if next == nil || next.Referrers() == nil {
		return false, ""
	}
	var okEx, nameEx, valsEx *ssa.Extract
	for _, r := range *next.Referrers() {
		if e, ok := r.(*ssa.Extract); ok {
			switch e.Index {
			case 0:
				okEx = e
			case 1:
				nameEx = e
			case 2:
				valsEx = e
			}
		}
	}
	if okEx == nil || nameEx == nil || valsEx == nil {
		return false, "the range does not use both the condition's name and its value list"
	}
	// the per-condition check
	var site *ssa.Call
	ni, vi, ti := -1, -1, -1
	for _, ci := range calls(host) {
		call, ok := ci.(*ssa.Call)
		if !ok || !an.PrivateHelper(an.StaticCallee(&call.Call)) {
			continue
		}
		a, b, t := -1, -1, -1
		for i, arg := range call.Call.Args {
			switch {
			case arg == ssa.Value(nameEx):
				a = i
			case arg == ssa.Value(valsEx):
				b = i
			case strings.HasSuffix(rngOcc.Path(arg), ".Tags") && strings.HasPrefix(rngOcc.Path(arg), ev):
				t = i
			}
		}
		if a >= 0 && b >= 0 && t >= 0 {
			site, ni, vi, ti = call, a, b, t
		}
	}
	if site == nil {
		return false, "no per-condition helper is handed the event's tags, the condition's name and its values"
	}
	h := an.StaticCallee(&site.Call)
	name, vals, tags := "p:"+h.Params[ni].Name(), "p:"+h.Params[vi].Name(), "p:"+h.Params[ti].Name()
	tps, ok := an.ResultPaths(h, 0, true)
	if !ok || len(tps) == 0 {
		return false, "the per-condition helper never answers true"
	}
	for _, tp := range tps {
		nameEq, listed := false, false
		for _, cd := range tp.Conds {
			cd = an.NormCond(cd)
			if b, isB := cd.V.(*ssa.BinOp); isB && (b.Op == token.EQL) == cd.True && (b.Op == token.EQL || b.Op == token.NEQ) {
				x, y := an.PathOf(b.X), an.PathOf(b.Y)
				isTagName := func(p string) bool {
					return p == tags+"[*][0]" || strings.HasSuffix(p, ".Key("+tags+"[*])")
				}
				if (isTagName(x) && y == name) || (isTagName(y) && x == name) {
					nameEq = true
				}
			}
			if lk := memberLookup(cd.V); lk != nil && cd.True && an.PathOf(lk.X) == vals {
				ip := an.PathOf(lk.Index)
				if strings.Contains(ip, tags+"[*][1]") || strings.HasSuffix(ip, ".Value("+tags+"[*])") {
					listed = true
				}
			}
		}
		if !nameEq || !listed {
			return false, fmt.Sprintf("the per-condition helper can answer true without a tag of the condition's name and a listed value (name compared: %v, value looked up: %v)", nameEq, listed)
		}
	}
	// an unsatisfied condition forces "no match" …
	if ok, why := forcesFailure(c, host, site); !ok {
		return false, "an unsatisfied condition does not force 'no match': " + why
	}
	for i := len(rngOcc.Chain) - 1; i >= 0; i-- {
		if ok, why := forcesFailure(c, rngOcc.Chain[i].Parent(), rngOcc.Chain[i]); !ok {
			return false, "the tag phase's verdict does not force Match's: " + why
		}
	}
	// … and "all satisfied" is only said once the range is exhausted
	hps, ok := an.ResultPaths(host, 0, true)
	if !ok || len(hps) == 0 {
		return false, "the tag phase never answers true"
	}
	if host != match {
		for _, hp := range hps {
			exhausted := false
			for _, cd := range hp.Conds {
				if cd.V == ssa.Value(okEx) && !cd.True {
					exhausted = true
				}
			}
			if !exhausted {
				return false, "the tag phase can answer true before every condition was looked at"
			}
		}
	}
	return true, ""
}

// memberLookup: v is m[k] of a map[K]bool (or its comma-ok value): the Lookup.
func memberLookup(v ssa.Value) *ssa.Lookup {
	if lk, ok := v.(*ssa.Lookup); ok {
		return lk
	}
	if ex, ok := v.(*ssa.Extract); ok {
		if lk, ok := ex.Tuple.(*ssa.Lookup); ok {
			return lk
		}
	}
	return nil
}

// isMemberCtor: the call builds one filter's matcher — NewReqFilterMatcher, or the variant with more
// parameters that NewReqFilterMatcher merely forwards to.
func isMemberCtor(P *core.Program, call *ssa.Call) bool {
	if strings.HasSuffix(an.CalleeName(&call.Call), "NewReqFilterMatcher") {
		return true
	}
	f := an.StaticCallee(&call.Call)
	return f != nil && sameFunc(f, P.Func(P.Root, "NewReqFilterMatcher"))
}
