package rules

import (
	"fmt"
	"go/token"
	"go/types"
	"strings"

	"golang.org/x/tools/go/ssa"

	"mocverif/internal/an"
	"mocverif/internal/core"
)

func init() {
	reg(&core.RuleInfo{Name: "MUX-TAB", Props: []string{"C20"}, Engine: "TAB", Floor: 3, Confirmed: 3,
		Doc: "ServeMux decision list: Upgrade → relay; Accept nostr+json → NIP-11; else default", Run: runMuxTab})
	reg(&core.RuleInfo{Name: "HDR-BEFORE-WRITE", Props: []string{"C20"}, Engine: "CFG", Floor: 2, Confirmed: 2,
		Doc: "NIP-11 answers set Content-Type and CORS headers before the first body write", Run: runHdrBeforeWrite})
	reg(&core.RuleInfo{Name: "NIP11-BODY", Props: []string{"C20"}, Engine: "PROV", Floor: 1, Confirmed: 1,
		Doc: "the NIP-11 body is json.Marshal of the configured document", Run: runNip11Body})
	reg(&core.RuleInfo{Name: "KIND-CODEC", Props: []string{"C20"}, Engine: "TAB", Floor: 2, Confirmed: 2,
		Doc: "Nip11Kind encodes single numbers / pairs symmetrically", Run: runKindCodec})
}

const nostrJSON = "application/nostr+json"

// headerGet: v is a call r.Header.Get(name) — returns name.
func headerGet(v ssa.Value) (string, bool) {
	call, ok := v.(*ssa.Call)
	if !ok || an.CalleeName(&call.Call) != "(net/http.Header).Get" {
		return "", false
	}
	return an.ConstStr(call.Call.Args[1])
}

// headerCond describes a guard as "Header <name> <op> <const>".
func headerCond(g an.Cond) (name, op, val string, ok bool) {
	b, isBin := g.V.(*ssa.BinOp)
	if !isBin || (b.Op != token.EQL && b.Op != token.NEQ) {
		return
	}
	eq := (b.Op == token.EQL) == g.True
	op = "=="
	if !eq {
		op = "!="
	}
	if n, k := headerGet(b.X); k {
		if s, k2 := an.ConstStr(b.Y); k2 {
			return n, op, s, true
		}
	}
	if n, k := headerGet(b.Y); k {
		if s, k2 := an.ConstStr(b.X); k2 {
			return n, op, s, true
		}
	}
	return
}

// guardSummary: the header tests that hold on every way to block b — branch
// conditions of fn, and, where fn acts on the answer of a routing helper
// (`switch routeFor(r.Header) {…}`), the helper's own tests for that answer.
func guardSummary(fn *ssa.Function, b *ssa.BasicBlock) []string {
	paths, ok := an.ReachCondsDeep(fn, b)
	if !ok || len(paths) == 0 {
		return nil
	}
	count := map[string]int{}
	var order []string
	for _, cs := range paths {
		seen := map[string]bool{}
		for _, g := range cs {
			if n, op, v, ok := headerCond(g); ok {
				k := fmt.Sprintf("%s%s%q", n, op, v)
				if !seen[k] {
					seen[k] = true
					if count[k] == 0 {
						order = append(order, k)
					}
					count[k]++
				}
			}
		}
	}
	var out []string
	for _, k := range order {
		if count[k] == len(paths) {
			out = append(out, k)
		}
	}
	return out
}

func hasAll(got []string, want ...string) bool {
	set := map[string]bool{}
	for _, g := range got {
		set[g] = true
	}
	for _, w := range want {
		if !set[w] {
			return false
		}
	}
	return true
}

func runMuxTab(c *core.Ctx) {
	P := c.P
	mux := P.Method(P.Root, "ServeMux", "ServeHTTP")
	if mux == nil {
		c.NoAnchor(nil, "ServeMux.ServeHTTP")
		return
	}
	c.CountFuncs(1)
	var relayG, nipG, defG, greetG [][]string
	var relayPos, nipPos, defPos token.Pos
	// the document may be served by a private method of NIP11 that NIP11.ServeHTTP itself
	// hands its writer to (the mux may call it directly once it has tested Accept itself)
	nipServers := map[*ssa.Function]bool{}
	if nip := P.Method(P.Root, "NIP11", "ServeHTTP"); nip != nil {
		for _, ci := range calls(nip) {
			g := an.StaticCallee(ci.Common())
			if g == nil || !an.PrivateHelper(g) || g.Signature.Recv() == nil || len(ci.Common().Args) == 0 || an.PathOf(ci.Common().Args[0]) != "recv" {
				continue
			}
			takesWriter := false
			for _, a := range ci.Common().Args[1:] {
				if an.PathOf(a) == "p:"+nip.Params[1].Name() {
					takesWriter = true
				}
			}
			if takesWriter {
				nipServers[g] = true
			}
		}
	}
	// the dispatch may hand a branch to a private method: the header tests that count
	// are those in front of the call site in ServeHTTP
	an.Region(mux, func(g *ssa.Function) bool { return nipServers[g] }, func(o an.Occ) {
		call, ok := o.In.(*ssa.Call)
		if !ok {
			return
		}
		name := an.CalleeName(&call.Call)
		gs := guardSummary(mux, o.Block())
		switch {
		case strings.HasSuffix(name, "mocrelay.Relay).ServeHTTP") && o.Path(call.Call.Args[0]) == "recv.Relay":
			relayG, relayPos = append(relayG, gs), o.Site().Pos()
		case (strings.HasSuffix(name, "mocrelay.NIP11).ServeHTTP") || nipServers[an.StaticCallee(&call.Call)]) && o.Path(call.Call.Args[0]) == "recv.NIP11":
			nipG, nipPos = append(nipG, gs), o.Site().Pos()
		case name == "invoke:net/http.Handler.ServeHTTP" && o.Path(call.Call.Value) == "recv.Default":
			defG, defPos = append(defG, gs), o.Site().Pos()
		case name == "io.WriteString":
			if statusOnPath(call.Parent(), call) {
				return // an error answer, not the greeting
			}
			if s, ok := an.ConstStr(call.Call.Args[1]); ok && s != "{}" {
				greetG = append(greetG, gs)
				if defPos == token.NoPos {
					defPos = o.Site().Pos()
				}
			}
		}
	})
	// the handler picked into a variable and served once (`switch { case Upgrade != "": h = mux.Relay
	// …}; h.ServeHTTP(w, r)`): each value the variable can hold at the call, with the header tests
	// that lead to it holding that value
	if len(relayG)+len(nipG) == 0 {
		an.Instrs(mux, func(in ssa.Instruction) {
			call, ok := in.(*ssa.Call)
			if !ok || an.CalleeName(&call.Call) != "invoke:net/http.Handler.ServeHTTP" {
				return
			}
			var flatten func(v ssa.Value, acc []string, at *ssa.BasicBlock, depth int)
			flatten = func(v ssa.Value, acc []string, at *ssa.BasicBlock, depth int) {
				if depth > 6 {
					return
				}
				if ph, isPhi := v.(*ssa.Phi); isPhi {
					for i, e := range ph.Edges {
						pred := ph.Block().Preds[i]
						gs := append(append([]string(nil), acc...), guardSummary(mux, pred)...)
						if iff, isIf := an.LastInstr(pred).(*ssa.If); isIf && len(pred.Succs) == 2 && pred.Succs[0] != pred.Succs[1] {
							if n, op, val, okh := headerCond(an.NormCond(an.Cond{V: iff.Cond, True: pred.Succs[0] == ph.Block(), At: pred})); okh {
								gs = append(gs, fmt.Sprintf("%s%s%q", n, op, val))
							}
						}
						flatten(e, gs, pred, depth+1)
					}
					return
				}
				gs := uniq(acc)
				p := an.PathOf(v)
				switch {
				case p == "recv.Relay" || strings.HasSuffix(p, "(recv.Relay)"):
					relayG, relayPos = append(relayG, gs), call.Pos()
				case strings.Contains(p, "recv.NIP11"):
					nipG, nipPos = append(nipG, gs), call.Pos()
				case p == "recv.Default":
					defG, defPos = append(defG, gs), call.Pos()
				default:
					// the greeting: a plain function converted to a handler that writes a constant text
					if f := funcValue(v); f != nil {
						for _, ci := range calls(f) {
							if an.CalleeName(ci.Common()) == "io.WriteString" {
								if s, isS := an.ConstStr(ci.Common().Args[1]); isS && s != "{}" {
									greetG = append(greetG, gs)
								}
							}
						}
					}
				}
			}
			flatten(call.Call.Value, nil, call.Block(), 0)
		})
	}
	c.CountSites(len(relayG) + len(nipG) + len(defG) + len(greetG))
	one := func(gs [][]string, want ...string) bool {
		if len(gs) != 1 {
			return false
		}
		return hasAll(gs[0], want...) && len(gs[0]) == len(want)
	}
	c.Check(one(relayG, `Upgrade!=""`), nil, fname(c, mux), "row:relay", P.Pos(relayPos),
		"Relay.ServeHTTP is reached iff Upgrade != \"\"", fmt.Sprintf("Relay.ServeHTTP guards = %v, want exactly [Upgrade!=\"\"]", relayG))
	c.Check(one(nipG, `Upgrade==""`, `Accept=="`+nostrJSON+`"`), nil, fname(c, mux), "row:nip11", P.Pos(nipPos),
		"NIP11.ServeHTTP is reached iff no Upgrade and Accept == application/nostr+json", fmt.Sprintf("NIP11.ServeHTTP guards = %v, want [Upgrade==\"\" Accept==%q]", nipG, nostrJSON))
	okDef := one(defG, `Upgrade==""`, `Accept!="`+nostrJSON+`"`) && one(greetG, `Upgrade==""`, `Accept!="`+nostrJSON+`"`)
	c.Check(okDef, nil, fname(c, mux), "row:default", P.Pos(defPos),
		"Default handler / greeting are reached iff no Upgrade and Accept != application/nostr+json", fmt.Sprintf("default guards = %v, greeting guards = %v", defG, greetG))
}

// headerSets lists calls w.Header().Add/Set(name, value) in fn as name→(value, instr).
type hdrSet struct {
	name, val string
	in        ssa.Instruction
}

func headerSets(fn *ssa.Function) []hdrSet { return headerSetsDepth(fn, 0) }

func headerSetsDepth(fn *ssa.Function, depth int) []hdrSet {
	var out []hdrSet
	for _, ci := range calls(fn) {
		call, ok := ci.(*ssa.Call)
		if !ok {
			continue
		}
		name := an.CalleeName(&call.Call)
		// a module helper that is handed the writer and sets headers on it on all its paths
		if g := an.StaticCallee(&call.Call); g != nil && depth < 2 && len(g.Blocks) > 0 && g.Pkg != nil && strings.HasPrefix(g.Pkg.Pkg.Path(), an.ModulePrefix) && len(g.Params) == len(call.Call.Args) {
			for _, h := range headerSetsDepth(g, depth+1) {
				hc, isCall := h.in.(*ssa.Call)
				if !isCall {
					continue
				}
				always := true
				for _, rb := range an.ReturnBlocks(g) {
					if !(h.in.Block() == rb || h.in.Block().Dominates(rb)) {
						always = false
					}
				}
				recv := an.PathOfIn(hc.Call.Args[0], &call.Call)
				if depth > 0 {
					recv = an.PathOf(hc.Call.Args[0])
				}
				// the helper may be handed the header map instead of the writer
				// (`addHeaders(w.Header())`): its parameter is the caller's argument
				if pr, isParam := hc.Call.Args[0].(*ssa.Parameter); isParam && an.CalleeName(&hc.Call) != "" {
					for i, q := range g.Params {
						if q == pr && i < len(call.Call.Args) {
							recv = an.PathOf(call.Call.Args[i])
						}
					}
				}
				if always && strings.HasPrefix(recv, "call:invoke:net/http.ResponseWriter.Header(p:") {
					out = append(out, hdrSet{h.name, h.val, call})
				}
			}
			continue
		}
		if name != "(net/http.Header).Add" && name != "(net/http.Header).Set" {
			continue
		}
		n, ok1 := an.ConstStr(call.Call.Args[1])
		v, ok2 := an.ConstStr(call.Call.Args[2])
		if ok1 && ok2 && strings.Contains(an.PathOf(call.Call.Args[0]), "ResponseWriter.Header") {
			out = append(out, hdrSet{n, v, call})
		} else if _, isParam := call.Call.Args[0].(*ssa.Parameter); ok1 && ok2 && isParam && depth > 0 {
			// inside a helper: the header map is a parameter, judged at the call site
			out = append(out, hdrSet{n, v, call})
		}
	}
	return out
}

// bodyWrites: calls that write a body to the http.ResponseWriter parameter.
func bodyWrites(fn *ssa.Function) []*ssa.Call {
	var out []*ssa.Call
	for _, ci := range calls(fn) {
		call, ok := ci.(*ssa.Call)
		if !ok {
			continue
		}
		name := an.CalleeName(&call.Call)
		switch {
		case name == "io.WriteString" && strings.HasPrefix(an.PathOf(call.Call.Args[0]), "p:"):
			out = append(out, call)
		case name == "invoke:net/http.ResponseWriter.Write":
			out = append(out, call)
		case strings.HasPrefix(name, "fmt.Fprint") && strings.HasPrefix(an.PathOf(call.Call.Args[0]), "p:"):
			out = append(out, call)
		}
	}
	return out
}

func isBodyWrite(w *ssa.Call) bool {
	for _, bw := range bodyWrites(w.Parent()) {
		if bw == w {
			return true
		}
	}
	return false
}

func statusOnPath(fn *ssa.Function, w *ssa.Call) bool {
	// a WriteHeader call with a non-200 status dominating the write
	for _, ci := range calls(fn) {
		call, ok := ci.(*ssa.Call)
		if !ok || an.CalleeName(&call.Call) != "invoke:net/http.ResponseWriter.WriteHeader" {
			continue
		}
		if k, ok := an.ConstInt(call.Call.Args[0]); ok && k != 200 && an.InstrDominates(call, w) {
			return true
		}
	}
	return false
}

func runHdrBeforeWrite(c *core.Ctx) {
	P := c.P
	mux := P.Method(P.Root, "ServeMux", "ServeHTTP")
	nip := P.Method(P.Root, "NIP11", "ServeHTTP")
	if mux == nil || nip == nil {
		c.NoAnchor(nil, "ServeMux.ServeHTTP / NIP11.ServeHTTP")
		return
	}
	c.CountFuncs(2)
	check := func(fn *ssa.Function, w *ssa.Call, construct string) {
		c.CountSites(1)
		ct, cors := false, false
		for _, h := range headerSets(fn) {
			if !an.InstrDominates(h.in, w) {
				continue
			}
			if strings.EqualFold(h.name, "Content-Type") && h.val == nostrJSON {
				ct = true
			}
			if strings.EqualFold(h.name, "Access-Control-Allow-Origin") && h.val == "*" {
				cors = true
			}
		}
		c.Check(ct && cors, nil, fname(c, fn), construct, P.Pos(w.Pos()),
			"body write preceded by Content-Type: application/nostr+json and Access-Control-Allow-Origin: *",
			fmt.Sprintf("status-200 body write not preceded by both headers (Content-Type nostr+json set before: %v, CORS * set before: %v): the answer is served with a sniffed Content-Type / without CORS", ct, cors))
	}
	n := 0
	sharedDone := false
	checked := map[*ssa.Call]bool{}
	// the document may be written by a private method ServeHTTP hands the writer to
	an.Region(nip, nil, func(o an.Occ) {
		w, isCall := o.In.(*ssa.Call)
		if !isCall || !isBodyWrite(w) || statusOnPath(w.Parent(), w) {
			return
		}
		n++
		checked[w] = true
		check(w.Parent(), w, "document/write")
	})
	// body writes of the mux itself inside the NIP-11 branch
	an.Region(mux, nil, func(o an.Occ) {
		w, isCall := o.In.(*ssa.Call)
		if !isCall {
			return
		}
		if !isBodyWrite(w) || statusOnPath(w.Parent(), w) {
			return
		}
		gs := guardSummary(mux, o.Block())
		if checked[w] {
			// the mux's own answer written by the helper that writes the document (`writeNIP11(w, body)`):
			// the same write behind the same headers, checked above
			if hasAll(gs, `Accept=="`+nostrJSON+`"`) && !sharedDone {
				sharedDone = true
				n++
				c.Trivial(nil, fname(c, mux), "branch:nostr+json/write", P.Pos(o.Site().Pos()), "the mux answers through the helper that writes the document: the same write, the same headers")
			}
			return
		}
		if hasAll(gs, `Accept=="`+nostrJSON+`"`) {
			n++
			check(w.Parent(), w, "branch:nostr+json/write")
		}
	})
	if n == 0 {
		c.Unknown(nil, fname(c, nip), "document/write", P.Pos(nip.Pos()), "no status-200 body write found on the NIP-11 path")
	}
	// the mux writes no document of its own: the empty-document answer is NIP11.ServeHTTP of an empty
	// document (`cmp.Or(mux.NIP11, &NIP11{})`), whose write was checked above
	if n == 1 {
		delegates := false
		an.Instrs(mux, func(in ssa.Instruction) {
			if a, ok := in.(*ssa.Alloc); ok && a.Heap && typeNameOf(a.Type()) == "NIP11" {
				delegates = true
			}
		})
		if delegates {
			c.Trivial(nil, fname(c, mux), "branch:nostr+json/write", P.Pos(mux.Pos()), "without a configured document the mux serves an empty NIP11 value through NIP11.ServeHTTP: the same write, the same headers")
		}
	}
}

func runNip11Body(c *core.Ctx) {
	P := c.P
	nip := P.Method(P.Root, "NIP11", "ServeHTTP")
	if nip == nil {
		c.NoAnchor(nil, "NIP11.ServeHTTP")
		return
	}
	c.CountFuncs(1)
	ok := false
	var pos token.Pos
	nWrites, nGood := 0, 0
	an.Region(nip, nil, func(o an.Occ) {
		w, isCall := o.In.(*ssa.Call)
		if !isCall || !isBodyWrite(w) || statusOnPath(w.Parent(), w) {
			return
		}
		nWrites++
		pos = w.Pos()
		arg := w.Call.Args[len(w.Call.Args)-1]
		if o.Path(arg) == "call:encoding/json.Marshal(recv)#0" {
			// and only on the err == nil edge (tested where the document was marshalled: in the handler
			// itself when the write sits in a helper that is handed the bytes)
			for _, g := range an.Guards(w.Parent(), w.Block()) {
				if b, isBin := g.V.(*ssa.BinOp); isBin && strings.Contains(o.Path(b), "call:encoding/json.Marshal(recv)#1") {
					if (b.Op == token.NEQ) == !g.True {
						nGood++
						return
					}
				}
			}
			if len(o.Chain) > 0 {
				site := o.Chain[0]
				for _, g := range an.Guards(site.Parent(), site.Block()) {
					if b, isBin := g.V.(*ssa.BinOp); isBin && strings.Contains(an.PathOf(b), "call:encoding/json.Marshal(recv)#1") {
						if (b.Op == token.NEQ) == !g.True {
							nGood++
							return
						}
					}
				}
			}
		}
	})
	ok = nWrites > 0 && nGood == nWrites
	c.Check(ok, nil, fname(c, nip), "document/body", P.Pos(pos), "the status-200 body is json.Marshal(receiver) on its err == nil edge", "the status-200 body is not json.Marshal of the configured document")
}

// KIND-CODEC: the encoder writes a single number iff From == To, else a
// 2-element array [From, To]; the decoder accepts a number (From = To = n)
// or exactly 2 numbers (From, To in that order).
func runKindCodec(c *core.Ctx) {
	P := c.P
	enc := P.Method(P.Root, "Nip11Kind", "MarshalJSON")
	dec := P.Method(P.Root, "Nip11Kind", "UnmarshalJSON")
	if enc == nil || dec == nil {
		c.NoAnchor(nil, "Nip11Kind.MarshalJSON / UnmarshalJSON")
		return
	}
	c.CountFuncs(2)
	// encoder
	// every way of reaching an encoder call: which value is encoded under which
	// outcome of the From == To test (the value may be chosen into a variable first)
	single, pair := false, false
	encBad := false
	for _, o := range an.RegionCalls(enc, nil, "encoding/json.Marshal") {
		call := o.In.(*ssa.Call)
		paths, _ := an.PathsTo(enc, o.Block(), 256)
		for _, p := range paths {
			if !an.Feasible(p) {
				continue
			}
			v := an.Unwrap(o.Resolve(call.Call.Args[0]))
			for i := 0; i < 4; i++ {
				ph, ok := v.(*ssa.Phi)
				if !ok {
					break
				}
				pred := p.Pred(ph.Block())
				for j, pb := range ph.Block().Preds {
					if pb == pred {
						v = ph.Edges[j]
					}
				}
			}
			eqGuard := ""
			for _, g := range p.Conds() {
				g = an.NormCond(g)
				if b, ok := g.V.(*ssa.BinOp); ok && (b.Op == token.EQL || b.Op == token.NEQ) {
					x, y := an.PathOf(b.X), an.PathOf(b.Y)
					if (strings.HasSuffix(x, ".From") && strings.HasSuffix(y, ".To")) || (strings.HasSuffix(x, ".To") && strings.HasSuffix(y, ".From")) {
						if (b.Op == token.EQL) == g.True {
							eqGuard = "eq"
						} else {
							eqGuard = "ne"
						}
					}
				}
			}
			switch eqGuard {
			case "eq":
				if strings.HasSuffix(an.PathOf(v), ".From") || strings.HasSuffix(an.PathOf(v), ".To") {
					single = true
				} else {
					encBad = true
				}
			case "ne":
				if elems, ok := sliceLitElems(v); ok && len(elems) == 2 && strings.HasSuffix(an.PathOf(elems[0]), ".From") && strings.HasSuffix(an.PathOf(elems[1]), ".To") {
					pair = true
				} else {
					encBad = true
				}
			default:
				encBad = true
			}
		}
	}
	// the same two shapes written byte by byte (`strconv.AppendInt`, `append(buf, '[')`, …):
	// every successful return is read as the sequence of literals and numbers it was built from
	for _, rb := range an.ReturnBlocks(enc) {
		ret, isRet := an.LastInstr(rb).(*ssa.Return)
		if !isRet || len(ret.Results) != 2 {
			continue
		}
		if k, isConst := ret.Results[1].(*ssa.Const); !isConst || !k.IsNil() {
			continue
		}
		paths, _ := an.PathsTo(enc, rb, 256)
		for _, p := range paths {
			if !an.Feasible(p) {
				continue
			}
			v := ret.Results[0]
			for i := 0; i < 4; i++ {
				ph, ok := v.(*ssa.Phi)
				if !ok {
					break
				}
				if e := an.PhiOnPath(ph, p); e != nil {
					v = e
				} else {
					break
				}
			}
			seq, ok := kindBytes(v, 0)
			if !ok {
				continue // not built by hand: the json.Marshal reading above applies
			}
			eqGuard := ""
			for _, g := range p.Conds() {
				g = an.NormCond(g)
				if b, ok := g.V.(*ssa.BinOp); ok && (b.Op == token.EQL || b.Op == token.NEQ) {
					x, y := an.PathOf(b.X), an.PathOf(b.Y)
					if (strings.HasSuffix(x, ".From") && strings.HasSuffix(y, ".To")) || (strings.HasSuffix(x, ".To") && strings.HasSuffix(y, ".From")) {
						if (b.Op == token.EQL) == g.True {
							eqGuard = "eq"
						} else {
							eqGuard = "ne"
						}
					}
				}
			}
			isNum := func(t, field string) bool { return strings.HasPrefix(t, "num:") && strings.HasSuffix(t, field) }
			switch {
			case eqGuard == "eq" && len(seq) == 1 && (isNum(seq[0], ".From") || isNum(seq[0], ".To")):
				single = true
			case eqGuard == "ne" && len(seq) == 5 && seq[0] == "lit:[" && isNum(seq[1], ".From") && seq[2] == "lit:," && isNum(seq[3], ".To") && seq[4] == "lit:]":
				pair = true
			default:
				encBad = true
			}
		}
	}
	if encBad {
		single, pair = single && false, pair && false
	}
	c.Check(single && pair, nil, fname(c, enc), "encode", P.Pos(enc.Pos()), "From == To ⇒ the number From; otherwise the array [From, To]", fmt.Sprintf("encoder shape not [single number iff From==To: %v; pair [From,To] otherwise: %v]", single, pair))
	// decoder: stores to ret.From / ret.To
	type st struct{ from, to string }
	var stores []string
	okNum, okArr := false, false
	byBlock := map[*ssa.BasicBlock]*st{}
	an.Instrs(dec, func(in ssa.Instruction) {
		s, ok := in.(*ssa.Store)
		if !ok {
			return
		}
		ap := an.PathOf(s.Addr)
		if !strings.HasSuffix(ap, ".From") && !strings.HasSuffix(ap, ".To") {
			return
		}
		e := byBlock[s.Block()]
		if e == nil {
			e = &st{}
			byBlock[s.Block()] = e
		}
		if strings.HasSuffix(ap, ".From") {
			e.from = an.PathOf(s.Val)
		} else {
			e.to = an.PathOf(s.Val)
		}
	})
	for b, e := range byBlock {
		stores = append(stores, e.from+" / "+e.to)
		if e.from == e.to && strings.Contains(e.from, "Number).Int64") {
			okNum = true
		}
		// the number read by a private helper (`parseKindNumber(v)`): accepted when the helper turns every
		// integer the encoder can write into the same int and refuses nothing else than a non-number
		if e.from == e.to && strings.HasPrefix(e.from, "call:") && strings.HasSuffix(e.from, "#0") {
			an.Instrs(dec, func(in ssa.Instruction) {
				if s, ok := in.(*ssa.Store); ok && s.Block() == b {
					if ex, ok := s.Val.(*ssa.Extract); ok && ex.Index == 0 {
						if call, ok := ex.Tuple.(*ssa.Call); ok && faithfulNumberHelper(an.StaticCallee(&call.Call)) {
							okNum = true
						}
					}
				}
			})
		}
		if e.from != e.to && strings.Contains(e.from, "[0]") && strings.Contains(e.to, "[1]") {
			// guarded by len(v) == 2
			for _, g := range an.Guards(dec, b) {
				if bin, ok := g.V.(*ssa.BinOp); ok && strings.HasPrefix(an.PathOf(bin.X), "len(") {
					if k, ok := an.ConstInt(bin.Y); ok && k == 2 && ((bin.Op == token.NEQ && !g.True) || (bin.Op == token.EQL && g.True)) {
						okArr = true
					}
				}
			}
		}
	}
	if !(okNum && okArr) {
		// the same read path by path: the bounds may be per-clause variables put together once
		// at the end (`*k = Nip11Kind{From: from, To: to}`)
		pn, pa, bad := kindDecodePaths(dec)
		if !bad && pn && pa {
			okNum, okArr = true, true
		}
	}
	c.Check(okNum && okArr, nil, fname(c, dec), "decode", P.Pos(dec.Pos()), "number n ⇒ From = To = n; array of exactly 2 ⇒ From = v[0], To = v[1]", fmt.Sprintf("decoder shape not recognised as the inverse of the encoder (number: %v, pair: %v; stores: %v)", okNum, okArr, stores))
}

// kindBytes reads a []byte / string value built by hand as the sequence of its parts:
// "lit:<text>" for constant bytes (adjacent ones joined) and "num:<access path>" for a
// decimal rendering of an integer (strconv.AppendInt/FormatInt base 10, strconv.Itoa).
func kindBytes(v ssa.Value, depth int) ([]string, bool) {
	if depth > 12 {
		return nil, false
	}
	join := func(a, b []string) []string {
		out := append([]string{}, a...)
		for _, t := range b {
			if n := len(out); n > 0 && strings.HasPrefix(out[n-1], "lit:") && strings.HasPrefix(t, "lit:") {
				out[n-1] += strings.TrimPrefix(t, "lit:")
			} else {
				out = append(out, t)
			}
		}
		return out
	}
	switch x := v.(type) {
	case *ssa.Const:
		if x.IsNil() {
			return nil, true
		}
		if s, ok := an.ConstStr(x); ok {
			if s == "" {
				return nil, true
			}
			return []string{"lit:" + s}, true
		}
		return nil, false
	case *ssa.MakeSlice:
		if k, ok := an.ConstInt(x.Len); ok && k == 0 {
			return nil, true
		}
		return nil, false
	case *ssa.Slice:
		// make([]byte, 0, K) with constant K: `slice (new [K]byte)[:0]`
		if k, ok := an.ConstInt(x.High); ok && x.High != nil && k == 0 && x.Low == nil {
			return nil, true
		}
		return nil, false
	case *ssa.ChangeType:
		return kindBytes(x.X, depth+1)
	case *ssa.Convert:
		// []byte(string) and string([]byte)
		return kindBytes(x.X, depth+1)
	case *ssa.BinOp:
		if x.Op != token.ADD {
			return nil, false
		}
		a, ok1 := kindBytes(x.X, depth+1)
		b, ok2 := kindBytes(x.Y, depth+1)
		return join(a, b), ok1 && ok2
	case *ssa.Call:
		base10 := func(i int) bool {
			k, ok := an.ConstInt(x.Call.Args[i])
			return ok && k == 10
		}
		switch an.CalleeName(&x.Call) {
		case "strconv.AppendInt", "strconv.AppendUint":
			dst, ok := kindBytes(x.Call.Args[0], depth+1)
			if !ok || !base10(2) {
				return nil, false
			}
			return join(dst, []string{"num:" + an.PathOf(x.Call.Args[1])}), true
		case "strconv.FormatInt", "strconv.FormatUint":
			if !base10(1) {
				return nil, false
			}
			return []string{"num:" + an.PathOf(x.Call.Args[0])}, true
		case "strconv.Itoa":
			return []string{"num:" + an.PathOf(x.Call.Args[0])}, true
		}
		if b, ok := x.Call.Value.(*ssa.Builtin); ok && b.Name() == "append" && len(x.Call.Args) == 2 {
			dst, ok := kindBytes(x.Call.Args[0], depth+1)
			if !ok {
				return nil, false
			}
			if elems, ok := an.VariadicElems(x.Call.Args[1]); ok {
				var lits []string
				for _, e := range elems {
					k, isK := an.ConstInt(e)
					if !isK || k < 0 || k > 127 {
						return nil, false
					}
					lits = append(lits, "lit:"+string(rune(k)))
				}
				return join(dst, lits), true
			}
			// append(dst, "text"...) / append(dst, other...)
			rest, ok := kindBytes(x.Call.Args[1], depth+1)
			return join(dst, rest), ok
		}
	}
	return nil, false
}

// sliceLitElems: elements of a slice literal []T{a, b, …} (new [n]T; stores; slice).
func sliceLitElems(v ssa.Value) ([]ssa.Value, bool) {
	v = an.Unwrap(v)
	if mi, ok := v.(*ssa.MakeInterface); ok {
		v = mi.X
	}
	// an array literal handed over by value (`[2]int{k.From, k.To}`): the same JSON as the slice
	if ld, ok := v.(*ssa.UnOp); ok && ld.Op == token.MUL {
		if a, isA := ld.X.(*ssa.Alloc); isA {
			if arr, isArr := a.Type().(*types.Pointer).Elem().Underlying().(*types.Array); isArr && a.Referrers() != nil {
				elems := make([]ssa.Value, arr.Len())
				n := 0
				for _, r := range *a.Referrers() {
					ia, isIA := r.(*ssa.IndexAddr)
					if !isIA || ia.Referrers() == nil {
						continue
					}
					k, isK := an.ConstInt(ia.Index)
					if !isK || k < 0 || k >= arr.Len() {
						return nil, false
					}
					for _, r2 := range *ia.Referrers() {
						if st, isSt := r2.(*ssa.Store); isSt && st.Addr == ssa.Value(ia) {
							if elems[k] == nil {
								n++
							}
							elems[k] = st.Val
						}
					}
				}
				if int64(n) == arr.Len() {
					return elems, true
				}
				return nil, false
			}
		}
	}
	return an.VariadicElems(v)
}

// kindDecodePaths: on every path of the decoder that succeeds after a type clause, what ends
// up in From and To. number clause: the same Int64 of the number in both; array clause:
// element 0 and element 1, behind len == 2. bad: a succeeding clause path that is neither.
func kindDecodePaths(dec *ssa.Function) (number, array, bad bool) {
	var stores []*ssa.Store
	an.Instrs(dec, func(in ssa.Instruction) {
		if s, ok := in.(*ssa.Store); ok {
			if ap := an.PathOf(s.Addr); strings.HasSuffix(ap, ".From") || strings.HasSuffix(ap, ".To") {
				stores = append(stores, s)
			}
		}
	})
	for _, rb := range an.ReturnBlocks(dec) {
		rv := an.ReturnValues(an.LastInstr(rb).(*ssa.Return))
		if len(rv) == 0 || !an.IsNilConst(rv[len(rv)-1]) {
			continue
		}
		paths, ok := an.PathsTo(dec, rb, 2048)
		if !ok {
			return false, false, true
		}
		for _, p := range paths {
			if !an.Feasible(p) {
				continue
			}
			// which clause?
			clause := ""
			len2 := false
			for _, cd := range p.Conds() {
				cd = an.NormCond(cd)
				if ex, isEx := cd.V.(*ssa.Extract); isEx && cd.True && ex.Index == 1 {
					if ta, isTA := ex.Tuple.(*ssa.TypeAssert); isTA {
						switch t := ta.AssertedType.String(); {
						case strings.HasSuffix(t, "json.Number"):
							clause = "number"
						case t == "[]interface{}" || t == "[]any":
							clause = "array"
						}
					}
				}
				if bin, isB := cd.V.(*ssa.BinOp); isB && strings.HasPrefix(an.PathOf(bin.X), "len(") {
					if k, isK := an.ConstInt(bin.Y); isK && k == 2 && (bin.Op == token.EQL) == cd.True && (bin.Op == token.EQL || bin.Op == token.NEQ) {
						len2 = true
					}
				}
			}
			if clause == "" {
				continue // other JSON values: the zero kind, not this rule's business
			}
			// the last stores to From / To on this path
			var from, to ssa.Value
			for _, b := range p {
				for _, in := range b.Instrs {
					for _, s := range stores {
						if in == ssa.Instruction(s) {
							if strings.HasSuffix(an.PathOf(s.Addr), ".From") {
								from = an.PhiOnPath(s.Val, p)
							} else {
								to = an.PhiOnPath(s.Val, p)
							}
						}
					}
				}
			}
			if from == nil || to == nil {
				return false, false, true
			}
			fp, tp := an.PathOf(from), an.PathOf(to)
			switch clause {
			case "number":
				if fp == tp && strings.Contains(fp, "Number).Int64") {
					number = true
				} else {
					bad = true
				}
			case "array":
				if len2 && fp != tp && strings.Contains(fp, "[0]") && strings.Contains(tp, "[1]") && strings.Contains(fp, "Number).Int64") && strings.Contains(tp, "Number).Int64") {
					array = true
				} else {
					bad = true
				}
			}
		}
	}
	return
}

// faithfulNumberHelper: g(v any) (int, error) returns, for a json.Number, exactly the integer it
// spells — `n.Int64()` or `strconv.ParseInt(n.String(), 10, 64)` converted to int — and reports an
// error only when v is not a number or the parse failed; no further range is imposed (the encoder
// writes whatever the configuration holds, so a narrower reader cannot read back every document).
func faithfulNumberHelper(g *ssa.Function) bool {
	if !an.PrivateHelper(g) || g.Signature.Results().Len() != 2 || len(g.Blocks) == 0 {
		return false
	}
	var parse *ssa.Call
	an.Instrs(g, func(in ssa.Instruction) {
		call, ok := in.(*ssa.Call)
		if !ok {
			return
		}
		switch an.CalleeName(&call.Call) {
		case "strconv.ParseInt":
			base, ok1 := an.ConstInt(call.Call.Args[1])
			bits, ok2 := an.ConstInt(call.Call.Args[2])
			if ok1 && ok2 && base == 10 && (bits == 64 || bits == 0) && strings.Contains(an.PathOf(call.Call.Args[0]), "Number).String(") {
				parse = call
			}
		case "(encoding/json.Number).Int64":
			parse = call
		}
	})
	if parse == nil {
		return false
	}
	nOK := 0
	for _, rb := range an.ReturnBlocks(g) {
		ret := an.LastInstr(rb).(*ssa.Return)
		paths, ok := an.PathsTo(g, rb, 256)
		if !ok {
			return false
		}
		for _, p := range paths {
			if !an.Feasible(p) {
				continue
			}
			rvs := an.ReturnValues(ret)
			if an.IsNilConst(resolveRet(rvs[1], p)) {
				// success: the parsed value, converted
				v := resolveRet(rvs[0], p)
				if cv, ok := v.(*ssa.Convert); ok {
					v = cv.X
				}
				ex, ok := v.(*ssa.Extract)
				if !ok || ex.Tuple != ssa.Value(parse) || ex.Index != 0 {
					return false
				}
				nOK++
				continue
			}
			// failure: not a number, or the parse failed
			why := false
			for _, cd := range p.Conds() {
				cd = an.NormCond(cd)
				if ex, ok := cd.V.(*ssa.Extract); ok && ex.Index == 1 && !cd.True {
					if _, isTA := ex.Tuple.(*ssa.TypeAssert); isTA {
						why = true
					}
				}
				if b, ok := cd.V.(*ssa.BinOp); ok && an.IsNilConst(b.Y) && (b.Op == token.NEQ) == cd.True {
					if ex, ok := b.X.(*ssa.Extract); ok && ex.Tuple == ssa.Value(parse) && ex.Index == 1 {
						why = true
					}
				}
			}
			if !why {
				return false
			}
		}
	}
	return nOK > 0
}
