// Package rules holds the repository-specific rules (DESIGN.md §5/§6).
package rules

import (
	"sort"

	"mocverif/internal/core"
)

// All is the rule catalogue, filled by init functions of the rule files.
var All []*core.RuleInfo

func reg(r *core.RuleInfo) { All = append(All, r) }

// Sorted returns the catalogue in name order (init order is file order).
func Sorted() []*core.RuleInfo {
	out := append([]*core.RuleInfo(nil), All...)
	sort.SliceStable(out, func(i, j int) bool { return out[i].Name < out[j].Name })
	return out
}

type PropInfo struct {
	ID          string
	Explanation string
	NotDecided  string
	Assumptions []string
}

// ownershipClause: shared by every property (rules/own.go).
const ownershipClause = " For every schedule: memory that is recycled in code this property's entry points reach has one owner at a time — nothing aliasing a sync.Pool object outlives its Put and it is put back once (POOL-OWN), what atomic.Pointer.Load returns is only read (ATOMIC-OWN), a slice handed over through a channel is not refilled by the sender unless it came back or the ring has at least cap+2 buffers (HANDOFF-OWN), a guarded container handed out of its critical section is moved out, not shared (LOCK-ESCAPE). And one belief-contradiction check over the same code: a package-level error variable of the module is not compared with == / != where the compared value can carry it only wrapped (SENTINEL-IS), and the answer of an index search is not tested with > 0 / <= 0 (INDEX-TEST)."

func PropByID(id string) *PropInfo {
	for i := range Props {
		if Props[i].ID == id {
			p := Props[i]
			p.Explanation += ownershipClause
			return &p
		}
	}
	return nil
}

var commonTrust = []string{
	"go/packages, go/types, go/ssa and the x/tools call graphs (CHA is sound for non-reflective calls) model the program faithfully",
	"library functions do not retain or mutate pointer arguments beyond their documented contract",
}

func trust(extra ...string) []string { return append(append([]string(nil), commonTrust...), extra...) }

// Props: per property, the S-clauses decided and the B-clauses not decided.
var Props = []PropInfo{
	{ID: "C01",
		Explanation: "Structural necessary conditions of event authenticity, decided on every path of Event.Serialize / Event.Verify / the relay's read gate: the hashed bytes are built from exactly [0,pubkey,created_at,kind,tags,content] of the receiver in that order (SER-1); no encoder on that path emits an escape NIP-01 forbids (SER-2: no stdlib JSON string encoder; the hand-written escape table equals the seven NIP-01 escapes, other C0 as \\u00xx); Verify can return true only behind the id equality over whole values and only as the result of schnorr Verify fed from the right fields (VER-1); the relay forwards an EVENT to the handler only on Verify's true/no-error edge (GATE-CHAIN).",
		NotDecided:  "SHA-256 and BIP-340 arithmetic (trusted libraries); per-character output of the escaper beyond its escape table and control-range branch.",
		Assumptions: trust("crypto/sha256, encoding/hex and btcec/schnorr implement their specifications", "encoding/json escapes <,>,& (unless disabled) and always U+2028/U+2029 (checked in Go 1.23 source)")},
	{ID: "C02",
		Explanation: "Structural necessary conditions of NIP-01 matching: every ReqFilter field is consumed by the matcher (FLT-EXH); presence of a list condition is its nil-ness, never its length (FLT-NIL); the since/until reject sets are (-inf,since) and (until,+inf), i.e. both bounds inclusive (FLT-BND, interval domain over all integers); Done is exactly 'limit present and cnt >= limit' and cnt advances only by +1 on a match (LIM-DONE); the OR over filters calls every member's counting matcher on every iteration (OR-NOSC); tag value reads accept any arity >= 2 (TAG-ARITY).",
		NotDecided:  "that the conjunction/disjunction computes NIP-01 for all event x filter pairs; map lookup correctness.",
		Assumptions: trust()},
	{ID: "C03",
		Explanation: "Structural necessary conditions of query = spec over the retained set: the map, the creation-time tree and the secondary index are inserted/deleted together under the same control conditions and for the same event (IDX-COUPD); index key value types agree between the event side and the filter side per key kind (IDX-KEYTYPE); the full-scan predicate tests exactly the fields that contribute index keys (IDX-SCAN); the index path consumes all seven filter fields (FLT-EXH) with nil-presence (FLT-NIL); tree comparator orders newest first and iteration/trim/eviction ends agree with it (ORD-DESC); the index path trims on cnt > limit from the oldest end and the scan path consults Done before and counts with LimitMatch (TOPK-BND, SCAN-LIMIT); all access happens under the store lock (LOCK-GUARD).",
		NotDecided:  "result content equality, top-k correctness and de-duplication for concrete histories.",
		Assumptions: trust("igrmk/treemap Set/Del/Iterator/Reverse semantics")},
	{ID: "C04",
		Explanation: "Structural necessary conditions of retention: the kind partition of Event.EventType equals the statement's table over all integers (KIND-PART); the storage key of every stored class carries the id (regular) or kind+pubkey(+d) (replaceable/addressable) on every return path and ephemeral events never reach the store (KEY-CLASS); strictly older never displaces and strictly newer always does (NEWEST-WINS, interval domain); the capacity test len > Cap lies on every path from a successful insertion to 'return true' and evicts from the oldest end (CAP-GUARD); Add returns false only for suppression or a failed insertion (ADD-FLAG); the three structures change together (IDX-COUPD).",
		NotDecided:  "step-by-step refinement of concrete histories; tie-break at equal timestamps (left open by the statement).",
		Assumptions: trust("igrmk/treemap semantics")},
	{ID: "C05",
		Explanation: "Structural necessary conditions of author isolation: no stored key lacks an author/id component (KEY-CLASS); the removal of an entry is edge-dominated by the pubkey equality test (DEL-AUTH); every deletion-registry key is built with the Pubkey of the event being inserted / the kind-5 event / the victim itself, never a tag value or constant (REG-KEY); registration precedes delete-by-reference and the registry is cleaned when a kind-5 event leaves (REG-COUPD); every id-domain probe can reach address-keyed classes (KEY-DOM); tag value reads accept arity >= 2 (TAG-ARITY); a deletion reference is taken apart by its first two colons only (ADDR-CUT).",
		NotDecided:  "eviction interplay over histories; replaceable events referenced by an 'a' tag.",
		Assumptions: trust()},
	{ID: "C06",
		Explanation: "Structural necessary conditions of the SQLite query: filter fields consumed with nil-presence and inclusive bounds (FLT-EXH, FLT-NIL, FLT-BND(sql)); goqu Limit is never called with 0 (SQL-LIM0); tombstone builders accept tags with extra elements (TAG-ARITY); join aliases are injective under SQLite's case-insensitive identifier comparison (SQL-ALIAS); both tombstone sub-selects compare the tombstone's pubkey with the event's pubkey and are applied to every per-filter sub-select (SQL-TOMB); insert column lists agree position-wise with the parameter slices and the select/scan/convert chain is field-wise consistent (SQL-COL); writer and reader hash the same tag shape (SQL-HASH); the SQL kind predicate of the upsert equals replaceable ∪ addressable and is conjoined with the newest-wins guard (KIND-PART-SQL); key classes as in the cache (KEY-CLASS); ordering is created_at descending (ORD(sql)).",
		NotDecided:  "SQL semantics of the generated joins for concrete table contents; tie-breaking among equal timestamps.",
		Assumptions: trust("goqu v9 semantics: Limit(0) clears the limit, Gte/Lte are inclusive comparisons", "SQLite compares identifiers ASCII case-insensitively")},
	{ID: "C07",
		Explanation: "Structural necessary conditions of router delivery: nothing reachable from Publish blocks (no bare send/receive, no blocking select, no exclusive lock, no handler call) (PUB-NB) and nothing reachable from it writes shared memory (PUB-RO); a lazily filled copy of the subscriber table, should one be added, is invalidated by every writer of the table and cannot be filled over an invalidation (MEMO-COHERENT); the walk from Publish to the per-subscriber send leaves no loop early, so every registered subscriber is offered the event (PUB-ALL); Subscribe/Publish/Unsubscribe are called synchronously before the EOSE/OK is returned, with the right ids (SUB-SYNC); UnsubscribeAll of the session id is deferred before the loop (UNSUB-ALL); every reply constructor is labelled with the id of the request bound in its clause (LABEL); the registry is keyed connection-id then subscription-id, and Unsubscribe drops the connection's entry at most after removing the named subscription and finding the table empty (SUB-KEY); the per-connection queue has the configured capacity and one receiver (BUF).",
		NotDecided:  "exactly-once / real-time-order delivery over interleavings; drop counts under back-pressure.",
		Assumptions: trust("sync.RWMutex semantics")},
	{ID: "C08",
		Explanation: "Structural necessary conditions of merged REQ: state objects live in 1-slot token channels with paired acquire/deferred release and no blocking in between (TOK); per-request state is allocated before the message is broadcast to the children (SLOT-BEFORE-BCAST); the four per-subscription maps are set and cleared together (REQ-COUPD); the pre-EOSE forwarding test contains the order guard with the right orientation, the seen-set consult+update, Done and the counting matcher (MERGE-GUARDS); the EOSE is forwarded only behind not-all-done, mark(subID, idx), all-done in that order (EOSE-GATE); forwarded values are the child's own message and each typed handler is called from its own clause, and the state-changing dispatcher runs once per message received from the children (FWD-ID / DISPATCH).",
		NotDecided:  "'exactly one EOSE, after all children' as a temporal fact over interleavings.",
		Assumptions: trust()},
	{ID: "C09",
		Explanation: "Structural necessary conditions of merged EVENT/COUNT: TOK, SLOT-BEFORE-BCAST and DISPATCH as for C08; every path of the OK/COUNT aggregation that returns a reply releases the slot keyed by the same id (SLOT-RELEASE); the COUNT reply is the maximum by Count with the comparator in parameter order (COUNT-MAX); the aggregated OK is labelled with the children's event id and rejecting reasons come first (LABEL, OK-AGG).",
		NotDecided:  "accept-iff-all-accept and one-reply-per-request under pipelining and repeated ids.",
		Assumptions: trust()},
	{ID: "C10",
		Explanation: "Structural necessary conditions of the wire codec: for each of the 12 message types the label written = label accepted = *MsgLabel() = the ParseClientMsg clause instantiating it, and the arity written = arity accepted (COD-TAB); the filter decoder's key dispatch rejects unknown members and writes the keys it accepts; Event struct tags = keys looked up = 7 = field-count test; no panic instruction, unchecked type assertion, nil-map write or division is reachable from the decoders (DEC-PANIC-CG); index/slice expressions in the decoders are in range by dominating length facts (DEC-BOUNDS); no encoding/json destination in the decoders is a (container of) message pointer(s) that JSON null would leave nil, every pointer stored into a decoded value is a fresh allocation, and each decoder of a type with a pointer field stores it (DEC-FILLED); decoded slices are not nil-started accumulators (DEC-NILACC).",
		NotDecided:  "round-trip equality for all values; filled-ness of non-pointer fields.",
		Assumptions: trust("encoding/json never panics on arbitrary input")},
	{ID: "C11",
		Explanation: "Structural necessary conditions of admission: the integer/rune domains of the field validators equal the statement's (kind in [0,65535], lower-case hex charset, lengths 64/64/128, since/until/limit >= 0, tag-key letter set) over all integers (VAL-DOM); each Valid() result depends on the validator of every field (VAL-SLICE); ValidClientMsg and ParseClientMsg have one clause per client message type calling that type's own method (VAL-EXH); the dispatch pattern admits insignificant JSON whitespace before and after '[' (DISPATCH-WS); an address is split so that d may contain ':' (NADDR-SPLIT).",
		NotDecided:  "that every well-formed text parses (decoder completeness beyond the dispatch prefix).",
		Assumptions: trust("regexp/syntax parses the pattern as regexp does")},
	{ID: "C12",
		Explanation: "Structural necessary conditions of the WebSocket gate: the pass edges of text-frame, utf8.Valid, json.Valid, ParseClientMsg err==nil, ValidClientMsg, and for EVENT Verify err==nil and true each edge-dominate the single send on the handler's inbound channel, and the forwarded value is the parse result (GATE-CHAIN); every entry→return path either forwards (no notice) or sends exactly one server message or fails the connection (GATE-ONE-NOTICE); nobody else sends on or closes that channel (RECV-OWNER); every value received from send flows through json.Marshal to one conn.Write with MessageText (WRITE-PATH); dispatch admits leading whitespace (DISPATCH-WS). The validity verdict the gate relies on is the C11 rule set (VAL-DOM, VAL-SLICE, VAL-EXH, NADDR-SPLIT, DISPATCH-WS): 'invalid field ⇒ one rejection, valid frame ⇒ delivered' cannot hold if a validator accepts or refuses the wrong values.",
		NotDecided:  "the WebSocket library; frame-level behaviour; whether a refusal placed in front of the parser (a cheap door check on the raw bytes) refuses only frames the parser would refuse — seed C12-i (seeded-missed/) is such a check that also refuses valid frames, and is not reported.",
		Assumptions: trust("coder/websocket Read/Write semantics")},
	{ID: "C13",
		Explanation: "Structural necessary conditions of termination/release: every channel operation in the three library packages is discharged by a cancel-aware select, a bounded-buffer argument, a token channel, a join on own goroutines, or range-after-close (CHAN-DISC); goroutines defer cancel (GO-CANCEL); for-loops in session code can leave on ctx.Done (LOOP-EXIT); context-taking calls receive a context derived from the caller's (CTX-PASS), and the goroutines of a function that cancels its own derived context on return block only under that context (GO-CTX); a cached copy of the subscriber table is invalidated on the session-end path as on every other writer (MEMO-COHERENT); a deferred join is preceded (in run order) by a cancel (JOIN-ORDER); inbound receives are comma-ok and return on close (RECV-OK); child inbound channels are closed by their sender (CHILD-CLOSE); UnsubscribeAll and ServeNostrEnd are deferred (UNSUB-ALL, START-END); every WebSocket write/ping without deadline is controlled by SendTimeout only (WS-DEADLINE).",
		NotDecided:  "promptness in seconds; goroutine dumps; third-party blocking calls.",
		Assumptions: trust("context cancellation propagates to derived contexts", "coder/websocket honours the context of Read/Write/Ping")},
	{ID: "C14",
		Explanation: "Structural necessary conditions of batch atomicity: a deferred closure registered right after BeginTx rolls back on the named error result and commits otherwise (TX-1); inside the transaction no *sql.DB method is used and every Exec is on a statement prepared on the tx (TX-2); every database call's error is tested and the failing edge returns non-nil (TX-3); payload/tag/tombstone inserts are guarded by RowsAffected != 0 and tombstone statements are 'on conflict do nothing', the upsert carries the newest-wins guard (TX-4); the seed returned on the no-rows path is the value inserted, and the handler's seed comes only from that function (TX-5).",
		NotDecided:  "SQLite's own durability and trigger behaviour; answers after real crashes.",
		Assumptions: trust("database/sql transaction semantics", "SQLite durability")},
	{ID: "C15",
		Explanation: "Structural premises of race freedom/linearizability: every access to a mutex-guarded field happens with the owner's lock held (dominating Lock/RLock with deferred unlock, or helper all of whose callers hold it), writes under the exclusive lock (LOCK-GUARD); no guarded container escapes its critical section (LOCK-ESCAPE); shared *Event values are never written after publication (EVT-IMMUT); the publish path is write-free (PUB-RO). Each exported store operation is thus one critical section sharing no mutable data outside it.",
		NotDecided:  "the sequential specification itself (C03/C04); absence of races in third-party code.",
		Assumptions: trust("sync.Mutex/RWMutex semantics")},
	{ID: "C16",
		Explanation: "Structural necessary conditions of storage-handler replies: per client-message clause of each base the multiset and order of reply constructors on every path equals the statement's table, labelled with the request's id; cache OK is accepting on Add's true edge and a duplicate-prefixed rejection otherwise (REPLY-TAB, LABEL); in SimpleHandler the next inbound receive is reachable from the reply drain only through its closed edge (LOOP-ORDER); Dump queries with an empty filter and Restore inserts only through Add (DUMP-ALL); reply channel capacities bound the sends (CHAN-DISC/DR2); the store query that produces a REQ's events tests the presence of a list condition by nil-ness, never by length (FLT-NIL); the listing Dump is made from walks the whole retained set from its newest end and stops only at the filter's own limit (SCAN-FULL, SCAN-LIMIT).",
		NotDecided:  "dump/restore answer equality for all cache states.",
		Assumptions: trust()},
	{ID: "C17",
		Explanation: "Structural necessary conditions for limit middlewares: every return of ServeNostrClientMsg is forward-the-parameter or reject-with-exactly-one-reply and ServeNostrServerMsg forwards its parameter (MW-TEMPLATE); the rejection type matches the clause (OK false for EVENT, CLOSED for REQ/COUNT) with the request's id (MW-REJECT-TYPE, LABEL); the reject set of each measure relative to the configured limit is (L,+inf) etc. and the measure/limit are the ones the middleware is named for (MW-BOUND); BuildMiddlewareFromNIP11 wires each limitation field to its own constructor guarded by != 0 (NIP11-TAB) and dereferences the optional limitation block only behind a nil test (NIP11-NIL).",
		NotDecided:  "end-to-end order through the concurrent plumbing of arbitrary stacks.",
		Assumptions: trust()},
	{ID: "C18",
		Explanation: "Structural necessary conditions for stateful middlewares: bases that write receiver-reachable state are instantiated once per session, shared bases are write-free (SESS-STATE); the quota inserts the id, rejects on len > N with the same id removed and CLOSED returned, CLOSE frees the id, all under the value's mutex (QUOTA-GUARD, LOCK-GUARD); the unique filters reject/drop on Get found and Add the same id before forwarding (UNIQ-PATH).",
		NotDecided:  "LRU window contents over histories (library trusted).",
		Assumptions: trust("hashicorp/golang-lru Get/Add semantics")},
	{ID: "C19",
		Explanation: "Structural necessary conditions for metrics: each hook of the base calls the like-named hook of each counter exactly once with the same arguments (PROM-FANOUT); Inc is control-equivalent with inserting a new key, Dec with deleting a present key, session end subtracts the open count and deletes the set; connection gauge Inc/Dec in start/end (PROM-GAUGE); each clause's label equals the type's label constant and clauses cover all 5+7 types (PROM-LABEL); both message hooks forward exactly their parameter (PROM-PASS); maps are accessed under their mutex (LOCK-GUARD); ServeNostrEnd is deferred (START-END).",
		NotDecided:  "Prometheus client arithmetic; gauge values at quiescence for concrete histories.",
		Assumptions: trust("prometheus client_golang Gauge/Counter semantics")},
	{ID: "C20",
		Explanation: "Structural necessary conditions for the HTTP front door: the decision list of ServeMux.ServeHTTP is [Upgrade != \"\" → relay; Accept == application/nostr+json → NIP-11; else default/greeting] (MUX-TAB); on every status-200 path of the NIP-11 branch the first body write is preceded by both headers (HDR-BEFORE-WRITE); the body is json.Marshal of the receiver (NIP11-BODY); Nip11Kind encodes single numbers and pairs symmetrically (KIND-CODEC).",
		NotDecided:  "JSON round-trip of the document for all configurations.",
		Assumptions: trust("net/http ResponseWriter semantics")},
}
