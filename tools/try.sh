#!/bin/sh
# usage: tools/try.sh refactors/R11 [property] [width] -- apply a stored patch to a scratch copy and show what the checker reports
# MV=/path/to/binary and W=/scratch/dir override the checker binary and the scratch root
W=${W:-/tmp/w}; MV=${MV:-/verif/bin/mocverif}
d=$W/$(basename $1); rm -rf $d; mkdir -p $W; rsync -a --exclude .git /repo/ $d/ && patch -p1 -s -d $d -i /verif/$1/patch.diff && $MV -repo $d -property ${2:-all} -no-selftest -evidence $W/ev 2>&1 | grep -E "VIOLATED|UNDECIDED" | cut -c1-${3:-330}
