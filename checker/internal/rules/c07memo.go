package rules

import (
	"fmt"
	"go/types"
	"sort"
	"strings"

	"golang.org/x/tools/go/ssa"

	"mocverif/internal/an"
	"mocverif/internal/core"
)

// MEMO-COHERENT: a lazily filled copy of shared state stays coherent with that state.
//
// The tree as pinned has no such copy; a later change may add one (a flattened subscriber
// list for Publish, a pre-encoded document). Two things then have to hold for the
// properties that rest on the state behind it, and both are visible in the code's shape:
//
//	invalidate-on-write: every function that changes the source state invalidates the copy
//	  afterwards on every way out (stores nil into it, or bumps the version the copy is
//	  validated against) — directly, by a deferred call, or through a callee that does so on
//	  all its paths;
//	fill-atomic: a fill (read the source, store the copy) cannot overwrite an invalidation
//	  that happened in between: either fill and invalidation exclude each other through a
//	  mutex of the same struct (fill holds it in any mode from the first source read to the
//	  store, invalidation holds it exclusively), or the copy carries the version that was read
//	  BEFORE the source and a hit requires that version to equal the live one.
//
// Memo fields are discovered, not tabulated: a struct field of type sync/atomic.Pointer[T]
// that one function both loads (returning the loaded value when it is non-nil) and stores a
// non-nil value into. Source fields are the other fields of the same struct read by that
// function (closures included); a function changes a source when it stores into the field or
// calls, on a value reached from it, a module method that writes its own receiver.
func init() {
	reg(&core.RuleInfo{Name: "MEMO-COHERENT", Props: []string{"C07", "C13"}, Engine: "CFG", Floor: 0, Confirmed: 0,
		Doc: "a lazily filled copy of shared state (atomic.Pointer memo) is invalidated by every writer of its source and cannot be filled over an invalidation", Run: runMemoCoherent})
}

type memoField struct {
	typ     *types.Named
	st      *types.Struct
	field   string
	fillers []*ssa.Function
}

const atomicPtr = "(*sync/atomic.Pointer[T])."

// fieldOfRecv: v is &recv.F (possibly through a captured receiver); returns the struct and field name.
func fieldOfRecv(v ssa.Value) (*types.Named, *types.Struct, string, bool) {
	fa, ok := v.(*ssa.FieldAddr)
	if !ok {
		return nil, nil, "", false
	}
	n, s := structOf(fa)
	if n == nil || s == nil {
		return nil, nil, "", false
	}
	return n, s, an.FieldNameHook(s, fa.Field), true
}

func isNilConst(v ssa.Value) bool {
	k, ok := v.(*ssa.Const)
	return ok && k.IsNil()
}

func isAtomicInt(t types.Type) bool {
	switch types.TypeString(t, nil) {
	case "sync/atomic.Uint64", "sync/atomic.Int64", "sync/atomic.Uint32", "sync/atomic.Int32":
		return true
	}
	return false
}

func runMemoCoherent(c *core.Ctx) {
	P := c.P
	fns := libFuncs(c)
	c.CountFuncs(len(fns))
	// ---- discovery
	memos := map[string]*memoField{}
	var order []string
	for _, fn := range fns {
		if fn.Parent() != nil {
			continue
		}
		loads, stores := map[string]bool{}, map[string]bool{}
		info := map[string]*memoField{}
		for _, g := range closureFamily(fn) {
			for _, ci := range calls(g) {
				call, ok := ci.(*ssa.Call)
				if !ok || len(call.Call.Args) == 0 {
					continue
				}
				name := an.CalleeName(&call.Call)
				if !strings.HasPrefix(name, atomicPtr) {
					continue
				}
				n, s, f, ok := fieldOfRecv(call.Call.Args[0])
				if !ok {
					continue
				}
				key := n.Obj().Name() + "." + f
				info[key] = &memoField{typ: n, st: s, field: f}
				switch strings.TrimPrefix(name, atomicPtr) {
				case "Load":
					loads[key] = true
				case "Store", "CompareAndSwap", "Swap":
					if !isNilConst(call.Call.Args[len(call.Call.Args)-1]) {
						stores[key] = true
					}
				}
			}
		}
		for key := range loads {
			if !stores[key] {
				continue
			}
			m := memos[key]
			if m == nil {
				m = info[key]
				memos[key] = m
				order = append(order, key)
			}
			m.fillers = append(m.fillers, fn)
		}
	}
	sort.Strings(order)
	if len(order) == 0 {
		c.Trivial(nil, "-", "memo-fields", "-", "no lazily filled sync/atomic.Pointer field (loaded and filled by one function) in the module: nothing to keep coherent")
		return
	}
	lc := newLockCtx(c)
	writers := receiverWriters(c)
	for _, key := range order {
		m := memos[key]
		tname := m.typ.Obj().Name()
		// version fields of the struct, the mutex, the source fields read by the fillers
		versions := map[string]bool{}
		for i := 0; i < m.st.NumFields(); i++ {
			if isAtomicInt(m.st.Field(i).Type()) {
				versions[an.FieldNameHook(m.st, i)] = true
			}
		}
		muField := mutexField(m.st)
		sources := map[string]bool{}
		type srcRead struct {
			in ssa.Instruction
			fn *ssa.Function
		}
		var reads []srcRead
		for _, filler := range m.fillers {
			for _, g := range closureFamily(filler) {
				an.Instrs(g, func(in ssa.Instruction) {
					fa, ok := in.(*ssa.FieldAddr)
					if !ok {
						return
					}
					n, s := structOf(fa)
					if n == nil || n.Obj() != m.typ.Obj() {
						return
					}
					f := an.FieldNameHook(s, fa.Field)
					if f == m.field || f == muField || versions[f] {
						return
					}
					if isMu, _ := isMutexType(s.Field(fa.Field).Type()); isMu {
						return
					}
					sources[f] = true
					reads = append(reads, srcRead{in, g})
				})
			}
		}
		var srcNames []string
		for f := range sources {
			srcNames = append(srcNames, f)
		}
		sort.Strings(srcNames)
		c.CountSites(len(reads))

		// an invalidation instruction of this memo in g (receiver = g's own receiver)
		isInval := func(in ssa.Instruction, invalidators map[*ssa.Function]bool) bool {
			var com *ssa.CallCommon
			switch x := in.(type) {
			case *ssa.Call:
				com = &x.Call
			case *ssa.Defer:
				com = &x.Call
			default:
				return false
			}
			if len(com.Args) == 0 {
				return false
			}
			name := an.CalleeName(com)
			if n, _, f, ok := fieldOfRecv(com.Args[0]); ok && n.Obj() == m.typ.Obj() {
				if f == m.field && strings.HasPrefix(name, atomicPtr) && strings.HasSuffix(name, "Store") && isNilConst(com.Args[len(com.Args)-1]) {
					return true
				}
				if versions[f] && (strings.HasSuffix(name, ").Add") || strings.HasSuffix(name, ").Store")) {
					return true
				}
			}
			if g := an.StaticCallee(com); g != nil && invalidators[originOf(g)] && sameObject(com.Args[0]) {
				return true
			}
			return false
		}
		// functions that invalidate on every path (fixpoint over callees)
		invalidators := map[*ssa.Function]bool{}
		for changed := true; changed; {
			changed = false
			for _, g := range fns {
				if g.Parent() != nil || invalidators[originOf(g)] || len(g.Blocks) == 0 || recvNamed(g) != m.typ.Obj() {
					continue
				}
				miss, _ := scanFromEntry(g, func(in ssa.Instruction) bool { return isInval(in, invalidators) })
				if !miss {
					invalidators[originOf(g)] = true
					changed = true
				}
			}
		}

		// ---- invalidate-on-write
		nMut := 0
		for _, g := range fns {
			if g.Parent() != nil || recvNamed(g) != m.typ.Obj() {
				continue
			}
			isFiller := false
			for _, f := range m.fillers {
				if f == g {
					isFiller = true
				}
			}
			if isFiller {
				continue
			}
			for _, site := range sourceMutations(g, m, sources, writers) {
				nMut++
				c.CountSites(1)
				construct := fmt.Sprintf("memo:%s/invalidate-on-write", key)
				// a deferred invalidation registered before the change covers every way out
				deferred := false
				an.Instrs(g, func(in ssa.Instruction) {
					if d, ok := in.(*ssa.Defer); ok && isInval(d, invalidators) && an.InstrDominates(d, site) {
						deferred = true
					}
				})
				miss := false
				if !deferred {
					miss, _ = forwardScan(site, func(in ssa.Instruction) bool {
						_, isDefer := in.(*ssa.Defer)
						return !isDefer && isInval(in, invalidators)
					})
				}
				c.Check(!miss, nil, fname(c, g), construct, P.Pos(site.Pos()),
					fmt.Sprintf("the change of %s.%v at %s is followed by an invalidation of %s on every way out", tname, srcNames, P.Pos(site.Pos()), key),
					fmt.Sprintf("%s changes the state %s is filled from (%s.%v, at %s) and can return without invalidating it (no %s.Store(nil), no version bump, no call of a function that always invalidates): readers keep using the stale copy — subscriptions that were closed or whose session ended stay served, new ones are missed", fname(c, g), key, tname, srcNames, P.Pos(site.Pos()), m.field))
			}
		}

		// ---- fill-atomic
		for _, filler := range m.fillers {
			construct := fmt.Sprintf("memo:%s/fill-atomic", key)
			var stores []*ssa.Call
			for _, g := range closureFamily(filler) {
				for _, ci := range calls(g) {
					call, ok := ci.(*ssa.Call)
					if !ok || len(call.Call.Args) < 2 {
						continue
					}
					name := an.CalleeName(&call.Call)
					if n, _, f, ok := fieldOfRecv(call.Call.Args[0]); ok && n.Obj() == m.typ.Obj() && f == m.field && strings.HasPrefix(name, atomicPtr) && strings.HasSuffix(name, "Store") && !isNilConst(call.Call.Args[1]) {
						stores = append(stores, call)
					}
				}
			}
			// (1) mutual exclusion through the struct's mutex
			lockOK := muField != "" && len(stores) > 0
			why := ""
			if muField == "" {
				why = "the struct has no mutex"
			}
			if lockOK {
				mu := "recv." + muField
				for _, r := range reads {
					if lc.heldAt(r.fn, r.in, mu, 0) == lockNone {
						lockOK = false
						why = fmt.Sprintf("the source is read at %s without %s held", P.Pos(r.in.Pos()), mu)
					}
				}
				for _, st := range stores {
					if lc.heldAt(st.Parent(), st, mu, 0) == lockNone {
						lockOK = false
						why = fmt.Sprintf("the copy is stored at %s without %s held", P.Pos(st.Pos()), mu)
					}
				}
				// every invalidation by nil-store holds it exclusively
				for _, g := range fns {
					for _, h := range closureFamily(g) {
						an.Instrs(h, func(in ssa.Instruction) {
							call, ok := in.(*ssa.Call)
							if !ok || len(call.Call.Args) < 2 {
								return
							}
							name := an.CalleeName(&call.Call)
							if n, _, f, ok := fieldOfRecv(call.Call.Args[0]); ok && n.Obj() == m.typ.Obj() && f == m.field && strings.HasPrefix(name, atomicPtr) && strings.HasSuffix(name, "Store") && isNilConst(call.Call.Args[1]) {
								if freshBaseValue(call.Call.Args[0]) {
									return
								}
								if lc.heldAt(h, call, mu, 0) != lockExclusive {
									lockOK = false
									why = fmt.Sprintf("the invalidation at %s does not hold %s exclusively", P.Pos(call.Pos()), mu)
								}
							}
						})
					}
				}
			}
			// (2) version carried by the copy: read before the source, compared on a hit
			verOK := false
			verWhy := "no version field (sync/atomic integer) is loaded before the source is read and stored with the copy"
			if !lockOK && len(versions) > 0 && len(stores) > 0 {
				verOK, verWhy = memoVersionScheme(filler, m, versions, stores, func(in ssa.Instruction) bool {
					for _, r := range reads {
						if r.in == in {
							return true
						}
					}
					return false
				})
			}
			c.Check(lockOK || verOK, nil, fname(c, filler), construct, P.Pos(filler.Pos()),
				fmt.Sprintf("a fill of %s cannot overwrite an invalidation that happened while it read %s.%v (mutual exclusion: %v, version check: %v)", key, tname, srcNames, lockOK, verOK),
				fmt.Sprintf("a fill of %s can overwrite an invalidation: it reads %s.%v and stores the copy with nothing that excludes or detects a change in between (%s; %s) — a subscription added or removed during the fill is then missing from / still in the copy until some later change", key, tname, srcNames, why, verWhy))
		}
		if nMut == 0 {
			c.Unknown(nil, tname, fmt.Sprintf("memo:%s/writers", key), "-", fmt.Sprintf("%s is filled from %s.%v but no function changing those fields was found: the source of the copy was not understood", key, tname, srcNames))
		}
	}
}

// closureFamily: fn and the anonymous functions declared inside it (transitively).
func closureFamily(fn *ssa.Function) []*ssa.Function {
	out := []*ssa.Function{fn}
	for i := 0; i < len(out); i++ {
		out = append(out, out[i].AnonFuncs...)
	}
	return out
}

// recvNamed: the named type of fn's receiver (through a pointer), nil for plain functions.
func recvNamed(fn *ssa.Function) *types.TypeName {
	if fn.Signature.Recv() == nil {
		return nil
	}
	t := fn.Signature.Recv().Type()
	if p, ok := t.(*types.Pointer); ok {
		t = p.Elem()
	}
	n, ok := t.(*types.Named)
	if !ok {
		return nil
	}
	if o := n.Origin(); o != nil {
		n = o
	}
	return n.Obj()
}

// sameObject: the value is the function's own receiver (or a field address / load based on it).
func sameObject(v ssa.Value) bool {
	p := an.PathOf(v)
	return p == "recv" || strings.HasPrefix(p, "recv.")
}

func freshBaseValue(v ssa.Value) bool {
	fa, ok := v.(*ssa.FieldAddr)
	return ok && freshBase(fa)
}

// scanFromEntry: does some path from fn's entry reach a return without passing stop?
func scanFromEntry(fn *ssa.Function, stop func(ssa.Instruction) bool) (miss, hit bool) {
	seen := map[*ssa.BasicBlock]bool{}
	var walk func(b *ssa.BasicBlock)
	walk = func(b *ssa.BasicBlock) {
		for _, in := range b.Instrs {
			if stop(in) {
				hit = true
				return
			}
			if _, isRet := in.(*ssa.Return); isRet {
				miss = true
				return
			}
		}
		for i, sb := range b.Succs {
			if an.DeadEdge(b, i) || seen[sb] {
				continue
			}
			seen[sb] = true
			walk(sb)
		}
	}
	seen[fn.Blocks[0]] = true
	walk(fn.Blocks[0])
	return
}

// receiverWriters: module methods that change their own receiver (a map update, delete,
// append-store or assignment on one of its fields).
var receiverWritersMemo = map[*core.Program]map[*ssa.Function]bool{}

func receiverWriters(c *core.Ctx) map[*ssa.Function]bool {
	if m, ok := receiverWritersMemo[c.P]; ok {
		return m
	}
	out := map[*ssa.Function]bool{}
	receiverWritersMemo[c.P] = out
	for _, fn := range c.P.ModFuncs {
		if fn.Parent() != nil || fn.Signature.Recv() == nil {
			continue
		}
		w := false
		an.Instrs(fn, func(in ssa.Instruction) {
			switch x := in.(type) {
			case *ssa.Store:
				if fa, ok := x.Addr.(*ssa.FieldAddr); ok && sameObject(fa.X) && !freshBase(fa) {
					w = true
				}
			case *ssa.MapUpdate:
				if strings.HasPrefix(an.PathOf(x.Map), "recv.") || x.Map == ssa.Value(fn.Params[0]) {
					w = true
				}
			case *ssa.Call:
				if b, ok := x.Call.Value.(*ssa.Builtin); ok && (b.Name() == "delete" || b.Name() == "clear") && len(x.Call.Args) > 0 && (strings.HasPrefix(an.PathOf(x.Call.Args[0]), "recv.") || x.Call.Args[0] == ssa.Value(fn.Params[0])) {
					w = true
				}
			}
		})
		if w {
			out[originOf(fn)] = true
		}
	}
	return out
}

// sourceMutations: the instructions of g (a method of the memo's struct) that change a source
// field: an assignment to it, or a call of a receiver-writing module method on a value reached
// from it (`subs.subs.Delete(id)`, `m := subs.subs.TryGet(id); m.Delete(k)`).
func sourceMutations(g *ssa.Function, m *memoField, sources map[string]bool, writers map[*ssa.Function]bool) []ssa.Instruction {
	var out []ssa.Instruction
	reachesSource := func(v ssa.Value) bool {
		p := an.PathOf(v)
		for f := range sources {
			if strings.Contains(p, "recv."+f) {
				return true
			}
		}
		return false
	}
	for _, h := range closureFamily(g) {
		an.Instrs(h, func(in ssa.Instruction) {
			switch x := in.(type) {
			case *ssa.Store:
				if fa, ok := x.Addr.(*ssa.FieldAddr); ok && !freshBase(fa) {
					if n, s := structOf(fa); n != nil && n.Obj() == m.typ.Obj() && sources[an.FieldNameHook(s, fa.Field)] {
						out = append(out, in)
					}
				}
			case *ssa.MapUpdate:
				if reachesSource(x.Map) {
					out = append(out, in)
				}
			case *ssa.Call:
				if b, ok := x.Call.Value.(*ssa.Builtin); ok && (b.Name() == "delete" || b.Name() == "clear") && len(x.Call.Args) > 0 && reachesSource(x.Call.Args[0]) {
					out = append(out, in)
					return
				}
				callee := an.StaticCallee(&x.Call)
				if callee == nil || !writers[originOf(callee)] || len(x.Call.Args) == 0 {
					return
				}
				if reachesSource(x.Call.Args[0]) {
					out = append(out, in)
				}
			}
		})
	}
	return out
}

// memoVersionScheme: the filler loads a version field before every read of the source, stores
// that very value inside the copy, and returns a cached copy only behind `copy.version ==
// loaded version`.
func memoVersionScheme(filler *ssa.Function, m *memoField, versions map[string]bool, stores []*ssa.Call, isSourceRead func(ssa.Instruction) bool) (bool, string) {
	var vload *ssa.Call
	for _, ci := range calls(filler) {
		call, ok := ci.(*ssa.Call)
		if !ok || len(call.Call.Args) == 0 {
			continue
		}
		if n, _, f, ok := fieldOfRecv(call.Call.Args[0]); ok && n.Obj() == m.typ.Obj() && versions[f] && strings.HasSuffix(an.CalleeName(&call.Call), ").Load") {
			if vload == nil {
				vload = call
			}
		}
	}
	if vload == nil {
		return false, "the version is never loaded in the filler"
	}
	// before the source
	okOrder := true
	for _, g := range closureFamily(filler) {
		an.Instrs(g, func(in ssa.Instruction) {
			if !isSourceRead(in) {
				return
			}
			if g == filler && !an.InstrDominates(vload, in) {
				okOrder = false
			}
			if g != filler {
				// a closure of the filler: made (hence run, synchronously) after the load
				for h := g; h != nil && h != filler; h = h.Parent() {
					if h.Parent() == filler {
						an.Instrs(filler, func(mk ssa.Instruction) {
							if mc, ok := mk.(*ssa.MakeClosure); ok && mc.Fn == ssa.Value(h) && !an.InstrDominates(vload, mc) {
								okOrder = false
							}
						})
					}
				}
			}
		})
	}
	if !okOrder {
		return false, "the version is loaded after (part of) the source has been read: a change finishing in between goes unnoticed"
	}
	// stored with the copy
	for _, st := range stores {
		carried := false
		if a, ok := st.Call.Args[1].(*ssa.Alloc); ok && a.Referrers() != nil {
			for _, r := range *a.Referrers() {
				if fa, ok := r.(*ssa.FieldAddr); ok && fa.Referrers() != nil {
					for _, r2 := range *fa.Referrers() {
						if s, ok := r2.(*ssa.Store); ok && s.Addr == ssa.Value(fa) && s.Val == ssa.Value(vload) {
							carried = true
						}
					}
				}
			}
		}
		if !carried {
			return false, "the stored copy does not carry the version that was loaded before the source was read"
		}
	}
	// a hit compares the copy's version with the loaded one
	hit := false
	for _, rb := range an.ReturnBlocks(filler) {
		if an.InstrDominates(stores[0], an.LastInstr(rb)) {
			continue // the path that filled
		}
		okRet := false
		for _, g := range an.Guards(filler, rb) {
			b, ok := g.V.(*ssa.BinOp)
			if !ok || !g.True || b.Op.String() != "==" {
				continue
			}
			if b.X == ssa.Value(vload) || b.Y == ssa.Value(vload) {
				okRet = true
			}
		}
		if !okRet {
			return false, "a cached copy is returned without comparing its version with the live one"
		}
		hit = true
	}
	if !hit {
		return false, "no path returns the cached copy"
	}
	return true, ""
}
