package rules

import (
	"fmt"
	"strings"

	"golang.org/x/tools/go/ssa"

	"mocverif/internal/an"
	"mocverif/internal/core"
)

func init() {
	reg(&core.RuleInfo{Name: "WS-DEADLINE", Props: []string{"C13"}, Engine: "PROV", Floor: 2, Confirmed: 2,
		Doc: "every un-timed WebSocket write/ping is controlled by SendTimeout only", Run: runWSDeadline})
}

func runWSDeadline(c *core.Ctx) {
	P := c.P
	n := 0
	timedSomewhere := map[string]bool{}
	for _, fn := range P.ModFuncs {
		if P.PkgOf(fn) != core.ModulePath {
			continue
		}
		for _, ci := range calls(fn) {
			call, ok := ci.(*ssa.Call)
			if !ok {
				continue
			}
			name := an.CalleeName(&call.Call)
			if name != "(*github.com/coder/websocket.Conn).Write" && name != "(*github.com/coder/websocket.Conn).Ping" {
				continue
			}
			n++
			c.CountSites(1)
			short := name[strings.LastIndex(name, ".")+1:]
			construct := "ctx-arg of (*websocket.Conn)." + short
			ctxArg := call.Call.Args[1]
			timed := func(v ssa.Value) bool {
				p := an.PathOf(v)
				return strings.Contains(p, "call:context.WithTimeout(") && strings.Contains(p, ".SendTimeout")
			}
			var problems []string
			nTimed, nUntimed := 0, 0
			paths, _ := an.PathsTo(fn, call.Block(), 1024)
			c.CountPaths(len(paths))
			for _, p := range paths {
				if !an.Feasible(p) {
					continue
				}
				// the context that reaches the call along this path
				v := ctxArg
				if ph, ok := v.(*ssa.Phi); ok {
					pred := p.Pred(ph.Block())
					for i, pb := range ph.Block().Preds {
						if pb == pred {
							v = ph.Edges[i]
						}
					}
				}
				if timed(v) {
					nTimed++
					continue
				}
				nUntimed++
				onlySend := false
				for _, cd := range p.Conds() {
					cp := an.PathOf(cd.V)
					if strings.Contains(cp, ".SendTimeout") {
						onlySend = true
					}
					for _, other := range []string{"PingDuration", "RecvRateLimit", "MaxMessageLength", "Logger"} {
						if strings.Contains(cp, "."+other) {
							problems = append(problems, fmt.Sprintf("the un-timed path is selected by %s, not by SendTimeout", cp))
						}
					}
				}
				if !onlySend {
					problems = append(problems, "an un-timed path is taken without any test of SendTimeout")
				}
			}
			uniq := map[string]bool{}
			var ps []string
			for _, p := range problems {
				if !uniq[p] {
					uniq[p] = true
					ps = append(ps, p)
				}
			}
			timedSomewhere[fname(c, fn)+short] = timedSomewhere[fname(c, fn)+short] || nTimed > 0
			c.Check(len(ps) == 0, nil, fname(c, fn), construct, P.Pos(call.Pos()),
				fmt.Sprintf("%d timed path(s) from WithTimeout(_, opt.SendTimeout); %d un-timed path(s) controlled by SendTimeout only", nTimed, nUntimed),
				"with some option combination (e.g. PingDuration: 0, SendTimeout: 1s) a write to a peer that stopped reading blocks without deadline: "+strings.Join(ps, "; "))
		}
	}
	if n == 0 {
		c.NoAnchor(nil, "calls of (*websocket.Conn).Write/Ping")
	}
	for k, ok := range timedSomewhere {
		if !ok {
			c.Bad(nil, k, "deadline-exists", "-", "no path gives this WebSocket operation a SendTimeout deadline at all")
		}
	}
}
