package core

import (
	"encoding/json"
	"fmt"
	"os"
	"path/filepath"
	"runtime/debug"
	"sort"
	"strings"
	"time"
)

type Status int

const (
	Discharged Status = iota
	Violated
	Undecided
)

func (s Status) String() string {
	switch s {
	case Discharged:
		return "discharged"
	case Violated:
		return "violated"
	}
	return "undecided"
}

// Obligation is one decided (or undecidable) instance of a rule.
type Obligation struct {
	Rule       string   `json:"rule"`
	Key        string   `json:"key"` // <rule>/<function>/<construct> — never a line number
	Pos        string   `json:"pos"`
	Status     string   `json:"status"`
	Detail     string   `json:"detail"`
	Props      []string `json:"properties"`
	Nontrivial bool     `json:"nontrivial"`
	st         Status
}

type RuleInfo struct {
	Name   string
	Props  []string // properties the rule may attribute obligations to
	Engine string
	Doc    string
	// Floor: minimum number of instances the properties' own anchors
	// guarantee; finding fewer means an anchor is unresolved => failing.
	Floor int
	// Confirmed: instance count confirmed by hand on the pinned tree
	// (informational; reported in the evidence).
	Confirmed int
	Run       func(c *Ctx)
}

type Ctx struct {
	P        *Program
	Thorough bool
	rule     *RuleInfo
	out      *[]Obligation
	stats    *RuleStat
	seen     map[string]int
}

type RuleStat struct {
	Rule       string `json:"rule"`
	Engine     string `json:"engine"`
	Instances  int    `json:"instances"`
	Confirmed  int    `json:"instances_confirmed"`
	Floor      int    `json:"floor"`
	Discharged int    `json:"discharged"`
	Violated   int    `json:"violated"`
	Undecided  int    `json:"undecided"`
	Funcs      int    `json:"functions_analysed"`
	Sites      int    `json:"sites_analysed"`
	Paths      int    `json:"paths_enumerated"`
	Panicked   string `json:"panic,omitempty"`
}

// UndeclaredAttr collects rule→property attributions outside the rule's registration.
var UndeclaredAttr = map[string]bool{}

func (c *Ctx) emit(st Status, props []string, construct, fn, pos, detail string, nontrivial bool) {
	if props == nil {
		props = c.rule.Props
	}
	// an obligation may only be attributed to a property the rule is registered (and therefore
	// run) for: otherwise `-property X` would silently lack it
	for _, pr := range props {
		declared := false
		for _, d := range c.rule.Props {
			if d == pr {
				declared = true
			}
		}
		if !declared {
			UndeclaredAttr[c.rule.Name+"→"+pr] = true
		}
	}
	key := c.rule.Name + "/" + fn + "/" + construct
	// distinct instances of one construct in one function: #2, #3 … in source order
	if c.seen == nil {
		c.seen = map[string]int{}
	}
	c.seen[key]++
	if n := c.seen[key]; n > 1 {
		key += fmt.Sprintf("#%d", n)
	}
	*c.out = append(*c.out, Obligation{Rule: c.rule.Name, Key: key, Pos: pos, Status: st.String(), Detail: detail, Props: props, Nontrivial: nontrivial, st: st})
	c.stats.Instances++
	switch st {
	case Discharged:
		c.stats.Discharged++
	case Violated:
		c.stats.Violated++
	default:
		c.stats.Undecided++
	}
}

// OK records a discharged obligation.
func (c *Ctx) OK(props []string, fn, construct, pos, detail string) {
	c.emit(Discharged, props, construct, fn, pos, detail, true)
}

// Trivial records a discharged obligation whose discharge needed no argument.
func (c *Ctx) Trivial(props []string, fn, construct, pos, detail string) {
	c.emit(Discharged, props, construct, fn, pos, detail, false)
}

func (c *Ctx) Bad(props []string, fn, construct, pos, detail string) {
	c.emit(Violated, props, construct, fn, pos, detail, true)
}

func (c *Ctx) Unknown(props []string, fn, construct, pos, detail string) {
	c.emit(Undecided, props, construct, fn, pos, detail, true)
}

// Check is OK-or-Bad in one call.
func (c *Ctx) Check(cond bool, props []string, fn, construct, pos, okDetail, badDetail string) {
	if cond {
		c.OK(props, fn, construct, pos, okDetail)
	} else {
		c.Bad(props, fn, construct, pos, badDetail)
	}
}

// Anchor failure: a role the property's anchors guarantee could not be found.
func (c *Ctx) NoAnchor(props []string, what string) {
	c.emit(Undecided, props, "anchor:"+what, "-", "-", "anchor not resolved: "+what, true)
}

func (c *Ctx) CountFuncs(n int) { c.stats.Funcs += n }
func (c *Ctx) CountSites(n int) { c.stats.Sites += n }
func (c *Ctx) CountPaths(n int) { c.stats.Paths += n }

// RunRules executes the rules, converting panics into failing obligations.
func RunRules(p *Program, rules []*RuleInfo, thorough bool) ([]Obligation, []*RuleStat) {
	var obs []Obligation
	var stats []*RuleStat
	for _, r := range rules {
		st := &RuleStat{Rule: r.Name, Engine: r.Engine, Confirmed: r.Confirmed, Floor: r.Floor}
		c := &Ctx{P: p, Thorough: thorough, rule: r, out: &obs, stats: st}
		func() {
			defer func() {
				if e := recover(); e != nil {
					st.Panicked = fmt.Sprint(e)
					if os.Getenv("MOCVERIF_DEBUG") != "" {
						fmt.Fprintf(os.Stderr, "rule %s panicked: %v\n%s\n", r.Name, e, debug.Stack())
					}
					c.emit(Undecided, nil, "checker-panic", "-", "-", fmt.Sprintf("rule panicked: %v", e), true)
				}
			}()
			r.Run(c)
		}()
		if st.Instances < r.Floor {
			c.emit(Undecided, nil, "floor", "-", "-", fmt.Sprintf("rule matched %d instances, fewer than the %d the property's anchors guarantee: an anchor is unresolved", st.Instances, r.Floor), true)
		}
		stats = append(stats, st)
	}
	return obs, stats
}

// ---------------------------------------------------------------- findings

type Finding struct {
	Kind     string `json:"kind"` // "known" or "fixed"
	Property string `json:"property"`
	Key      string `json:"key,omitempty"`
	Commit   string `json:"commit,omitempty"`
	What     string `json:"what"`
}

type FindingsFile struct {
	Findings []Finding `json:"findings"`
}

func LoadFindings(path string) (*FindingsFile, error) {
	b, err := os.ReadFile(path)
	if err != nil {
		if os.IsNotExist(err) {
			return &FindingsFile{}, nil
		}
		return nil, err
	}
	var f FindingsFile
	if err := json.Unmarshal(b, &f); err != nil {
		return nil, err
	}
	return &f, nil
}

func (f *FindingsFile) Known(prop, key string) *Finding {
	for i := range f.Findings {
		x := &f.Findings[i]
		if x.Kind == "known" && x.Property == prop && x.Key == key {
			return x
		}
	}
	return nil
}

// ---------------------------------------------------------------- evidence

type PropertyInfo struct {
	ID          string
	Explanation string   // S-clauses decided / B-clauses not decided
	Assumptions []string // trusted base
}

type Result struct {
	Property  string
	Failing   []Obligation
	KnownHits []Obligation
	Total     int
}

// WriteEvidence filters obligations for prop, writes evidence/<id>.json and,
// if failing, evidence/<id>.violations.json. It returns the result.
func WriteEvidence(dir string, info PropertyInfo, tier string, seed int, obs []Obligation, stats []*RuleStat, kf *FindingsFile, wall time.Duration, extra map[string]any) (*Result, error) {
	res := &Result{Property: info.ID}
	var mine []Obligation
	rulesSeen := map[string]bool{}
	for _, o := range obs {
		for _, pr := range o.Props {
			if pr == info.ID {
				mine = append(mine, o)
				rulesSeen[o.Rule] = true
				break
			}
		}
	}
	sort.SliceStable(mine, func(i, j int) bool { return mine[i].Key < mine[j].Key })
	distinct := map[string]bool{}
	nDis, nUnd, nVio := 0, 0, 0
	for _, o := range mine {
		switch o.st {
		case Discharged:
			nDis++
			if o.Nontrivial {
				distinct[o.Key] = true
			}
		case Violated:
			nVio++
		default:
			nUnd++
		}
		if o.st != Discharged {
			if kf.Known(info.ID, o.Key) != nil {
				res.KnownHits = append(res.KnownHits, o)
			} else {
				res.Failing = append(res.Failing, o)
			}
		}
	}
	res.Total = len(mine)
	var myStats []*RuleStat
	funcs, sites, paths := 0, 0, 0
	for _, s := range stats {
		if rulesSeen[s.Rule] {
			myStats = append(myStats, s)
			funcs += s.Funcs
			sites += s.Sites
			paths += s.Paths
		}
	}
	// samples: up to 8 discharged, spread over rules, plus every failing one
	var samples []any
	perRule := map[string]int{}
	for _, o := range mine {
		if o.st == Discharged && o.Nontrivial && perRule[o.Rule] < 1 && len(samples) < 12 {
			perRule[o.Rule]++
			samples = append(samples, o)
		}
	}
	for _, o := range mine {
		if o.st != Discharged && len(samples) < 40 {
			samples = append(samples, o)
		}
	}
	if len(samples) == 0 {
		for i, o := range mine {
			if i < 5 {
				samples = append(samples, o)
			}
		}
	}
	cov := map[string]any{
		"explanation":         info.Explanation,
		"obligations":         len(mine),
		"discharged":          nDis,
		"undecided":           nUnd,
		"violated":            nVio,
		"known_findings_hit":  len(res.KnownHits),
		"evaluations":         len(mine),
		"distinct_nontrivial": len(distinct),
		"rule":                "one obligation per (rule, function, construct) instance found in /repo's current source; non-trivial = discharged through a dominance / interval / provenance / lockset / table argument (not merely 'no instance'); distinct = distinct obligation keys",
		"rules":               myStats,
		"functions_analysed":  funcs,
		"sites_analysed":      sites,
		"paths_enumerated":    paths,
		"samples":             samples,
		"checker_cmd":         "bin/mocverif -property " + info.ID + " -tier " + tier,
		"trusted_base":        info.Assumptions,
		"exhaustive":          false,
	}
	for k, v := range extra {
		cov[k] = v
	}
	ev := map[string]any{
		"property_id": info.ID,
		"tier":        tier,
		"seed":        seed,
		"level":       "other",
		"coverage":    cov,
		"assumptions": info.Assumptions,
		"wall_s":      wall.Seconds(),
		"violations":  len(res.Failing),
	}
	if err := os.MkdirAll(dir, 0o755); err != nil {
		return nil, err
	}
	b, _ := json.MarshalIndent(ev, "", " ")
	if err := os.WriteFile(filepath.Join(dir, info.ID+".json"), append(b, '\n'), 0o644); err != nil {
		return nil, err
	}
	vpath := filepath.Join(dir, info.ID+".violations.json")
	if len(res.Failing) > 0 {
		vb, _ := json.MarshalIndent(map[string]any{"property_id": info.ID, "violations": res.Failing}, "", " ")
		if err := os.WriteFile(vpath, append(vb, '\n'), 0o644); err != nil {
			return nil, err
		}
	} else {
		os.Remove(vpath)
	}
	return res, nil
}

// PrintResult prints the diagnosable lines and returns the exit code.
func PrintResult(res *Result, evidenceDir string, kf *FindingsFile) int {
	for _, o := range res.KnownHits {
		f := kf.Known(res.Property, o.Key)
		fmt.Printf("KNOWN-FINDING: property=%s %s %s\n", res.Property, o.Key, f.What)
	}
	if len(res.Failing) == 0 {
		fmt.Printf("OK property=%s obligations=%d\n", res.Property, res.Total)
		return 0
	}
	for _, o := range res.Failing {
		fmt.Printf("  %s %s [%s] %s: %s\n", strings.ToUpper(o.Status), o.Pos, o.Rule, o.Key, o.Detail)
	}
	fmt.Printf("VIOLATION property=%s replay=%s\n", res.Property, filepath.Join(evidenceDir, res.Property+".violations.json"))
	return 1
}
