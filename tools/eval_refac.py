#!/usr/bin/env python3
"""Confirms a behaviour-/property-preserving change from an independent sub-agent and stores it.
usage: eval_refac.py <refac_out dir> <Rnn> [<seeded/Cxx-y dir with the demo that must now PASS>]
In a scratch worktree of /repo HEAD under /tmp (removed afterwards): the patch applies, go build + go vet
succeed, the existing suite passes, and (if given) the seed's demonstration passes with the patch.
Writes /verif/refactors/<Rnn>/{patch.diff, meta.json}; meta.json gets a "confirmation" block."""
import json, os, shutil, subprocess, sys, glob, re
src, name = sys.argv[1], sys.argv[2]
seed = sys.argv[3] if len(sys.argv) > 3 else None
ENV = dict(os.environ, GOFLAGS="-mod=mod", GOPROXY="off", GOSUMDB="off", GOTOOLCHAIN="local", GOWORK="off")
def sh(cmd, cwd=None):
    return subprocess.run(cmd, cwd=cwd, env=ENV, shell=True, capture_output=True, text=True, errors="replace")
dst = "/verif/refactors/" + name
os.makedirs(dst, exist_ok=True)
shutil.copy(src + "/patch.diff", dst)
meta = json.load(open(src + "/meta.json")) if os.path.exists(src + "/meta.json") else {}
wt = "/tmp/evalref_" + name
sh("git -C /repo worktree remove --force %s" % wt)
sh("git -C /repo worktree add --detach %s HEAD" % wt)
res = {}
try:
    a = sh("git apply --check %s/patch.diff && git apply %s/patch.diff" % (dst, dst), cwd=wt)
    res["patch_applies"] = a.returncode == 0
    if a.returncode != 0:
        res["apply_error"] = a.stderr[-300:]
    else:
        b = sh("go build ./... && go vet ./...", cwd=wt)
        res["compiles_and_vets"] = b.returncode == 0
        if b.returncode != 0:
            res["build_tail"] = (b.stdout + b.stderr)[-400:]
        t = sh("go test -vet=off -count=1 ./...", cwd=wt)
        if t.returncode != 0 and "TestEventCreatedAtMiddleware" in t.stdout:
            t = sh("go test -vet=off -count=1 ./...", cwd=wt)
        res["existing_tests_pass"] = t.returncode == 0
        if t.returncode != 0:
            res["test_tail"] = t.stdout[-400:]
        if seed:
            smeta = json.load(open(seed + "/meta.json"))
            cmd = ""
            for line in open(seed + "/demo_cmd.txt").read().splitlines():
                if "go test" in line:
                    cmd = line.strip().strip("`")
                    cmd = cmd[cmd.index("go test"):]
                    break
            demos = [f for f in glob.glob(seed + "/*_test.go")]
            m = re.search(r"\s(\./[\w/]+/?)\s*$", cmd)
            target = os.path.join(wt, m.group(1)) if m else wt
            for f in demos:
                shutil.copy(f, target)
            d = sh(cmd, cwd=wt)
            res["seed_demo_passes_with_corrected_change"] = d.returncode == 0
            if d.returncode != 0:
                res["demo_tail"] = d.stdout[-400:]
            res["seed"] = os.path.basename(seed.rstrip("/"))
finally:
    sh("git -C /repo worktree remove --force %s" % wt)
    shutil.rmtree(wt, ignore_errors=True)
meta["confirmation"] = res
json.dump(meta, open(dst + "/meta.json", "w"), indent=1)
print(name, json.dumps(res))
