package rules

import (
	"fmt"
	"go/token"
	"go/types"
	"regexp"
	"sort"
	"strconv"
	"strings"

	"golang.org/x/tools/go/ssa"

	"mocverif/internal/an"
	"mocverif/internal/core"
)

func init() {
	reg(&core.RuleInfo{Name: "CHAN-DISC", Props: []string{"C13", "C16", "C07", "C08", "C09", "C12", "C19"}, Engine: "CHAN", Floor: 40, Confirmed: 60,
		Doc: "every channel operation is cancel-aware, buffer-bounded, a token, a join or range-after-close", Run: runChanDisc})
}

// libFuncs: module functions of the three library packages, generic
// functions once (their origin), closures included.
func libFuncs(c *core.Ctx) []*ssa.Function {
	// generic code is analysed once: through its origin when go/ssa built a
	// body for it (generic functions), else through one representative
	// instantiation (methods of generic types are only built as instances)
	haveOrigin := map[*ssa.Function]bool{}
	for _, fn := range c.P.ModFuncs {
		if fn.Parent() == nil && fn.Origin() == nil {
			haveOrigin[fn] = true
		}
	}
	rep := map[*ssa.Function]*ssa.Function{} // origin → chosen instance root
	var out []*ssa.Function
	for _, fn := range c.P.ModFuncs {
		if strings.HasSuffix(c.P.PkgOf(fn), "/cmd/mocrelay") {
			continue
		}
		root := fn
		for root.Parent() != nil {
			root = root.Parent()
		}
		if o := root.Origin(); o != nil {
			if haveOrigin[o] {
				continue // an instantiation: the generic origin is analysed
			}
			if r, ok := rep[o]; !ok {
				rep[o] = root
			} else if r != root {
				continue
			}
		}
		out = append(out, fn)
	}
	return out
}

func chanAttribution(c *core.Ctx, fn *ssa.Function) []string {
	pkg := c.P.PkgOf(fn)
	props := []string{"C13"}
	root := fn
	for root.Parent() != nil {
		root = root.Parent()
	}
	name := root.String()
	switch {
	case strings.HasSuffix(pkg, "/middleware/prometheus"):
		props = append(props, "C19")
	case strings.HasSuffix(pkg, "/handler/sqlite"):
		props = append(props, "C16")
	case ownerTypes(c, fn)["Relay"]:
		props = append(props, "C12")
	case strings.Contains(name, "mergeHandlerSession") || strings.Contains(name, "MergeHandler"):
		props = append(props, "C08", "C09")
	case strings.Contains(name, "RouterHandler") || strings.Contains(name, "subscriber"):
		props = append(props, "C07")
	case strings.Contains(name, "simpleCacheHandler") || strings.Contains(name, "SimpleHandler") || strings.Contains(name, "DefaultSimpleHandlerBase"):
		props = append(props, "C16")
	}
	return props
}

var sizeRe = regexp.MustCompile(`^(?:\((len\(.+\)) \+ const:(\d+)\)|(len\(.+\))|const:(\d+))$`)

// loopBound: b lies in a loop whose header tests "i < len(X)"; returns "len(X)".
func loopBound(b *ssa.BasicBlock) (string, *ssa.BasicBlock) {
	h := an.LoopHeaderOf(b)
	if h == nil {
		return "", nil
	}
	if iff, ok := an.LastInstr(h).(*ssa.If); ok {
		if bin, ok := iff.Cond.(*ssa.BinOp); ok && bin.Op == token.LSS {
			return an.PathOf(bin.Y), h
		}
	}
	return "?", h
}

// sendsOn lists the sends (in f and nested closures) whose channel resolves to mc.
func sendsOn(mc *ssa.MakeChan) []*ssa.Send {
	var out []*ssa.Send
	for _, f := range an.WithAnon(mc.Parent()) {
		an.Instrs(f, func(in ssa.Instruction) {
			if s, ok := in.(*ssa.Send); ok && an.MakeChanOf(s.Chan) == mc {
				out = append(out, s)
			}
		})
	}
	return out
}

// closureOnce: closure fn is instantiated at exactly one MakeClosure site,
// which is not inside a loop (so its body's single sends happen at most once
// per execution of the parent).
func closureOnce(fn, upTo *ssa.Function) bool {
	for f := fn; f != nil && f != upTo; f = f.Parent() {
		parent := f.Parent()
		if parent == nil {
			return false
		}
		n := 0
		inLoop := false
		an.Instrs(parent, func(in ssa.Instruction) {
			if mc, ok := in.(*ssa.MakeClosure); ok && mc.Fn == ssa.Value(f) {
				n++
				if an.InLoop(mc.Block()) {
					inLoop = true
				}
			}
		})
		if n != 1 || inLoop {
			return false
		}
	}
	return true
}

// bufferBounds: DR2 — the sends into mc never exceed its capacity.
func bufferBounds(mc *ssa.MakeChan) (bool, string) {
	size := an.PathOf(mc.Size)
	m := sizeRe.FindStringSubmatch(size)
	if m == nil {
		return false, "capacity " + size + " is not of the form const / len(X) / len(X)+const"
	}
	lenTerm := m[1] + m[3]
	kStr := m[2] + m[4]
	k := 0
	if kStr != "" {
		k, _ = strconv.Atoi(kStr)
	}
	single, looped := 0, 0
	for _, s := range sendsOn(mc) {
		if s.Parent() != mc.Parent() && !closureOnce(s.Parent(), mc.Parent()) {
			return false, "a sender closure may be instantiated more than once"
		}
		if an.InLoop(s.Block()) {
			bound, _ := loopBound(s.Block())
			if lenTerm == "" || bound != lenTerm {
				return false, fmt.Sprintf("a send sits in a loop bounded by %s but the capacity is %s", bound, size)
			}
			looped++
			continue
		}
		single++
	}
	if looped > 1 {
		return false, "more than one send per iteration of the bounding loop"
	}
	if single > k {
		return false, fmt.Sprintf("%d single-shot sends but only %d extra slots (capacity %s)", single, k, size)
	}
	return true, fmt.Sprintf("capacity %s ≥ %d looped + %d single-shot sends", size, looped, single)
}

func runChanDisc(c *core.Ctx) {
	P := c.P
	fns := libFuncs(c)
	c.CountFuncs(len(fns))
	counter := map[string]int{}
	for _, fn := range fns {
		ops := an.ChanOps(fn)
		// states of selects are discharged with their select
		inSelect := map[ssa.Instruction]bool{}
		for _, op := range ops {
			c.CountSites(1)
			props := chanAttribution(c, fn)
			pos := P.Pos(op.Instr.Pos())
			if !op.Instr.Pos().IsValid() {
				pos = P.Pos(fn.Pos())
			}
			key := func(kind, ch string) string {
				k := kind + "(" + ch + ")"
				counter[fname(c, fn)+k]++
				if n := counter[fname(c, fn)+k]; n > 1 {
					k += fmt.Sprintf("#%d", n)
				}
				return "chan-op:" + k
			}
			_ = inSelect
			switch op.Kind {
			case an.OpSelect:
				sel := op.Select
				var desc []string
				for _, st := range sel.States {
					d := "recv "
					if st.Dir == types.SendOnly {
						d = "send "
					}
					desc = append(desc, d+shortChan(st.Chan))
				}
				k := key("select", strings.Join(desc, ","))
				if !sel.Blocking {
					c.OK(props, fname(c, fn), k, pos, "non-blocking select (has default)")
					continue
				}
				di := an.SelectDoneState(sel)
				if di < 0 {
					c.Bad(props, fname(c, fn), k, pos, "blocking select without a <-ctx.Done() case: if the peer of "+strings.Join(desc, ", ")+" is gone the goroutine blocks forever")
					continue
				}
				cb := an.SelectCaseBlock(sel, di)
				if cb == nil {
					c.Unknown(props, fname(c, fn), k, pos, "could not locate the Done case's block")
					continue
				}
				if cb == sel.Block() || an.Reachable(cb, sel.Block(), nil, nil) {
					c.Bad(props, fname(c, fn), k, pos, "the <-ctx.Done() case does not leave the loop: after cancellation the select is entered again")
					continue
				}
				if ctxV, _ := an.IsCtxDone(sel.States[di].Chan); ctxV != nil {
					if why := foreignDone(c, fn, ctxV); why != "" {
						c.Bad(props, fname(c, fn), k, pos, why)
						continue
					}
				}
				c.OK(props, fname(c, fn), k, pos, "DR1: blocking select with a <-ctx.Done() case that leaves ("+strings.Join(desc, ", ")+")")
			case an.OpSend:
				k := key("send", shortChan(op.Chan))
				if mc := an.MakeChanOf(op.Chan); mc != nil {
					ok, why := bufferBounds(mc)
					c.Check(ok, props, fname(c, fn), k, pos, "DR2: "+why, "send into a channel whose buffer does not bound the sends: "+why)
					continue
				}
				if ok, why := tokenRelease(fn, op); ok {
					c.OK(props, fname(c, fn), k, pos, "DR3: "+why)
					continue
				}
				if snd, isS := op.Instr.(*ssa.Send); isS {
					if u, isU := an.LoadedValue(snd.X).(*ssa.UnOp); isU && u.Op == token.ARROW && u.Parent() == fn && an.PathOf(u.X) == an.PathOf(snd.Chan) {
						if ok, _ := tokenExplicit(fn, u); ok {
							c.OK(props, fname(c, fn), k, pos, "DR3: explicit put-back of the token received from "+an.PathOf(snd.Chan)+" in this function (1-slot channel, never blocks)")
							continue
						}
					}
				}
				if ok, why := borrowOp(c, fn); ok {
					c.OK(props, fname(c, fn), k, pos, "DR3: "+why)
					continue
				}
				c.Bad(props, fname(c, fn), k, pos, "bare send on "+an.PathOf(op.Chan)+": not in a select with <-ctx.Done(), not into a locally made buffer, not a token release — blocks forever when the receiver is gone")
			case an.OpRecv:
				k := key("recv", shortChan(op.Chan))
				if _, ok := an.IsCtxDone(op.Chan); ok {
					ok2, why := doneAfterCancel(fn, op)
					c.Check(ok2, props, fname(c, fn), k, pos, "DR5: "+why, "bare <-ctx.Done(): "+why)
					continue
				}
				closedBefore := false
				for _, o2 := range ops {
					if o2.Kind == an.OpClose && !o2.Deferred && an.PathOf(o2.Chan) == an.PathOf(op.Chan) && an.InstrDominates(o2.Instr, op.Instr) {
						closedBefore = true
					}
				}
				if closedBefore {
					c.OK(props, fname(c, fn), k, pos, "DR6: receive (range) from a channel closed earlier in the same function: never blocks")
					continue
				}
				if ok, why := tokenAcquire(fn, op); ok {
					c.OK(props, fname(c, fn), k, pos, "DR3: "+why)
					continue
				}
				if u, isU := op.Instr.(*ssa.UnOp); isU {
					if ok, why := tokenExplicit(fn, u); ok {
						c.OK(props, fname(c, fn), k, pos, "DR3: "+why)
						continue
					} else if why != "" {
						c.Bad(props, fname(c, fn), k, pos, "token taken from "+an.PathOf(op.Chan)+": "+why+" — the state is lost and the next holder blocks forever")
						continue
					}
				}
				if ok, why := borrowOp(c, fn); ok {
					c.OK(props, fname(c, fn), k, pos, "DR3: "+why)
					continue
				}
				if ok, why := joinRecv(fn, op); ok {
					c.OK(props, fname(c, fn), k, pos, "DR4: "+why)
					continue
				}
				c.Bad(props, fname(c, fn), k, pos, "bare receive on "+an.PathOf(op.Chan)+": not in a select with <-ctx.Done(), not a token, not a join on own goroutines — blocks forever when the sender is gone")
			case an.OpRange:
				k := key("range", shortChan(op.Chan))
				closed := false
				for _, o2 := range ops {
					if o2.Kind == an.OpClose && !o2.Deferred && an.PathOf(o2.Chan) == an.PathOf(op.Chan) && an.InstrDominates(o2.Instr, op.Instr) {
						closed = true
					}
				}
				c.Check(closed, props, fname(c, fn), k, pos, "DR6: range over a channel closed earlier in the same function", "range over a channel that is not closed before the loop: the loop never ends")
			case an.OpClose:
				// closing is not a blocking operation; CHILD-CLOSE / RECV-OWNER decide who may close
			}
		}
	}
}

func shortChan(v ssa.Value) string {
	if _, ok := an.IsCtxDone(v); ok {
		return "ctx.Done()"
	}
	p := an.PathOf(v)
	if i := strings.Index(p, "make:chan#"); i >= 0 {
		if mc := an.MakeChanOf(v); mc != nil {
			return "local chan " + strings.TrimPrefix(types.TypeString(mc.Type(), nil), "chan ")
		}
	}
	p = clip(p, 57)
	return p
}

// tokenAcquire: DR3 — "s := <-x.tok" with a deferred closure in the same
// function that sends the same value back on the same channel.
func tokenAcquire(fn *ssa.Function, op an.ChanOp) (bool, string) {
	chPath := an.PathOf(op.Chan)
	recvVal, _ := op.Instr.(ssa.Value)
	found := false
	an.Instrs(fn, func(in ssa.Instruction) {
		d, ok := in.(*ssa.Defer)
		if !ok {
			return
		}
		mc, ok := d.Call.Value.(*ssa.MakeClosure)
		if !ok {
			return
		}
		cl := mc.Fn.(*ssa.Function)
		an.Instrs(cl, func(in2 ssa.Instruction) {
			s, ok := in2.(*ssa.Send)
			if !ok {
				return
			}
			if an.PathOf(s.Chan) == chPath && an.LoadedValue(resolveFree(s.X)) == recvVal {
				if an.InstrDominates(op.Instr, d) {
					found = true
				}
			}
		})
	})
	if !found {
		return false, ""
	}
	if !tokenChannel(fn, op.Chan) {
		return false, ""
	}
	return true, "token acquired from " + chPath + " and released by a deferred send of the same value"
}

// borrowHelper: DR3 spelled as a helper —
//
//	func borrow(ch chan T) (T, func()) { v := <-ch; return v, func() { ch <- v } }
//
// g's only channel operation is a receive from a parameter; it returns the
// received value and a closure whose only channel operation puts that value
// back on the same channel. Returns the receive and the parameter's index.
func borrowHelper(g *ssa.Function) (*ssa.UnOp, int, bool) {
	if g == nil || len(g.Blocks) == 0 || g.Signature.Results().Len() != 2 || len(an.ReturnBlocks(g)) != 1 {
		return nil, 0, false
	}
	var recv *ssa.UnOp
	other := 0
	an.Instrs(g, func(in ssa.Instruction) {
		switch x := in.(type) {
		case *ssa.UnOp:
			if x.Op == token.ARROW {
				if recv != nil {
					other++
				}
				recv = x
			}
		case *ssa.Send, *ssa.Select, *ssa.Go:
			other++
		}
	})
	if recv == nil || other > 0 {
		return nil, 0, false
	}
	par, ok := an.LoadedValue(recv.X).(*ssa.Parameter)
	if !ok {
		return nil, 0, false
	}
	idx := -1
	for i, p := range g.Params {
		if p == par {
			idx = i
		}
	}
	rv := an.ReturnValues(an.LastInstr(an.ReturnBlocks(g)[0]).(*ssa.Return))
	if idx < 0 || an.LoadedValue(rv[0]) != ssa.Value(recv) {
		return nil, 0, false
	}
	mc, ok := rv[1].(*ssa.MakeClosure)
	if !ok {
		return nil, 0, false
	}
	cl := mc.Fn.(*ssa.Function)
	sends := 0
	good := false
	an.Instrs(cl, func(in ssa.Instruction) {
		switch x := in.(type) {
		case *ssa.Send:
			sends++
			good = an.LoadedValue(resolveFree(x.Chan)) == ssa.Value(par) && an.LoadedValue(resolveFree(x.X)) == ssa.Value(recv)
		case *ssa.Select, *ssa.Go:
			sends += 2
		case *ssa.UnOp:
			if x.Op == token.ARROW {
				sends += 2
			}
		}
	})
	if sends != 1 || !good {
		return nil, 0, false
	}
	return recv, idx, true
}

// borrowCall: call is `v, release := borrow(x.tok)`; returns the channel argument.
func borrowCall(call *ssa.Call) (ssa.Value, bool) {
	g := an.StaticCallee(&call.Call)
	if g == nil || !an.InModuleFn(g) {
		return nil, false
	}
	_, idx, ok := borrowHelper(g)
	if !ok || idx >= len(call.Call.Args) {
		return nil, false
	}
	return call.Call.Args[idx], true
}

// borrowOp: the receive inside a borrow helper / the send inside its release
// closure are token operations if every caller hands in a 1-slot token channel
// and defers the release straight away.
func borrowOp(c *core.Ctx, fn *ssa.Function) (bool, string) {
	g := fn
	if g.Parent() != nil {
		g = g.Parent()
	}
	if _, _, ok := borrowHelper(g); !ok {
		return false, ""
	}
	sites := 0
	for _, caller := range libFuncs(c) {
		for _, ci := range calls(caller) {
			sc := an.StaticCallee(ci.Common())
			if sc == nil || (sc != g && sc.Origin() != g && (g.Origin() == nil || sc.Origin() != g.Origin())) {
				continue
			}
			call, isCall := ci.(*ssa.Call)
			if !isCall {
				return false, ""
			}
			ch, ok := borrowCall(call)
			if !ok || !tokenChannel(caller, ch) {
				return false, ""
			}
			released := false
			an.Instrs(caller, func(in ssa.Instruction) {
				if d, isDefer := in.(*ssa.Defer); isDefer {
					if ex, isEx := d.Call.Value.(*ssa.Extract); isEx && ex.Tuple == ssa.Value(call) && ex.Index == 1 && an.InstrDominates(call, d) {
						released = true
					}
				}
			})
			if !released {
				return false, ""
			}
			sites++
		}
	}
	if sites == 0 {
		return false, ""
	}
	return true, fmt.Sprintf("token borrow helper: each of its %d callers passes a 1-slot token channel and defers the returned release", sites)
}

// resolveFree: follow a free variable to its binding.
func resolveFree(v ssa.Value) ssa.Value {
	for i := 0; i < 6; i++ {
		switch x := v.(type) {
		case *ssa.FreeVar:
			b := an.FreeVarBinding(x)
			if b == nil {
				return v
			}
			v = b
		case *ssa.UnOp:
			if x.Op == token.MUL {
				if a := an.ResolveAlloc(x.X); a != nil {
					if st := an.EffectiveStores(a); len(st) == 1 {
						v = st[0].Val
						continue
					}
				}
			}
			return v
		default:
			return v
		}
	}
	return v
}

// tokenChannel: the channel is a struct field that some function of the
// module fills with make(chan T, 1) (and immediately one token).
func tokenChannel(fn *ssa.Function, ch ssa.Value) bool {
	u, ok := ch.(*ssa.UnOp)
	if !ok {
		return false
	}
	fa, ok := u.X.(*ssa.FieldAddr)
	if !ok {
		return false
	}
	fname := fieldNameOf(fa)
	owner := derefNamed(fa.X.Type())
	if owner == nil {
		return false
	}
	ok = false
	pkg := fn.Pkg
	if pkg == nil && fn.Parent() != nil {
		pkg = fn.Parent().Pkg
	}
	if pkg == nil {
		return false
	}
	for _, m := range pkg.Members {
		f, isFn := m.(*ssa.Function)
		if !isFn {
			continue
		}
		an.Instrs(f, func(in ssa.Instruction) {
			a, isAlloc := in.(*ssa.Alloc)
			if !isAlloc || derefNamed(a.Type()) != owner {
				return
			}
			if v, has := an.StructLitFields(a)[fname]; has {
				if mc, isMC := v.(*ssa.MakeChan); isMC {
					if k, isK := an.ConstInt(mc.Size); isK && k == 1 {
						ok = true
					}
				}
			}
		})
	}
	return ok
}

func fieldNameOf(fa *ssa.FieldAddr) string {
	t := fa.X.Type()
	if p, ok := t.Underlying().(*types.Pointer); ok {
		t = p.Elem()
	}
	if s, ok := t.Underlying().(*types.Struct); ok {
		return an.FieldNameHook(s, fa.Field)
	}
	return ""
}

// tokenRelease: the send inside the deferred closure of a token holder.
func tokenRelease(fn *ssa.Function, op an.ChanOp) (bool, string) {
	parent := fn.Parent()
	if parent == nil {
		return false, ""
	}
	chPath := an.PathOf(op.Chan)
	s := op.Instr.(*ssa.Send)
	val := an.LoadedValue(resolveFree(s.X))
	u, ok := val.(*ssa.UnOp)
	if !ok || u.Op != token.ARROW || an.PathOf(u.X) != chPath || u.Parent() != parent {
		return false, ""
	}
	if !tokenChannel(parent, u.X) {
		return false, ""
	}
	return true, "token received from " + chPath + " in the enclosing function is put back (1-slot channel, never blocks)"
}

// joinRecv: DR4 — receive (in a deferred closure) from a channel made in the
// enclosing function, whose senders are goroutines started there, each
// sending exactly once, capacity >= senders >= receives.
func joinRecv(fn *ssa.Function, op an.ChanOp) (bool, string) {
	mc := an.MakeChanOf(op.Chan)
	if mc == nil {
		return false, ""
	}
	owner := mc.Parent()
	capK, ok := an.ConstInt(mc.Size)
	if !ok {
		return false, ""
	}
	// a completion channel: never sent on, closed by a `defer close(ch)` in the entry block of a closure
	// that owner starts with "go" outside loops — the receive returns when that goroutine does
	if len(sendsOn(mc)) == 0 {
		closers := 0
		for _, f := range an.WithAnon(owner) {
			if f == owner {
				continue
			}
			an.Instrs(f, func(in ssa.Instruction) {
				d, ok := in.(*ssa.Defer)
				if !ok {
					return
				}
				if b, isB := d.Call.Value.(*ssa.Builtin); !isB || b.Name() != "close" || len(d.Call.Args) != 1 || an.MakeChanOf(d.Call.Args[0]) != mc {
					return
				}
				if d.Block() != f.Blocks[0] {
					return
				}
				an.Instrs(owner, func(in2 ssa.Instruction) {
					if g, ok := in2.(*ssa.Go); ok {
						if cl, ok := g.Call.Value.(*ssa.MakeClosure); ok && cl.Fn == ssa.Value(f) && !an.InLoop(g.Block()) {
							closers++
						}
					}
				})
			})
		}
		if closers == 1 {
			return true, "join: receive from a channel that is only ever closed, by the deferred close of the one goroutine " + owner.Name() + " starts"
		}
		return false, ""
	}
	// senders: closures started with "go" in owner, each with exactly one send on mc outside loops
	senders := 0
	for _, s := range sendsOn(mc) {
		if s.Parent() == owner || an.InLoop(s.Block()) {
			return false, ""
		}
		started := false
		an.Instrs(owner, func(in ssa.Instruction) {
			if g, ok := in.(*ssa.Go); ok {
				if cl, ok := g.Call.Value.(*ssa.MakeClosure); ok && cl.Fn == ssa.Value(s.Parent()) && !an.InLoop(g.Block()) {
					started = true
				}
			}
		})
		if !started {
			return false, ""
		}
		// the send is the goroutine's last action on every path: it post-dominates the entry
		if !an.PostDominates(s.Parent(), s.Block(), s.Parent().Blocks[0]) {
			return false, ""
		}
		senders++
	}
	// receives on mc in fn
	recvs := 0
	for _, f := range an.WithAnon(owner) {
		an.Instrs(f, func(in ssa.Instruction) {
			if u, ok := in.(*ssa.UnOp); ok && u.Op == token.ARROW && an.MakeChanOf(u.X) == mc {
				recvs++
			}
		})
	}
	if senders == 0 || recvs > senders || int(capK) < senders {
		return false, ""
	}
	return true, fmt.Sprintf("join: %d receive(s) from a channel of capacity %d fed once by each of %d goroutine(s) started in %s", recvs, capK, senders, owner.Name())
}

// doneAfterCancel: DR5 — "<-ctx.Done()" after a synchronous call of a
// closure that defers the cancel function of that context.
func doneAfterCancel(fn *ssa.Function, op an.ChanOp) (bool, string) {
	ctxV, _ := an.IsCtxDone(op.Chan)
	// the context whose Done() is awaited: a load of variable A, or a value
	var ctxAlloc *ssa.Alloc
	if u, ok := ctxV.(*ssa.UnOp); ok && u.Op == token.MUL {
		ctxAlloc = an.ResolveAlloc(u.X)
	}
	// derivedFrom: value v is (a context derived from) result #0 of call w
	derivedFrom := func(w *ssa.Call) bool {
		isW0 := func(v ssa.Value) bool {
			e, ok := v.(*ssa.Extract)
			return ok && e.Index == 0 && e.Tuple == ssa.Value(w)
		}
		if ctxAlloc == nil {
			return isW0(ctxV)
		}
		var wStore *ssa.Store
		for _, st := range an.StoresTo(ctxAlloc) {
			if isW0(st.Val) {
				wStore = st
			}
		}
		if wStore == nil {
			return false
		}
		// later stores must wrap the variable itself (derived contexts)
		for _, st := range an.StoresTo(ctxAlloc) {
			if st == wStore || !an.InstrDominates(wStore, st) {
				continue
			}
			call := an.CallOf(st.Val)
			wraps := false
			if call != nil {
				for _, a := range call.Call.Args {
					if u, ok := a.(*ssa.UnOp); ok && u.Op == token.MUL && an.ResolveAlloc(u.X) == ctxAlloc {
						wraps = true
					}
				}
			}
			if !wraps {
				return false
			}
		}
		return true
	}
	ok := false
	an.Instrs(fn, func(in ssa.Instruction) {
		call, isCall := in.(*ssa.Call)
		if !isCall {
			return
		}
		mc, isMC := call.Call.Value.(*ssa.MakeClosure)
		if !isMC || !an.InstrDominates(in, op.Instr) {
			return
		}
		cl := mc.Fn.(*ssa.Function)
		an.Instrs(cl, func(in2 ssa.Instruction) {
			d, isDefer := in2.(*ssa.Defer)
			if !isDefer {
				return
			}
			cv := an.LoadedValue(resolveFree(d.Call.Value))
			e, isEx := cv.(*ssa.Extract)
			if !isEx || e.Index != 1 {
				return
			}
			w, isW := e.Tuple.(*ssa.Call)
			if !isW || !strings.HasPrefix(an.CalleeName(&w.Call), "context.With") {
				return
			}
			if derivedFrom(w) {
				ok = true
			}
		})
	})
	if ok {
		return true, "preceded by a synchronous closure call that defers this context's cancel: the channel is closed when the receive runs"
	}
	return false, "no completed cancel() of this context dominates the receive"
}

// ---- DR3, explicit form: `s := <-x.tok; …; x.tok <- s` with the put-back
// written out on every way to a return instead of deferred.

// explicitReleases: the sends in fn that put the value received by acq back on
// the channel it came from.
func explicitReleases(fn *ssa.Function, acq *ssa.UnOp) []*ssa.Send {
	var out []*ssa.Send
	chPath := an.PathOf(acq.X)
	an.Instrs(fn, func(in ssa.Instruction) {
		s, ok := in.(*ssa.Send)
		if !ok || an.PathOf(s.Chan) != chPath {
			return
		}
		if an.LoadedValue(s.X) == ssa.Value(acq) || s.X == ssa.Value(acq) {
			out = append(out, s)
		}
	})
	return out
}

// forwardHits walks forward from just after start; stop(in) ends a path as
// "hit"; a path that reaches a return (or, with toReturn false, just ends)
// without a hit is a miss. It reports whether some path misses, and whether
// some path hits.
func forwardScan(start ssa.Instruction, stop func(ssa.Instruction) bool) (miss, hit bool) {
	seen := map[*ssa.BasicBlock]bool{}
	var walk func(b *ssa.BasicBlock, from int)
	walk = func(b *ssa.BasicBlock, from int) {
		for i := from; i < len(b.Instrs); i++ {
			if stop(b.Instrs[i]) {
				hit = true
				return
			}
			if _, isRet := b.Instrs[i].(*ssa.Return); isRet {
				miss = true
				return
			}
		}
		for i, sb := range b.Succs {
			if an.DeadEdge(b, i) || seen[sb] {
				continue
			}
			seen[sb] = true
			walk(sb, 0)
		}
	}
	b := start.Block()
	idx := 0
	for i, in := range b.Instrs {
		if in == start {
			idx = i + 1
		}
	}
	walk(b, idx)
	return
}

// tokenExplicit: acq's token is put back exactly once on every path to a return.
func tokenExplicit(fn *ssa.Function, acq *ssa.UnOp) (bool, string) {
	rels := explicitReleases(fn, acq)
	if len(rels) == 0 {
		return false, ""
	}
	if !tokenChannel(fn, acq.X) {
		return false, ""
	}
	isRel := func(in ssa.Instruction) bool {
		for _, r := range rels {
			if in == ssa.Instruction(r) {
				return true
			}
		}
		return false
	}
	if miss, _ := forwardScan(acq, isRel); miss {
		return false, "a return is reachable from the acquire without the token being put back"
	}
	for _, r := range rels {
		// a second put-back (without a new acquire in between) would block on the full 1-slot channel
		again := false
		forwardScan(r, func(in ssa.Instruction) bool {
			if in == ssa.Instruction(acq) {
				return true
			}
			if isRel(in) {
				again = true
				return true
			}
			return false
		})
		if again {
			return false, "the token can be put back twice"
		}
	}
	return true, fmt.Sprintf("token acquired from %s and put back exactly once on every path to a return (%d explicit release(s))", an.PathOf(acq.X), len(rels))
}

// sessionReach: the module functions a session can run — everything the (CHA) call graph reaches
// from the ServeNostr… / ServeHTTP methods, closures made on the way included.
var sessionReachCache = map[*core.Program]map[*ssa.Function]bool{}

func sessionReach(c *core.Ctx) map[*ssa.Function]bool {
	P := c.P
	if r, ok := sessionReachCache[P]; ok {
		return r
	}
	cg := P.CallGraph(false)
	seen := map[*ssa.Function]bool{}
	var visit func(f *ssa.Function)
	visit = func(f *ssa.Function) {
		if f == nil || seen[f] || !P.InModule(f) {
			return
		}
		seen[f] = true
		// static calls and interface calls follow the graph; a call of a function value goes to the
		// function values in view (CHA's "every function of that signature" would reach main itself)
		if n := cg.Nodes[f]; n != nil {
			for _, e := range n.Out {
				if e.Site == nil || e.Site.Common().IsInvoke() || e.Site.Common().StaticCallee() != nil {
					visit(e.Callee.Func)
				}
			}
		}
		an.Instrs(f, func(in ssa.Instruction) {
			for _, op := range in.Operands(nil) {
				if op == nil || *op == nil {
					continue
				}
				switch x := (*op).(type) {
				case *ssa.Function:
					visit(x)
				case *ssa.MakeClosure:
					visit(x.Fn.(*ssa.Function))
				}
			}
			if mc, ok := in.(*ssa.MakeClosure); ok {
				visit(mc.Fn.(*ssa.Function))
			}
		})
	}
	for _, fn := range P.ModFuncs {
		if fn.Parent() == nil && fn.Signature.Recv() != nil && (strings.HasPrefix(fn.Name(), "ServeNostr") || fn.Name() == "ServeHTTP") {
			visit(fn)
		}
	}
	sessionReachCache[P] = seen
	return seen
}

// foreignDone: the context whose Done() releases a blocking select in session code is read from a
// field of a longer-lived object — one that (also) receives its context outside any session, where
// it is built — instead of being the operation's own: a session waiting here is released when that
// object's context ends, not when the session's does. "" when the context is the caller's (a
// parameter, a captured variable, something derived from those) or the holder is built per session.
func foreignDone(c *core.Ctx, fn *ssa.Function, ctxV ssa.Value) string {
	var fa *ssa.FieldAddr
	v := ctxV
	for i := 0; i < 8 && fa == nil; i++ {
		switch x := v.(type) {
		case *ssa.UnOp:
			if x.Op != token.MUL {
				return ""
			}
			if f, ok := x.X.(*ssa.FieldAddr); ok {
				fa = f
			} else {
				return ""
			}
		case *ssa.Extract:
			call, ok := x.Tuple.(*ssa.Call)
			if !ok || !strings.HasPrefix(an.CalleeName(&call.Call), "context.With") || len(call.Call.Args) == 0 {
				return ""
			}
			v = call.Call.Args[0]
		case *ssa.Call:
			if !strings.HasPrefix(an.CalleeName(&x.Call), "context.With") || len(x.Call.Args) == 0 {
				return ""
			}
			v = x.Call.Args[0]
		default:
			return ""
		}
	}
	if fa == nil {
		return ""
	}
	reach := sessionReach(c)
	top := fn
	for top.Parent() != nil {
		top = top.Parent()
	}
	if !reach[fn] && !reach[top] {
		return ""
	}
	st := fieldStructOf(fa)
	if st == nil {
		return ""
	}
	fv := st.Field(fa.Field)
	var outside []string
	for _, g := range c.P.ModFuncs {
		an.Instrs(g, func(in ssa.Instruction) {
			s, ok := in.(*ssa.Store)
			if !ok {
				return
			}
			fa2, ok := s.Addr.(*ssa.FieldAddr)
			if !ok {
				return
			}
			if st2 := fieldStructOf(fa2); st2 == nil || st2.Field(fa2.Field) != fv {
				return
			}
			gt := g
			for gt.Parent() != nil {
				gt = gt.Parent()
			}
			if !reach[g] && !reach[gt] {
				outside = append(outside, fname(c, g)+" ("+c.P.Pos(s.Pos())+")")
			}
		})
	}
	if len(outside) == 0 {
		return ""
	}
	sort.Strings(outside)
	return "the select is released by the Done() of " + an.PathOf(ctxV) + ", a context the holder was given where it is built, outside any session (" + strings.Join(outside, ", ") + "), not by the session's own: a session blocked here stays blocked after its own context has ended"
}

func fieldStructOf(fa *ssa.FieldAddr) *types.Struct {
	t := fa.X.Type()
	if pt, ok := t.Underlying().(*types.Pointer); ok {
		t = pt.Elem()
	}
	st, ok := t.Underlying().(*types.Struct)
	if !ok || fa.Field >= st.NumFields() {
		return nil
	}
	return st
}
