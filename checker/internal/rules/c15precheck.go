package rules

import (
	"fmt"
	"go/token"
	"os"
	"sort"
	"strings"

	"golang.org/x/tools/go/ssa"

	"mocverif/internal/an"
	"mocverif/internal/core"
)

// A read-locked pre-check in front of the write-locked operation (double-checked locking):
//
//	if !c.acceptable(key, ev) { return false }   // RLock inside, nothing written
//	c.mu.Lock(); defer c.mu.Unlock()
//	… the whole operation, with every check made again …
//
// is one operation with two critical sections, and still linearizable when the first section
// only *rejects*, and rejects only what the second would reject in the same state: a rejected
// call takes effect at the read section (where the full operation would have changed nothing
// and answered the same), every other call at the write section, which does not rely on
// anything the first one saw. That is decided from the code's shape:
//
//	(1) the first acquisition is a call of a private method of the same receiver with one bool
//	    result that takes the lock only in shared mode and writes no guarded field;
//	(2) its result is used only as the condition of a branch one side of which returns a
//	    constant at once (touching nothing), the other side leading to the second acquisition;
//	(3) for every way the method can give the rejecting answer there is a way through the
//	    second section to a return of the same constant whose conditions (outside the
//	    pre-check's own answer) are all among the conditions of that way — compared as access
//	    paths in the operation's terms, comparisons normalised (`!(a < b)` is `b <= a`).
//
// (3) is what separates a harmless hint from a check that was *moved* under the read lock:
// if the write section no longer tests what the pre-check tested, the pre-check's rejection
// has no counterpart there and the pair stays reported.
type preCheck struct {
	call   *ssa.Call
	reject *ssa.BasicBlock
	why    string // empty when accepted
}

var preCheckMemo = map[*ssa.Function]map[ssa.Instruction]*preCheck{}

func condKey(cd an.Cond) string {
	v, pol := cd.V, cd.True
	if b, ok := v.(*ssa.BinOp); ok {
		x, y := cd.Path(b.X), cd.Path(b.Y)
		op := b.Op
		neg := map[token.Token]token.Token{token.LSS: token.GEQ, token.GEQ: token.LSS, token.GTR: token.LEQ, token.LEQ: token.GTR, token.EQL: token.NEQ, token.NEQ: token.EQL}
		if _, isCmp := neg[op]; isCmp {
			if !pol {
				op = neg[op]
			}
			switch op {
			case token.GTR:
				x, y, op = y, x, token.LSS
			case token.GEQ:
				x, y, op = y, x, token.LEQ
			case token.EQL, token.NEQ:
				if y < x {
					x, y = y, x
				}
			}
			return x + " " + op.String() + " " + y
		}
	}
	if pol {
		return cd.Path(v) + " = true"
	}
	return cd.Path(v) + " = false"
}

// preCheckAt: is the acquisition point a (a call in fn) an accepted pre-check in front of b?
func preCheckAt(c *core.Ctx, fn *ssa.Function, a, b ssa.Instruction) *preCheck {
	if m := preCheckMemo[fn]; m != nil {
		if pc, ok := m[a]; ok {
			return pc
		}
	} else {
		preCheckMemo[fn] = map[ssa.Instruction]*preCheck{}
	}
	pc := preCheckDecide(c, fn, a, b)
	preCheckMemo[fn][a] = pc
	return pc
}

func preCheckDecide(c *core.Ctx, fn *ssa.Function, a, b ssa.Instruction) *preCheck {
	call, ok := a.(*ssa.Call)
	if !ok {
		return nil
	}
	inline := false
	if an.CalleeName(&call.Call) == "(*sync.RWMutex).RLock" {
		// the section written out in the operation itself: `c.mu.RLock(); stale := c.isStale(key, ev);
		// c.mu.RUnlock(); if stale { return false }` — one call of a private bool method between
		// the two, nothing else
		var only *ssa.Call
		closed := false
		started := false
		for _, in := range a.Block().Instrs {
			if in == a {
				started = true
				continue
			}
			if !started || closed {
				continue
			}
			switch x := in.(type) {
			case *ssa.FieldAddr, *ssa.UnOp, *ssa.DebugRef, *ssa.Store:
				if st, isSt := x.(*ssa.Store); isSt {
					if _, local := st.Addr.(*ssa.Alloc); !local {
						return nil
					}
				}
			case *ssa.Call:
				if an.CalleeName(&x.Call) == "(*sync.RWMutex).RUnlock" {
					closed = true
					continue
				}
				if only != nil {
					return nil
				}
				only = x
			default:
				return nil
			}
		}
		if !closed || only == nil {
			return nil
		}
		call, inline = only, true
	}
	P := an.StaticCallee(&call.Call)
	if P == nil || !an.PrivateHelper(P) || P.Signature.Recv() == nil || P.Signature.Results().Len() != 1 || len(call.Call.Args) == 0 || an.PathOf(call.Call.Args[0]) != "recv" {
		return nil
	}
	if pc := repeatedDecision(c, fn, call, P, b, inline); pc != nil {
		return pc
	}
	if P.Signature.Results().At(0).Type().String() != "bool" {
		return nil
	}
	pc := &preCheck{call: call}
	// (1) shared mode only, no guarded write
	for _, ap := range acquisitionPoints(c, P, 1) {
		ci, isCall := ap.(ssa.CallInstruction)
		if inline || !isCall || an.CalleeName(ci.Common()) != "(*sync.RWMutex).RLock" {
			pc.why = "the first section takes the lock exclusively or through further methods"
			return pc
		}
	}
	for _, g := range an.RefClosure([]*ssa.Function{P}, func(f *ssa.Function) bool {
		return c.P.InModule(f) && (f == P || f.Parent() != nil || an.PrivateHelper(f))
	}) {
		for _, acc := range guardedAccesses(c, g) {
			if acc.write && !freshBase(acc.fa) {
				pc.why = "the first section writes guarded state (" + acc.field + " in " + fname(c, g) + ")"
				return pc
			}
		}
	}
	// (2) the answer only chooses between an immediate constant return and going on
	var iff *ssa.If
	rejectPol := false
	if call.Referrers() == nil {
		return nil
	}
	for _, r := range *call.Referrers() {
		switch x := r.(type) {
		case *ssa.DebugRef:
		case *ssa.If:
			if iff != nil {
				pc.why = "the pre-check's answer is used more than once"
				return pc
			}
			iff = x
		case *ssa.UnOp:
			if x.Op != token.NOT || x.Referrers() == nil || len(*x.Referrers()) != 1 {
				pc.why = "the pre-check's answer is used for more than a branch"
				return pc
			}
			i2, isIf := (*x.Referrers())[0].(*ssa.If)
			if !isIf || iff != nil {
				pc.why = "the pre-check's answer is used for more than a branch"
				return pc
			}
			iff = i2
		default:
			pc.why = "the pre-check's answer is used for more than a branch"
			return pc
		}
	}
	if iff == nil || len(iff.Block().Succs) != 2 {
		pc.why = "the pre-check's answer does not decide a branch"
		return pc
	}
	cond := an.NormCond(an.Cond{V: iff.Cond, True: true})
	for i, sb := range iff.Block().Succs {
		ret, isRet := an.LastInstr(sb).(*ssa.Return)
		if !isRet || an.Reachable(sb, b.Block(), nil, nil) && sb != b.Block() {
			continue
		}
		rv := an.ReturnValues(ret)
		void := fn.Signature.Results().Len() == 0
		if !void && (len(rv) != 1 || !(isConstBool(rv[0], true) || isConstBool(rv[0], false))) {
			continue
		}
		clean := true
		for _, in := range sb.Instrs {
			switch in.(type) {
			case *ssa.Return, *ssa.DebugRef, *ssa.RunDefers, *ssa.Store, *ssa.UnOp:
			default:
				clean = false
			}
		}
		if !clean {
			continue
		}
		pc.reject = sb
		// truth of the helper's answer on this edge
		edgeTrue := i == 0
		rejectPol = edgeTrue == cond.True
	}
	if pc.reject == nil {
		pc.why = "no side of the branch on the pre-check's answer returns a constant at once"
		return pc
	}
	// (3) every rejecting way has a counterpart in the second section
	pre, ok1 := an.ResultPathsDeepVia(P, 0, rejectPol, call)
	var all []an.CondPath
	ok2 := true
	if fn.Signature.Results().Len() == 0 {
		// an operation without a result "rejects" by returning without having changed anything:
		// the counterparts are the ways through the second section that reach a return with no
		// effect after the acquisition (no store, map update, delete, send or call)
		for _, rb := range an.ReturnBlocks(fn) {
			if rb == pc.reject {
				continue
			}
			cps, okc := an.ReachCondPaths(fn, rb)
			if !okc {
				ok2 = false
				break
			}
			for _, cp := range cps {
				if cp.Path.Contains(b.Block()) && !effectAfter(cp.Path, b) {
					all = append(all, cp)
				}
			}
		}
	} else {
		rejRet := an.ReturnValues(an.LastInstr(pc.reject).(*ssa.Return))[0]
		all, ok2 = an.ResultPathsDeep(fn, 0, isConstBool(rejRet, true))
	}
	if !ok1 || !ok2 || len(pre) == 0 {
		pc.why = "the paths of the pre-check / of the operation could not be enumerated"
		return pc
	}
	prefix := map[string]bool{}
	if conds, okp := an.ReachConds(fn, call.Block()); okp && len(conds) > 0 {
		// what holds on every way to the pre-check
		count := map[string]int{}
		for _, cs := range conds {
			seen := map[string]bool{}
			for _, cd := range cs {
				k := condKey(an.NormCond(cd))
				if !seen[k] {
					seen[k] = true
					count[k]++
				}
			}
		}
		for k, n := range count {
			if n == len(conds) {
				prefix[k] = true
			}
		}
	}
	var mains [][]string
	for _, cp := range all {
		if !cp.Visits(b.Block()) {
			continue
		}
		var ks []string
		spliced := map[*ssa.Call]bool{}
		for _, cd := range cp.Conds {
			for _, ch := range cd.Chain {
				spliced[ch] = true
			}
		}
		for _, cd := range cp.Conds {
			if len(cd.Chain) > 0 && cd.Chain[0] == call {
				continue // the pre-check's own (accepting) answer
			}
			if cd.V == ssa.Value(call) || an.Unwrap(cd.V) == ssa.Value(call) {
				continue
			}
			if helperVerdict(cd.V, spliced) {
				continue // the answer of a helper whose own conditions are spliced in
			}
			ks = append(ks, condKey(cd))
		}
		mains = append(mains, ks)
	}
	if len(mains) == 0 {
		pc.why = "the second section never returns the constant the pre-check's rejection returns"
		return pc
	}
	mains = mergeCaseSplits(mains)
	for _, rp := range pre {
		have := map[string]bool{}
		for k := range prefix {
			have[k] = true
		}
		var hs []string
		for _, cd := range rp.Conds {
			k := condKey(cd)
			have[k] = true
			hs = append(hs, k)
		}
		matched := false
		for _, ks := range mains {
			sub := true
			for _, k := range ks {
				if !have[k] {
					sub = false
					break
				}
			}
			if sub {
				matched = true
				break
			}
		}
		if !matched && os.Getenv("MOCVERIF_DEBUG_PRECHECK") != "" {
			for _, ks := range mains {
				var missing []string
				for _, k := range ks {
					if !have[k] {
						missing = append(missing, k)
					}
				}
				fmt.Fprintf(os.Stderr, "precheck: main path lacks in pre: %v\n", missing)
			}
		}
		if !matched {
			sort.Strings(hs)
			pc.why = "the pre-check rejects under [" + strings.Join(hs, " ∧ ") + "], for which the write-locked section has no rejecting path of its own: that test was moved under the read lock, not repeated"
			return pc
		}
	}
	return pc
}

// negKey: the key of the opposite outcome of a condition key (condKey), "" if not recognised
func negKey(k string) string {
	for _, pr := range [][2]string{{" == ", " != "}, {" != ", " == "}, {" = true", " = false"}, {" = false", " = true"}} {
		if strings.HasSuffix(pr[0], "e") { // "= true" / "= false" are suffixes
			if strings.HasSuffix(k, pr[0]) {
				return strings.TrimSuffix(k, pr[0]) + pr[1]
			}
			continue
		}
		if i := strings.Index(k, pr[0]); i >= 0 && strings.Count(k, pr[0]) == 1 {
			return k[:i] + pr[1] + k[i+len(pr[0]):]
		}
	}
	if i := strings.Index(k, " < "); i >= 0 && strings.Count(k, " < ") == 1 {
		return k[i+3:] + " <= " + k[:i]
	}
	if i := strings.Index(k, " <= "); i >= 0 && strings.Count(k, " <= ") == 1 {
		return k[i+4:] + " < " + k[:i]
	}
	return ""
}

// mergeCaseSplits: two ways that differ only in the outcome of one test (`if event.Kind == 5 {…}`
// passed on the way, either side leading on) are one way without that test
func mergeCaseSplits(mains [][]string) [][]string {
	norm := func(ks []string) []string {
		set := map[string]bool{}
		for _, k := range ks {
			set[k] = true
		}
		var out []string
		for k := range set {
			out = append(out, k)
		}
		sort.Strings(out)
		return out
	}
	for i := range mains {
		mains[i] = norm(mains[i])
	}
	for round := 0; round < 16; round++ {
		merged := false
		have := map[string]bool{}
		for _, ks := range mains {
			have[strings.Join(ks, "\x00")] = true
		}
		var next [][]string
		for _, ks := range mains {
			next = append(next, ks)
			for i, k := range ks {
				nk := negKey(k)
				if nk == "" {
					continue
				}
				sib := append(append([]string(nil), ks[:i]...), ks[i+1:]...)
				sibWith := norm(append(append([]string(nil), sib...), nk))
				if have[strings.Join(sibWith, "\x00")] {
					red := norm(sib)
					if !have[strings.Join(red, "\x00")] {
						have[strings.Join(red, "\x00")] = true
						next = append(next, red)
						merged = true
					}
				}
			}
		}
		mains = next
		if !merged {
			break
		}
	}
	return mains
}

// effectAfter: on path p something is changed after instruction b (stores outside locals, map
// updates, deletes, sends, calls other than releasing the lock)
func effectAfter(p an.Path, b ssa.Instruction) bool {
	after := false
	for _, blk := range p {
		for _, in := range blk.Instrs {
			if in == b {
				after = true
				continue
			}
			if !after {
				continue
			}
			switch x := in.(type) {
			case *ssa.MapUpdate, *ssa.Send, *ssa.Go:
				return true
			case *ssa.Store:
				if _, local := x.Addr.(*ssa.Alloc); !local {
					return true
				}
			case *ssa.Call:
				if bi, ok := x.Call.Value.(*ssa.Builtin); ok {
					if bi.Name() == "delete" || bi.Name() == "close" || bi.Name() == "clear" || bi.Name() == "copy" {
						return true
					}
					continue
				}
				switch an.CalleeName(&x.Call) {
				case "(*sync.RWMutex).Unlock", "(*sync.Mutex).Unlock", "(*sync.RWMutex).RUnlock":
					continue
				}
				return true
			}
		}
	}
	return false
}

// acceptedRejectBlocks: the blocks of fn in which an accepted pre-check's rejection returns.
func acceptedRejectBlocks(c *core.Ctx, fn *ssa.Function) map[*ssa.BasicBlock]bool {
	out := map[*ssa.BasicBlock]bool{}
	pts := acquisitionPoints(c, fn, 0)
	for _, a := range pts {
		for _, b := range pts {
			if a == b || !(before(a, b) || (a.Block() != b.Block() && an.Reachable(a.Block(), b.Block(), nil, nil))) {
				continue
			}
			if pc := preCheckAt(c, fn, a, b); pc != nil && pc.why == "" && pc.reject != nil {
				out[pc.reject] = true
			}
		}
	}
	return out
}

// helperVerdict: v is the bool answer of a private helper (whose conditions ResultPathsDeep
// splices in), directly or through a result variable that only ever holds such answers and
// constants (`if added = c.add(…); !added { return }` with a deferred unlock).
func helperVerdict(v ssa.Value, spliced map[*ssa.Call]bool) bool {
	isHelperCall := func(x ssa.Value) bool {
		call, ok := x.(*ssa.Call)
		if !ok || !spliced[call] {
			return false // not a call, or its conditions are not part of the path
		}
		h := an.StaticCallee(&call.Call)
		return h != nil && an.PrivateHelper(h) && h.Signature.Results().Len() == 1
	}
	if isHelperCall(v) {
		return true
	}
	u, ok := v.(*ssa.UnOp)
	if !ok || u.Op != token.MUL {
		return false
	}
	a, ok := u.X.(*ssa.Alloc)
	if !ok {
		return false
	}
	n := 0
	for _, st := range an.StoresTo(a) {
		if _, isConst := st.Val.(*ssa.Const); isConst {
			continue
		}
		if !isHelperCall(st.Val) {
			return false
		}
		n++
	}
	return n > 0
}

// repeatedDecision: the pre-check and the write-locked section ask the SAME private decision function
// with the same arguments — `if err := c.refusalNeedLock(k, ev); err != nil { return err }; c.mu.Lock();
// …; if err := c.refusal(k, ev); err != nil { return err }` with refusalNeedLock = RLock + refusal — and
// both turn away on its answer before anything is changed. Whatever that function decides (a bool or an
// error, nil = go on), the decision that allows the operation is taken again in the critical section that
// performs it; the first one only rejects what the second would reject in the same state. nil when the
// code does not have that shape (the condition-by-condition comparison decides then).
func repeatedDecision(c *core.Ctx, fn *ssa.Function, call *ssa.Call, P *ssa.Function, b ssa.Instruction, inline bool) *preCheck {
	// the decision function: P itself when the section is written out, else the one module call P makes
	// under its read lock, handed P's own parameters, its answer handed back unchanged
	F, fArgs := P, call.Call.Args
	if !inline {
		var inner *ssa.Call
		for _, ci := range calls(P) {
			x, isCall := ci.(*ssa.Call)
			n := an.CalleeName(ci.Common())
			if strings.HasPrefix(n, "(*sync.") {
				if n != "(*sync.RWMutex).RLock" && n != "(*sync.RWMutex).RUnlock" {
					return nil
				}
				continue
			}
			if !isCall || inner != nil {
				return nil
			}
			inner = x
		}
		if inner == nil {
			return nil
		}
		g := an.StaticCallee(&inner.Call)
		if g == nil || !an.PrivateHelper(g) || len(inner.Call.Args) != len(P.Params) {
			return nil
		}
		for i, a := range inner.Call.Args {
			if a != ssa.Value(P.Params[i]) {
				return nil
			}
		}
		for _, rb := range an.ReturnBlocks(P) {
			rv := an.ReturnValues(an.LastInstr(rb).(*ssa.Return))
			if len(rv) != 1 || (rv[0] != ssa.Value(inner) && blockLocal(rv[0]) != ssa.Value(inner)) {
				return nil
			}
		}
		F = g
	}
	// how an answer turns the operation away: the branch on it whose one side returns at once
	turnsAway := func(x *ssa.Call) (*ssa.BasicBlock, bool) {
		if x.Referrers() == nil {
			return nil, false
		}
		for _, r := range *x.Referrers() {
			var iff *ssa.If
			switch y := r.(type) {
			case *ssa.If:
				iff = y
			case *ssa.BinOp:
				if an.IsNilConst(y.Y) && (y.Op == token.NEQ || y.Op == token.EQL) && y.Referrers() != nil {
					for _, r2 := range *y.Referrers() {
						if i2, isIf := r2.(*ssa.If); isIf {
							iff = i2
						}
					}
				}
			case *ssa.UnOp:
				if y.Op == token.NOT && y.Referrers() != nil {
					for _, r2 := range *y.Referrers() {
						if i2, isIf := r2.(*ssa.If); isIf {
							iff = i2
						}
					}
				}
			}
			if iff == nil {
				continue
			}
			for _, sb := range iff.Block().Succs {
				if _, isRet := an.LastInstr(sb).(*ssa.Return); isRet && len(sb.Instrs) <= 4 {
					return sb, true
				}
			}
		}
		return nil, false
	}
	rej, ok := turnsAway(call)
	if !ok {
		return nil
	}
	// the same question asked again behind b, before anything is changed
	var second *ssa.Call
	after := false
	for _, in := range b.Block().Instrs {
		if in == b {
			after = true
			continue
		}
		if !after {
			continue
		}
		switch x := in.(type) {
		case *ssa.Call:
			if g := an.StaticCallee(&x.Call); g != nil && sameFunc(g, F) && second == nil {
				second = x
				continue
			}
			if second == nil {
				return nil // something else happens first
			}
		case *ssa.Store, *ssa.MapUpdate, *ssa.Send:
			if second == nil {
				if st, isSt := x.(*ssa.Store); isSt {
					if _, local := st.Addr.(*ssa.Alloc); local {
						continue
					}
				}
				return nil
			}
		}
	}
	if second == nil || len(second.Call.Args) != len(fArgs) {
		return nil
	}
	for i := range fArgs {
		if an.PathOf(second.Call.Args[i]) != an.PathOf(fArgs[i]) {
			return nil
		}
	}
	if _, ok2 := turnsAway(second); !ok2 {
		return nil
	}
	pc := &preCheck{call: call, reject: rej}
	// the first section: shared mode only, no guarded write
	for _, g := range an.RefClosure([]*ssa.Function{P}, func(f *ssa.Function) bool {
		return c.P.InModule(f) && (f == P || f.Parent() != nil || an.PrivateHelper(f))
	}) {
		for _, ci := range calls(g) {
			switch an.CalleeName(ci.Common()) {
			case "(*sync.RWMutex).Lock", "(*sync.Mutex).Lock":
				pc.why = "the first section takes the lock exclusively"
				return pc
			}
		}
		for _, acc := range guardedAccesses(c, g) {
			if acc.write && !freshBase(acc.fa) {
				pc.why = "the first section writes guarded state (" + acc.field + " in " + fname(c, g) + ")"
				return pc
			}
		}
	}
	return pc
}
